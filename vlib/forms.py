"""tools/forms — enumerate every operator-trait impl of dashu-int from the MACRO-EXPANDED crate
(`cargo +nightly rustc -- -Zunpretty=expanded`, offline) and generate the harness table
`harness/src/gen/forms_int.rs` that calls each of them (DESIGN §8 C15: "all call forms" is the set
the compiler sees, not a hand-kept list).

An impl `impl Trait<Rhs> for Lhs` over operand types built from {UBig, IBig, primitive ints} and
references to them becomes one closure evaluated by UFCS `<Lhs as Trait<Rhs>>::method(l, r)`.
Impls are grouped by *operation* = (trait family, kind of lhs, kind of rhs) where the kind of a
primitive operand is the kind of the big operand it is converted to (that is what the
`impl_*_with_primitive` macros do); all members of a group must return the same number or all
panic with the same kind.
"""
import json, os, re, subprocess, sys, tempfile, shutil

ROOT = os.path.dirname(os.path.dirname(os.path.abspath(__file__)))
OUT_RS = os.path.join(ROOT, "harness", "src", "gen", "forms_int.rs")
OUT_JSON = os.path.join(ROOT, "harness", "src", "gen", "forms_int.json")

PRIMS = ["u8", "u16", "u32", "u64", "u128", "usize", "i8", "i16", "i32", "i64", "i128", "isize"]
UNSIGNED = {"u8", "u16", "u32", "u64", "u128", "usize"}

# trait -> (family, method, shape)   shape: bin = returns value; assign = mutates lhs;
# assign_ret = mutates lhs and returns second value
TRAITS = {
    "Add": ("add", "add", "bin"), "Sub": ("sub", "sub", "bin"), "Mul": ("mul", "mul", "bin"),
    "Div": ("div", "div", "bin"), "Rem": ("rem", "rem", "bin"),
    "BitAnd": ("bitand", "bitand", "bin"), "BitOr": ("bitor", "bitor", "bin"), "BitXor": ("bitxor", "bitxor", "bin"),
    "Shl": ("shl", "shl", "bin"), "Shr": ("shr", "shr", "bin"),
    "AddAssign": ("add", "add_assign", "assign"), "SubAssign": ("sub", "sub_assign", "assign"),
    "MulAssign": ("mul", "mul_assign", "assign"), "DivAssign": ("div", "div_assign", "assign"),
    "RemAssign": ("rem", "rem_assign", "assign"),
    "BitAndAssign": ("bitand", "bitand_assign", "assign"), "BitOrAssign": ("bitor", "bitor_assign", "assign"),
    "BitXorAssign": ("bitxor", "bitxor_assign", "assign"),
    "ShlAssign": ("shl", "shl_assign", "assign"), "ShrAssign": ("shr", "shr_assign", "assign"),
    "DivRem": ("divrem", "div_rem", "bin"), "DivRemAssign": ("divrem", "div_rem_assign", "assign_ret"),
    "DivEuclid": ("diveuclid", "div_euclid", "bin"), "RemEuclid": ("remeuclid", "rem_euclid", "bin"),
    "DivRemEuclid": ("divremeuclid", "div_rem_euclid", "bin"),
    "Gcd": ("gcd", "gcd", "bin"), "ExtendedGcd": ("gcdext", "gcd_ext", "bin"),
}
TRAIT_PATH = {t: "core::ops::" + t for t in TRAITS}
for t in ("DivRem", "DivRemAssign", "DivEuclid", "RemEuclid", "DivRemEuclid", "Gcd", "ExtendedGcd"):
    TRAIT_PATH[t] = "dashu_base::" + t

HDR = re.compile(r"^\s*(?:\}\s*)?impl(?:<[^>]*>)?\s+([A-Za-z]+)<([^{]*?)>\s+for\s+([^{]+?)\s*\{")


def norm_type(t):
    t = re.sub(r"'[a-z_]+\s*", "", t.strip())
    t = t.replace("crate::", "").replace("$crate::", "")
    return re.sub(r"\s+", "", t)


def expand(repo=None, pkg="dashu-int"):
    repo = repo or os.environ.get("VERIF_REPO", "/repo")
    tdir = tempfile.mkdtemp(prefix="verif-expand-")
    try:
        env = dict(os.environ, CARGO_TARGET_DIR=os.path.join(tdir, "target"), CARGO_NET_OFFLINE="true")
        p = subprocess.run(["cargo", "+nightly", "rustc", "--offline", "-p", pkg, "--lib", "--", "-Zunpretty=expanded"],
                           cwd=repo, env=env, stdout=subprocess.PIPE, stderr=subprocess.PIPE, text=True, timeout=1200)
        if p.returncode != 0:
            raise RuntimeError("macro expansion failed: " + p.stderr[-2000:])
        return p.stdout
    finally:
        shutil.rmtree(tdir, ignore_errors=True)


def base_kind(t):
    b = t.lstrip("&")
    if b == "UBig":
        return "U"
    if b == "IBig":
        return "I"
    if b in PRIMS:
        return "P"
    return None


def collect(src):
    impls, skipped = [], {}
    seen = set()
    for line in src.splitlines():
        if "$" in line:
            continue
        m = HDR.match(line)
        if not m:
            continue
        trait, rhs, lhs = m.group(1), norm_type(m.group(2)), norm_type(m.group(3))
        if trait not in TRAITS:
            continue
        lk, rk = base_kind(lhs), base_kind(rhs)
        if lk is None or rk is None:
            skipped[trait] = skipped.get(trait, 0) + 1
            continue
        key = (trait, lhs, rhs)
        if key in seen:
            continue
        seen.add(key)
        impls.append(key)
    return impls, skipped


def group_of(trait, lhs, rhs):
    fam = TRAITS[trait][0]
    lk, rk = base_kind(lhs), base_kind(rhs)
    if fam in ("shl", "shr"):
        return (fam, lk, "S")            # shift amount is a machine integer, not converted
    if lk == "P":
        lk = rk
    if rk == "P":
        rk = lk
    return (fam, lk, rk)


def operand_expr(t, side):
    """expression producing an operand of type `t` from the case values (`a` for lhs, `b` for rhs);
    returns (guard-expression that must be Some, value expression)"""
    ref = t.startswith("&")
    b = t.lstrip("&")
    v = side
    if b == "UBig":
        return ("u%s.is_some()" % v, ("&u%s.clone().unwrap()" if ref else "u%s.clone().unwrap()") % v)
    if b == "IBig":
        return ("true", ("&i%s.clone()" if ref else "i%s.clone()") % v)
    return ("p%s_%s.is_some()" % (v, b), ("&p%s_%s.unwrap()" if ref else "p%s_%s.unwrap()") % (v, b))


def gen_rs(impls):
    groups = {}
    for trait, lhs, rhs in impls:
        groups.setdefault(group_of(trait, lhs, rhs), []).append((trait, lhs, rhs))
    out = ["// GENERATED by vlib/forms.py from the macro-expanded dashu-int — do not edit.",
           "// One closure per operator-trait impl; grouped by operation (family, lhs kind, rhs kind).",
           "#![allow(unused_mut, unused_variables, clippy::all)]",
           "use super::forms_rt::*;", "use dashu_int::{IBig, UBig};", ""]
    out.append("pub fn run_group(fam: &str, lk: &str, rk: &str, v: &Vals, out: &mut Vec<(String, String)>) -> bool {")
    out.append("    let Vals { ua, ub, ia, ib, .. } = v.clone();")
    for p in PRIMS:
        out.append("    let pa_%s = v.prim_a::<%s>(); let pb_%s = v.prim_b::<%s>();" % (p, p, p, p))
    out.append("    match (fam, lk, rk) {")
    for (fam, lk, rk), members in sorted(groups.items()):
        out.append('        ("%s", "%s", "%s") => {' % (fam, lk, rk))
        for trait, lhs, rhs in sorted(members):
            _, method, shape = TRAITS[trait]
            g1, e1 = operand_expr(lhs, "a")
            g2, e2 = operand_expr(rhs, "b")
            name = "%s<%s> for %s" % (trait, rhs, lhs)
            ufcs = "<%s as %s<%s>>::%s" % (lhs, TRAIT_PATH[trait], rhs, method)
            if shape == "bin":
                body = "show(&%s(%s, %s))" % (ufcs, e1, e2)
            elif shape == "assign":
                body = "{ let mut x = %s; %s(&mut x, %s); show(&x) }" % (e1, ufcs, e2)
            else:
                body = "{ let mut x = %s; let r = %s(&mut x, %s); show(&(x, r)) }" % (e1, ufcs, e2)
            out.append('            if %s && %s { out.push(("%s".to_string(), run1(|| %s))); }' % (g1, g2, name, body))
        out.append("            true")
        out.append("        }")
    out.append("        _ => false,")
    out.append("    }")
    out.append("}")
    out.append("")
    out.append("pub const GROUPS: &[(&str, &str, &str, usize)] = &[")
    for (fam, lk, rk), members in sorted(groups.items()):
        out.append('    ("%s", "%s", "%s", %d),' % (fam, lk, rk, len(members)))
    out.append("];")
    return "\n".join(out) + "\n", groups


def regenerate(repo=None):
    src = expand(repo)
    impls, skipped = collect(src)
    text, groups = gen_rs(impls)
    os.makedirs(os.path.dirname(OUT_RS), exist_ok=True)
    old = open(OUT_RS).read() if os.path.exists(OUT_RS) else None
    changed = old != text
    if changed:
        with open(OUT_RS + ".tmp", "w") as f:
            f.write(text)
        os.replace(OUT_RS + ".tmp", OUT_RS)
    info = {"impls_covered": len(impls), "groups": len(groups),
            "skipped_non_public_operand_types": skipped,
            "group_sizes": {"%s:%s:%s" % k: len(v) for k, v in sorted(groups.items())},
            "changed": changed}
    with open(OUT_JSON, "w") as f:
        json.dump(info, f, indent=1)
    return info


# ====================================================================================================
# dashu-ratio and dashu-float: the same mechanism (macro-expanded crate -> every operator-trait impl ->
# one UFCS call per impl, grouped by operation).  The header scan below is bracket-aware because these
# crates write multi-line generic headers (`impl<'l, 'r, R: Round, const B: Word> Add<&'r FBig<R, B>>
# for &'l FBig<R, B>`) and `impl Add for RBig` (Rhs = Self).
# ====================================================================================================

def parse_impls(src):
    """all `impl [<generics>] Trait[<Args>] for Type` headers of a source text: [(trait, args|None, type)]"""
    res = []
    for m in re.finditer(r'(?<![A-Za-z0-9_])impl(?![A-Za-z0-9_])', src):
        j = m.end()
        while j < len(src) and src[j].isspace():
            j += 1
        if j < len(src) and src[j] == '<':
            d = 0
            while j < len(src):
                c = src[j]
                if c == '<':
                    d += 1
                elif c == '>' and src[j - 1] != '-':
                    d -= 1
                    if d == 0:
                        j += 1
                        break
                j += 1
        k = src.find('{', j)
        if k < 0:
            continue
        hdr = re.sub(r'\s+', ' ', src[j:k]).strip()
        if ' for ' not in hdr or '$' in hdr or ';' in hdr or '!' in hdr:
            continue
        w = hdr.split(' where ')[0]
        tr, ty = w.split(' for ', 1)
        mm = re.match(r'(?:[A-Za-z_]+::)*([A-Za-z]+)(?:\s*<(.*)>)?$', tr.strip())
        if not mm:
            continue
        res.append((mm.group(1), mm.group(2), ty.strip()))
    return res


def norm2(t):
    t = re.sub(r"'[a-z_]+\s*", "", t.strip())
    t = re.sub(r"(?:[a-z_]+::)+", "", t)          # crate::rbig::RBig -> RBig
    return re.sub(r"\s+", "", t)


RTRAITS = {k: v for k, v in TRAITS.items() if k in (
    "Add", "Sub", "Mul", "Div", "Rem", "AddAssign", "SubAssign", "MulAssign", "DivAssign", "RemAssign",
    "DivEuclid", "RemEuclid", "DivRemEuclid", "Shl", "Shr", "ShlAssign", "ShrAssign")}


def collect2(src, kind_of):
    """[(trait, lhs, rhs)] with Rhs = Self resolved; only impls whose operand types `kind_of` knows"""
    impls, skipped, seen = [], {}, set()
    for trait, arg, ty in parse_impls(src):
        if trait not in RTRAITS:
            continue
        lhs = norm2(ty)
        rhs = norm2(arg) if arg else "Self"
        rhs = rhs.replace("Self", lhs.lstrip("&")) if "Self" in rhs else rhs
        if kind_of(lhs) is None or kind_of(rhs) is None:
            skipped["%s<%s> for %s" % (trait, rhs, lhs)] = 1
            continue
        key = (trait, lhs, rhs)
        if key not in seen:
            seen.add(key)
            impls.append(key)
    return impls, skipped


def _call(trait, lhs_t, rhs_t, e1, e2):
    _, method, shape = TRAITS[trait]
    ufcs = "<%s as %s<%s>>::%s" % (lhs_t, TRAIT_PATH[trait], rhs_t, method)
    if shape == "bin":
        return "show(&%s(%s, %s))" % (ufcs, e1, e2)
    if shape == "assign":
        return "{ let mut x = %s; %s(&mut x, %s); show(&x) }" % (e1, ufcs, e2)
    return "{ let mut x = %s; let r = %s(&mut x, %s); show(&(x, r)) }" % (e1, ufcs, e2)


# ---------------------------------------------------------------------------------------------------- ratio

def ratio_kind(t):
    b = t.lstrip("&")
    return {"RBig": "R", "Relaxed": "X", "UBig": "U", "IBig": "I"}.get(b)


def ratio_operand(t, side):
    ref = "&" if t.startswith("&") else ""
    b = t.lstrip("&")
    if b == "RBig":
        return ("true", "%sv.r%s.clone()" % (ref, side))
    if b == "Relaxed":
        return ("true", "%sv.x%s.clone()" % (ref, side))
    if b == "UBig":
        return ("v.u%s.is_some()" % side, "%sv.u%s.clone().unwrap()" % (ref, side))
    return ("v.i%s.is_some()" % side, "%sv.i%s.clone().unwrap()" % (ref, side))


def gen_ratio_rs(impls):
    groups = {}
    for trait, lhs, rhs in impls:
        ks = {ratio_kind(lhs), ratio_kind(rhs)}
        q = "X" if "X" in ks else "R"
        if "R" in ks and "X" in ks:
            continue
        groups.setdefault((TRAITS[trait][0], q), []).append((trait, lhs, rhs))
    out = ["// GENERATED by vlib/forms.py from the macro-expanded dashu-ratio — do not edit.",
           "#![allow(unused_mut, unused_variables, clippy::all)]",
           "use super::forms_rt2::*;", "use dashu_int::{IBig, UBig};", "use dashu_ratio::{RBig, Relaxed};", "",
           "pub fn run_group(fam: &str, q: &str, v: &RVals, out: &mut Vec<(String, String)>) -> bool {",
           "    match (fam, q) {"]
    for (fam, q), members in sorted(groups.items()):
        out.append('        ("%s", "%s") => {' % (fam, q))
        for trait, lhs, rhs in sorted(members):
            g1, e1 = ratio_operand(lhs, "a")
            g2, e2 = ratio_operand(rhs, "b")
            name = "%s<%s> for %s" % (trait, rhs, lhs)
            out.append('            if %s && %s { out.push(("%s".to_string(), run1(|| %s))); }'
                       % (g1, g2, name, _call(trait, lhs, rhs, e1, e2)))
        out.append("            true")
        out.append("        }")
    out += ["        _ => false,", "    }", "}", "", "pub const GROUPS: &[(&str, &str, usize)] = &["]
    for (fam, q), members in sorted(groups.items()):
        out.append('    ("%s", "%s", %d),' % (fam, q, len(members)))
    out.append("];")
    return "\n".join(out) + "\n", groups


# ---------------------------------------------------------------------------------------------------- float

FLOAT_INST = {"z2": "FBig<dashu_float::round::mode::Zero, 2>", "h10": "FBig<dashu_float::round::mode::HalfAway, 10>"}


def float_kind(t):
    b = t.lstrip("&")
    if b == "FBig<R,B>":
        return "F"
    if b in ("UBig", "IBig") or b in PRIMS:
        return "N"
    return None


def float_operand(t, side, inst):
    ref = "&" if t.startswith("&") else ""
    b = t.lstrip("&")
    if b == "FBig<R,B>":
        return ("true", "%sv.f%s.clone()" % (ref, side))
    if b == "UBig":
        return ("v.u%s.is_some()" % side, "%sv.u%s.clone().unwrap()" % (ref, side))
    if b == "IBig":
        return ("v.i%s.is_some()" % side, "%sv.i%s.clone().unwrap()" % (ref, side))
    return ("v.prim_%s::<%s>().is_some()" % (side, b), "%sv.prim_%s::<%s>().unwrap()" % (ref, side, b))


def gen_float_rs(impls):
    groups = {}
    for trait, lhs, rhs in impls:
        fam = TRAITS[trait][0]
        lk, rk = float_kind(lhs), float_kind(rhs)
        if fam in ("shl", "shr"):
            shape = "FS"
        else:
            shape = lk + rk
            if shape == "NN":
                continue
        groups.setdefault((fam, shape), []).append((trait, lhs, rhs))
    out = ["// GENERATED by vlib/forms.py from the macro-expanded dashu-float — do not edit.",
           "// Every impl is generic in <R: Round, const B: Word>; it is instantiated at two (mode, base) pairs.",
           "#![allow(unused_mut, unused_variables, clippy::all)]",
           "use super::forms_rt2::*;", "use dashu_int::{IBig, UBig};", "use dashu_float::FBig;", ""]
    for inst, ty in FLOAT_INST.items():
        out.append("pub fn run_group_%s(fam: &str, shape: &str, v: &FVals<%s>, out: &mut Vec<(String, String)>) -> bool {" % (inst, ty))
        out.append("    match (fam, shape) {")
        for (fam, shape), members in sorted(groups.items()):
            out.append('        ("%s", "%s") => {' % (fam, shape))
            if shape in ("FN", "NF"):
                # the reference form: the integer converted by FBig::from, then the FBig x FBig operator
                tr0 = {"add": "Add", "sub": "Sub", "mul": "Mul", "div": "Div", "rem": "Rem"}.get(fam)
                if tr0:
                    e1 = "v.fa.clone()" if shape == "FN" else "v.fa_int.clone().unwrap()"
                    e2 = "v.fb_int.clone().unwrap()" if shape == "FN" else "v.fb.clone()"
                    g = "v.fb_int.is_some()" if shape == "FN" else "v.fa_int.is_some()"
                    out.append('            if %s { out.push(("%s<FBig> for FBig on FBig::from(int)".to_string(), run1(|| %s))); }'
                               % (g, tr0, _call(tr0, ty, ty, e1, e2)))
            if shape == "FF" and fam in ("add", "sub", "mul", "div", "rem"):
                # the Context-method form at the precision the operator uses (Context::max of the operands);
                # an inherent method, so it is not found by the impl scan — added by name
                out.append('            out.push(("Context::%s(&Repr, &Repr) at Context::max".to_string(), run1(|| '
                           'show(&dashu_float::Context::max(v.fa.context(), v.fb.context()).%s(v.fa.repr(), v.fb.repr()).value()))));'
                           % (fam, fam))
            for trait, lhs, rhs in sorted(members):
                g1, e1 = float_operand(lhs, "a", inst)
                g2, e2 = float_operand(rhs, "b", inst)
                if fam in ("shl", "shr"):
                    g2, e2 = "true", "v.shift"
                name = "%s<%s> for %s" % (trait, rhs, lhs)
                l_t = lhs.replace("FBig<R,B>", ty)
                r_t = rhs.replace("FBig<R,B>", ty)
                out.append('            if %s && %s { out.push(("%s".to_string(), run1(|| %s))); }'
                           % (g1, g2, name, _call(trait, l_t, r_t, e1, e2)))
            out.append("            true")
            out.append("        }")
        out += ["        _ => false,", "    }", "}", ""]
    out.append("pub const GROUPS: &[(&str, &str, usize)] = &[")
    for (fam, shape), members in sorted(groups.items()):
        out.append('    ("%s", "%s", %d),' % (fam, shape, len(members)))
    out.append("];")
    return "\n".join(out) + "\n", groups


def _write(path, text):
    old = open(path).read() if os.path.exists(path) else None
    if old != text:
        with open(path + ".tmp", "w") as f:
            f.write(text)
        os.replace(path + ".tmp", path)
    return old != text


def regenerate_more(repo=None):
    """tables for dashu-ratio and dashu-float"""
    gdir = os.path.dirname(OUT_RS)
    info = {}
    src = expand(repo, "dashu-ratio")
    impls, skipped = collect2(src, ratio_kind)
    text, groups = gen_ratio_rs(impls)
    ch = _write(os.path.join(gdir, "forms_ratio.rs"), text)
    info["ratio"] = {"impls_covered": sum(len(v) for v in groups.values()), "groups": len(groups),
                     "skipped_other_operand_types": sorted(skipped), "changed": ch,
                     "group_sizes": {"%s:%s" % k: len(v) for k, v in sorted(groups.items())}}
    src = expand(repo, "dashu-float")
    impls, skipped = collect2(src, float_kind)
    text, groups = gen_float_rs(impls)
    ch = _write(os.path.join(gdir, "forms_float.rs"), text)
    info["float"] = {"impls_covered": sum(len(v) for v in groups.values()), "groups": len(groups),
                     "instantiations": FLOAT_INST, "skipped_other_operand_types": sorted(skipped), "changed": ch,
                     "group_sizes": {"%s:%s" % k: len(v) for k, v in sorted(groups.items())}}
    with open(os.path.join(gdir, "forms_more.json"), "w") as f:
        json.dump(info, f, indent=1)
    return info


if __name__ == "__main__":
    print(json.dumps(regenerate(), indent=1))
    print(json.dumps(regenerate_more(), indent=1))
