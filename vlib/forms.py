"""tools/forms — enumerate every operator-trait impl of dashu-int from the MACRO-EXPANDED crate
(`cargo +nightly rustc -- -Zunpretty=expanded`, offline) and generate the harness table
`harness/src/gen/forms_int.rs` that calls each of them (DESIGN §8 C15: "all call forms" is the set
the compiler sees, not a hand-kept list).

An impl `impl Trait<Rhs> for Lhs` over operand types built from {UBig, IBig, primitive ints} and
references to them becomes one closure evaluated by UFCS `<Lhs as Trait<Rhs>>::method(l, r)`.
Impls are grouped by *operation* = (trait family, kind of lhs, kind of rhs) where the kind of a
primitive operand is the kind of the big operand it is converted to (that is what the
`impl_*_with_primitive` macros do); all members of a group must return the same number or all
panic with the same kind.
"""
import json, os, re, subprocess, sys, tempfile, shutil

ROOT = os.path.dirname(os.path.dirname(os.path.abspath(__file__)))
OUT_RS = os.path.join(ROOT, "harness", "src", "gen", "forms_int.rs")
OUT_JSON = os.path.join(ROOT, "harness", "src", "gen", "forms_int.json")

PRIMS = ["u8", "u16", "u32", "u64", "u128", "usize", "i8", "i16", "i32", "i64", "i128", "isize"]
UNSIGNED = {"u8", "u16", "u32", "u64", "u128", "usize"}

# trait -> (family, method, shape)   shape: bin = returns value; assign = mutates lhs;
# assign_ret = mutates lhs and returns second value
TRAITS = {
    "Add": ("add", "add", "bin"), "Sub": ("sub", "sub", "bin"), "Mul": ("mul", "mul", "bin"),
    "Div": ("div", "div", "bin"), "Rem": ("rem", "rem", "bin"),
    "BitAnd": ("bitand", "bitand", "bin"), "BitOr": ("bitor", "bitor", "bin"), "BitXor": ("bitxor", "bitxor", "bin"),
    "Shl": ("shl", "shl", "bin"), "Shr": ("shr", "shr", "bin"),
    "AddAssign": ("add", "add_assign", "assign"), "SubAssign": ("sub", "sub_assign", "assign"),
    "MulAssign": ("mul", "mul_assign", "assign"), "DivAssign": ("div", "div_assign", "assign"),
    "RemAssign": ("rem", "rem_assign", "assign"),
    "BitAndAssign": ("bitand", "bitand_assign", "assign"), "BitOrAssign": ("bitor", "bitor_assign", "assign"),
    "BitXorAssign": ("bitxor", "bitxor_assign", "assign"),
    "ShlAssign": ("shl", "shl_assign", "assign"), "ShrAssign": ("shr", "shr_assign", "assign"),
    "DivRem": ("divrem", "div_rem", "bin"), "DivRemAssign": ("divrem", "div_rem_assign", "assign_ret"),
    "DivEuclid": ("diveuclid", "div_euclid", "bin"), "RemEuclid": ("remeuclid", "rem_euclid", "bin"),
    "DivRemEuclid": ("divremeuclid", "div_rem_euclid", "bin"),
    "Gcd": ("gcd", "gcd", "bin"), "ExtendedGcd": ("gcdext", "gcd_ext", "bin"),
}
TRAIT_PATH = {t: "core::ops::" + t for t in TRAITS}
for t in ("DivRem", "DivRemAssign", "DivEuclid", "RemEuclid", "DivRemEuclid", "Gcd", "ExtendedGcd"):
    TRAIT_PATH[t] = "dashu_base::" + t

HDR = re.compile(r"^\s*(?:\}\s*)?impl(?:<[^>]*>)?\s+([A-Za-z]+)<([^{]*?)>\s+for\s+([^{]+?)\s*\{")


def norm_type(t):
    t = re.sub(r"'[a-z_]+\s*", "", t.strip())
    t = t.replace("crate::", "").replace("$crate::", "")
    return re.sub(r"\s+", "", t)


def expand(repo=None, pkg="dashu-int"):
    repo = repo or os.environ.get("VERIF_REPO", "/repo")
    tdir = tempfile.mkdtemp(prefix="verif-expand-")
    try:
        env = dict(os.environ, CARGO_TARGET_DIR=os.path.join(tdir, "target"), CARGO_NET_OFFLINE="true")
        p = subprocess.run(["cargo", "+nightly", "rustc", "--offline", "-p", pkg, "--lib", "--", "-Zunpretty=expanded"],
                           cwd=repo, env=env, stdout=subprocess.PIPE, stderr=subprocess.PIPE, text=True, timeout=1200)
        if p.returncode != 0:
            raise RuntimeError("macro expansion failed: " + p.stderr[-2000:])
        return p.stdout
    finally:
        shutil.rmtree(tdir, ignore_errors=True)


def base_kind(t):
    b = t.lstrip("&")
    if b == "UBig":
        return "U"
    if b == "IBig":
        return "I"
    if b in PRIMS:
        return "P"
    return None


def collect(src):
    impls, skipped = [], {}
    seen = set()
    for line in src.splitlines():
        if "$" in line:
            continue
        m = HDR.match(line)
        if not m:
            continue
        trait, rhs, lhs = m.group(1), norm_type(m.group(2)), norm_type(m.group(3))
        if trait not in TRAITS:
            continue
        lk, rk = base_kind(lhs), base_kind(rhs)
        if lk is None or rk is None:
            skipped[trait] = skipped.get(trait, 0) + 1
            continue
        key = (trait, lhs, rhs)
        if key in seen:
            continue
        seen.add(key)
        impls.append(key)
    return impls, skipped


def group_of(trait, lhs, rhs):
    fam = TRAITS[trait][0]
    lk, rk = base_kind(lhs), base_kind(rhs)
    if fam in ("shl", "shr"):
        return (fam, lk, "S")            # shift amount is a machine integer, not converted
    if lk == "P":
        lk = rk
    if rk == "P":
        rk = lk
    return (fam, lk, rk)


def operand_expr(t, side):
    """expression producing an operand of type `t` from the case values (`a` for lhs, `b` for rhs);
    returns (guard-expression that must be Some, value expression)"""
    ref = t.startswith("&")
    b = t.lstrip("&")
    v = side
    if b == "UBig":
        return ("u%s.is_some()" % v, ("&u%s.clone().unwrap()" if ref else "u%s.clone().unwrap()") % v)
    if b == "IBig":
        return ("true", ("&i%s.clone()" if ref else "i%s.clone()") % v)
    return ("p%s_%s.is_some()" % (v, b), ("&p%s_%s.unwrap()" if ref else "p%s_%s.unwrap()") % (v, b))


def gen_rs(impls):
    groups = {}
    for trait, lhs, rhs in impls:
        groups.setdefault(group_of(trait, lhs, rhs), []).append((trait, lhs, rhs))
    out = ["// GENERATED by vlib/forms.py from the macro-expanded dashu-int — do not edit.",
           "// One closure per operator-trait impl; grouped by operation (family, lhs kind, rhs kind).",
           "#![allow(unused_mut, unused_variables, clippy::all)]",
           "use super::forms_rt::*;", "use dashu_int::{IBig, UBig};", ""]
    out.append("pub fn run_group(fam: &str, lk: &str, rk: &str, v: &Vals, out: &mut Vec<(String, String)>) -> bool {")
    out.append("    let Vals { ua, ub, ia, ib, .. } = v.clone();")
    for p in PRIMS:
        out.append("    let pa_%s = v.prim_a::<%s>(); let pb_%s = v.prim_b::<%s>();" % (p, p, p, p))
    out.append("    match (fam, lk, rk) {")
    for (fam, lk, rk), members in sorted(groups.items()):
        out.append('        ("%s", "%s", "%s") => {' % (fam, lk, rk))
        for trait, lhs, rhs in sorted(members):
            _, method, shape = TRAITS[trait]
            g1, e1 = operand_expr(lhs, "a")
            g2, e2 = operand_expr(rhs, "b")
            name = "%s<%s> for %s" % (trait, rhs, lhs)
            ufcs = "<%s as %s<%s>>::%s" % (lhs, TRAIT_PATH[trait], rhs, method)
            if shape == "bin":
                body = "show(&%s(%s, %s))" % (ufcs, e1, e2)
            elif shape == "assign":
                body = "{ let mut x = %s; %s(&mut x, %s); show(&x) }" % (e1, ufcs, e2)
            else:
                body = "{ let mut x = %s; let r = %s(&mut x, %s); show(&(x, r)) }" % (e1, ufcs, e2)
            out.append('            if %s && %s { out.push(("%s".to_string(), run1(|| %s))); }' % (g1, g2, name, body))
        out.append("            true")
        out.append("        }")
    out.append("        _ => false,")
    out.append("    }")
    out.append("}")
    out.append("")
    out.append("pub const GROUPS: &[(&str, &str, &str, usize)] = &[")
    for (fam, lk, rk), members in sorted(groups.items()):
        out.append('    ("%s", "%s", "%s", %d),' % (fam, lk, rk, len(members)))
    out.append("];")
    return "\n".join(out) + "\n", groups


def regenerate(repo=None):
    src = expand(repo)
    impls, skipped = collect(src)
    text, groups = gen_rs(impls)
    os.makedirs(os.path.dirname(OUT_RS), exist_ok=True)
    old = open(OUT_RS).read() if os.path.exists(OUT_RS) else None
    changed = old != text
    if changed:
        with open(OUT_RS + ".tmp", "w") as f:
            f.write(text)
        os.replace(OUT_RS + ".tmp", OUT_RS)
    info = {"impls_covered": len(impls), "groups": len(groups),
            "skipped_non_public_operand_types": skipped,
            "group_sizes": {"%s:%s:%s" % k: len(v) for k, v in sorted(groups.items())},
            "changed": changed}
    with open(OUT_JSON, "w") as f:
        json.dump(info, f, indent=1)
    return info


if __name__ == "__main__":
    print(json.dumps(regenerate(), indent=1))
