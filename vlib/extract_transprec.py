"""C11 (round 5, Tie A): the working-precision / guard-digit formulas of float/src/exp.rs, float/src/log.rs and the
exponent of `FBig::sub_ulp` (float/src/fbig.rs) regenerated as Lean definitions (`lean/Dashu/Gen/TransPrec.lean`).

Each formula is ONE statement of the source (`let name = <expr>;`, `work_precision = <expr>;`, `work_precision += <expr>;`,
`Self::new(<expr>)`, `Context::<R>::new(<expr>)`, `exponent: <expr>,`) found by function name + anchor.  The expression is
translated by a fixed, ordered table of rewrites for the sub-terms that involve an `f32` estimate (they become fields of the
estimate oracle `Est` of `Model/Trans/Series.lean`, exactly as the hand model has them) or a method call
(`self.precision.bit_len()` -> `bitLen p`, `a.max(b)` -> `max a b`, `1usize << (e)` -> `2 ^ (e)`, `b as usize` -> `if b then 1
else 0`); what is left must consist of the integer operators `+ - * /`, parentheses, literals and the names of other
statements of the same function (they become parameters of the definition).  Anything else raises ExtractError (fails
closed).  `Props/C11Gen.lean` proves the definitions the model driver runs (`seriesGuardDigits`, `powGuardDigits`, `expN`,
`expWorkPrec`, `expWorkPrecNoScaling`, `expm1PowPrec`, `iacothWorkPrec`, `lnWorkPrec`, `lnGrowPrec`, `powfGuardDigits`,
`powiWorkPrec`, `powiNegPrec`, `fSubUlp`) equal to these by `rfl`: an edit of a formula in /repo changes the generated text
and the theorem no longer checks.
"""
import hashlib
import re

# (lean name, file, fn, which `fn <name>`, anchor regex, which match, kind, parameters in order, result type)
#   kind: "let" (`let x = E;`), "assign" (`x = E;`), "addassign" (`x += E;` -> `x + E`), "new" (`…::new(E)`), "field" (`exponent: E,`)
TARGETS = [
    ("powi_neg_guard_bits", "float/src/exp.rs", "powi", 1, r"let guard_bits\b", 0, "let", ["p"], "Nat"),
    ("powi_guard_digits", "float/src/exp.rs", "powi", 1, r"let guard_digits\b", 0, "let", ["p", "n"], "Nat"),
    ("powf_guard_digits", "float/src/exp.rs", "powf", 1, r"let guard_digits\b", 0, "let", ["est", "p", "arg_digits"], "Nat"),
    ("exp_series_guard_digits", "float/src/exp.rs", "exp_internal", 0, r"let series_guard_digits\b", 0, "let", ["est", "p"], "Nat"),
    ("exp_pow_guard_digits", "float/src/exp.rs", "exp_internal", 0, r"let pow_guard_digits\b", 0, "let", ["est", "p"], "Nat"),
    ("exp_work_precision_1", "float/src/exp.rs", "exp_internal", 0, r"work_precision =", 0, "assign", ["p", "series_guard_digits"], "Nat"),
    ("exp_work_precision_2", "float/src/exp.rs", "exp_internal", 0, r"work_precision =", 1, "assign", ["p", "series_guard_digits"], "Nat"),
    ("exp_n", "float/src/exp.rs", "exp_internal", 0, r"let n = ", 0, "let", ["p"], "Nat"),
    ("exp_work_precision_3", "float/src/exp.rs", "exp_internal", 0, r"work_precision =", 2, "assign",
     ["p", "series_guard_digits", "pow_guard_digits", "n", "int_digits"], "Nat"),
    ("exp_m1_powering_precision", "float/src/exp.rs", "exp_internal", 0, r"Context::<R>::new\(self\.precision \+ self\.precision", 0, "new", ["p"], "Nat"),
    ("iacoth_guard_digits", "float/src/log.rs", "iacoth", 0, r"let guard_digits\b", 0, "let", ["est", "p"], "Nat"),
    ("iacoth_work_precision", "float/src/log.rs", "iacoth", 0, r"let work_context\b", 0, "new", ["p", "guard_digits"], "Nat"),
    ("ln_guard_digits", "float/src/log.rs", "ln_internal", 0, r"let guard_digits\b", 0, "let", ["est", "p"], "Nat"),
    ("ln_work_precision", "float/src/log.rs", "ln_internal", 0, r"let mut work_precision\b", 0, "let", ["p", "guard_digits", "onePlus"], "Nat"),
    ("ln_grow_precision", "float/src/log.rs", "ln_internal", 0, r"work_precision \+=", 0, "addassign", ["work_precision", "p"], "Nat"),
    ("sub_ulp_exponent", "float/src/fbig.rs", "sub_ulp", 0, r"exponent: self", 0, "field", ["est", "x"], "Int"),
]

PTYPE = {"est": "Est", "x": "FBigM", "onePlus": "Bool"}

# ordered rewrites: (regex on the Rust expression, Lean replacement)
REWRITES = [
    (r"\(self\.precision\.log2_est\(\) / B\.log2_est\(\)\) as usize", "(est.logQuot p)"),
    (r"\(self\.precision\.bit_len\(\) as f32 \* B\.log2_est\(\) \* 2\.\) as usize", "(est.powGuard (bitLen p))"),
    (r"self\.precision\.log2_est\(\) as usize", "(est.log2Floor p)"),
    (r"self\.precision\.bit_len\(\)", "(bitLen p)"),
    (r"\bexp\.bit_len\(\)", "(bitLen n)"),
    (r"1usize << \(", "2 ^ ("),
    (r"\b([a-z_][a-z0-9_]*)\.max\(([^()]*)\)", r"(max \1 (\2))"),
    (r"\bone_plus as usize", "(if onePlus then 1 else 0)"),
    (r"self\.repr\.exponent", "x.repr.exp"),
    (r"self\.repr\.digits_lb\(\) as isize", "(est.dlb x.repr.signif : Int)"),
    (r"self\.context\.precision as isize", "(x.prec : Int)"),
    (r"self\.precision", "p"),
]

LEAN_WORDS = {"est", "logQuot", "powGuard", "log2Floor", "dlb", "bitLen", "max", "if", "then", "else", "onePlus", "x", "repr",
              "exp", "signif", "prec", "Int", "p", "n"}


def _fn_body(X, text, fn, nth, where):
    ms = [m for m in re.finditer(r"\bfn\s+%s\b" % re.escape(fn), text)]
    if nth >= len(ms):
        raise X.ExtractError("%s: fn %s (#%d) not found" % (where, fn, nth))
    i = text.index("{", ms[nth].end())
    d = 0
    for j in range(i, len(text)):
        if text[j] == "{":
            d += 1
        elif text[j] == "}":
            d -= 1
            if d == 0:
                return text[i:j + 1]
    raise X.ExtractError("%s: unbalanced body of fn %s" % (where, fn))


def _balanced_paren(X, s, i, where):
    """s[i] == '(' -> index of the matching ')'"""
    d = 0
    for j in range(i, len(s)):
        if s[j] == "(":
            d += 1
        elif s[j] == ")":
            d -= 1
            if d == 0:
                return j
    raise X.ExtractError("%s: unbalanced parenthesis" % where)


def _expr(X, body, anchor, idx, kind, where):
    ms = list(re.finditer(anchor, body))
    if idx >= len(ms):
        raise X.ExtractError("%s: statement `%s` (#%d) not found" % (where, anchor, idx))
    i = ms[idx].start()
    if kind in ("let", "assign", "addassign"):
        j = body.index(";", i)
        stmt = " ".join(body[i:j].split())
        op = "+=" if kind == "addassign" else "="
        k = stmt.index(op)
        lhs, rhs = stmt[:k].strip(), stmt[k + len(op):].strip()
        if kind == "addassign":
            rhs = lhs + " + " + rhs
        return rhs, stmt + ";"
    if kind == "new":
        k = body.index("::new(", i) + len("::new")
        e = _balanced_paren(X, body, k, where)
        return " ".join(body[k + 1:e].split()), " ".join(body[i:e + 1].split())
    if kind == "field":
        k = body.index(":", i) + 1
        d = 0
        for j in range(k, len(body)):
            c = body[j]
            if c in "({":
                d += 1
            elif c in ")}":
                d -= 1
                if d < 0:
                    break
            elif c == "," and d == 0:
                break
        return " ".join(body[k:j].split()), " ".join(body[i:j].split())
    raise X.ExtractError("%s: unknown statement kind %s" % (where, kind))


def _translate(X, rust, params, where):
    s = rust
    for pat, rep in REWRITES:
        s = re.sub(pat, rep, s)
    # residue: operators, parentheses, literals, known Lean words, parameter names
    if not re.fullmatch(r"[A-Za-z0-9_\s+\-*/^():.]*", s):
        raise X.ExtractError("%s: expression outside the subset: `%s` (from `%s`)" % (where, s, rust))
    for w in re.findall(r"[A-Za-z_][A-Za-z0-9_]*", s):
        if w not in LEAN_WORDS and w not in params:
            raise X.ExtractError("%s: unknown name `%s` in `%s` (from `%s`)" % (where, w, s, rust))
    if re.search(r"\d\.\d|\d\.(?![A-Za-z])", s):
        raise X.ExtractError("%s: float literal left in `%s`" % (where, s))
    return s


def generate(X):
    out = ["import Dashu.Model.Trans.Series",
           "import Dashu.Model.Trans.PowiNeg",
           "/-! GENERATED by vlib/extract.py (vlib/extract_transprec.py) from /repo — do not edit.",
           "    C11: the working-precision / guard-digit formulas of float/src/exp.rs and float/src/log.rs and the exponent of",
           "    `FBig::sub_ulp` (float/src/fbig.rs), one definition per source statement; sub-terms that involve an `f32`",
           "    estimate are fields of the oracle `Est`; names of other statements of the same function are parameters. -/",
           "namespace Dashu.Gen.TransPrec", "open Dashu.Model.Float Dashu.Model.Trans", "set_option linter.unusedVariables false", ""]
    info = {}
    cache = {}
    for name, rel, fn, nth, anchor, idx, kind, params, rty in TARGETS:
        if rel not in cache:
            cache[rel] = re.sub(r"//[^\n]*", "", X.read(rel))
        where = "%s fn %s" % (rel, fn)
        body = _fn_body(X, cache[rel], fn, nth, where)
        rust, stmt = _expr(X, body, anchor, idx, kind, where)
        lean = _translate(X, rust, params, where + " `" + name + "`")
        sig = " ".join("(%s : %s)" % (q, PTYPE.get(q, "Nat")) for q in params)
        out.append("/-- `%s` (%s, `fn %s`) -/" % (stmt.replace("/-", "/ -"), rel, fn))
        out.append("def %s %s : %s := %s\n" % (name, sig, rty, lean))
        info["TransPrec." + name] = hashlib.sha1(stmt.encode()).hexdigest()[:12]
    out.append("end Dashu.Gen.TransPrec")
    return "\n".join(out) + "\n", info
