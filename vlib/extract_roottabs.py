"""C12 (round 5, Tie A): the lookup tables and the safety margins of the primitive roots / the no_std log2 estimator of
dashu-base regenerated as Lean text (lean/Dashu/Gen/RootTables.lean):
  * `RSQRT_TAB`, `RCBRT_TAB` (base/src/ring/root.rs), `LOG2_TAB` (base/src/math/log.rs);
  * the literals by which every table/Newton routine turns its estimate into an UNDER-estimate before `fix_*_error!`
    (`(s - 1) as u8`, `s -= 4`, `let r = r - 10`, `s -= 10`, `let r = r - 1`), the table index offsets (`- 32`, `- 8`) and
    `KBITS` of the two u128 steps.
`Props/C12.lean` (`root_tables_regenerated`) proves the hand model's tables equal to them and the hand model's routines
equal to the same routines with these literals as parameters — the u32 totality theorem (`prim_root_u32_total`) is about
exactly those tables and margins, so a change of a table entry or of a margin in the source breaks a theorem (or the
build) of Props/C12, not only the sampled correspondence.  A change of the shape fails closed.
Round 6 additions (same target file): every shift amount / mask width / small multiplier of the two u128 root steps
(`root_u128_steps_regenerated`), and the double-word accumulation expressions of `lehmer_ext_step` / `lehmer_step`
(integer/src/gcd/lehmer.rs; the rest of both functions is pinned token for token) — `lehmer_ext_step_words_regenerated`,
`lehmer_step_words_regenerated`.
Loaded by vlib/extract.py (`gen_root_tables`)."""
import re, hashlib


def generate(ex):
    rel = "base/src/ring/root.rs"
    src = ex.read(rel)
    lsrc = ex.read("base/src/math/log.rs")
    info = {}

    def table(text, name, count, where):
        m = re.search(r"const %s: \[u8; (\d+)\] = \[(.*?)\];" % name, text, re.S)
        if not m:
            raise ex.ExtractError("%s: `const %s: [u8; N] = [...]` not found" % (where, name))
        body = re.sub(r"//[^\n]*", "", m.group(2))
        items = [x.strip() for x in body.split(",") if x.strip()]
        vals = []
        for it in items:
            if not re.fullmatch(r"0x[0-9a-fA-F]{1,2}|\d{1,3}", it):
                raise ex.ExtractError("%s: %s: entry is not a byte literal: %s" % (where, name, it))
            vals.append(int(it, 0))
        if int(m.group(1)) != count or len(vals) != count or any(v > 255 for v in vals):
            raise ex.ExtractError("%s: %s: expected %d byte entries, found %d (declared %s)" % (where, name, count, len(vals), m.group(1)))
        return vals

    def impl_fn(ty, fn):
        m = re.search(r"impl NormalizedRootRem for %s \{" % ty, src)
        if not m:
            raise ex.ExtractError("%s: `impl NormalizedRootRem for %s` not found" % (rel, ty))
        end = ex.balanced(src, m.end() - 1)
        block = src[m.end():end]
        m2 = re.search(r"fn %s\(self\) -> \([^)]*\) \{" % fn, block)
        if not m2:
            raise ex.ExtractError("%s: %s::%s not found" % (rel, ty, fn))
        e2 = ex.balanced(block, m2.end() - 1)
        return re.sub(r"//[^\n]*", "", block[m2.end():e2])

    def one(body, pattern, what):
        ms = re.findall(pattern, body)
        if len(ms) != 1:
            raise ex.ExtractError("%s: %s: expected exactly one `%s`, found %d" % (rel, what, pattern, len(ms)))
        return int(ms[0])

    rsqrt = table(src, "RSQRT_TAB", 96, rel)
    rcbrt = table(src, "RCBRT_TAB", 56, rel)
    log2 = table(lsrc, "LOG2_TAB", 128, "base/src/math/log.rs")
    consts = [
        ("sqrt_u16_margin", one(impl_fn("u16", "normalized_sqrt_rem"), r"let mut s = \(s - (\d+)\) as u8;", "u16 sqrt margin"), "`(s - K) as u8` in u16::normalized_sqrt_rem"),
        ("cbrt_u16_margin", one(impl_fn("u16", "normalized_cbrt_rem"), r"let mut c = \(c - (\d+)\) as u8;", "u16 cbrt margin"), "`(c - K) as u8` in u16::normalized_cbrt_rem"),
        ("sqrt_u32_margin", one(impl_fn("u32", "normalized_sqrt_rem"), r"\bs -= (\d+);", "u32 sqrt margin"), "`s -= K` in u32::normalized_sqrt_rem"),
        ("cbrt_u32_margin", one(impl_fn("u32", "normalized_cbrt_rem"), r"let r = r - (\d+);", "u32 cbrt margin"), "`let r = r - K` in u32::normalized_cbrt_rem"),
        ("sqrt_u64_margin", one(impl_fn("u64", "normalized_sqrt_rem"), r"\bs -= (\d+);", "u64 sqrt margin"), "`s -= K` in u64::normalized_sqrt_rem"),
        ("cbrt_u64_margin", one(impl_fn("u64", "normalized_cbrt_rem"), r"let r = r - (\d+);", "u64 cbrt margin"), "`let r = r - K` in u64::normalized_cbrt_rem"),
        ("cbrt_u128_KBITS", one(impl_fn("u128", "normalized_cbrt_rem"), r"const KBITS: u32 = (\d+);", "u128 cbrt KBITS"), "`const KBITS: u32 = K` in u128::normalized_cbrt_rem"),
    ]
    for ty in ("u16", "u32", "u64"):
        consts.append(("rsqrt_index_offset_" + ty, one(impl_fn(ty, "normalized_sqrt_rem"), r"RSQRT_TAB\[[^\]]*? as usize - (\d+)\]", ty + " RSQRT_TAB index"), "`RSQRT_TAB[… as usize - K]` in %s::normalized_sqrt_rem" % ty))
        consts.append(("rcbrt_index_offset_" + ty, one(impl_fn(ty, "normalized_cbrt_rem"), r"RCBRT_TAB\[[^\]]*? as usize - (\d+)\]", ty + " RCBRT_TAB index"), "`RCBRT_TAB[… as usize - K]` in %s::normalized_cbrt_rem" % ty))
    if not re.search(r"const KBITS: u32 = u64::BITS / 2;", impl_fn("u128", "normalized_sqrt_rem")):
        raise ex.ExtractError("%s: u128::normalized_sqrt_rem: `const KBITS: u32 = u64::BITS / 2;` not found" % rel)
    consts.append(("sqrt_u128_KBITS", 32, "`const KBITS: u32 = u64::BITS / 2` in u128::normalized_sqrt_rem"))

    # round 6: every shift amount / mask width / small multiplier of the two u128 steps, as written (an expression in
    # KBITS, u64::BITS and literals), evaluated with the KBITS of that function.  One statement shape per line; fails closed.
    E = r"([A-Za-z0-9_:+\-* ()]+?)"          # a shift-amount expression

    def amount(expr, kbits, what):
        toks = re.findall(r"KBITS|u64::BITS|\d+|[-+*()]", expr)
        if "".join(toks) != expr.replace(" ", "") or not toks:
            raise ex.ExtractError("%s: %s: shift amount `%s` is not an expression in KBITS / u64::BITS / literals" % (rel, what, expr))
        v = eval("".join({"KBITS": str(kbits), "u64::BITS": "64"}.get(t, t) for t in toks), {"__builtins__": {}})
        if not isinstance(v, int) or v < 0 or v > 128:
            raise ex.ExtractError("%s: %s: shift amount `%s` = %r out of range" % (rel, what, expr, v))
        return v

    def stmt(body, kbits, pattern, names, what):
        """`pattern` has one group E per name; the statement must occur exactly once (whitespace-insensitive)."""
        flat = re.sub(r"\s+", " ", body)
        rx = re.escape(pattern)
        rx = rx.replace(re.escape("<E>"), E).replace(r"\ ", r" ?")
        ms = re.findall(rx, flat)
        if len(ms) != 1:
            raise ex.ExtractError("%s: %s: expected exactly one `%s`, found %d" % (rel, what, pattern, len(ms)))
        g = ms[0] if isinstance(ms[0], tuple) else (ms[0],)
        for nm, expr in zip(names, g):
            consts.append((nm, amount(expr.strip(), kbits, what), "`%s` (%s = `%s`) in %s" % (pattern, nm.split("_", 2)[2], expr.strip(), what)))

    sq = impl_fn("u128", "normalized_sqrt_rem")
    W = "u128::normalized_sqrt_rem"
    stmt(sq, 32, "let (a, b) = (self >> <E>, self & u64::MAX as u128);", ["sqrt_u128_split"], W)
    stmt(sq, 32, "let r0 = r1 << (<E>) | b >> (<E>);", ["sqrt_u128_r0_shl", "sqrt_u128_r0_shr"], W)
    stmt(sq, 32, "let (mut q, mut u) = r0.div_rem(s1 as u64); if q >> <E> > 0 { q -= <E>; u += s1 as u64; }", ["sqrt_u128_q_shr", "sqrt_u128_q_dec"], W)
    stmt(sq, 32, "let mut s = (s1 as u64) << <E> | q;", ["sqrt_u128_s_shl"], W)
    stmt(sq, 32, "let r = (u << (<E>)) | (b & ((1 << (<E>)) - 1));", ["sqrt_u128_r_shl", "sqrt_u128_r_mask"], W)
    stmt(sq, 32, "let mut c = (u >> (<E>)) as i8 - (r < q2) as i8;", ["sqrt_u128_c_shr"], W)
    stmt(sq, 32, "(s, (c as u128) << <E> | r as u128)", ["sqrt_u128_c_shl"], W)
    cb = impl_fn("u128", "normalized_cbrt_rem")
    W = "u128::normalized_cbrt_rem"
    stmt(cb, 22, "let (c1, r1) = if self.leading_zeros() > <E> {", ["cbrt_u128_lz_gt"], W)
    stmt(cb, 22, "let a = (self >> <E>) as u64; let (mut c, _) = a.normalized_cbrt_rem(); c >>= <E>; (c, (a >> <E>) - (c as u64).pow(<E>))",
         ["cbrt_u128_hi_shr_odd", "cbrt_u128_c1_shr", "cbrt_u128_a_shr", "cbrt_u128_c1_pow"], W)
    stmt(cb, 22, "} else { let a = (self >> <E>) as u64; a.normalized_cbrt_rem() };", ["cbrt_u128_hi_shr"], W)
    stmt(cb, 22, "let r0 = ((r1 as u128) << <E>) | (self >> (<E>) & ((1 << <E>) - 1));", ["cbrt_u128_r0_shl", "cbrt_u128_r0_shr", "cbrt_u128_r0_mask"], W)
    stmt(cb, 22, "let (q, u) = r0.div_rem(<E> * (c1 as u128).pow(<E>));", ["cbrt_u128_d_mul", "cbrt_u128_d_pow"], W)
    stmt(cb, 22, "let mut c = ((c1 as u64) << <E>) + (q as u64);", ["cbrt_u128_c_shl"], W)
    stmt(cb, 22, "let t1 = (u << (<E>)) | (self & ((1 << (<E>)) - 1));", ["cbrt_u128_t1_shl", "cbrt_u128_t1_mask"], W)
    stmt(cb, 22, "let t2 = (((<E> * (c1 as u128)) << <E>) + q) * q.pow(<E>);", ["cbrt_u128_t2_mul", "cbrt_u128_t2_shl", "cbrt_u128_t2_pow"], W)
    stmt(cb, 22, "let mut r = t1 as i128 - t2 as i128; while r < 0 { r += <E> * (c as i128 - <E>) * c as i128 + <E>; c -= <E>; } (c, r as u128)",
         ["cbrt_u128_loop_mul", "cbrt_u128_loop_sub", "cbrt_u128_loop_add", "cbrt_u128_loop_dec"], W)

    # round 6: the two double-word accumulations of `lehmer::lehmer_ext_step` (integer/src/gcd/lehmer.rs) as Lean text; the
    # rest of the function (asserts, zip/take(len) loop, split_dword, carry hand-over, stores, returned pair) is pinned
    # token for token — any other edit of the function fails closed.
    lrel = "integer/src/gcd/lehmer.rs"
    ltxt = ex.read(lrel)
    m = re.search(r"fn lehmer_ext_step\(([^)]*)\) -> \(Word, Word\) \{", ltxt)
    if not m:
        raise ex.ExtractError("%s: `fn lehmer_ext_step(…) -> (Word, Word)` not found" % lrel)
    params = re.sub(r"\s+", " ", m.group(1)).strip().rstrip(",")
    if params != "x: &mut [Word], y: &mut [Word], len: usize, a: Word, b: Word, c: Word, d: Word":
        raise ex.ExtractError("%s: lehmer_ext_step: parameter list changed: %s" % (lrel, params))
    lbody = ltxt[m.end():ex.balanced(ltxt, m.end() - 1)]
    lbody = re.sub(r"\s+", " ", re.sub(r"//[^\n]*", "", lbody)).strip().rstrip("}").strip()
    shape = ("debug_assert!(len <= x.len() && len <= y.len()); "
             "debug_assert!(a <= SignedWord::MAX as Word && b <= SignedWord::MAX as Word); "
             "debug_assert!(c <= SignedWord::MAX as Word && d <= SignedWord::MAX as Word); "
             "let (a, b) = (extend_word(a), extend_word(b)); let (c, d) = (extend_word(c), extend_word(d)); "
             "let (mut x_carry, mut y_carry) = (0, 0); "
             "for (x_i, y_i) in x.iter_mut().zip(y.iter_mut()).take(len) { "
             "let (sx_i, sy_i) = (extend_word(*x_i), extend_word(*y_i)); "
             "let (x_new, cx) = split_dword(<ACC>); let (y_new, cy) = split_dword(<ACC>); "
             "x_carry = cx; y_carry = cy; *x_i = x_new; *y_i = y_new; } (x_carry, y_carry)")
    rx = re.escape(shape).replace(re.escape("<ACC>"), r"([A-Za-z_0-9 +*()]+?)")
    mm = re.fullmatch(rx, lbody)
    if not mm:
        raise ex.ExtractError("%s: lehmer_ext_step: body is not the pinned shape (asserts; extend_word of a, b, c, d; zip/take(len) loop "
                              "with two split_dword accumulations; carry hand-over; stores; returned carries)" % lrel)

    def acc(expr, what):
        e = re.sub(r"extend_word\((x_carry|y_carry)\)", r"\1", expr.strip())
        toks = re.findall(r"[A-Za-z_][A-Za-z_0-9]*|[+*()]", e)
        if "".join(toks) != e.replace(" ", "") or any(t not in ("a", "b", "c", "d", "sx_i", "sy_i", "x_carry", "y_carry", "+", "*", "(", ")") for t in toks):
            raise ex.ExtractError("%s: lehmer_ext_step: %s accumulation `%s` is outside the translated fragment (+, *, a b c d sx_i sy_i, extend_word(carry))" % (lrel, what, expr.strip()))
        return " ".join(toks).replace("( ", "(").replace(" )", ")")

    acc_x, acc_y = acc(mm.group(1), "x"), acc(mm.group(2), "y")

    # round 6: the two SIGNED double-word accumulations of `lehmer::lehmer_step`; everything else (asserts, zip loop, carry
    # hand-over, stores, the `if x_carry != 0` fix-up on the top word) pinned token for token.
    m = re.search(r"pub\(crate\) fn lehmer_step\(([^)]*)\) \{", ltxt)
    if not m:
        raise ex.ExtractError("%s: `pub(crate) fn lehmer_step(…)` not found" % lrel)
    params = re.sub(r"\s+", " ", m.group(1)).strip().rstrip(",")
    if params != "x: &mut [Word], y: &mut [Word], a: Word, b: Word, c: Word, d: Word":
        raise ex.ExtractError("%s: lehmer_step: parameter list changed: %s" % (lrel, params))
    sbody = ltxt[m.end():ex.balanced(ltxt, m.end() - 1)]
    sbody = re.sub(r"\s+", " ", re.sub(r"//[^\n]*", "", sbody)).strip().rstrip("}").strip()
    sshape = ("debug_assert!(x.len() >= y.len() && x.len() - y.len() <= 1); "
              "debug_assert!(a <= SignedWord::MAX as Word && b <= SignedWord::MAX as Word); "
              "debug_assert!(c <= SignedWord::MAX as Word && d <= SignedWord::MAX as Word); "
              "let (a, b) = (signed_extend_word(a), signed_extend_word(b)); let (c, d) = (signed_extend_word(c), signed_extend_word(d)); "
              "let (mut x_carry, mut y_carry) = (0, 0); "
              "for (x_i, y_i) in x.iter_mut().zip(y.iter_mut()) { "
              "let (sx_i, sy_i) = (signed_extend_word(*x_i), signed_extend_word(*y_i)); "
              "let (x_new, cx) = split_signed_dword(<ACC>); let (y_new, cy) = split_signed_dword(<ACC>); "
              "x_carry = cx; y_carry = cy; *x_i = x_new; *y_i = y_new; } "
              "if x_carry != 0 { let x_top = x.last_mut().unwrap(); "
              "debug_assert_eq!(y_carry as SignedDoubleWord, c * signed_extend_word(*x_top)); "
              "let (x_new, cx) = split_signed_dword(a * signed_extend_word(*x_top) + x_carry as SignedDoubleWord); "
              "debug_assert_eq!(cx, 0); *x_top = x_new; }")
    srx = re.escape(sshape).replace(re.escape("<ACC>"), r"([A-Za-z_0-9 +*()\-]+?)")
    sm = re.fullmatch(srx, sbody)
    if not sm:
        raise ex.ExtractError("%s: lehmer_step: body is not the pinned shape (asserts; signed_extend_word of a, b, c, d; zip loop with two "
                              "split_signed_dword accumulations; carry hand-over; stores; x_top fix-up)" % lrel)

    def sacc(expr, what):
        e = re.sub(r"\b(x_carry|y_carry) as SignedDoubleWord", r"\1", expr.strip())
        toks = re.findall(r"[A-Za-z_][A-Za-z_0-9]*|[-+*()]", e)
        if "".join(toks) != e.replace(" ", "") or any(t not in ("a", "b", "c", "d", "sx_i", "sy_i", "x_carry", "y_carry", "+", "-", "*", "(", ")") for t in toks):
            raise ex.ExtractError("%s: lehmer_step: %s accumulation `%s` is outside the translated fragment (+, -, *, a b c d sx_i sy_i, carry as SignedDoubleWord)" % (lrel, what, expr.strip()))
        return " ".join(toks).replace("( ", "(").replace(" )", ")")

    sacc_x, sacc_y = sacc(sm.group(1), "x"), sacc(sm.group(2), "y")

    def lean_list(vals):
        rows = [", ".join("0x%02x" % v for v in vals[i:i + 16]) for i in range(0, len(vals), 16)]
        return "[\n  " + ",\n  ".join(rows) + "]"

    out = ["/-! GENERATED by vlib/extract.py (vlib/extract_roottabs.py) from /repo — do not edit.  C12: lookup tables and",
           "    under-estimate margins of the primitive roots (base/src/ring/root.rs) and LOG2_TAB (base/src/math/log.rs);",
           "    round 6: shift amounts of the two u128 root steps; accumulation expressions of lehmer_ext_step / lehmer_step",
           "    (integer/src/gcd/lehmer.rs). -/",
           "namespace Dashu.Gen", "",
           "/-- `RSQRT_TAB` in %s -/\ndef RSQRT_TAB : List Nat := %s\n" % (rel, lean_list(rsqrt)),
           "/-- `RCBRT_TAB` in %s -/\ndef RCBRT_TAB : List Nat := %s\n" % (rel, lean_list(rcbrt)),
           "/-- `LOG2_TAB` in base/src/math/log.rs -/\ndef LOG2_TAB : List Nat := %s\n" % lean_list(log2)]
    for name, v, doc in consts:
        out.append("/-- %s (%s) -/\ndef %s : Nat := %d\n" % (doc, rel, name, v))
        info["roottabs_" + name] = v
    for nm, e, src_e in (("lehmer_ext_step_acc_x", acc_x, mm.group(1).strip()), ("lehmer_ext_step_acc_y", acc_y, mm.group(2).strip())):
        out.append("set_option linter.unusedVariables false in\n"
                   "/-- `split_dword(%s)` in lehmer_ext_step (%s); DoubleWord arithmetic as Nat (overflow is the model's concern) -/\n"
                   "def %s (a b c d sx_i sy_i x_carry y_carry : Nat) : Nat := %s\n" % (src_e, lrel, nm, e))
        info["roottabs_" + nm] = e
    for nm, e, src_e in (("lehmer_step_acc_x", sacc_x, sm.group(1).strip()), ("lehmer_step_acc_y", sacc_y, sm.group(2).strip())):
        out.append("set_option linter.unusedVariables false in\n"
                   "/-- `split_signed_dword(%s)` in lehmer_step (%s); SignedDoubleWord arithmetic as Int (overflow is the model's concern) -/\n"
                   "def %s (a b c d sx_i sy_i x_carry y_carry : Int) : Int := %s\n" % (src_e, lrel, nm, e))
        info["roottabs_" + nm] = e
    out.append("end Dashu.Gen")
    for nm, vals in (("RSQRT_TAB", rsqrt), ("RCBRT_TAB", rcbrt), ("LOG2_TAB", log2)):
        info["roottabs_" + nm] = hashlib.sha1(bytes(vals)).hexdigest()[:12]
    return "\n".join(out) + "\n", info
