#!/usr/bin/env python3
"""python3 vlib/seedprompt.py <wave dir, e.g. /tmp/seed3> <first number> C01 [C02 ...]
Creates <wave>/<ID>/repo (scratch worktree of /repo HEAD) and prints/writes the prompt given to a FRESH sub-agent
for a seeded change (only the property text + its own worktree; nothing from /verif). The prompt text is kept in
<wave>/<ID>/PROMPT.md.  Focus files = the property's anchor files no earlier kept seed has touched (broadens the
campaign without telling the agent anything about the checks)."""
import json, os, subprocess, sys, glob, collections
wave, first = sys.argv[1], int(sys.argv[2])
ids = sys.argv[3:]
props = {json.loads(l)['id']: json.loads(l) for l in open('/verif/properties.jsonl')}
touched = collections.defaultdict(set)
for d in glob.glob('/verif/seeded/C*'):
    try:
        m = json.load(open(d + '/meta.json'))
    except Exception:
        continue
    for f in m.get('files_touched', []):
        touched[m['property']].add(f)
T = """You are helping to evaluate a verification effort for the Rust library cmpute/dashu (arbitrary-precision integers, floats and rationals; a checkout is in your own scratch git worktree `{wt}`). You play the role of a developer who, by a plausible-looking edit, silently BREAKS one semantic property of the library. Work ONLY inside `{base}` (never touch `/repo`, never read or write `/verif`). The sandbox has no network: always pass `--offline` to cargo and always set `CARGO_TARGET_DIR={base}/target`.

The property (this text is all you get about it):

  id: {id}
  title: {title}
  statement: {statement}
  quantifier: {quantifier}
  why the existing tests cannot settle it: {why}
  code it is anchored in: {files}
  mechanisms: {mech}

Task: produce TWO independent changes to the library source (numbered {n1} and {n2}; each is a diff against the clean worktree HEAD, not stacked) such that for each:
 1. the workspace still compiles (`cargo build --workspace --offline`);
 2. the existing test suite still passes exactly as before (`cargo test --workspace --no-fail-fast --offline`; run it once on the clean tree first to get the baseline count; do not edit or delete any existing test);
 3. the property above is violated by the changed library, but ONLY under specific circumstances — a particular size class or boundary, an unusual but valid input, a multi-step sequence of operations, a particular call form (owned/borrowed/assign), two cooperating sites that each look fine alone, a particular rounding mode/base/precision/sign combination, a particular build configuration, a rarely taken branch. NOT something ordinary use or a casual smoke test would expose at once. It must look like a realistic mistake or an over-eager optimisation/refactor a maintainer could actually commit (no `if x == 12345` special-casing of magic inputs, no comments announcing the bug, no deleted functionality);
 4. you write a demonstration: a Rust integration test file `demo.rs` (to be placed as `<crate dir>/tests/seed_demo.rs`, e.g. `integer/tests/seed_demo.rs`, `float/tests/seed_demo.rs`, `rational/tests/seed_demo.rs`, or `tests/seed_demo.rs` for the umbrella crate) that uses only the public API (plus dev-dependencies the crate already has), PASSES on the clean tree and FAILS with the change. Include at least one test in it that still passes with the change (showing ordinary use is unaffected).
{focus}
Ignore anything guarded by `cfg(dashu_verif)` (instrumentation; do not change or use it). The two changes should be at different sites and of different kinds.

Deliverables, for n in ({n1}, {n2}): directory `{base}/out/<n>/` containing
  - `patch.diff`  : output of `git -C {wt} diff` for that change alone (library source only; NOT the demo file; must apply with `git apply` to the clean HEAD),
  - `demo.rs`     : the demonstration test file,
  - `meta.json`   : {{"property": "{id}", "summary": "<what was changed and why it breaks the property>", "needs_to_manifest": "<the precise circumstances>", "files_touched": ["..."], "demo_path": "repo/<crate dir>/tests/seed_demo.rs", "demo_cmd": "cd repo && CARGO_TARGET_DIR={base}/target cargo test --offline -p <package name, e.g. dashu-int|dashu-float|dashu-ratio|dashu-base|dashu-macros|dashu> --test seed_demo", "ran": ["<each command you actually ran and its outcome>"]}}.
Verify all four requirements yourself by running the commands (clean tree: demo passes; patched tree: suite passes with the same counts, demo fails). When done, restore the worktree (`git -C {wt} checkout -- . && git -C {wt} clean -fdq`) and delete `{base}/target` to free disk. Your final message: for each change one paragraph (site, circumstance, demo outcome), nothing else.
"""
for pid in ids:
    p = props[pid]
    base = os.path.join(wave, pid)
    wt = base + '/repo'
    os.makedirs(base + '/out', exist_ok=True)
    if not os.path.isdir(wt):
        subprocess.check_call(['git', '-C', '/repo', 'worktree', 'add', '-q', '--detach', wt, 'HEAD'])
    fresh = [f for f in p['anchors']['files'] if f not in touched[pid]]
    focus = ""
    if fresh:
        focus = "Prefer sites in these files (other files of the anchor list are allowed if you find nothing good there): " + ", ".join(fresh) + ".\n"
    mech = "; ".join("%s (%s)" % (m['name'], m['where']) for m in p['anchors'].get('mechanism', []))
    txt = T.format(wt=wt, base=base, id=pid, title=p['title'], statement=p['statement'], quantifier=p['quantifier'],
                   why=p['why_tests_cant'], files=", ".join(p['anchors']['files']), mech=mech, n1=first, n2=first + 1, focus=focus)
    open(base + '/PROMPT.md', 'w').write(txt)
    print(base + '/PROMPT.md', len(txt))
