"""validate MANIFEST.json and evidence files against the schemas (uses the tooling venv)."""
import json, sys, glob, jsonschema
ok = True
m = json.load(open('/verif/MANIFEST.json'))
try:
    jsonschema.validate(m, json.load(open('/root/.vp/MANIFEST.schema.json')))
    print("MANIFEST ok:", len(m["checks"]), "checks,", len(m.get("not_applicable", [])), "not_applicable")
except Exception as e:
    ok = False; print("MANIFEST INVALID", e)
es = json.load(open('/root/.vp/EVIDENCE.schema.json'))
for f in sorted(glob.glob('/verif/evidence/*.json')):
    try:
        jsonschema.validate(json.load(open(f)), es)
    except Exception as e:
        ok = False; print("EVIDENCE INVALID", f, str(e)[:300])
ids = {json.loads(l)["id"] for l in open('/verif/properties.jsonl')}
claimed = {c["property_id"] for c in m["checks"]}
na = {c["property_id"] for c in m.get("not_applicable", [])}
print("claimed", sorted(claimed)); print("not_applicable", sorted(na)); print("unaccounted", sorted(ids - claimed - na))
sys.exit(0 if ok else 1)
