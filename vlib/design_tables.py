#!/usr/bin/env python3
"""Regenerates the machine-made appendices of DESIGN.md: B (fix: commits in /repo), C (seeded-change trials)."""
import glob, json, os, re, subprocess
ROOT = "/verif"
def fixes():
    log = subprocess.run(["git", "-C", "/repo", "log", "--reverse", "--format=%h %s"], capture_output=True, text=True).stdout.splitlines()
    rows = [l for l in log if " fix:" in l or l.split(" ", 1)[1].startswith("fix:")]
    out = ["| commit | repair |", "|---|---|"]
    for l in rows:
        h, s = l.split(" ", 1)
        out.append("| %s | %s |" % (h, s[5:].replace("|", "\\|")))
    return "\n".join(out), len(rows)
def seeds():
    out = ["| seed | target | what it needs to manifest (author's words, abridged) | caught by | missed by (at first trial) | after strengthening |", "|---|---|---|---|---|---|"]
    n = caught = 0
    for d in sorted(glob.glob(ROOT + "/seeded/C*-*")):
        if not os.path.exists(d + "/result.json"):
            continue
        meta = json.load(open(d + "/meta.json")); res = json.load(open(d + "/result.json"))
        first = res.get("first_trial", res)
        needs = re.sub(r"\s+", " ", str(meta.get("needs_to_manifest", meta.get("summary", ""))))[:170].replace("|", "/")
        cb = ", ".join(res["caught_by"]) or "—"
        missed = ", ".join(p for p, v in first["checks_run"].items() if v["exit"] == 0 and p == res["property"]) or "—"
        later = res.get("after_strengthening", "")
        n += 1; caught += bool(res["caught_by"])
        out.append("| %s | %s | %s | %s | %s | %s |" % (os.path.basename(d), res["property"], needs, cb, missed, later))
    return "\n".join(out), n, caught
def mutants():
    """Appendix D: per property, the in-house mutation self-test (mutants/<Cxx>/RESULTS.md written by the builders)."""
    out = ["| id | semantic mutants | caught | real misses (closed by a generator/op addition) | equivalent | benign: exit 0 | benign: reported as no-failing-input-found |", "|---|---|---|---|---|---|---|"]
    tot = [0, 0, 0, 0]
    for i in range(1, 21):
        pid = "C%02d" % i
        f = ROOT + "/mutants/%s/RESULTS.md" % pid
        if not os.path.exists(f):
            out.append("| %s | — | | | | | |" % pid); continue
        sem = caught = miss = equiv = b0 = bn = 0
        for l in open(f):
            m = re.match(r"\|\s*\**\s*([mb])(\d+)\b[^|]*\|(.*)", l, re.I)
            if not m:
                continue
            rest = m.group(3).lower()
            if m.group(1).lower() == "m":
                sem += 1
                if "equivalent" in rest and "not equivalent" not in rest and "non-equivalent" not in rest:
                    equiv += 1
                elif "miss" in rest:
                    miss += 1
                elif "caught" in rest or "violation" in rest or "exit 1" in rest:
                    caught += 1
            else:
                if "no-failing-input-found" in rest or "drift" in rest:
                    bn += 1
                elif "exit 0" in rest or "pass" in rest or "green" in rest:
                    b0 += 1
        tot[0] += sem; tot[1] += caught; tot[2] += miss; tot[3] += equiv
        out.append("| %s | %d | %d | %d | %d | %d | %d |" % (pid, sem, caught, miss, equiv, b0, bn))
    out.append("| total | %d | %d | %d | %d | | |" % tuple(tot))
    return "\n".join(out)

def status():
    import importlib, sys
    sys.path.insert(0, ROOT)
    out = ["| id | group | theorems (obligations discharged) | refined kernels | frontier / partial | open finding kinds | quick cases |", "|---|---|---|---|---|---|---|"]
    kf = [json.loads(l) for l in open(ROOT + "/known_findings.jsonl") if l.startswith("{")]
    for i in range(1, 21):
        pid = "C%02d" % i
        f = ROOT + "/vlib/props/%s.py" % pid.lower()
        if not os.path.exists(f):
            out.append("| %s | — | — | — | not built | | |" % pid); continue
        P = importlib.import_module("vlib.props." + pid.lower())
        ev = {}
        ef = ROOT + "/evidence/%s.json" % pid
        if os.path.exists(ef):
            ev = json.load(open(ef)).get("coverage", {})
        sites = sorted({e["site"][:60] for e in kf if e["property"] == pid})
        out.append("| %s | %s | %s/%s | %d listed | %s | %d | %s |" % (
            pid, P.GROUP, ev.get("discharged", "?"), ev.get("obligations", "?"), len(getattr(P, "REFINED", [])),
            "; ".join(x[:90] for x in getattr(P, "FRONTIER", [])[:3]).replace("|", "/") or "—", len(sites), ev.get("evaluations", "?")))
    return "\n".join(out)

def write_design():
    f, nf = fixes(); sd, n, c = seeds()
    block = ("<!-- AUTOGEN-BEGIN (python3 vlib/design_tables.py --write) -->\n\n"
             "### Appendix A2 — status per property (from vlib/props and the last evidence files)\n\n%s\n\n"
             "### Appendix B — %d `fix:` commits in /repo (each one small repair; the pinned suite passes after each)\n\n%s\n\n"
             "### Appendix C — seeded-change trials: %d kept (confirmed independently), %d caught by the checks\n\n%s\n\n"
             "### Appendix D — in-house mutation self-test per property (details, witnesses and equivalence arguments: `mutants/<id>/RESULTS.md`; counted from those tables)\n\n%s\n\n"
             "<!-- AUTOGEN-END -->\n") % (status(), nf, f, n, c, sd, mutants())
    d = open(ROOT + "/DESIGN.md").read()
    if "<!-- AUTOGEN-BEGIN" in d:
        d = d[:d.index("<!-- AUTOGEN-BEGIN")] + block + d[d.index("<!-- AUTOGEN-END -->") + len("<!-- AUTOGEN-END -->\n"):]
    else:
        d = d.rstrip("\n") + "\n\n---------------------------------------------------------------------------------------------------\n\n## Appendices generated from the tree\n\n" + block
    open(ROOT + "/DESIGN.md", "w").write(d)

if __name__ == "__main__":
    import sys as _s
    if "--write" in _s.argv:
        write_design(); raise SystemExit(0)
    print("### Appendix A2 — status per property (from vlib/props and the last evidence files)\n\n%s\n" % status())
    f, nf = fixes(); s, n, c = seeds()
    print("### Appendix B — %d `fix:` commits in /repo\n\n%s\n" % (nf, f))
    print("### Appendix C — seeded-change trials: %d kept, %d caught\n\n%s\n" % (n, c, s))
