#!/usr/bin/env python3
"""Regenerates the machine-made appendices of DESIGN.md: B (fix: commits in /repo), C (seeded-change trials)."""
import glob, json, os, re, subprocess
ROOT = "/verif"
def fixes():
    log = subprocess.run(["git", "-C", "/repo", "log", "--reverse", "--format=%h %s"], capture_output=True, text=True).stdout.splitlines()
    rows = [l for l in log if " fix:" in l or l.split(" ", 1)[1].startswith("fix:")]
    out = ["| commit | repair |", "|---|---|"]
    for l in rows:
        h, s = l.split(" ", 1)
        out.append("| %s | %s |" % (h, s[5:].replace("|", "\\|")))
    return "\n".join(out), len(rows)
def seeds():
    out = ["| seed | target | what it needs to manifest (author's words, abridged) | caught by | missed by (at first trial) | after strengthening |", "|---|---|---|---|---|---|"]
    n = caught = 0
    for d in sorted(glob.glob(ROOT + "/seeded/C*-*")):
        if not os.path.exists(d + "/result.json"):
            continue
        meta = json.load(open(d + "/meta.json")); res = json.load(open(d + "/result.json"))
        first = res.get("first_trial", res)
        needs = re.sub(r"\s+", " ", str(meta.get("needs_to_manifest", meta.get("summary", ""))))[:170].replace("|", "/")
        cb = ", ".join(res["caught_by"]) or "—"
        missed = ", ".join(p for p, v in first["checks_run"].items() if v["exit"] == 0 and p == res["property"]) or "—"
        later = res.get("after_strengthening", "")
        n += 1; caught += bool(res["caught_by"])
        out.append("| %s | %s | %s | %s | %s | %s |" % (os.path.basename(d), res["property"], needs, cb, missed, later))
    return "\n".join(out), n, caught
if __name__ == "__main__":
    f, nf = fixes(); s, n, c = seeds()
    print("### Appendix B — %d `fix:` commits in /repo\n\n%s\n" % (nf, f))
    print("### Appendix C — seeded-change trials: %d kept, %d caught\n\n%s\n" % (n, c, s))
