"""Tie A (C09): the TypedRepr-level dispatch of the four unsigned bit operators of dashu-int — every
`impl BitAnd|BitOr|BitXor|AndNot<TypedRepr|TypedReprRef> for TypedRepr|TypedReprRef` of `integer/src/bits.rs` (`mod repr`) —
regenerated into lean/Dashu/Gen/BitDispatch.lean.  Loaded by `vlib/extract.py::gen_bit_dispatch` (which passes its own module object).
The impl-header / match-arm reader follows vlib/extract_intdispatch.py (C01); the arm language is the one of bits.rs.

What is translated (FAIL CLOSED outside the subset — anything else raises ExtractError with file:line):
  * the body is `match (self, rhs) { four arms over Small/Large (RefSmall/RefLarge) }` or the commutative forwarding
    `rhs.<method>(self)` (then the definition calls the definition of the swapped ownership form with swapped operands);
  * an arm is
      Repr::from_dword(A OP [!]B)          OP in & | ^ ; A, B: a Small pattern variable, `lowest_dword(v)` or `v.lowest_dword()`
                                           of a Large pattern variable (CHECKED: `none` on fewer than two words — the Buffer method
                                           asserts it, the slice function debug-asserts it); `!` is the double-word complement
      f(args)                              f one of the word loops regenerated in Gen/BitOpsHeap (bitand_large, bitor_large(_dword), …),
                                           arguments pattern variables, optionally `&x` / `x.into()` (both erased: a borrowed slice
                                           and an owned buffer are the same word list); operand kinds are checked against f's
      { if x.len() <cmp> y.len() { arm } else { arm } }
One Lean definition per impl: `BitAnd_val_ref W U self rhs : Option TRepr` (`val` / `ref` = TypedRepr / TypedReprRef, left_right).
`Props/GenBitDispatch.lean` proves all sixteen equal to the hand model's `TRepr.bitand / bitor / bitxor / andNot` (the definitions
the driver executes) on operands whose heap form has at least two words."""
import re, hashlib

TRAITS = {"BitAnd": "bitand", "BitOr": "bitor", "BitXor": "bitxor", "AndNot": "and_not"}
CALLEES = {"bitand_large": ("large", "large"), "bitor_large": ("large", "large"), "bitxor_large": ("large", "large"),
           "and_not_large": ("large", "large"), "bitor_large_dword": ("large", "small"), "bitxor_large_dword": ("large", "small"),
           "and_not_large_dword": ("large", "small")}
KIND = {"Small": "small", "RefSmall": "small", "Large": "large", "RefLarge": "large"}
CMP = {">=": "≥", "<=": "≤", ">": ">", "<": "<"}
OPS = {"&": "&&&", "|": "|||", "^": "^^^"}


def generate(X):
    ExtractError = X.ExtractError
    rel = "integer/src/bits.rs"
    src = X.read(rel)

    def sha(text):
        t = re.sub(r"//[^\n]*", "", text)
        return hashlib.sha1(re.sub(r"\s+", " ", t).strip().encode()).hexdigest()[:12]

    m = re.search(r"\nmod\s+repr\s*\{", src)
    if not m:
        raise ExtractError("%s: `mod repr {` not found" % rel)
    b0 = src.index("{", m.end() - 1)
    base, text = b0 + 1, src[b0 + 1:X.balanced(src, b0) - 1]

    class Toks:
        def __init__(self, toks, what):
            self.t, self.i, self.what = toks, 0, what

        def peek(self, k=0):
            return self.t[self.i + k][1] if self.i + k < len(self.t) else "<eof>"

        def next(self):
            v = self.peek()
            self.i += 1
            return v

        def expect(self, v):
            g = self.next()
            if g != v:
                raise ExtractError("%s: expected `%s`, found `%s`" % (self.what, v, g))

        def ident(self):
            if self.i >= len(self.t) or self.t[self.i][0] != "id":
                raise ExtractError("%s: identifier expected, found `%s`" % (self.what, self.peek()))
            return self.next()

        def done(self):
            return self.i >= len(self.t)

    def operand(tk, env, pre, cnt):
        """a double-word operand of `Repr::from_dword(A OP B)` -> Lean term; checked reads are appended to `pre`"""
        if tk.peek() == "lowest_dword" and tk.peek(1) == "(":
            tk.next(); tk.next()
            v = tk.ident(); tk.expect(")")
            form = "fn"
        else:
            v = tk.ident()
            form = "var"
            if tk.peek() == ".":
                tk.next(); tk.expect("lowest_dword"); tk.expect("("); tk.expect(")")
                form = "method"
        if v not in env:
            raise ExtractError("%s: operand `%s` is not a pattern variable" % (tk.what, v))
        if form == "var":
            if env[v] != "small":
                raise ExtractError("%s: `%s` used as a double word but bound by a Large pattern" % (tk.what, v))
            return v
        if env[v] != "large":
            raise ExtractError("%s: lowest_dword of `%s`, which is not bound by a Large pattern" % (tk.what, v))
        cnt[0] += 1
        t = "t_%d" % cnt[0]
        pre.append("let %s ← lowest_dword W %s" % (t, v))
        return t

    def parse_arm(tk, env, ind):
        """-> list of Lean lines (a term of type `Option TRepr`, possibly a `do` block)"""
        if tk.peek() == "{" and tk.peek(1) != "if":
            tk.next()
            e = parse_arm(tk, env, ind)
            tk.expect("}")
            return e
        if tk.peek() == "{":
            tk.next(); tk.expect("if")
            a = tk.ident(); tk.expect("."); tk.expect("len"); tk.expect("("); tk.expect(")")
            op = tk.next()
            if op not in CMP:
                raise ExtractError("%s: comparison `%s` outside the subset" % (tk.what, op))
            b = tk.ident(); tk.expect("."); tk.expect("len"); tk.expect("("); tk.expect(")")
            for v in (a, b):
                if env.get(v) != "large":
                    raise ExtractError("%s: `%s.len()` of something that is not a Large pattern variable" % (tk.what, v))
            tk.expect("{")
            e1 = parse_arm(tk, env, ind + "  ")
            tk.expect("}"); tk.expect("else"); tk.expect("{")
            e2 = parse_arm(tk, env, ind + "  ")
            tk.expect("}"); tk.expect("}")
            return ["if %s.length %s %s.length then" % (a, CMP[op], b)] + [ind + "  " + l for l in e1] + [ind + "else"] + [ind + "  " + l for l in e2]
        f = tk.ident()
        if f == "Repr":
            tk.expect("::"); tk.expect("from_dword"); tk.expect("(")
            pre, cnt = [], [0]
            a = operand(tk, env, pre, cnt)
            op = tk.next()
            if op not in OPS:
                raise ExtractError("%s: operator `%s` inside from_dword outside the subset" % (tk.what, op))
            neg = False
            if tk.peek() == "!":
                tk.next(); neg = True
            b = operand(tk, env, pre, cnt)
            tk.expect(")")
            val = "pure (TRepr.small (%s %s %s))" % (a, OPS[op], "MachInt.not (2 * W) %s" % b if neg else b)
            if not pre:
                return [val]
            return ["do"] + [ind + "  " + l for l in pre] + [ind + "  " + val]
        if f not in CALLEES:
            raise ExtractError("%s: callee `%s` is not one of the regenerated word loops" % (tk.what, f))
        tk.expect("(")
        args, kinds = [], []
        while tk.peek() != ")":
            if tk.peek() == "&":
                tk.next()
            v = tk.ident()
            if v not in env:
                raise ExtractError("%s: argument `%s` of `%s` is not a pattern variable" % (tk.what, v, f))
            if tk.peek() == ".":
                tk.next(); tk.expect("into"); tk.expect("("); tk.expect(")")
            args.append(v); kinds.append(env[v])
            if tk.peek() == ",":
                tk.next()
        tk.expect(")")
        if tuple(kinds) != CALLEES[f]:
            raise ExtractError("%s: `%s` called with operand kinds %s" % (tk.what, f, kinds))
        return ["%s W U %s" % (f, " ".join(args))]

    hdr = re.compile(r"impl\s*(?:<[^>]*>)?\s*(\w+)\s*<\s*(TypedReprRef|TypedRepr)\s*(?:<[^>]*>)?\s*>\s*for\s*"
                     r"(TypedReprRef|TypedRepr)\s*(?:<[^>]*>)?\s*\{")
    impls, pos = [], 0
    while True:
        m = hdr.search(text, pos)
        if not m:
            break
        h0 = m.end() - 1
        h1 = X.balanced(text, h0)
        pos = h1
        trait, rhs_ty, lhs_ty = m.group(1), m.group(2), m.group(3)
        where = "%s:%d" % (rel, X.line_of(src, base + m.start()))
        if trait not in TRAITS:
            raise ExtractError("%s: impl of `%s` on TypedRepr in `mod repr` — trait outside the subset" % (where, trait))
        it = {"trait": trait, "lhs": lhs_ty, "rhs": rhs_ty, "where": where,
              "form": ("ref" if lhs_ty == "TypedReprRef" else "val") + "_" + ("ref" if rhs_ty == "TypedReprRef" else "val"),
              "lines": (X.line_of(src, base + m.start()), X.line_of(src, base + h1 - 1)),
              "header": re.sub(r"\s+", " ", text[m.start():h0]).strip(), "text": text[m.start():h1]}
        body = re.sub(r"//[^\n]*", "", text[h0:h1])
        fm = re.search(r"\bfn\s+(\w+)\s*\(\s*self\s*,\s*rhs\s*:\s*[^)]*\)\s*->\s*Repr\s*\{", body)
        if not fm or fm.group(1) != TRAITS[trait]:
            raise ExtractError("%s: `fn %s(self, rhs: _) -> Repr` not found" % (where, TRAITS[trait]))
        f0 = fm.end() - 1
        f1 = X.balanced(body, f0)
        it["fn_body"] = body[f0 + 1:f1 - 1]
        rest = re.sub(r"type\s+Output\s*=\s*Repr\s*;|#\[inline\]", "", body[1:fm.start()] + body[f1:-1]).strip()
        if rest:
            raise ExtractError("%s: unexpected items in the impl: %r" % (where, rest[:60]))
        impls.append(it)

    def translate(it):
        tk = Toks(X.tokenize(it["fn_body"]), it["where"])
        if tk.peek() == "rhs":
            tk.next(); tk.expect("."); mth = tk.ident(); tk.expect("("); tk.expect("self"); tk.expect(")")
            if not tk.done() or mth != TRAITS[it["trait"]]:
                raise ExtractError("%s: forwarding body is not `rhs.%s(self)`" % (it["where"], TRAITS[it["trait"]]))
            a, b = it["form"].split("_")
            it["forward"] = b + "_" + a
            return ["%s_%s W U rhs self" % (it["trait"], it["forward"])]
        it["forward"] = None
        for v in ("match", "(", "self", ",", "rhs", ")", "{"):
            tk.expect(v)
        arms = {}
        while tk.peek() != "}":
            tk.expect("(")
            pats, env = [], {}
            for side in (0, 1):
                c = tk.ident()
                if c not in KIND:
                    raise ExtractError("%s: pattern constructor `%s` outside the subset" % (it["where"], c))
                if c.startswith("Ref") != ((it["lhs"] if side == 0 else it["rhs"]) == "TypedReprRef"):
                    raise ExtractError("%s: pattern `%s` does not fit the operand type" % (it["where"], c))
                tk.expect("(")
                v = tk.ident()
                tk.expect(")")
                if v in env:
                    raise ExtractError("%s: pattern variable `%s` bound twice" % (it["where"], v))
                env[v] = KIND[c]
                pats.append((KIND[c], v))
                if side == 0:
                    tk.expect(",")
            tk.expect(")"); tk.expect("=>")
            term = parse_arm(tk, env, "      ")
            if tk.peek() == ",":
                tk.next()
            key = (pats[0][0], pats[1][0])
            if key in arms:
                raise ExtractError("%s: two arms for (%s, %s)" % (it["where"], key[0], key[1]))
            arms[key] = (pats, term)
        tk.expect("}")
        if not tk.done():
            raise ExtractError("%s: statements after the match" % it["where"])
        lines = ["match self, rhs with"]
        for key in (("small", "small"), ("small", "large"), ("large", "small"), ("large", "large")):
            if key not in arms:
                raise ExtractError("%s: no arm for (%s, %s)" % (it["where"], key[0], key[1]))
            pats, term = arms[key]
            lines.append("    | .%s %s, .%s %s => %s" % (pats[0][0], pats[0][1], pats[1][0], pats[1][1], term[0]))
            lines.extend(term[1:])
        return lines

    out = ["import Dashu.Gen.BitOpsHeap",
           "/-! GENERATED by vlib/extract.py (vlib/extract_bitdispatch.py) from /repo — do not edit.  C09: the TypedRepr-level dispatch of",
           "    `&`, `|`, `^`, `and_not` (`integer/src/bits.rs`, `mod repr`): one definition per ownership form (`ref` = TypedReprRef,",
           "    `val` = TypedRepr, left_right) over the word loops regenerated in `Gen/BitOpsHeap.lean`.  `none` = a failing callee or a",
           "    `lowest_dword` of fewer than two words. -/",
           "namespace Dashu.Gen.BitDispatch",
           "open Dashu.GluePrelude Dashu.Gen.BitOpsHeap Dashu.Model",
           "set_option linter.unusedVariables false", "",
           "/-- `Buffer::lowest_dword()` (asserts `len >= 2`) / `primitive::lowest_dword(words)` (debug-asserts it): `double_word(w[0], w[1])` -/",
           "def lowest_dword (W : Nat) (ws : List Nat) : Option Nat :=",
           "  match ws with",
           "  | lo :: hi :: _ => some (MachInt.double_word W lo hi)",
           "  | _ => none", ""]
    info = {}
    for trait in TRAITS:
        mine = [it for it in impls if it["trait"] == trait]
        forms = sorted(it["form"] for it in mine)
        if forms != ["ref_ref", "ref_val", "val_ref", "val_val"]:
            raise ExtractError("%s: `%s` on TypedRepr/TypedReprRef: expected the four ownership forms, found %s" % (rel, trait, forms))
        bodies = {it["form"]: translate(it) for it in mine}
        for it in sorted(mine, key=lambda it: (it["forward"] is not None, it["form"])):
            name = "%s_%s" % (trait, it["form"])
            out.append("/-- `%s` — %s:%d-%d, sha1 %s -/" % (it["header"], rel, it["lines"][0], it["lines"][1], sha(it["text"])))
            out.append("def %s (W U : Nat) (self rhs : TRepr) : Option TRepr :=\n    %s\n" % (name, "\n".join(bodies[it["form"]])))
            info["BitDispatch." + name] = sha(it["text"])
    out.append("end Dashu.Gen.BitDispatch")
    return "\n".join(out) + "\n", info


# ---------------------------------------------------------------------------------------------------------------- shifts (round 6)
SHIFT_CALLEES = {  # callee -> (kind of its first argument, Lean call text over `W U <arg> rhs`)
    "shl_dword": ("small", "shl_dword_repr W U %s rhs"),
    "shr_dword": ("small", "(Dashu.Gen.BitsSmall.shr_dword W U %s rhs).map TRepr.small"),
    "shl_large": ("large", "shl_large W U %s rhs cap"),
    "shl_large_ref": ("large", "shl_large_ref W U %s rhs"),
    "shr_large": ("large", "shr_large W U %s rhs"),
    "shr_large_ref": ("large", "shr_large_ref W U %s rhs"),
}


def generate_shift(X):
    """the four `impl Shl<usize>|Shr<usize> for TypedRepr|TypedReprRef` of integer/src/shift_ops.rs (`mod repr`) -> Gen/ShiftDispatch.lean:
    `match self { [Small(0) => Repr::zero(),] Small(dword) => f(dword, rhs), Large(x) => g(x, rhs) }` (RefSmall / RefLarge for the
    borrowed operand); f, g must be functions regenerated in Gen/ShiftHeap (`shl_dword` as `shl_dword_repr`) / Gen/BitsSmall
    (`shr_dword`), called with exactly the pattern variable and `rhs`.  `cap` = `buffer.capacity()` of the owned operand of `<<`
    (`shl_large` branches on it; the theorems hold for every `cap`).  Fails closed on anything else."""
    ExtractError = X.ExtractError
    rel = "integer/src/shift_ops.rs"
    src = X.read(rel)
    m = re.search(r"\bmod\s+repr\s*\{", src)
    if not m:
        raise ExtractError("%s: `mod repr {` not found" % rel)
    b0 = src.index("{", m.end() - 1)
    base, text = b0 + 1, src[b0 + 1:X.balanced(src, b0) - 1]
    out = ["import Dashu.Gen.ShiftHeap", "import Dashu.Gen.BitsSmall",
           "/-! GENERATED by vlib/extract.py (vlib/extract_bitdispatch.py) from /repo — do not edit.  C09: the TypedRepr-level dispatch of `<<` and",
           "    `>>` by a `usize` (`integer/src/shift_ops.rs`, `mod repr`): one definition per operand form (`val` = TypedRepr, `ref` = TypedReprRef)",
           "    over the functions regenerated in `Gen/ShiftHeap.lean` / `Gen/BitsSmall.lean`; `cap` = the capacity of the owned buffer. -/",
           "namespace Dashu.Gen.ShiftDispatch",
           "open Dashu.GluePrelude Dashu.Gen.ShiftHeap Dashu.Model",
           "set_option linter.unusedVariables false", ""]
    info = {}
    hdr = re.compile(r"impl\s*(?:<[^>]*>)?\s*(\w+)\s*<\s*usize\s*>\s*for\s*(TypedReprRef|TypedRepr)\s*(?:<[^>]*>)?\s*\{")
    seen, pos = set(), 0
    while True:
        m = hdr.search(text, pos)
        if not m:
            break
        h0 = m.end() - 1
        h1 = X.balanced(text, h0)
        pos = h1
        trait, ty = m.group(1), m.group(2)
        line0, line1 = X.line_of(src, base + m.start()), X.line_of(src, base + h1 - 1)
        where = "%s:%d" % (rel, line0)
        if trait not in ("Shl", "Shr"):
            raise ExtractError("%s: impl of `%s<usize>` on %s in `mod repr` — trait outside the subset" % (where, trait, ty))
        ref = ty == "TypedReprRef"
        name = "%s_%s" % (trait, "ref" if ref else "val")
        if name in seen:
            raise ExtractError("%s: second impl of %s<usize> for %s" % (where, trait, ty))
        seen.add(name)
        body = re.sub(r"//[^\n]*", "", text[h0:h1])
        fm = re.search(r"\bfn\s+(\w+)\s*\(\s*self\s*,\s*rhs\s*:\s*usize\s*\)\s*->\s*Repr\s*\{", body)
        if not fm or fm.group(1) != trait.lower():
            raise ExtractError("%s: `fn %s(self, rhs: usize) -> Repr` not found" % (where, trait.lower()))
        f0 = fm.end() - 1
        f1 = X.balanced(body, f0)
        rest = re.sub(r"type\s+Output\s*=\s*Repr\s*;|#\[inline\]", "", body[1:fm.start()] + body[f1:-1]).strip()
        if rest:
            raise ExtractError("%s: unexpected items in the impl: %r" % (where, rest[:60]))
        toks = [v for _, v in X.tokenize(body[f0 + 1:f1 - 1])]
        P = "Ref" if ref else ""
        i = [0]

        def eat(*vs):
            for v in vs:
                if i[0] >= len(toks) or toks[i[0]] != v:
                    raise ExtractError("%s: expected `%s`, found `%s`" % (where, v, toks[i[0]] if i[0] < len(toks) else "<eof>"))
                i[0] += 1

        eat("match", "self", "{")
        lines = ["match self with"]
        uses_cap = False
        if toks[i[0]:i[0] + 4] == [P + "Small", "(", "0", ")"]:
            eat(P + "Small", "(", "0", ")", "=>", "Repr", "::", "zero", "(", ")", ",")
            lines.append("    | .small 0 => pure (TRepr.small 0)")
        for kind, ctor in (("small", P + "Small"), ("large", P + "Large")):
            eat(ctor, "(")
            v = toks[i[0]]
            if not re.fullmatch(r"[a-z_]\w*", v):
                raise ExtractError("%s: pattern variable expected in `%s(…)`, found `%s`" % (where, ctor, v))
            i[0] += 1
            eat(")", "=>")
            f = toks[i[0]]
            if f not in SHIFT_CALLEES or SHIFT_CALLEES[f][0] != kind:
                raise ExtractError("%s: arm `%s(%s)` calls `%s`, not one of the regenerated functions for this operand kind" % (where, ctor, v, f))
            i[0] += 1
            eat("(", v, ",", "rhs", ")", ",")
            call = SHIFT_CALLEES[f][1] % v
            uses_cap = uses_cap or " cap" in call
            lines.append("    | .%s %s => %s" % (kind, v, call))
        eat("}")
        if i[0] != len(toks):
            raise ExtractError("%s: statements after the match" % where)
        itext = text[m.start():h1]
        sha = hashlib.sha1(re.sub(r"\s+", " ", re.sub(r"//[^\n]*", "", itext)).strip().encode()).hexdigest()[:12]
        out.append("/-- `%s` — %s:%d-%d, sha1 %s -/" % (re.sub(r"\s+", " ", text[m.start():h0]).strip(), rel, line0, line1, sha))
        out.append("def %s (W U : Nat) (self : TRepr) (rhs%s : Nat) : Option TRepr :=\n    %s\n" % (name, " cap" if uses_cap else "", "\n".join(lines)))
        info["ShiftDispatch." + name] = sha
    if seen != {"Shl_val", "Shl_ref", "Shr_val", "Shr_ref"}:
        raise ExtractError("%s: expected Shl/Shr<usize> for TypedRepr and TypedReprRef, found %s" % (rel, sorted(seen)))
    out.append("end Dashu.Gen.ShiftDispatch")
    return "\n".join(out) + "\n", info
