"""C19 helper: build the harness worker `exec_cfg` in several build configurations.

Configuration name: `w<bits>-<std|nostd>-<dev|rel>`
  bits   64 = native words, 32 = RUSTFLAGS `--cfg force_bits="32"`, 16 = `--cfg force_bits="16"`
  std    harness features `std,num-order,serde`;  nostd = `num-order,serde` (dashu crates without `std`
         => base/src/math/log.rs uses the table-driven log2 estimator)
  dev    cargo dev profile (debug assertions and overflow checks on);  rel = --release (both off)

The eight supported configurations and the unsupported one are cached under /verif/.cache/cfg-<name> (incremental rebuilds;
`./setup.sh` pre-builds them); any other configuration is built under a `mktemp -d` directory that is removed when the process exits.
`build(confs)` returns (manifest path, info): the manifest has one line per configuration,
`<conf> <path to exec_cfg>` or `<conf> !<reason>` when the configuration does not build; the front
binary `exec_cfg` reads it (env DASHU_CFG_MANIFEST)."""
import atexit, os, re, shutil, tempfile, time
from concurrent.futures import ThreadPoolExecutor
from vlib import core

QUICK = ["w64-std-dev", "w32-std-rel", "w64-nostd-dev"]
ALL = ["w%d-%s-%s" % (w, s, p) for w in (64, 32) for s in ("std", "nostd") for p in ("dev", "rel")]
UNSUPPORTED = "w16-std-dev"          # known not to compile on this host (finding)
_tmp_root = None


def parse(conf):
    m = re.fullmatch(r"w(16|32|64)-(std|nostd)-(dev|rel)", conf)
    if not m:
        raise ValueError("bad configuration name %r" % conf)
    return int(m.group(1)), m.group(2) == "std", m.group(3) == "dev"


def _tmp():
    global _tmp_root
    if _tmp_root is None:
        _tmp_root = tempfile.mkdtemp(prefix="dashu-cfg-")
        atexit.register(shutil.rmtree, _tmp_root, True)
    return _tmp_root


def target_dir(conf):
    # every supported configuration keeps its target directory under .cache (incremental rebuilds: on a loaded machine a
    # from-scratch build of one worker takes tens of minutes); only the configuration known not to compile is built in a
    # scratch directory
    # (round 6: the unsupported configuration too - its dependencies compile once, the failing crate is retried in seconds)
    if conf in QUICK or conf in ALL or conf == UNSUPPORTED:
        return os.path.join(core.CACHE, "cfg-" + conf)
    return os.path.join(_tmp(), "cfg-" + conf)


def build_one(conf):
    w, std, dev = parse(conf)
    cfgs = ["dashu_verif", "cfg_worker"] + ([] if w == 64 else ['force_bits="%d"' % w])
    if not dev:
        # what the release axis is about: debug assertions and overflow checks off (profile.release of the harness).
        # The optimisation level is irrelevant to it and opt-level 3 of all ops modules costs minutes on a loaded
        # machine: lower it (appended to RUSTFLAGS after cargo's own -C opt-level, so it wins)
        cfgs[-1] = cfgs[-1] + " -C opt-level=1"
    feats = "std,num-order,serde" if std else "num-order,serde"
    # In a trial (VERIF_REPO = scratch copy) core.cargo_build creates a shadow manifest directory on first use
    # (`if not islink: os.symlink`); the configurations are built in parallel, so two threads can both find the link missing
    # and the loser raises FileExistsError / FileNotFoundError - which used to end the whole check with a traceback (exit 1, no verdict line;
    # seen with seeded/C19-7).  Retry (the link exists by then); any other exception is this configuration's build failure.
    for attempt in range(6):
        try:
            rc, out, bindir, dt = core.cargo_build(profile="dev" if dev else "release", cfgs=tuple(cfgs), features=feats,
                                                   target_sub=target_dir(conf), bins=["exec_cfg"])
            break
        except (FileExistsError, FileNotFoundError):
            # (FileNotFoundError: two threads writing the same shadow file through a temporary name, `os.replace` of the loser -
            # seen in the trial of seeded/C19-7; once one writer is through, the files are found unchanged and nobody writes)
            time.sleep(0.3 * (attempt + 1))
            continue
        except Exception as e:
            return conf, "!exception_" + re.sub(r"[^A-Za-z0-9_.:/\-]+", "_", repr(e))[:150], 0.0, repr(e)
    else:
        return conf, "!exception_shadow_manifest_race", 0.0, ""
    exe = os.path.join(bindir, "exec_cfg")
    if rc != 0 or not os.path.exists(exe):
        errs = [l for l in out.splitlines() if l.startswith("error")]
        first = errs[0] if errs else (out.splitlines()[-1] if out else "unknown")
        # where: first ` --> file:line` after the first error
        loc = ""
        seen = False
        for l in out.splitlines():
            if l.startswith("error"):
                seen = True
            m = re.match(r"\s+--> (\S+)", l)
            if seen and m:
                loc = m.group(1)
                break
        reason = re.sub(r"[^A-Za-z0-9_.:/\-\[\]]+", "_", (first + "@" + loc))[:200]
        return conf, "!" + reason, dt, out
    return conf, exe, dt, out


def build(confs, jobs=4):
    t0 = time.time()
    with ThreadPoolExecutor(max_workers=jobs) as ex:
        res = list(ex.map(build_one, confs))
    mdir = tempfile.mkdtemp(prefix="dashu-cfg-manifest-")
    atexit.register(shutil.rmtree, mdir, True)
    mpath = os.path.join(mdir, "manifest.txt")
    with open(mpath, "w") as f:
        for conf, where, dt, out in res:
            f.write("%s %s\n" % (conf, where))
    info = {"configurations": {conf: {"built": not where.startswith("!"), "seconds": round(dt, 1),
                                      "detail": where if where.startswith("!") else ""} for conf, where, dt, out in res},
            "build_wall_s": round(time.time() - t0, 1)}
    return mpath, info
