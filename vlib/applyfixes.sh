#!/bin/bash
# usage: vlib/applyfixes.sh <list file>   — each line: <patch file under proposed_fixes>|<commit message starting "fix:">
# Applies each patch to /repo as ONE unguarded commit, runs the pinned suite (cargo test --workspace --no-fail-fast --offline)
# after each; a failing suite or a patch that does not apply stops the script with /repo restored to the last good commit.
set -u
LIST=$1
export CARGO_NET_OFFLINE=true
cd /repo
while IFS='|' read -r patch msg; do
  [ -z "$patch" ] && continue
  p=/verif/proposed_fixes/$patch
  if ! git apply --check "$p" 2>/tmp/applyfix.err; then echo "SKIP (does not apply) $patch: $(head -1 /tmp/applyfix.err)"; continue; fi
  git apply "$p"
  if cargo test --workspace --no-fail-fast --offline > /tmp/applyfix_suite.log 2>&1; then
    n=$(grep -h '^test result' /tmp/applyfix_suite.log | awk '{s+=$4; f+=$6} END {print s" passed "f" failed"}')
    git commit -qam "$msg"
    echo "APPLIED $(git rev-parse --short HEAD) $patch ($n)"
  else
    echo "SUITE FAILED with $patch — reverted"; grep -h 'FAILED\|failed' /tmp/applyfix_suite.log | head -5
    git checkout -- .
  fi
done < "$LIST"
