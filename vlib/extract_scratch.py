"""Tie A (C01, with targets proposed by C17): the scratch-memory formulas and buffer-size decisions of dashu-int,
regenerated from /repo into lean/Dashu/Gen/Scratch.lean.

Loaded by `vlib/extract.py::gen_scratch` (which passes its own module object, so nothing is imported circularly).

What is translated (statement by statement, FAIL CLOSED outside the subset):
  * `memory_requirement_*` of mul/{mod,karatsuba,toom_3}.rs, sqr/mod.rs, div/{mod,divide_conquer}.rs, root.rs.
    A `Layout` is represented by its size in `Word`s: `memory::zero_layout()` = 0, `memory::array_layout::<Word>(n)` = n,
    `memory::max_layout(a, b)` = max a b, `memory::add_layout(a, b)` = a + b (both operands are `Word` arrays or empty, so
    `Layout::extend` inserts no padding).  `usize` arithmetic is taken over `Nat` (`-` truncated; the bodies subtract only
    under their own `assert!`, which is emitted as a separate `_asserts` definition).  `math::ceil_log2` is a PARAMETER
    (`ceil_log2 : Nat → Nat`; its own body is regenerated and proved by C09, Gen/MathHelpers.lean).
    Thresholds are the regenerated constants of Gen/Misc.lean.
  * `shift_ops.rs repr::shl_large`: `shift_words` and the guard that abandons the in-place path; `shl_large_ref`'s
    `Buffer::allocate` size.
  * `pow.rs repr::pow_word_base`: the `exp < wexp` / `exp < 2 * wexp` split, the `Buffer::allocate` size and the scratch
    layout; `pow_dword_base` likewise.
"""
import re, hashlib


def generate(X):
    ExtractError = X.ExtractError
    CONST_OF = dict(((rel, name), lean) for rel, name, lean in X.CONSTANTS)

    # (file, fn, module name used in call paths, Lean name)
    FNS = [
        ("integer/src/mul/karatsuba.rs", "memory_requirement_up_to", "karatsuba"),
        ("integer/src/mul/toom_3.rs", "memory_requirement_up_to", "toom_3"),
        ("integer/src/mul/mod.rs", "memory_requirement_up_to", "mul"),
        ("integer/src/mul/mod.rs", "memory_requirement_exact", "mul"),
        ("integer/src/sqr/mod.rs", "memory_requirement_exact", "sqr"),
        ("integer/src/div/divide_conquer.rs", "memory_requirement_exact", "divide_conquer"),
        ("integer/src/div/mod.rs", "memory_requirement_exact", "div"),
        ("integer/src/root.rs", "memory_requirement_sqrt_rem", "root"),
        # C17 (round 5): scratch blocks of gcd_large / gcd_ext_large
        ("integer/src/gcd/lehmer.rs", "memory_requirement_up_to", "lehmer"),
        ("integer/src/gcd/lehmer.rs", "memory_requirement_ext_up_to", "lehmer"),
        ("integer/src/gcd/mod.rs", "memory_requirement_exact", "gcd"),
        ("integer/src/gcd/mod.rs", "memory_requirement_ext_exact", "gcd"),
    ]
    known = {}          # (module, fn) -> (lean name, number of params)

    def strip_comments(s):
        s = re.sub(r"/\*.*?\*/", "", s, flags=re.S)
        return re.sub(r"//[^\n]*", "", s)

    def sha(text):
        return hashlib.sha1(re.sub(r"\s+", " ", strip_comments(text)).strip().encode()).hexdigest()[:12]

    class Tr:
        """expressions over Nat; conditions as Prop"""
        def __init__(self, what, rel, module, env, mvars=None, names=None):
            self.what, self.rel, self.module = what, rel, module
            self.env = set(env)
            self.mvars = mvars or {}
            self.names = names or {}
            self.uses_ceil = False

        def fail(self, msg):
            raise ExtractError("%s: %s" % (self.what, msg))

        def nat(self, e):
            k = e[0]
            if k == "num":
                return str(int(re.sub(r"(?:[iu](?:8|16|32|64|128|size))$", "", e[1]).replace("_", ""), 0))
            if k == "path":
                p = e[1]
                if len(p) == 1 and p[0].lstrip("_") in self.env:
                    return X.ident(p[0].lstrip("_"))
                if len(p) == 1 and p[0] in self.names:
                    return self.names[p[0]]
                if len(p) == 1 and re.fullmatch(r"[A-Z][A-Z0-9_]*", p[0]):
                    key = (self.rel, p[0])
                    if key not in CONST_OF:
                        self.fail("constant `%s` of %s is not among the regenerated constants" % (p[0], self.rel))
                    X.const_value(X.read(self.rel), p[0], self.rel)       # must still be a literal constant there
                    return "Dashu.Gen." + CONST_OF[key]
                self.fail("name `%s` outside the subset" % "::".join(p))
            if k == "bin" and e[1] in ("+", "-", "*", "/"):
                return "(%s %s %s)" % (self.nat(e[2]), e[1], self.nat(e[3]))
            if k == "mcall":
                if e[1][0] == "path" and len(e[1][1]) == 1 and (e[1][1][0], e[2]) in self.mvars and not e[3]:
                    return self.mvars[(e[1][1][0], e[2])]
                if e[2] in ("min", "max") and len(e[3]) == 1:
                    return "(%s %s %s)" % (e[2], self.nat(e[1]), self.nat(e[3][0]))
                if e[2] in ("checked_add", "checked_mul") and len(e[3]) == 1:
                    # only reached below `.unwrap_or_else(|| panic_allocate_too_much())` (see pow): the checked result
                    return "(%s %s %s)" % (self.nat(e[1]), "+" if e[2] == "checked_add" else "*", self.nat(e[3][0]))
                self.fail("method `.%s` outside the subset" % e[2])
            if k == "call" and e[1][0] == "path":
                p, args = e[1][1], e[2]
                tail = tuple(p[-2:]) if len(p) >= 2 else (None, p[-1])
                if p[-1] == "zero_layout" and not args and (len(p) == 1 or p[-2] == "memory"):
                    return "0"
                if p[-1] == "array_layout" and len(args) == 1 and (len(p) == 1 or p[-2] == "memory"):
                    return self.nat(args[0])
                if p[-1] == "max_layout" and len(args) == 2 and (len(p) == 1 or p[-2] == "memory"):
                    return "(max %s %s)" % (self.nat(args[0]), self.nat(args[1]))
                if p[-1] == "add_layout" and len(args) == 2 and (len(p) == 1 or p[-2] == "memory"):
                    return "(%s + %s)" % (self.nat(args[0]), self.nat(args[1]))
                if p[-1] == "ceil_log2" and len(args) == 1 and (len(p) == 1 or p[-2] == "math"):
                    self.uses_ceil = True
                    return "(ceil_log2 %s)" % self.nat(args[0])
                mod = p[-2] if len(p) >= 2 else self.module
                if len(p) <= 2 and (mod, p[-1]) in known:
                    lean, n = known[(mod, p[-1])]
                    if n != len(args):
                        self.fail("call of %s::%s with %d arguments" % (mod, p[-1], len(args)))
                    self.uses_ceil = True
                    return "(%s ceil_log2 %s)" % (lean, " ".join(self.nat(a) for a in args))
                self.fail("call of `%s` outside the subset" % "::".join(p))
            if k == "if":
                if e[3] is None:
                    self.fail("`if` without `else` as a value")
                return "(if %s then %s else %s)" % (self.prop(e[1]), self.blk(e[2]), self.blk(e[3]) if e[3][0] == "block" else self.nat(e[3]))
            if k == "block":
                return self.blk(e)
            self.fail("expression form `%s` outside the subset" % k)

        def prop(self, e):
            if e[0] == "bin":
                op = e[1]
                if op in ("<", "<=", ">", ">=", "==", "!="):
                    lop = {"<": "<", "<=": "≤", ">": ">", ">=": "≥", "==": "=", "!=": "≠"}[op]
                    return "(%s %s %s)" % (self.nat(e[2]), lop, self.nat(e[3]))
                if op in ("&&", "||"):
                    return "(%s %s %s)" % (self.prop(e[2]), "∧" if op == "&&" else "∨", self.prop(e[3]))
            self.fail("condition outside the subset")

        def blk(self, b):
            if b[0] != "block":
                self.fail("block expected")
            saved = set(self.env)
            parts = []
            for st in b[1]:
                if st[0] == "let" and st[1][0] == "pvar":
                    parts.append("let %s := %s;" % (X.ident(st[1][1]), self.nat(st[2])))
                    self.env.add(st[1][1])
                elif st[0] == "let" and st[1][0] == "pwild" and st[2][0] == "path" and len(st[2][1]) == 1 \
                        and st[2][1][0].lstrip("_") in self.env:
                    pass                                    # `let _ = <parameter>;` (silences an unused parameter): no effect
                else:
                    self.fail("statement `%s` outside the subset" % st[0])
            if b[2] is None:
                self.fail("block without a result")
            r = self.nat(b[2])
            self.env = saved
            return ("(" + " ".join(parts) + " " + r + ")") if parts else r

    out = ["import Dashu.Gen.Misc",
           "/-! GENERATED by vlib/extract.py (vlib/extract_scratch.py) from /repo — do not edit.  Scratch-memory formulas",
           "    (`memory_requirement_*`, a `Layout` as its size in `Word`s; `math::ceil_log2` is the parameter `ceil_log2`) and",
           "    buffer-size decisions of `shl_large` / `pow_word_base` / `pow_dword_base`. -/",
           "namespace Dashu.Gen.Scratch", "set_option linter.unusedVariables false", ""]
    info = {}

    def check_word_layouts(text, what):
        for t in re.findall(r"array_layout\s*::\s*<\s*([^>]+?)\s*>", text):
            if t != "Word":
                raise ExtractError("%s: array_layout::<%s> — only `Word` arrays are in the subset" % (what, t))
        if re.search(r"array_layout\s*\(", text):
            raise ExtractError("%s: array_layout without an explicit element type" % what)

    for rel, fn, module in FNS:
        src = X.read(rel)
        it = X.fn_item(src, fn, rel=rel)
        what = "%s `%s`" % (rel, fn)
        if (it["ret"] or "").strip() != "Layout":
            raise ExtractError("%s: result type `%s`, expected Layout" % (what, it["ret"]))
        params = []
        for pn, ty in it["params"]:
            if ty != "usize":
                raise ExtractError("%s: parameter %s: %s outside the subset" % (what, pn, ty))
            params.append(pn.lstrip("_"))
        body = strip_comments(it["body"])
        check_word_layouts(body, what)
        # `assert!(cond);` statements at the top of the body become the `_asserts` definition
        asserts = []

        def take_assert(m):
            asserts.append(m.group(1))
            return ""
        body2 = re.sub(r"\bassert!\(([^;]*)\);", take_assert, body)
        if "assert!" in body2.replace("debug_assert!", ""):
            raise ExtractError("%s: an assertion the translator cannot isolate" % what)
        lean = "%s_%s" % (module, fn)
        tr = Tr(what, rel, module, params)
        try:
            ast = X.P(X.tokenize(body2)).block()
        except IndexError:
            raise ExtractError("%s: translator cannot read this body" % what)
        text = tr.blk(ast)
        h = sha(it["text"])
        sig = " ".join("(%s : Nat)" % X.ident(p) for p in params)
        out.append("/-- `%s::%s` — %s, sha1 %s (words) -/" % (module, fn, rel, h))
        out.append("def %s (ceil_log2 : Nat → Nat) %s : Nat :=\n    %s\n" % (lean, sig, text))
        if asserts:
            conds = []
            for a in asserts:
                ta = Tr(what, rel, module, params)
                conds.append("decide %s" % ta.prop(X.P(X.tokenize(a)).expr()))
            out.append("/-- the `assert!`s of `%s::%s` -/" % (module, fn))
            out.append("def %s_asserts %s : Bool :=\n    %s\n" % (lean, sig, " && ".join(conds)))
        known[(module, fn)] = (lean, len(params))
        info["Scratch." + lean] = h

    # ------------------------------------------------------------ shl_large / shl_large_ref (integer/src/shift_ops.rs)
    rel = "integer/src/shift_ops.rs"
    src = X.read(rel)
    it = X.fn_item(src, "shl_large", rel=rel)
    body = re.sub(r"\s+", " ", strip_comments(it["body"]))
    m = re.match(r"\{ let shift_words = ([^;]+); if ([^{}]+) \{ return shl_large_ref\(&buffer, rhs\); \}", body)
    if not m:
        raise ExtractError("%s `shl_large`: the prologue `let shift_words = …; if … { return shl_large_ref(&buffer, rhs); }` changed" % rel)
    names = {"WORD_BITS_USIZE": "W"}
    tr = Tr(rel + " `shl_large`", rel, "shift_ops", ["rhs"], names=names)
    sw = tr.nat(X.P(X.tokenize(m.group(1))).expr())
    tr = Tr(rel + " `shl_large`", rel, "shift_ops", ["shift_words"], mvars={("buffer", "capacity"): "capacity", ("buffer", "len"): "len"})
    guard = tr.prop(X.P(X.tokenize(m.group(2))).expr())
    h = sha(it["text"])
    out.append("/-- `shl_large`: `let shift_words = %s;` — %s, sha1 %s -/" % (m.group(1).strip(), rel, h))
    out.append("def shl_large_shift_words (W rhs : Nat) : Nat :=\n    %s\n" % sw)
    out.append("/-- `shl_large`: `if %s { return shl_large_ref(&buffer, rhs); }` (the in-place path is abandoned) -/" % m.group(2).strip())
    out.append("def shl_large_takes_ref_path (capacity len shift_words : Nat) : Bool :=\n    decide %s\n" % guard)
    info["Scratch.shl_large"] = h
    it = X.fn_item(src, "shl_large_ref", rel=rel)
    body = re.sub(r"\s+", " ", strip_comments(it["body"]))
    m = re.search(r"let mut buffer = Buffer::allocate\(([^;]+)\);", body)
    m0 = re.match(r"\{ let shift_words = ([^;]+);", body)
    if not m or not m0:
        raise ExtractError("%s `shl_large_ref`: `let shift_words = …` / `Buffer::allocate(…)` not found" % rel)
    tr = Tr(rel + " `shl_large_ref`", rel, "shift_ops", ["rhs"], names=names)
    if tr.nat(X.P(X.tokenize(m0.group(1))).expr()) != sw:
        raise ExtractError("%s: shl_large and shl_large_ref compute `shift_words` differently" % rel)
    tr = Tr(rel + " `shl_large_ref`", rel, "shift_ops", ["shift_words"], mvars={("words", "len"): "words_len"})
    alloc = tr.nat(X.P(X.tokenize(m.group(1))).expr())
    h = sha(it["text"])
    out.append("/-- `shl_large_ref`: `Buffer::allocate(%s)` — %s, sha1 %s -/" % (m.group(1).strip(), rel, h))
    out.append("def shl_large_ref_buffer_words (shift_words words_len : Nat) : Nat :=\n    %s\n" % alloc)
    info["Scratch.shl_large_ref"] = h

    # ------------------------------------------------------------ pow_word_base / pow_dword_base (integer/src/pow.rs)
    rel = "integer/src/pow.rs"
    src = X.read(rel)

    def alloc_and_scratch(fn, what):
        it = X.fn_item(src, fn, rel=rel)
        body = strip_comments(it["body"])
        check_word_layouts(body, what)
        flat = re.sub(r"\s+", " ", body)
        m = re.search(r"let mut res = Buffer::allocate\((.+?)\.unwrap_or_else\(\|\| panic_allocate_too_much\(\)\)\);", flat)
        if not m:
            raise ExtractError("%s: `let mut res = Buffer::allocate(<checked size>.unwrap_or_else(|| panic_allocate_too_much()))` not found" % what)
        tr = Tr(what, rel, "pow", ["exp"])
        size = tr.nat(X.P(X.tokenize(m.group(1))).expr())
        p = flat.find("MemoryAllocation::new(")
        if p < 0 or flat.find("MemoryAllocation::new(", p + 1) >= 0:
            raise ExtractError("%s: expected exactly one MemoryAllocation::new(…)" % what)
        q = X.balanced(flat, p + len("MemoryAllocation::new"), "(", ")")
        arg = flat[p + len("MemoryAllocation::new") + 1:q - 1]
        arg = re.sub(r",\s*\)", ")", arg).strip().rstrip(",")
        tr = Tr(what, rel, "pow", ["exp"])
        scratch = tr.nat(X.P(X.tokenize(arg)).expr())
        return it, flat, m.group(1), size, scratch

    what = rel + " `pow_word_base`"
    it, flat, size_txt, size, scratch = alloc_and_scratch("pow_word_base", what)
    m = re.search(r"let \(wexp, wbase\) = max_exp_in_word\(base\); if ([^{}]+) \{ return Repr::from_word\(base\.pow\(exp as u32\)\); \} "
                  r"else if ([^{}]+) \{ let pow = base\.pow\(\(exp - wexp\) as u32\); return Repr::from_dword\(extend_word\(wbase\) \* extend_word\(pow\)\); \} "
                  r"let \(exp, exp_rem\) = exp\.div_rem\(wexp\);", flat)
    if not m:
        raise ExtractError("%s: the `exp < wexp` / `exp < 2 * wexp` shortcuts followed by `exp.div_rem(wexp)` changed shape" % what)
    tr = Tr(what, rel, "pow", ["exp", "wexp"])
    c1 = tr.prop(X.P(X.tokenize(m.group(1))).expr())
    c2 = tr.prop(X.P(X.tokenize(m.group(2))).expr())
    if flat.find("Buffer::allocate(") < m.end():
        raise ExtractError("%s: the result buffer is allocated before the shortcuts" % what)
    h = sha(it["text"])
    out.append("/-- `pow_word_base` after `let (wexp, wbase) = max_exp_in_word(base)`: 0 = `if %s` (one word), 1 = `else if %s`\n"
               "    (double word), 2 = the buffer loop on `(exp, exp_rem) = exp.div_rem(wexp)` — %s, sha1 %s -/" % (m.group(1).strip(), m.group(2).strip(), rel, h))
    out.append("def pow_word_base_path (exp wexp : Nat) : Nat :=\n    if %s then 0 else if %s then 1 else 2\n" % (c1, c2))
    out.append("/-- `pow_word_base`: `Buffer::allocate(%s)` (`exp` is the quotient `exp / wexp` here) -/" % size_txt.strip())
    out.append("def pow_word_base_buffer_words (exp : Nat) : Nat :=\n    %s\n" % size)
    out.append("/-- `pow_word_base`: the scratch `MemoryAllocation` in words -/")
    out.append("def pow_word_base_scratch_words (ceil_log2 : Nat → Nat) (exp : Nat) : Nat :=\n    %s\n" % scratch)
    info["Scratch.pow_word_base"] = h
    what = rel + " `pow_dword_base`"
    it, flat, size_txt, size, scratch = alloc_and_scratch("pow_dword_base", what)
    h = sha(it["text"])
    out.append("/-- `pow_dword_base`: `Buffer::allocate(%s)` — %s, sha1 %s -/" % (size_txt.strip(), rel, h))
    out.append("def pow_dword_base_buffer_words (exp : Nat) : Nat :=\n    %s\n" % size)
    out.append("/-- `pow_dword_base`: the scratch `MemoryAllocation` in words -/")
    out.append("def pow_dword_base_scratch_words (ceil_log2 : Nat → Nat) (exp : Nat) : Nat :=\n    %s\n" % scratch)
    info["Scratch.pow_dword_base"] = h
    # ------------------------------------------------------------ gcd_large / gcd_ext_large (integer/src/gcd_ops.rs) — C17, round 5
    rel = "integer/src/gcd_ops.rs"
    src = X.read(rel)

    def one_alloc(fn):
        it = X.fn_item(src, fn, rel=rel)
        body = strip_comments(it["body"])
        check_word_layouts(body, rel + " `%s`" % fn)
        flat = re.sub(r"\s+", " ", body)
        p = flat.find("MemoryAllocation::new(")
        if p < 0 or flat.find("MemoryAllocation::new(", p + 1) >= 0:
            raise ExtractError("%s `%s`: expected exactly one MemoryAllocation::new(…)" % (rel, fn))
        q = X.balanced(flat, p + len("MemoryAllocation::new"), "(", ")")
        arg = flat[p + len("MemoryAllocation::new") + 1:q - 1]
        arg = re.sub(r",\s*\)", ")", arg).strip().rstrip(",")
        return it, flat, p, arg

    what = rel + " `gcd_large`"
    it, flat, p, arg = one_alloc("gcd_large")
    tr = Tr(what, rel, "gcd_ops", [], mvars={("lhs", "len"): "lhs_len", ("rhs", "len"): "rhs_len"})
    scratch = tr.nat(X.P(X.tokenize(arg)).expr())
    h = sha(it["text"])
    out.append("/-- `gcd_large`: the scratch `MemoryAllocation` in words (`lhs`, `rhs` after the ordering swap) — %s, sha1 %s -/" % (rel, h))
    out.append("def gcd_large_scratch_words (ceil_log2 : Nat → Nat) (lhs_len rhs_len : Nat) : Nat :=\n    %s\n" % scratch)
    info["Scratch.gcd_large"] = h
    what = rel + " `gcd_ext_large`"
    it, flat, p, arg = one_alloc("gcd_ext_large")
    m = re.search(r"let \(lhs_len, rhs_len\) = \(lhs\.len\(\), rhs\.len\(\)\); "
                  r"let clone_mem = ([^;]+); let gcd_mem = ([^;]+); let post_mem = ([^;]+); let mut allocation = MemoryAllocation::new\(", flat)
    if not m or m.end() != p + len("MemoryAllocation::new("):
        raise ExtractError("%s: `let (lhs_len, rhs_len) = …; let clone_mem = …; let gcd_mem = …; let post_mem = …; "
                           "let mut allocation = MemoryAllocation::new(…)` changed shape" % what)
    env = ["lhs_len", "rhs_len"]
    lets = []
    for name, txt in (("clone_mem", m.group(1)), ("gcd_mem", m.group(2)), ("post_mem", m.group(3))):
        tr = Tr(what, rel, "gcd_ops", env)
        txt = re.sub(r",\s*\)", ")", txt)
        lets.append("let %s := %s;" % (name, tr.nat(X.P(X.tokenize(txt)).expr())))
        env = env + [name]
    tr = Tr(what, rel, "gcd_ops", env)
    total = tr.nat(X.P(X.tokenize(arg)).expr())
    h = sha(it["text"])
    out.append("/-- `gcd_ext_large`: the scratch `MemoryAllocation` in words: `clone_mem`, `gcd_mem`, `post_mem` and their combination — %s, sha1 %s -/" % (rel, h))
    out.append("def gcd_ext_large_scratch_words (ceil_log2 : Nat → Nat) (lhs_len rhs_len : Nat) : Nat :=\n    (%s %s)\n" % (" ".join(lets), total))
    info["Scratch.gcd_ext_large"] = h
    out.append("end Dashu.Gen.Scratch")
    return "\n".join(out) + "\n", info
