#!/usr/bin/env python3
"""python3 vlib/benign_trial.py <benign dir with patch.diff [meta.json]> C01 C02 …
False-alarm trial: runs the given checks (quick tier) against a BEHAVIOUR-PRESERVING change in isolation (vlib/trial.py) and
stores the verdicts in <dir>/result.json.  Acceptable outcomes for a benign change: exit 0, or exit 1 with a VIOLATION line that
ends in no-failing-input-found (a proof obligation / the correspondence no longer checks although the property holds).  A
VIOLATION line with a concrete input, or any other exit code, is a false alarm of the check and must be repaired."""
import json, os, re, subprocess, sys, time
d = os.path.abspath(sys.argv[1]); props = sys.argv[2:]
r = subprocess.run(["python3", "/verif/vlib/trial.py", d + "/patch.diff"] + props, stdout=subprocess.PIPE, stderr=subprocess.STDOUT, text=True)
res = {}; cur = None
for l in r.stdout.splitlines():
    m = re.match(r"=== (C\d+): exit (\d+) in (\d+)s", l)
    if m:
        cur = m.group(1); res[cur] = {"exit": int(m.group(2)), "seconds": int(m.group(3)), "lines": []}
    elif cur and l.strip():
        res[cur]["lines"].append(l.strip()[:300])
out = {}
for p, v in res.items():
    vio = [l for l in v["lines"] if l.startswith("VIOLATION")]
    if v["exit"] == 0 and not vio:
        verdict = "quiet"
    elif v["exit"] == 1 and vio and all(l.endswith("no-failing-input-found") for l in vio):
        verdict = "no-failing-input-found"
    else:
        verdict = "FALSE ALARM"
    out[p] = {"exit": v["exit"], "seconds": v["seconds"], "verdict": verdict, "lines": v["lines"][:8]}
old = {}
rp = d + "/result.json"
if os.path.exists(rp):
    old = json.load(open(rp)).get("checks", {})
old.update(out)
json.dump({"checks": old, "when": time.strftime("%Y-%m-%d %H:%M:%S")}, open(rp, "w"), indent=1)
print(os.path.basename(d), {p: v["verdict"] for p, v in out.items()}, flush=True)
