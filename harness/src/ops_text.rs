//! Integer text and byte encodings (C07).
//!
//! Ops (model side: lean/Dashu/Driver/Text.lean):
//!   u.fmt / i.fmt  T FA FL W N     format N through trait T with a format spec
//!        T  = d | b | o | x | X | r<radix>      (Display, Binary, Octal, LowerHex, UpperHex, in_radix)
//!        FA = 0..9  index into [fill]align table  ["", "<", "^", ">", "*<", "*^", "*>", "é<", "é^", "é>"]
//!        FL = subset of "+#0" in that order, or "-" for none
//!        W  = none | d:<width>
//!        -> s:<utf-8 bytes of the output>
//!        For T in d,b,o,x,X and |N| < 2^128 the output is additionally compared with Rust's own
//!        primitive formatting (u128; a negative value is '-' + magnitude, obtained by formatting the
//!        magnitude with the `+` flag and replacing the sign) — a difference prints `prim-disagree`.
//!   u.parse / i.parse  S d:radix          from_str_radix (+ FromStr forms when radix = 10) -> hex | err Kind
//!   u.parse_prefix / i.parse_prefix S     from_str_with_radix_prefix -> hex d:radix | err Kind
//!   u.parse_default / i.parse_default S d:radix   from_str_with_radix_default
//!   u.rt / i.rt N d:radix                 parse(print) round trip, both letter cases -> true | false
//!   u.dbg / i.dbg FL W N                  `{:?}` (Debug, `DoubleEnd` of fmt/mod.rs + non_power_two.rs): FL = - | + | # | +# ;
//!        W = none | d:<width> (the width is accepted by format! and ignored by the implementation) -> s:bytes
//!   t.fastdiv d:W D A                     num_modular::PreMulInv1by1::<uW>::new(D).div_rem(A, D), W = 8|16|32|64 (dashu's
//!        radix::FastDivideSmall is this type at the word size) -> <m hex> d:<shift> <q hex> <r hex>   (m, shift: the private
//!        fields, read from the derived Debug text)
//!   u.le u.be i.le i.be N                 to_{le,be}_bytes -> s:bytes
//!   u.from_le u.from_be i.from_le i.from_be S -> hex
//!   u.chunks N d:k                        to_chunks -> d:count c0 c1 …
//!   u.from_chunks d:k c0 c1 …             from_chunks -> hex
//!
//! Float text I/O and base/precision changes (C08), `dispatch_float`:
//!   float argument F = f:<base>:<signif hex int>:<exp dec>:<precision dec>:<mode Z|A|U|D|E|H>
//!   float result     = <signif hex> <exp dec> <precision dec>
//!   f.parse d:base M S              FromStr / from_str_native / Repr::from_str_native at base, mode M -> result | err Kind
//!   f.with_precision F d:p          FBig::with_precision -> <signif> <exp> <prec> Exact|Inexact:<Rounding>
//!   f.fmt K P W FL F                K = disp | lexp | uexp | bin | oct | lhex | uhex | dbg | dbga | rdbg | rdbga ; P = none | d:precision ;
//!                                   W = none | d:width ; FL = - | + | 0 | +0 | < | ^ | > | *< | *^ | *> | +*^ | 0< -> s:bytes
//!   f.rt F                          to_string() then parse: -> `<text s:bytes> <result of the parse>`
//!   f.with_base d:newbase F         with_base::<NewB>() -> result + Exact | Inexact:<adj>   (+ to_decimal / to_binary forms)
//!   f.with_base_prec d:newbase d:p F   with_base_and_precision::<NewB>(p)
//!   f.with_base_chk d:newbase P F   P = auto | d:p.  The large-exponent branch of convert_base goes through ln/exp and is not
//!        mirrored by the model; the harness judges the result with exact rational arithmetic (dashu-ratio) and prints
//!        `d:<precision> digits=<b> ulp=<b> side=<b> flag=<b> exactrep=<b>`:  significand fits the precision; |r - x| < 1 ulp of
//!        the target format at x; r on the side the mode requires; Exact flag iff r = x; r = x whenever x is representable
//!   f.from_f32 <bits hex> M / f.from_f64 <bits hex> M   TryFrom<f32/f64> for FBig<M,2> and Repr<2> -> result | inf | -inf | err
use dashu_base::ParseError;
use dashu_int::{IBig, UBig};
use std::fmt::{Binary, Display, LowerHex, Octal, UpperHex};
use std::panic::{catch_unwind, AssertUnwindSafe};
use std::str::FromStr;
use verif_harness::forms::merge;
use verif_harness::util::*;

/// like forms::run1 but knows the documented panics of this group
fn run1t(f: impl FnOnce() -> String) -> String {
    match catch_unwind(AssertUnwindSafe(f)) {
        Ok(s) => format!("ok {}", s),
        Err(_) => {
            let (msg, loc) = LAST_PANIC
                .with(|p| p.borrow_mut().take())
                .unwrap_or_else(|| ("?".into(), "?".into()));
            if msg.contains("assertion failed: chunk_bits > 0") {
                // documented: "Panics if chunk_bits is zero"
                "panic ChunkBitsZero".to_string()
            } else {
                format!("panic {}", classify_panic(&msg, &loc))
            }
        }
    }
}

// ------------------------------------------------------------------ format spec table
// Rust format strings are compile-time; the flag product is expanded by nested macros into
// 10 (fill/align) x 2 (+) x 2 (#) x 2 (0) x {with, without width} x trait  format! calls.

macro_rules! leaf5 {
    ($v:expr, $w:expr, $tr:expr, [$($p:literal),*]) => {
        match ($tr, $w) {
            ('d', None) => Some(format!(concat!("{:", $($p,)* "}"), $v)),
            ('d', Some(w)) => Some(format!(concat!("{:", $($p,)* "w$", "}"), $v, w = w)),
            ('b', None) => Some(format!(concat!("{:", $($p,)* "b}"), $v)),
            ('b', Some(w)) => Some(format!(concat!("{:", $($p,)* "w$", "b}"), $v, w = w)),
            ('o', None) => Some(format!(concat!("{:", $($p,)* "o}"), $v)),
            ('o', Some(w)) => Some(format!(concat!("{:", $($p,)* "w$", "o}"), $v, w = w)),
            ('x', None) => Some(format!(concat!("{:", $($p,)* "x}"), $v)),
            ('x', Some(w)) => Some(format!(concat!("{:", $($p,)* "w$", "x}"), $v, w = w)),
            ('X', None) => Some(format!(concat!("{:", $($p,)* "X}"), $v)),
            ('X', Some(w)) => Some(format!(concat!("{:", $($p,)* "w$", "X}"), $v, w = w)),
            _ => None,
        }
    };
}
macro_rules! leaf1 {
    ($v:expr, $w:expr, $tr:expr, [$($p:literal),*]) => {
        match $w {
            None => Some(format!(concat!("{:", $($p,)* "}"), $v)),
            Some(w) => Some(format!(concat!("{:", $($p,)* "w$", "}"), $v, w = w)),
        }
    };
}
macro_rules! sel_zero {
    ($m:ident, $v:expr, $w:expr, $tr:expr, $zero:expr, [$($p:literal),*]) => {
        if $zero { $m!($v, $w, $tr, [$($p,)* "0"]) } else { $m!($v, $w, $tr, [$($p),*]) }
    };
}
macro_rules! sel_alt {
    ($m:ident, $v:expr, $w:expr, $tr:expr, $alt:expr, $zero:expr, [$($p:literal),*]) => {
        if $alt { sel_zero!($m, $v, $w, $tr, $zero, [$($p,)* "#"]) } else { sel_zero!($m, $v, $w, $tr, $zero, [$($p),*]) }
    };
}
macro_rules! sel_plus {
    ($m:ident, $v:expr, $w:expr, $tr:expr, $plus:expr, $alt:expr, $zero:expr, [$($p:literal),*]) => {
        if $plus { sel_alt!($m, $v, $w, $tr, $alt, $zero, [$($p,)* "+"]) } else { sel_alt!($m, $v, $w, $tr, $alt, $zero, [$($p),*]) }
    };
}
macro_rules! sel_fa {
    ($m:ident, $v:expr, $w:expr, $tr:expr, $fa:expr, $plus:expr, $alt:expr, $zero:expr) => {
        match $fa {
            0 => sel_plus!($m, $v, $w, $tr, $plus, $alt, $zero, [""]),
            1 => sel_plus!($m, $v, $w, $tr, $plus, $alt, $zero, ["<"]),
            2 => sel_plus!($m, $v, $w, $tr, $plus, $alt, $zero, ["^"]),
            3 => sel_plus!($m, $v, $w, $tr, $plus, $alt, $zero, [">"]),
            4 => sel_plus!($m, $v, $w, $tr, $plus, $alt, $zero, ["*<"]),
            5 => sel_plus!($m, $v, $w, $tr, $plus, $alt, $zero, ["*^"]),
            6 => sel_plus!($m, $v, $w, $tr, $plus, $alt, $zero, ["*>"]),
            7 => sel_plus!($m, $v, $w, $tr, $plus, $alt, $zero, ["é<"]),
            8 => sel_plus!($m, $v, $w, $tr, $plus, $alt, $zero, ["é^"]),
            9 => sel_plus!($m, $v, $w, $tr, $plus, $alt, $zero, ["é>"]),
            _ => None,
        }
    };
}

#[derive(Clone, Copy)]
struct Spec {
    tr: char,
    fa: usize,
    plus: bool,
    alt: bool,
    zero: bool,
    w: Option<usize>,
}

#[inline(never)]
fn fmt5<T: Display + Binary + Octal + LowerHex + UpperHex>(v: &T, s: Spec) -> Option<String> {
    sel_fa!(leaf5, v, s.w, s.tr, s.fa, s.plus, s.alt, s.zero)
}

#[inline(never)]
fn fmt1<T: Display>(v: &T, s: Spec) -> Option<String> {
    sel_fa!(leaf1, v, s.w, s.tr, s.fa, s.plus, s.alt, s.zero)
}

fn parse_spec(args: &[&str]) -> Result<(Spec, Option<u32>), String> {
    let t = arg(args, 0)?;
    let (tr, radix) = if let Some(r) = t.strip_prefix('r') {
        ('d', Some(r.parse::<u32>().map_err(|_| format!("bad-arg radix {}", t))?))
    } else {
        let c = t.chars().next().ok_or("bad-arg trait")?;
        if t.len() != 1 || !"dboxX".contains(c) {
            return Err(format!("bad-arg trait {}", t));
        }
        (c, None)
    };
    let fa: usize = arg(args, 1)?.parse().map_err(|_| "bad-arg fa".to_string())?;
    if fa > 9 {
        return Err("bad-arg fa".into());
    }
    let fl = arg(args, 2)?;
    if fl != "-" && !fl.chars().all(|c| "+#0".contains(c)) {
        return Err(format!("bad-arg flags {}", fl));
    }
    let w = match arg(args, 3)? {
        "none" => None,
        s => Some(p_usize(s)?),
    };
    Ok((
        Spec {
            tr,
            fa,
            plus: fl.contains('+'),
            alt: fl.contains('#'),
            zero: fl.contains('0'),
            w,
        },
        radix,
    ))
}

fn fs(s: String) -> String {
    f_bytes(s.as_bytes())
}

/// Rust's primitive formatting of sign * mag (sign '-' printed in front of the magnitude in every radix)
fn prim_fmt(neg: bool, mag: u128, s: Spec) -> String {
    if !neg {
        fmt5(&mag, s).unwrap()
    } else {
        let mut s2 = s;
        s2.plus = true;
        let out = fmt5(&mag, s2).unwrap();
        // pad_integral treats '+' and '-' alike; the fills of the table never contain '+'
        out.replacen('+', "-", 1)
    }
}

fn default_spec(s: Spec) -> bool {
    s.fa == 0 && !s.plus && !s.alt && !s.zero && s.w.is_none()
}

fn ubig_fmt(args: &[&str]) -> Res {
    let (spec, radix) = parse_spec(args)?;
    let v = p_ubig(arg(args, 4)?)?;
    let mut names = vec!["fmt"];
    let mut rs = vec![];
    match radix {
        Some(r) => {
            rs.push(run1t(|| fs(fmt1(&v.in_radix(r), spec).unwrap())));
            if default_spec(spec) {
                names.push("to_string");
                rs.push(run1t(|| fs(v.in_radix(r).to_string())));
            }
        }
        None => {
            rs.push(run1t(|| fs(fmt5(&v, spec).unwrap())));
            if default_spec(spec) && spec.tr == 'd' {
                names.push("to_string");
                rs.push(run1t(|| fs(v.to_string())));
            }
            if let Ok(p) = u128::try_from(&v) {
                let exp = format!("ok {}", fs(prim_fmt(false, p, spec)));
                if rs[0] != exp {
                    return Err(format!("prim-disagree dashu={} rust={}", rs[0].replace(' ', "_"), exp.replace(' ', "_")));
                }
            }
        }
    }
    merge(&names, rs)
}

fn ibig_fmt(args: &[&str]) -> Res {
    let (spec, radix) = parse_spec(args)?;
    let v = p_ibig(arg(args, 4)?)?;
    let mut names = vec!["fmt"];
    let mut rs = vec![];
    match radix {
        Some(r) => {
            rs.push(run1t(|| fs(fmt1(&v.in_radix(r), spec).unwrap())));
            if default_spec(spec) {
                names.push("to_string");
                rs.push(run1t(|| fs(v.in_radix(r).to_string())));
            }
        }
        None => {
            rs.push(run1t(|| fs(fmt5(&v, spec).unwrap())));
            if default_spec(spec) && spec.tr == 'd' {
                names.push("to_string");
                rs.push(run1t(|| fs(v.to_string())));
            }
            let (sign, mag) = v.clone().into_parts();
            if let Ok(p) = u128::try_from(&mag) {
                let neg = sign == dashu_base::Sign::Negative;
                let exp = format!("ok {}", fs(prim_fmt(neg, p, spec)));
                if rs[0] != exp {
                    return Err(format!("prim-disagree dashu={} rust={}", rs[0].replace(' ', "_"), exp.replace(' ', "_")));
                }
                // Display of an i128 is directly comparable (no sign trick needed)
                if spec.tr == 'd' {
                    if let Ok(q) = i128::try_from(&v) {
                        let mut s1 = spec;
                        s1.tr = 'd';
                        let direct = format!("ok {}", fs(fmt1(&q, s1).unwrap()));
                        if rs[0] != direct {
                            return Err(format!("prim-disagree dashu={} rust-i128={}", rs[0].replace(' ', "_"), direct.replace(' ', "_")));
                        }
                    }
                }
            }
        }
    }
    merge(&names, rs)
}

/// `{:?}` with the flags `+`/`#` and an optional width (C07: the `DoubleEnd` printer)
fn dbg_fmt<T: std::fmt::Debug>(v: &T, fl: &str, w: Option<usize>) -> Result<String, String> {
    Ok(match (fl, w) {
        ("-", None) => format!("{:?}", v),
        ("+", None) => format!("{:+?}", v),
        ("#", None) => format!("{:#?}", v),
        ("+#", None) => format!("{:+#?}", v),
        ("-", Some(w)) => format!("{:w$?}", v, w = w),
        ("+", Some(w)) => format!("{:+w$?}", v, w = w),
        ("#", Some(w)) => format!("{:#w$?}", v, w = w),
        ("+#", Some(w)) => format!("{:+#w$?}", v, w = w),
        _ => return Err(format!("bad-arg flags {}", fl)),
    })
}

fn dbg_args<'a>(args: &'a [&'a str]) -> Result<(&'a str, Option<usize>), String> {
    let fl = arg(args, 0)?;
    if !["-", "+", "#", "+#"].contains(&fl) {
        return Err(format!("bad-arg flags {}", fl));
    }
    let w = match arg(args, 1)? {
        "none" => None,
        s => Some(p_usize(s)?),
    };
    Ok((fl, w))
}

/// `radix::FastDivideSmall = num_modular::PreMulInv1by1<Word>` driven directly, at every word size it exists for
fn fastdiv(args: &[&str]) -> Res {
    let w = p_usize(arg(args, 0)?)?;
    let d = u64::try_from(&p_ubig(arg(args, 1)?)?).map_err(|_| "bad-arg d".to_string())?;
    let a = u64::try_from(&p_ubig(arg(args, 2)?)?).map_err(|_| "bad-arg a".to_string())?;
    macro_rules! go {
        ($T:ty) => {{
            let d = <$T>::try_from(d).map_err(|_| "bad-arg d".to_string())?;
            let a = <$T>::try_from(a).map_err(|_| "bad-arg a".to_string())?;
            run1t(move || {
                let p = num_modular::PreMulInv1by1::<$T>::new(d);
                let (q, r) = p.div_rem(a, d);
                let dbg = format!("{:?}", p);
                let num = |key: &str| -> String {
                    let i = dbg.find(key).expect("Debug text of PreMulInv1by1") + key.len();
                    dbg[i..].trim_start().chars().take_while(|c| c.is_ascii_digit()).collect::<String>()
                };
                let m: u64 = num("m:").parse().unwrap();
                format!("{:x} d:{} {:x} {:x}", m, num("shift:"), q, r)
            })
        }};
    }
    let r = match w {
        8 => go!(u8),
        16 => go!(u16),
        32 => go!(u32),
        64 => go!(u64),
        _ => return Err("bad-arg W".into()),
    };
    merge(&["div_rem"], vec![r])
}

// ------------------------------------------------------------------ parsing

fn perr(e: ParseError) -> String {
    match e {
        ParseError::NoDigits => "err NoDigits",
        ParseError::InvalidDigit => "err InvalidDigit",
        ParseError::UnsupportedRadix => "err UnsupportedRadix",
        ParseError::InconsistentRadix => "err InconsistentRadix",
    }
    .to_string()
}

fn p_str(s: &str) -> Result<String, String> {
    String::from_utf8(p_bytes(s)?).map_err(|_| "bad-arg utf8".to_string())
}

fn p_radix(s: &str) -> Result<u32, String> {
    u32::try_from(p_dec(s)?).map_err(|_| "bad-arg radix".to_string())
}

/// parse results are printed as `<hex>` / `err Kind`; merged like call forms
fn merge_parse(names: &[&str], rs: Vec<String>) -> Res {
    // rs entries are "ok <payload>" or "panic <kind>"; payload may itself be "err Kind"
    match merge(names, rs) {
        Ok(v) if v.starts_with("err ") => Err(v),
        other => other,
    }
}

fn ures(r: Result<UBig, ParseError>) -> String {
    match r {
        Ok(v) => f_ubig(&v),
        Err(e) => perr(e),
    }
}
fn ires(r: Result<IBig, ParseError>) -> String {
    match r {
        Ok(v) => f_ibig(&v),
        Err(e) => perr(e),
    }
}
fn ures2(r: Result<(UBig, u32), ParseError>) -> String {
    match r {
        Ok((v, d)) => format!("{} d:{}", f_ubig(&v), d),
        Err(e) => perr(e),
    }
}
fn ires2(r: Result<(IBig, u32), ParseError>) -> String {
    match r {
        Ok((v, d)) => format!("{} d:{}", f_ibig(&v), d),
        Err(e) => perr(e),
    }
}

pub fn dispatch(op: &str, args: &[&str]) -> Option<Res> {
    Some((|| -> Res {
        match op {
            "u.fmt" => ubig_fmt(args),
            "i.fmt" => ibig_fmt(args),
            "t.fastdiv" => fastdiv(args),
            "u.dbg" => {
                let (fl, w) = dbg_args(args)?;
                let v = p_ubig(arg(args, 2)?)?;
                merge(&["debug"], vec![run1t(|| fs(dbg_fmt(&v, fl, w).unwrap()))])
            }
            "i.dbg" => {
                let (fl, w) = dbg_args(args)?;
                let v = p_ibig(arg(args, 2)?)?;
                merge(&["debug"], vec![run1t(|| fs(dbg_fmt(&v, fl, w).unwrap()))])
            }
            // ---------------------------------------------------------------- parse
            "u.parse" => {
                let s = p_str(arg(args, 0)?)?;
                let r = p_radix(arg(args, 1)?)?;
                let mut names = vec!["from_str_radix"];
                let mut rs = vec![run1t(|| ures(UBig::from_str_radix(&s, r)))];
                if r == 10 {
                    names.push("FromStr");
                    rs.push(run1t(|| ures(UBig::from_str(&s))));
                    names.push("parse");
                    rs.push(run1t(|| ures(s.parse::<UBig>())));
                }
                merge_parse(&names, rs)
            }
            "i.parse" => {
                let s = p_str(arg(args, 0)?)?;
                let r = p_radix(arg(args, 1)?)?;
                let mut names = vec!["from_str_radix"];
                let mut rs = vec![run1t(|| ires(IBig::from_str_radix(&s, r)))];
                if r == 10 {
                    names.push("FromStr");
                    rs.push(run1t(|| ires(IBig::from_str(&s))));
                    names.push("parse");
                    rs.push(run1t(|| ires(s.parse::<IBig>())));
                }
                merge_parse(&names, rs)
            }
            "u.parse_prefix" => {
                let s = p_str(arg(args, 0)?)?;
                let rs = vec![
                    run1t(|| ures2(UBig::from_str_with_radix_prefix(&s))),
                    run1t(|| ures2(UBig::from_str_with_radix_default(&s, 10))),
                ];
                merge_parse(&["prefix", "default10"], rs)
            }
            "i.parse_prefix" => {
                let s = p_str(arg(args, 0)?)?;
                let rs = vec![
                    run1t(|| ires2(IBig::from_str_with_radix_prefix(&s))),
                    run1t(|| ires2(IBig::from_str_with_radix_default(&s, 10))),
                ];
                merge_parse(&["prefix", "default10"], rs)
            }
            "u.parse_default" => {
                let s = p_str(arg(args, 0)?)?;
                let r = p_radix(arg(args, 1)?)?;
                merge_parse(&["default"], vec![run1t(|| ures2(UBig::from_str_with_radix_default(&s, r)))])
            }
            "i.parse_default" => {
                let s = p_str(arg(args, 0)?)?;
                let r = p_radix(arg(args, 1)?)?;
                merge_parse(&["default"], vec![run1t(|| ires2(IBig::from_str_with_radix_default(&s, r)))])
            }
            "u.rt" => {
                let v = p_ubig(arg(args, 0)?)?;
                let r = p_radix(arg(args, 1)?)?;
                let rs = vec![
                    run1t(|| (UBig::from_str_radix(&v.in_radix(r).to_string(), r).as_ref() == Ok(&v)).to_string()),
                    run1t(|| (UBig::from_str_radix(&format!("{:#}", v.in_radix(r)), r).as_ref() == Ok(&v)).to_string()),
                    run1t(|| (UBig::from_str_radix(&format!("{:+}", v.in_radix(r)), r).as_ref() == Ok(&v)).to_string()),
                ];
                merge(&["lower", "upper", "plus"], rs)
            }
            "i.rt" => {
                let v = p_ibig(arg(args, 0)?)?;
                let r = p_radix(arg(args, 1)?)?;
                let rs = vec![
                    run1t(|| (IBig::from_str_radix(&v.in_radix(r).to_string(), r).as_ref() == Ok(&v)).to_string()),
                    run1t(|| (IBig::from_str_radix(&format!("{:#}", v.in_radix(r)), r).as_ref() == Ok(&v)).to_string()),
                    run1t(|| (IBig::from_str_radix(&format!("{:+}", v.in_radix(r)), r).as_ref() == Ok(&v)).to_string()),
                ];
                merge(&["lower", "upper", "plus"], rs)
            }
            // ---------------------------------------------------------------- bytes
            "u.le" => {
                let v = p_ubig(arg(args, 0)?)?;
                merge(&["le"], vec![run1t(|| f_bytes(&v.to_le_bytes()))])
            }
            "u.be" => {
                let v = p_ubig(arg(args, 0)?)?;
                merge(&["be"], vec![run1t(|| f_bytes(&v.to_be_bytes()))])
            }
            "i.le" => {
                let v = p_ibig(arg(args, 0)?)?;
                merge(&["le"], vec![run1t(|| f_bytes(&v.to_le_bytes()))])
            }
            "i.be" => {
                let v = p_ibig(arg(args, 0)?)?;
                merge(&["be"], vec![run1t(|| f_bytes(&v.to_be_bytes()))])
            }
            "u.from_le" => {
                let b = p_bytes(arg(args, 0)?)?;
                merge(&["from_le"], vec![run1t(|| f_ubig(&UBig::from_le_bytes(&b)))])
            }
            "u.from_be" => {
                let b = p_bytes(arg(args, 0)?)?;
                merge(&["from_be"], vec![run1t(|| f_ubig(&UBig::from_be_bytes(&b)))])
            }
            "i.from_le" => {
                let b = p_bytes(arg(args, 0)?)?;
                merge(&["from_le"], vec![run1t(|| f_ibig(&IBig::from_le_bytes(&b)))])
            }
            "i.from_be" => {
                let b = p_bytes(arg(args, 0)?)?;
                merge(&["from_be"], vec![run1t(|| f_ibig(&IBig::from_be_bytes(&b)))])
            }
            // ---------------------------------------------------------------- chunks
            "u.chunks" => {
                let v = p_ubig(arg(args, 0)?)?;
                let k = p_usize(arg(args, 1)?)?;
                merge(
                    &["to_chunks"],
                    vec![run1t(|| {
                        let cs = v.to_chunks(k);
                        let mut s = f_dec(cs.len());
                        for c in cs.iter() {
                            s.push(' ');
                            s.push_str(&f_ubig(c));
                        }
                        s
                    })],
                )
            }
            "u.from_chunks" => {
                let k = p_usize(arg(args, 0)?)?;
                let mut cs = vec![];
                for a in &args[1..] {
                    cs.push(p_ubig(a)?);
                }
                merge(&["from_chunks"], vec![run1t(|| f_ubig(&UBig::from_chunks(cs.iter(), k)))])
            }
            _ => Err("__none__".into()),
        }
    })())
    .and_then(|r| match r {
        Err(e) if e == "__none__" => None,
        other => Some(other),
    })
}

// =================================================================================================
// C08: float text I/O, base and precision changes
// =================================================================================================
use dashu_base::Approximation;
use dashu_float::round::{mode, Round, Rounded, Rounding};
use dashu_float::{FBig, Repr};
use dashu_int::Word;
use std::convert::TryFrom;
use std::fmt::{LowerExp, UpperExp};

struct FArg {
    base: u64,
    signif: IBig,
    exp: isize,
    prec: usize,
    mode: char,
}

fn p_farg(s: &str) -> Result<FArg, String> {
    let t: Vec<&str> = s.split(':').collect();
    if t.len() != 6 || t[0] != "f" {
        return Err(format!("bad-arg float {}", s));
    }
    let bad = || format!("bad-arg float {}", s);
    let base: u64 = t[1].parse().map_err(|_| bad())?;
    let signif = p_ibig(t[2])?;
    let exp: isize = t[3].parse().map_err(|_| bad())?;
    let prec: usize = t[4].parse().map_err(|_| bad())?;
    let mode = t[5].chars().next().ok_or_else(bad)?;
    if t[5].len() != 1 {
        return Err(bad());
    }
    Ok(FArg { base, signif, exp, prec, mode })
}

fn build<R: Round, const B: Word>(a: &FArg) -> FBig<R, B> {
    FBig::<R, B>::from_repr(Repr::<B>::new(a.signif.clone(), a.exp), dashu_float::Context::<R>::new(a.prec))
}

fn ff<R: Round, const B: Word>(x: &FBig<R, B>) -> String {
    if x.repr().is_infinite() {
        return if x.repr().sign() == dashu_base::Sign::Negative { "-inf".into() } else { "inf".into() };
    }
    format!("{} {} {}", f_ibig(x.repr().significand()), x.repr().exponent(), x.precision())
}

fn fl(r: &Rounding) -> &'static str {
    match r {
        Rounding::NoOp => "NoOp",
        Rounding::AddOne => "AddOne",
        Rounding::SubOne => "SubOne",
    }
}

fn fr<R: Round, const B: Word>(x: &Rounded<FBig<R, B>>) -> String {
    match x {
        Approximation::Exact(v) => format!("{} Exact", ff(v)),
        Approximation::Inexact(v, e) => format!("{} Inexact:{}", ff(v), fl(e)),
    }
}

fn fparse<R: Round, const B: Word>(s: &str) -> Res {
    #[allow(deprecated)]
    let rs = vec![
        run1t(|| match s.parse::<FBig<R, B>>() {
            Ok(v) => ff(&v),
            Err(e) => perr(e),
        }),
        run1t(|| match FBig::<R, B>::from_str_native(s) {
            Ok(v) => ff(&v),
            Err(e) => perr(e),
        }),
        run1t(|| match Repr::<B>::from_str_native(s) {
            Ok((r, n)) => {
                if r.is_infinite() {
                    "inf?".to_string()
                } else {
                    format!("{} {} {}", f_ibig(r.significand()), r.exponent(), n)
                }
            }
            Err(e) => perr(e),
        }),
    ];
    merge_parse(&["FromStr", "from_str_native", "Repr::from_str_native"], rs)
}

macro_rules! ffmt_arm {
    ($v:expr, $p:expr, $w:expr, $spec:literal, $t:literal) => {
        match ($p, $w) {
            (None, None) => format!(concat!("{:", $spec, $t, "}"), $v),
            (Some(p), None) => format!(concat!("{:", $spec, ".p$", $t, "}"), $v, p = p),
            (None, Some(w)) => format!(concat!("{:", $spec, "w$", $t, "}"), $v, w = w),
            (Some(p), Some(w)) => format!(concat!("{:", $spec, "w$.p$", $t, "}"), $v, w = w, p = p),
        }
    };
}

/// FL = flag token: - | + | 0 | +0 | < | ^ | > | *< | *^ | *> | +*^ | 0<   (fill `*`, alignment, sign, zero flag)
macro_rules! ffmt_leaf {
    ($v:expr, $p:expr, $w:expr, $fl:expr, $t:literal) => {
        match $fl {
            "-" => ffmt_arm!($v, $p, $w, "", $t),
            "+" => ffmt_arm!($v, $p, $w, "+", $t),
            "0" => ffmt_arm!($v, $p, $w, "0", $t),
            "+0" => ffmt_arm!($v, $p, $w, "+0", $t),
            "<" => ffmt_arm!($v, $p, $w, "<", $t),
            "^" => ffmt_arm!($v, $p, $w, "^", $t),
            ">" => ffmt_arm!($v, $p, $w, ">", $t),
            "*<" => ffmt_arm!($v, $p, $w, "*<", $t),
            "*^" => ffmt_arm!($v, $p, $w, "*^", $t),
            "*>" => ffmt_arm!($v, $p, $w, "*>", $t),
            "+*^" => ffmt_arm!($v, $p, $w, "*^+", $t),
            "0<" => ffmt_arm!($v, $p, $w, "<0", $t),
            fl => return Err(format!("bad-arg flags {}", fl)),
        }
    };
}

fn ffmt<T: Display + LowerExp + UpperExp + core::fmt::Debug>(v: &T, kind: &str, p: Option<usize>, w: Option<usize>, fl: &str) -> Result<String, String> {
    Ok(match kind {
        "disp" => ffmt_leaf!(v, p, w, fl, ""),
        "lexp" => ffmt_leaf!(v, p, w, fl, "e"),
        "uexp" => ffmt_leaf!(v, p, w, fl, "E"),
        "dbg" => format!("{:?}", v),
        "dbga" => format!("{:#?}", v),
        _ => return Err(format!("bad-arg kind {}", kind)),
    })
}

fn ffmt_bin<T: core::fmt::Binary>(v: &T, p: Option<usize>, w: Option<usize>, fl: &str) -> Result<String, String> {
    Ok(ffmt_leaf!(v, p, w, fl, "b"))
}
fn ffmt_oct<T: core::fmt::Octal>(v: &T, p: Option<usize>, w: Option<usize>, fl: &str) -> Result<String, String> {
    Ok(ffmt_leaf!(v, p, w, fl, "o"))
}
fn ffmt_lhex<T: core::fmt::LowerHex>(v: &T, p: Option<usize>, w: Option<usize>, fl: &str) -> Result<String, String> {
    Ok(ffmt_leaf!(v, p, w, fl, "x"))
}
fn ffmt_uhex<T: core::fmt::UpperHex>(v: &T, p: Option<usize>, w: Option<usize>, fl: &str) -> Result<String, String> {
    Ok(ffmt_leaf!(v, p, w, fl, "X"))
}

/// (kind, precision, width, flags, value) of an `f.fmt` case
fn fmt_args<R: Round, const B: Word>(args: &[&str]) -> Result<(String, Option<usize>, Option<usize>, String, FBig<R, B>), String> {
    Ok((
        arg(args, 0)?.to_string(),
        opt_usize(arg(args, 1)?)?,
        opt_usize(arg(args, 2)?)?,
        arg(args, 3)?.to_string(),
        build::<R, B>(&p_farg(arg(args, 4)?)?),
    ))
}

/// Binary of base 2 (FBig and Repr must print the same for mode Zero)
fn frun_bin<R: Round, const B: Word>(_op: &str, args: &[&str]) -> Res
where
    FBig<R, B>: core::fmt::Binary,
{
    let (_k, p, w, fl, a) = fmt_args::<R, B>(args)?;
    merge(&["fmt"], vec![run1t(|| fs(ffmt_bin(&a, p, w, &fl).unwrap()))])
}
fn frun_oct<R: Round, const B: Word>(_op: &str, args: &[&str]) -> Res
where
    FBig<R, B>: core::fmt::Octal,
{
    let (_k, p, w, fl, a) = fmt_args::<R, B>(args)?;
    merge(&["fmt"], vec![run1t(|| fs(ffmt_oct(&a, p, w, &fl).unwrap()))])
}
fn frun_hex<R: Round, const B: Word>(_op: &str, args: &[&str]) -> Res
where
    FBig<R, B>: core::fmt::LowerHex + core::fmt::UpperHex,
{
    let (k, p, w, fl, a) = fmt_args::<R, B>(args)?;
    if k == "lhex" {
        merge(&["fmt"], vec![run1t(|| fs(ffmt_lhex(&a, p, w, &fl).unwrap()))])
    } else {
        merge(&["fmt"], vec![run1t(|| fs(ffmt_uhex(&a, p, w, &fl).unwrap()))])
    }
}

fn opt_usize(s: &str) -> Result<Option<usize>, String> {
    if s == "none" {
        Ok(None)
    } else {
        Ok(Some(p_usize(s)?))
    }
}

fn frun<R: Round, const B: Word>(op: &str, args: &[&str]) -> Res {
    match op {
        "f.fmt" => {
            let (kind, p, w, fl, a) = fmt_args::<R, B>(args)?;
            let kind = kind.as_str();
            if kind == "rdbg" {
                return merge(&["fmt"], vec![run1t(|| fs(format!("{:?}", a.repr())))]);
            }
            if kind == "rdbga" {
                return merge(&["fmt"], vec![run1t(|| fs(format!("{:#?}", a.repr())))]);
            }
            let mut names = vec!["fmt"];
            let mut rs = vec![run1t(|| fs(ffmt(&a, kind, p, w, &fl).unwrap()))];
            if kind == "disp" && p.is_none() && w.is_none() && fl == "-" {
                names.push("to_string");
                rs.push(run1t(|| fs(a.to_string())));
            }
            merge(&names, rs)
        }
        "f.with_precision" => {
            let a = build::<R, B>(&p_farg(arg(args, 0)?)?);
            let p = p_usize(arg(args, 1)?)?;
            merge(&["with_precision"], vec![run1t(|| fr(&a.clone().with_precision(p)))])
        }
        "f.rt" => {
            let a = build::<R, B>(&p_farg(arg(args, 0)?)?);
            merge(
                &["rt"],
                vec![run1t(|| {
                    let text = a.to_string();
                    let back = match text.parse::<FBig<R, B>>() {
                        Ok(v) => ff(&v),
                        Err(e) => perr(e),
                    };
                    format!("{} {}", fs(text), back)
                })],
            )
        }
        _ => Err(format!("bad-op {}", op)),
    }
}

macro_rules! fmode_table {
    ($f:ident, $b:literal, $mode:expr, $($args:expr),*) => {
        match $mode {
            'Z' => $f::<mode::Zero, $b>($($args),*),
            'A' => $f::<mode::Away, $b>($($args),*),
            'U' => $f::<mode::Up, $b>($($args),*),
            'D' => $f::<mode::Down, $b>($($args),*),
            'E' => $f::<mode::HalfEven, $b>($($args),*),
            'H' => $f::<mode::HalfAway, $b>($($args),*),
            m => Err(format!("bad-arg mode {}", m)),
        }
    };
}

macro_rules! fbase_table {
    ($f:ident, $base:expr, $mode:expr, $($args:expr),*) => {
        match $base {
            2 => fmode_table!($f, 2, $mode, $($args),*),
            3 => fmode_table!($f, 3, $mode, $($args),*),
            8 => fmode_table!($f, 8, $mode, $($args),*),
            10 => fmode_table!($f, 10, $mode, $($args),*),
            16 => fmode_table!($f, 16, $mode, $($args),*),
            36 => fmode_table!($f, 36, $mode, $($args),*),
            b => Err(format!("bad-arg base {}", b)),
        }
    };
}

fn wb<R: Round, const B: Word, const NB: Word>(a: &FArg, p: Option<usize>) -> Res {
    let x = build::<R, B>(a);
    let mut names = vec!["with_base"];
    let mut rs = vec![];
    match p {
        None => {
            rs.push(run1t(|| fr(&x.clone().with_base::<NB>())));
            if NB == 10 && a.mode == 'H' {
                names.push("to_decimal");
                rs.push(run1t(|| fr(&x.to_decimal())));
            }
            if NB == 2 && a.mode == 'Z' {
                names.push("to_binary");
                rs.push(run1t(|| fr(&x.to_binary())));
            }
        }
        Some(p) => rs.push(run1t(|| fr(&x.clone().with_base_and_precision::<NB>(p)))),
    }
    merge(&names, rs)
}

macro_rules! wb_mode {
    ($b:literal, $nb:literal, $a:expr, $p:expr) => {
        match $a.mode {
            'Z' => wb::<mode::Zero, $b, $nb>($a, $p),
            'A' => wb::<mode::Away, $b, $nb>($a, $p),
            'U' => wb::<mode::Up, $b, $nb>($a, $p),
            'D' => wb::<mode::Down, $b, $nb>($a, $p),
            'E' => wb::<mode::HalfEven, $b, $nb>($a, $p),
            'H' => wb::<mode::HalfAway, $b, $nb>($a, $p),
            m => Err(format!("bad-arg mode {}", m)),
        }
    };
}

fn with_base(a: &FArg, nb: u64, p: Option<usize>) -> Res {
    match (a.base, nb) {
        (2, 10) => wb_mode!(2, 10, a, p),
        (10, 2) => wb_mode!(10, 2, a, p),
        (2, 16) => wb_mode!(2, 16, a, p),
        (16, 2) => wb_mode!(16, 2, a, p),
        (2, 8) => wb_mode!(2, 8, a, p),
        (8, 2) => wb_mode!(8, 2, a, p),
        (10, 16) => wb_mode!(10, 16, a, p),
        (16, 10) => wb_mode!(16, 10, a, p),
        (3, 10) => wb_mode!(3, 10, a, p),
        (10, 3) => wb_mode!(10, 3, a, p),
        (2, 3) => wb_mode!(2, 3, a, p),
        (3, 2) => wb_mode!(3, 2, a, p),
        (36, 10) => wb_mode!(36, 10, a, p),
        (10, 36) => wb_mode!(10, 36, a, p),
        (8, 16) => wb_mode!(8, 16, a, p),
        (10, 10) => wb_mode!(10, 10, a, p),
        (2, 2) => wb_mode!(2, 2, a, p),
        (16, 16) => wb_mode!(16, 16, a, p),
        (3, 3) => wb_mode!(3, 3, a, p),
        // round 6 (C08): commensurable bases that are NOT powers of one another (ilog_exact must answer 0: loop ends with pow > n)
        (4, 32) => wb_mode!(4, 32, a, p),
        (32, 4) => wb_mode!(32, 4, a, p),
        (4, 8) => wb_mode!(4, 8, a, p),
        (8, 4) => wb_mode!(8, 4, a, p),
        (16, 8) => wb_mode!(16, 8, a, p),
        (9, 27) => wb_mode!(9, 27, a, p),
        (27, 9) => wb_mode!(27, 9, a, p),
        // ... and nested powers whose root is not 2 / whose smaller base is not prime (ilog_exact n >= 2)
        (4, 16) => wb_mode!(4, 16, a, p),
        (16, 4) => wb_mode!(16, 4, a, p),
        (3, 9) => wb_mode!(3, 9, a, p),
        (9, 3) => wb_mode!(9, 3, a, p),
        (27, 3) => wb_mode!(27, 3, a, p),
        // ... and bases near the top of the Word range: the powers of the smaller base leave the Word before they reach the larger
        #[cfg(not(force_bits = "32"))]
        (9223372036854775809, 2) => wb_mode!(9223372036854775809, 2, a, p),
        #[cfg(not(force_bits = "32"))]
        (2, 9223372036854775809) => wb_mode!(2, 9223372036854775809, a, p),
        #[cfg(not(force_bits = "32"))]
        (18446744073709551615, 3) => wb_mode!(18446744073709551615, 3, a, p),
        #[cfg(not(force_bits = "32"))]
        (4294967297, 4294967296) => wb_mode!(4294967297, 4294967296, a, p),
        _ => Err(format!("bad-arg base-pair {} {}", a.base, nb)),
    }
}

/// exact judgement of a base conversion result (see the module doc)
fn judge(a: &FArg, nb: u64, mode: char, res: (IBig, isize, usize, bool)) -> String {
    use dashu_base::{Abs, Gcd, UnsignedAbs};
    use dashu_ratio::RBig;
    let (s, e, p, flag_exact) = res;
    let pow = |b: u64, k: isize| -> RBig {
        let v = UBig::from(b).pow(k.unsigned_abs());
        if k >= 0 {
            RBig::from(v)
        } else {
            RBig::from_parts(IBig::ONE, v)
        }
    };
    let x = RBig::from(a.signif.clone()) * pow(a.base, a.exp);
    let r = RBig::from(s.clone()) * pow(nb, e);
    // digits of the result significand in the new base
    let mut digits = 0usize;
    let mut t = s.clone().unsigned_abs();
    while t > UBig::ZERO {
        t /= UBig::from(nb);
        digits += 1;
    }
    // repr_div may deliver one digit more than the precision (allowed by the property: "never more than one
    // digit beyond the target precision")
    let digits_ok = p == 0 || digits <= p + 1;
    let diff = (r.clone() - x.clone()).abs();
    // t with nb^t <= |x| < nb^(t+1)
    let ax = x.clone().abs();
    let within = if ax == RBig::ZERO {
        r == RBig::ZERO
    } else {
        let mut t = e + digits as isize - 1;
        while pow(nb, t) > ax {
            t -= 1;
        }
        while pow(nb, t + 1) <= ax {
            t += 1;
        }
        diff < pow(nb, t - p as isize + 1)
    };
    let side = match mode {
        'Z' => r.clone().abs() <= ax,
        'A' => r.clone().abs() >= ax,
        'U' => r >= x,
        'D' => r <= x,
        _ => true,
    };
    let flag = flag_exact == (r == x);
    // is x representable with at most p digits in base nb?
    let representable = {
        let (num, den) = x.clone().into_parts();
        let mut num = num.unsigned_abs();
        let mut den = den;
        let nbig = UBig::from(nb);
        let mut ok = true;
        while den > UBig::ONE {
            let g = (&den).gcd(&nbig);
            if g == UBig::ONE {
                ok = false;
                break;
            }
            num *= &nbig / &g;
            den /= &g;
        }
        if ok {
            while num > UBig::ZERO && (&num % &nbig) == UBig::ZERO {
                num /= &nbig;
            }
            let mut d = 0usize;
            while num > UBig::ZERO {
                num /= &nbig;
                d += 1;
            }
            p == 0 || d <= p
        } else {
            false
        }
    };
    let exactrep = !representable || r == x;
    format!("d:{} digits={} ulp={} side={} flag={} exactrep={}", p, digits_ok, within, side, flag, exactrep)
}

fn wb_chk<R: Round, const B: Word, const NB: Word>(a: &FArg, p: Option<usize>) -> Res {
    let x = build::<R, B>(a);
    let out = run1t(|| {
        let r = match p {
            None => x.clone().with_base::<NB>(),
            Some(p) => x.clone().with_base_and_precision::<NB>(p),
        };
        let exact = matches!(r, Approximation::Exact(_));
        let v = r.value();
        judge(a, NB as u64, a.mode, (v.repr().significand().clone(), v.repr().exponent(), v.precision(), exact))
    });
    merge(&["with_base"], vec![out])
}

macro_rules! wbc_mode {
    ($b:literal, $nb:literal, $a:expr, $p:expr) => {
        match $a.mode {
            'Z' => wb_chk::<mode::Zero, $b, $nb>($a, $p),
            'A' => wb_chk::<mode::Away, $b, $nb>($a, $p),
            'U' => wb_chk::<mode::Up, $b, $nb>($a, $p),
            'D' => wb_chk::<mode::Down, $b, $nb>($a, $p),
            'E' => wb_chk::<mode::HalfEven, $b, $nb>($a, $p),
            'H' => wb_chk::<mode::HalfAway, $b, $nb>($a, $p),
            m => Err(format!("bad-arg mode {}", m)),
        }
    };
}

fn with_base_chk(a: &FArg, nb: u64, p: Option<usize>) -> Res {
    match (a.base, nb) {
        (2, 10) => wbc_mode!(2, 10, a, p),
        (10, 2) => wbc_mode!(10, 2, a, p),
        (10, 16) => wbc_mode!(10, 16, a, p),
        (16, 10) => wbc_mode!(16, 10, a, p),
        (3, 10) => wbc_mode!(3, 10, a, p),
        (10, 3) => wbc_mode!(10, 3, a, p),
        (2, 3) => wbc_mode!(2, 3, a, p),
        (3, 2) => wbc_mode!(3, 2, a, p),
        (36, 10) => wbc_mode!(36, 10, a, p),
        (10, 36) => wbc_mode!(10, 36, a, p),
        (4, 32) => wbc_mode!(4, 32, a, p),
        (32, 4) => wbc_mode!(32, 4, a, p),
        (27, 9) => wbc_mode!(27, 9, a, p),
        _ => Err(format!("bad-arg base-pair {} {}", a.base, nb)),
    }
}

fn from_float<R: Round>(bits: u64, is64: bool) -> Res {
    let rs = if is64 {
        let f = f64::from_bits(bits);
        vec![
            run1t(|| match FBig::<R, 2>::try_from(f) {
                Ok(v) => ff(&v),
                Err(_) => "err OutOfBounds".to_string(),
            }),
            run1t(|| match Repr::<2>::try_from(f) {
                Ok(r) => {
                    if r.is_infinite() {
                        if r.sign() == dashu_base::Sign::Negative { "-inf".into() } else { "inf".into() }
                    } else {
                        format!("{} {}", f_ibig(r.significand()), r.exponent())
                    }
                }
                Err(_) => "err OutOfBounds".to_string(),
            }),
        ]
    } else {
        let f = f32::from_bits(bits as u32);
        vec![
            run1t(|| match FBig::<R, 2>::try_from(f) {
                Ok(v) => ff(&v),
                Err(_) => "err OutOfBounds".to_string(),
            }),
            run1t(|| match Repr::<2>::try_from(f) {
                Ok(r) => {
                    if r.is_infinite() {
                        if r.sign() == dashu_base::Sign::Negative { "-inf".into() } else { "inf".into() }
                    } else {
                        format!("{} {}", f_ibig(r.significand()), r.exponent())
                    }
                }
                Err(_) => "err OutOfBounds".to_string(),
            }),
        ]
    };
    // the FBig form additionally carries the precision: compare only the repr part
    let a = rs[0].clone();
    let b = rs[1].clone();
    let a_repr = if a.starts_with("ok ") && a.matches(' ').count() == 3 { a.rsplitn(2, ' ').nth(1).unwrap().to_string() } else { a.clone() };
    if a_repr != b {
        return Err(format!("forms-disagree [FBig: {}] [Repr: {}]", a.replace(' ', "_"), b.replace(' ', "_")));
    }
    merge_parse(&["FBig"], vec![a])
}

// ---- infinities (C08): every formatting trait prints `inf` / `-inf` and ignores width, precision and flags
fn inf_val<R: Round, const B: Word>(neg: bool) -> FBig<R, B> {
    if neg {
        FBig::<R, B>::NEG_INFINITY
    } else {
        FBig::<R, B>::INFINITY
    }
}

/// `f.fmtinf <kind> <prec> <width> <flags> d:<base> <+|-> <mode>`
fn inf_args(args: &[&str]) -> Result<(String, Option<usize>, Option<usize>, String, bool), String> {
    let neg = match arg(args, 5)? {
        "-" => true,
        "+" => false,
        s => return Err(format!("bad-arg sign {}", s)),
    };
    Ok((arg(args, 0)?.to_string(), opt_usize(arg(args, 1)?)?, opt_usize(arg(args, 2)?)?, arg(args, 3)?.to_string(), neg))
}

fn frun_inf<R: Round, const B: Word>(args: &[&str]) -> Res {
    let (kind, p, w, fl, neg) = inf_args(args)?;
    let a = inf_val::<R, B>(neg);
    let kind = kind.as_str();
    match kind {
        "rdbg" => merge(&["fmt"], vec![run1t(|| fs(format!("{:?}", a.repr())))]),
        "rdbga" => merge(&["fmt"], vec![run1t(|| fs(format!("{:#?}", a.repr())))]),
        "disp" | "lexp" | "uexp" => {
            // FBig and Repr (Repr formats with mode Zero: no rounding is involved for an infinity) must print the same
            let r = a.repr().clone();
            merge(&["FBig", "Repr"], vec![run1t(|| fs(ffmt(&a, kind, p, w, &fl).unwrap())), run1t(|| fs(ffmt(&r, kind, p, w, &fl).unwrap()))])
        }
        _ => merge(&["fmt"], vec![run1t(|| fs(ffmt(&a, kind, p, w, &fl).unwrap()))]),
    }
}
fn frun_inf_bin<R: Round, const B: Word>(args: &[&str]) -> Res
where
    FBig<R, B>: core::fmt::Binary,
{
    let (_k, p, w, fl, neg) = inf_args(args)?;
    let a = inf_val::<R, B>(neg);
    merge(&["fmt"], vec![run1t(|| fs(ffmt_bin(&a, p, w, &fl).unwrap()))])
}
fn frun_inf_oct<R: Round, const B: Word>(args: &[&str]) -> Res
where
    FBig<R, B>: core::fmt::Octal,
{
    let (_k, p, w, fl, neg) = inf_args(args)?;
    let a = inf_val::<R, B>(neg);
    merge(&["fmt"], vec![run1t(|| fs(ffmt_oct(&a, p, w, &fl).unwrap()))])
}
fn frun_inf_hex<R: Round, const B: Word>(args: &[&str]) -> Res
where
    FBig<R, B>: core::fmt::LowerHex + core::fmt::UpperHex,
{
    let (k, p, w, fl, neg) = inf_args(args)?;
    let a = inf_val::<R, B>(neg);
    if k == "lhex" {
        merge(&["fmt"], vec![run1t(|| fs(ffmt_lhex(&a, p, w, &fl).unwrap()))])
    } else {
        merge(&["fmt"], vec![run1t(|| fs(ffmt_uhex(&a, p, w, &fl).unwrap()))])
    }
}

pub fn dispatch_float(op: &str, args: &[&str]) -> Option<Res> {
    if !op.starts_with("f.") {
        return None;
    }
    Some((|| -> Res {
        match op {
            "f.parse" => {
                let base = p_usize(arg(args, 0)?)? as u64;
                let mode = arg(args, 1)?.chars().next().ok_or("bad-arg mode")?;
                let s = p_str(arg(args, 2)?)?;
                fbase_table!(fparse, base, mode, &s)
            }
            "f.fmt" => {
                let a = p_farg(arg(args, 4)?)?;
                match (arg(args, 0)?, a.base) {
                    ("bin", 2) => fmode_table!(frun_bin, 2, a.mode, op, args),
                    ("oct", 8) => fmode_table!(frun_oct, 8, a.mode, op, args),
                    ("lhex", 2) | ("uhex", 2) => fmode_table!(frun_hex, 2, a.mode, op, args),
                    ("lhex", 16) | ("uhex", 16) => fmode_table!(frun_hex, 16, a.mode, op, args),
                    ("bin", _) | ("oct", _) | ("lhex", _) | ("uhex", _) => Err("bad-arg trait not implemented for the base".to_string()),
                    _ => fbase_table!(frun, a.base, a.mode, op, args),
                }
            }
            "f.fmtinf" => {
                let base = p_usize(arg(args, 4)?)? as u64;
                let mode = arg(args, 6)?.chars().next().ok_or("bad-arg mode")?;
                match (arg(args, 0)?, base) {
                    ("bin", 2) => fmode_table!(frun_inf_bin, 2, mode, args),
                    ("oct", 8) => fmode_table!(frun_inf_oct, 8, mode, args),
                    ("lhex", 2) | ("uhex", 2) => fmode_table!(frun_inf_hex, 2, mode, args),
                    ("lhex", 16) | ("uhex", 16) => fmode_table!(frun_inf_hex, 16, mode, args),
                    ("bin", _) | ("oct", _) | ("lhex", _) | ("uhex", _) => Err("bad-arg trait not implemented for the base".to_string()),
                    _ => fbase_table!(frun_inf, base, mode, args),
                }
            }
            "f.rt" | "f.with_precision" => {
                let a = p_farg(arg(args, 0)?)?;
                fbase_table!(frun, a.base, a.mode, op, args)
            }
            "f.rtsci" => sci::run(args),
            "f.with_base" => {
                let nb = p_usize(arg(args, 0)?)? as u64;
                let a = p_farg(arg(args, 1)?)?;
                with_base(&a, nb, None)
            }
            "f.with_base_prec" => {
                let nb = p_usize(arg(args, 0)?)? as u64;
                let p = p_usize(arg(args, 1)?)?;
                let a = p_farg(arg(args, 2)?)?;
                with_base(&a, nb, Some(p))
            }
            "f.with_base_chk" => {
                let nb = p_usize(arg(args, 0)?)? as u64;
                let p = match arg(args, 1)? {
                    "auto" => None,
                    s => Some(p_usize(s)?),
                };
                let a = p_farg(arg(args, 2)?)?;
                with_base_chk(&a, nb, p)
            }
            "f.from_f32" | "f.from_f64" => {
                let bits = u64::from_str_radix(arg(args, 0)?, 16).map_err(|_| "bad-arg bits".to_string())?;
                let mode = arg(args, 1)?.chars().next().ok_or("bad-arg mode")?;
                let is64 = op == "f.from_f64";
                match mode {
                    'Z' => from_float::<mode::Zero>(bits, is64),
                    'A' => from_float::<mode::Away>(bits, is64),
                    'U' => from_float::<mode::Up>(bits, is64),
                    'D' => from_float::<mode::Down>(bits, is64),
                    'E' => from_float::<mode::HalfEven>(bits, is64),
                    'H' => from_float::<mode::HalfAway>(bits, is64),
                    m => Err(format!("bad-arg mode {}", m)),
                }
            }
            _ => Err(format!("bad-op {}", op)),
        }
    })())
}

// C08 round 5: scientific text read back (`f.rtsci`)
#[path = "ops_text_sci.rs"]
mod sci;
