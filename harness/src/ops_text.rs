//! Integer text and byte encodings (C07).
//!
//! Ops (model side: lean/Dashu/Driver/Text.lean):
//!   u.fmt / i.fmt  T FA FL W N     format N through trait T with a format spec
//!        T  = d | b | o | x | X | r<radix>      (Display, Binary, Octal, LowerHex, UpperHex, in_radix)
//!        FA = 0..9  index into [fill]align table  ["", "<", "^", ">", "*<", "*^", "*>", "é<", "é^", "é>"]
//!        FL = subset of "+#0" in that order, or "-" for none
//!        W  = none | d:<width>
//!        -> s:<utf-8 bytes of the output>
//!        For T in d,b,o,x,X and |N| < 2^128 the output is additionally compared with Rust's own
//!        primitive formatting (u128; a negative value is '-' + magnitude, obtained by formatting the
//!        magnitude with the `+` flag and replacing the sign) — a difference prints `prim-disagree`.
//!   u.parse / i.parse  S d:radix          from_str_radix (+ FromStr forms when radix = 10) -> hex | err Kind
//!   u.parse_prefix / i.parse_prefix S     from_str_with_radix_prefix -> hex d:radix | err Kind
//!   u.parse_default / i.parse_default S d:radix   from_str_with_radix_default
//!   u.rt / i.rt N d:radix                 parse(print) round trip, both letter cases -> true | false
//!   u.le u.be i.le i.be N                 to_{le,be}_bytes -> s:bytes
//!   u.from_le u.from_be i.from_le i.from_be S -> hex
//!   u.chunks N d:k                        to_chunks -> d:count c0 c1 …
//!   u.from_chunks d:k c0 c1 …             from_chunks -> hex
use dashu_base::ParseError;
use dashu_int::{IBig, UBig};
use std::fmt::{Binary, Display, LowerHex, Octal, UpperHex};
use std::panic::{catch_unwind, AssertUnwindSafe};
use std::str::FromStr;
use verif_harness::forms::merge;
use verif_harness::util::*;

/// like forms::run1 but knows the documented panics of this group
fn run1t(f: impl FnOnce() -> String) -> String {
    match catch_unwind(AssertUnwindSafe(f)) {
        Ok(s) => format!("ok {}", s),
        Err(_) => {
            let (msg, loc) = LAST_PANIC
                .with(|p| p.borrow_mut().take())
                .unwrap_or_else(|| ("?".into(), "?".into()));
            if msg.contains("assertion failed: chunk_bits > 0") {
                // documented: "Panics if chunk_bits is zero"
                "panic ChunkBitsZero".to_string()
            } else {
                format!("panic {}", classify_panic(&msg, &loc))
            }
        }
    }
}

// ------------------------------------------------------------------ format spec table
// Rust format strings are compile-time; the flag product is expanded by nested macros into
// 10 (fill/align) x 2 (+) x 2 (#) x 2 (0) x {with, without width} x trait  format! calls.

macro_rules! leaf5 {
    ($v:expr, $w:expr, $tr:expr, [$($p:literal),*]) => {
        match ($tr, $w) {
            ('d', None) => Some(format!(concat!("{:", $($p,)* "}"), $v)),
            ('d', Some(w)) => Some(format!(concat!("{:", $($p,)* "w$", "}"), $v, w = w)),
            ('b', None) => Some(format!(concat!("{:", $($p,)* "b}"), $v)),
            ('b', Some(w)) => Some(format!(concat!("{:", $($p,)* "w$", "b}"), $v, w = w)),
            ('o', None) => Some(format!(concat!("{:", $($p,)* "o}"), $v)),
            ('o', Some(w)) => Some(format!(concat!("{:", $($p,)* "w$", "o}"), $v, w = w)),
            ('x', None) => Some(format!(concat!("{:", $($p,)* "x}"), $v)),
            ('x', Some(w)) => Some(format!(concat!("{:", $($p,)* "w$", "x}"), $v, w = w)),
            ('X', None) => Some(format!(concat!("{:", $($p,)* "X}"), $v)),
            ('X', Some(w)) => Some(format!(concat!("{:", $($p,)* "w$", "X}"), $v, w = w)),
            _ => None,
        }
    };
}
macro_rules! leaf1 {
    ($v:expr, $w:expr, $tr:expr, [$($p:literal),*]) => {
        match $w {
            None => Some(format!(concat!("{:", $($p,)* "}"), $v)),
            Some(w) => Some(format!(concat!("{:", $($p,)* "w$", "}"), $v, w = w)),
        }
    };
}
macro_rules! sel_zero {
    ($m:ident, $v:expr, $w:expr, $tr:expr, $zero:expr, [$($p:literal),*]) => {
        if $zero { $m!($v, $w, $tr, [$($p,)* "0"]) } else { $m!($v, $w, $tr, [$($p),*]) }
    };
}
macro_rules! sel_alt {
    ($m:ident, $v:expr, $w:expr, $tr:expr, $alt:expr, $zero:expr, [$($p:literal),*]) => {
        if $alt { sel_zero!($m, $v, $w, $tr, $zero, [$($p,)* "#"]) } else { sel_zero!($m, $v, $w, $tr, $zero, [$($p),*]) }
    };
}
macro_rules! sel_plus {
    ($m:ident, $v:expr, $w:expr, $tr:expr, $plus:expr, $alt:expr, $zero:expr, [$($p:literal),*]) => {
        if $plus { sel_alt!($m, $v, $w, $tr, $alt, $zero, [$($p,)* "+"]) } else { sel_alt!($m, $v, $w, $tr, $alt, $zero, [$($p),*]) }
    };
}
macro_rules! sel_fa {
    ($m:ident, $v:expr, $w:expr, $tr:expr, $fa:expr, $plus:expr, $alt:expr, $zero:expr) => {
        match $fa {
            0 => sel_plus!($m, $v, $w, $tr, $plus, $alt, $zero, [""]),
            1 => sel_plus!($m, $v, $w, $tr, $plus, $alt, $zero, ["<"]),
            2 => sel_plus!($m, $v, $w, $tr, $plus, $alt, $zero, ["^"]),
            3 => sel_plus!($m, $v, $w, $tr, $plus, $alt, $zero, [">"]),
            4 => sel_plus!($m, $v, $w, $tr, $plus, $alt, $zero, ["*<"]),
            5 => sel_plus!($m, $v, $w, $tr, $plus, $alt, $zero, ["*^"]),
            6 => sel_plus!($m, $v, $w, $tr, $plus, $alt, $zero, ["*>"]),
            7 => sel_plus!($m, $v, $w, $tr, $plus, $alt, $zero, ["é<"]),
            8 => sel_plus!($m, $v, $w, $tr, $plus, $alt, $zero, ["é^"]),
            9 => sel_plus!($m, $v, $w, $tr, $plus, $alt, $zero, ["é>"]),
            _ => None,
        }
    };
}

#[derive(Clone, Copy)]
struct Spec {
    tr: char,
    fa: usize,
    plus: bool,
    alt: bool,
    zero: bool,
    w: Option<usize>,
}

#[inline(never)]
fn fmt5<T: Display + Binary + Octal + LowerHex + UpperHex>(v: &T, s: Spec) -> Option<String> {
    sel_fa!(leaf5, v, s.w, s.tr, s.fa, s.plus, s.alt, s.zero)
}

#[inline(never)]
fn fmt1<T: Display>(v: &T, s: Spec) -> Option<String> {
    sel_fa!(leaf1, v, s.w, s.tr, s.fa, s.plus, s.alt, s.zero)
}

fn parse_spec(args: &[&str]) -> Result<(Spec, Option<u32>), String> {
    let t = arg(args, 0)?;
    let (tr, radix) = if let Some(r) = t.strip_prefix('r') {
        ('d', Some(r.parse::<u32>().map_err(|_| format!("bad-arg radix {}", t))?))
    } else {
        let c = t.chars().next().ok_or("bad-arg trait")?;
        if t.len() != 1 || !"dboxX".contains(c) {
            return Err(format!("bad-arg trait {}", t));
        }
        (c, None)
    };
    let fa: usize = arg(args, 1)?.parse().map_err(|_| "bad-arg fa".to_string())?;
    if fa > 9 {
        return Err("bad-arg fa".into());
    }
    let fl = arg(args, 2)?;
    if fl != "-" && !fl.chars().all(|c| "+#0".contains(c)) {
        return Err(format!("bad-arg flags {}", fl));
    }
    let w = match arg(args, 3)? {
        "none" => None,
        s => Some(p_usize(s)?),
    };
    Ok((
        Spec {
            tr,
            fa,
            plus: fl.contains('+'),
            alt: fl.contains('#'),
            zero: fl.contains('0'),
            w,
        },
        radix,
    ))
}

fn fs(s: String) -> String {
    f_bytes(s.as_bytes())
}

/// Rust's primitive formatting of sign * mag (sign '-' printed in front of the magnitude in every radix)
fn prim_fmt(neg: bool, mag: u128, s: Spec) -> String {
    if !neg {
        fmt5(&mag, s).unwrap()
    } else {
        let mut s2 = s;
        s2.plus = true;
        let out = fmt5(&mag, s2).unwrap();
        // pad_integral treats '+' and '-' alike; the fills of the table never contain '+'
        out.replacen('+', "-", 1)
    }
}

fn default_spec(s: Spec) -> bool {
    s.fa == 0 && !s.plus && !s.alt && !s.zero && s.w.is_none()
}

fn ubig_fmt(args: &[&str]) -> Res {
    let (spec, radix) = parse_spec(args)?;
    let v = p_ubig(arg(args, 4)?)?;
    let mut names = vec!["fmt"];
    let mut rs = vec![];
    match radix {
        Some(r) => {
            rs.push(run1t(|| fs(fmt1(&v.in_radix(r), spec).unwrap())));
            if default_spec(spec) {
                names.push("to_string");
                rs.push(run1t(|| fs(v.in_radix(r).to_string())));
            }
        }
        None => {
            rs.push(run1t(|| fs(fmt5(&v, spec).unwrap())));
            if default_spec(spec) && spec.tr == 'd' {
                names.push("to_string");
                rs.push(run1t(|| fs(v.to_string())));
            }
            if let Ok(p) = u128::try_from(&v) {
                let exp = format!("ok {}", fs(prim_fmt(false, p, spec)));
                if rs[0] != exp {
                    return Err(format!("prim-disagree dashu={} rust={}", rs[0].replace(' ', "_"), exp.replace(' ', "_")));
                }
            }
        }
    }
    merge(&names, rs)
}

fn ibig_fmt(args: &[&str]) -> Res {
    let (spec, radix) = parse_spec(args)?;
    let v = p_ibig(arg(args, 4)?)?;
    let mut names = vec!["fmt"];
    let mut rs = vec![];
    match radix {
        Some(r) => {
            rs.push(run1t(|| fs(fmt1(&v.in_radix(r), spec).unwrap())));
            if default_spec(spec) {
                names.push("to_string");
                rs.push(run1t(|| fs(v.in_radix(r).to_string())));
            }
        }
        None => {
            rs.push(run1t(|| fs(fmt5(&v, spec).unwrap())));
            if default_spec(spec) && spec.tr == 'd' {
                names.push("to_string");
                rs.push(run1t(|| fs(v.to_string())));
            }
            let (sign, mag) = v.clone().into_parts();
            if let Ok(p) = u128::try_from(&mag) {
                let neg = sign == dashu_base::Sign::Negative;
                let exp = format!("ok {}", fs(prim_fmt(neg, p, spec)));
                if rs[0] != exp {
                    return Err(format!("prim-disagree dashu={} rust={}", rs[0].replace(' ', "_"), exp.replace(' ', "_")));
                }
                // Display of an i128 is directly comparable (no sign trick needed)
                if spec.tr == 'd' {
                    if let Ok(q) = i128::try_from(&v) {
                        let mut s1 = spec;
                        s1.tr = 'd';
                        let direct = format!("ok {}", fs(fmt1(&q, s1).unwrap()));
                        if rs[0] != direct {
                            return Err(format!("prim-disagree dashu={} rust-i128={}", rs[0].replace(' ', "_"), direct.replace(' ', "_")));
                        }
                    }
                }
            }
        }
    }
    merge(&names, rs)
}

// ------------------------------------------------------------------ parsing

fn perr(e: ParseError) -> String {
    match e {
        ParseError::NoDigits => "err NoDigits",
        ParseError::InvalidDigit => "err InvalidDigit",
        ParseError::UnsupportedRadix => "err UnsupportedRadix",
        ParseError::InconsistentRadix => "err InconsistentRadix",
    }
    .to_string()
}

fn p_str(s: &str) -> Result<String, String> {
    String::from_utf8(p_bytes(s)?).map_err(|_| "bad-arg utf8".to_string())
}

fn p_radix(s: &str) -> Result<u32, String> {
    u32::try_from(p_dec(s)?).map_err(|_| "bad-arg radix".to_string())
}

/// parse results are printed as `<hex>` / `err Kind`; merged like call forms
fn merge_parse(names: &[&str], rs: Vec<String>) -> Res {
    // rs entries are "ok <payload>" or "panic <kind>"; payload may itself be "err Kind"
    match merge(names, rs) {
        Ok(v) if v.starts_with("err ") => Err(v),
        other => other,
    }
}

fn ures(r: Result<UBig, ParseError>) -> String {
    match r {
        Ok(v) => f_ubig(&v),
        Err(e) => perr(e),
    }
}
fn ires(r: Result<IBig, ParseError>) -> String {
    match r {
        Ok(v) => f_ibig(&v),
        Err(e) => perr(e),
    }
}
fn ures2(r: Result<(UBig, u32), ParseError>) -> String {
    match r {
        Ok((v, d)) => format!("{} d:{}", f_ubig(&v), d),
        Err(e) => perr(e),
    }
}
fn ires2(r: Result<(IBig, u32), ParseError>) -> String {
    match r {
        Ok((v, d)) => format!("{} d:{}", f_ibig(&v), d),
        Err(e) => perr(e),
    }
}

pub fn dispatch(op: &str, args: &[&str]) -> Option<Res> {
    Some((|| -> Res {
        match op {
            "u.fmt" => ubig_fmt(args),
            "i.fmt" => ibig_fmt(args),
            // ---------------------------------------------------------------- parse
            "u.parse" => {
                let s = p_str(arg(args, 0)?)?;
                let r = p_radix(arg(args, 1)?)?;
                let mut names = vec!["from_str_radix"];
                let mut rs = vec![run1t(|| ures(UBig::from_str_radix(&s, r)))];
                if r == 10 {
                    names.push("FromStr");
                    rs.push(run1t(|| ures(UBig::from_str(&s))));
                    names.push("parse");
                    rs.push(run1t(|| ures(s.parse::<UBig>())));
                }
                merge_parse(&names, rs)
            }
            "i.parse" => {
                let s = p_str(arg(args, 0)?)?;
                let r = p_radix(arg(args, 1)?)?;
                let mut names = vec!["from_str_radix"];
                let mut rs = vec![run1t(|| ires(IBig::from_str_radix(&s, r)))];
                if r == 10 {
                    names.push("FromStr");
                    rs.push(run1t(|| ires(IBig::from_str(&s))));
                    names.push("parse");
                    rs.push(run1t(|| ires(s.parse::<IBig>())));
                }
                merge_parse(&names, rs)
            }
            "u.parse_prefix" => {
                let s = p_str(arg(args, 0)?)?;
                let rs = vec![
                    run1t(|| ures2(UBig::from_str_with_radix_prefix(&s))),
                    run1t(|| ures2(UBig::from_str_with_radix_default(&s, 10))),
                ];
                merge_parse(&["prefix", "default10"], rs)
            }
            "i.parse_prefix" => {
                let s = p_str(arg(args, 0)?)?;
                let rs = vec![
                    run1t(|| ires2(IBig::from_str_with_radix_prefix(&s))),
                    run1t(|| ires2(IBig::from_str_with_radix_default(&s, 10))),
                ];
                merge_parse(&["prefix", "default10"], rs)
            }
            "u.parse_default" => {
                let s = p_str(arg(args, 0)?)?;
                let r = p_radix(arg(args, 1)?)?;
                merge_parse(&["default"], vec![run1t(|| ures2(UBig::from_str_with_radix_default(&s, r)))])
            }
            "i.parse_default" => {
                let s = p_str(arg(args, 0)?)?;
                let r = p_radix(arg(args, 1)?)?;
                merge_parse(&["default"], vec![run1t(|| ires2(IBig::from_str_with_radix_default(&s, r)))])
            }
            "u.rt" => {
                let v = p_ubig(arg(args, 0)?)?;
                let r = p_radix(arg(args, 1)?)?;
                let rs = vec![
                    run1t(|| (UBig::from_str_radix(&v.in_radix(r).to_string(), r).as_ref() == Ok(&v)).to_string()),
                    run1t(|| (UBig::from_str_radix(&format!("{:#}", v.in_radix(r)), r).as_ref() == Ok(&v)).to_string()),
                    run1t(|| (UBig::from_str_radix(&format!("{:+}", v.in_radix(r)), r).as_ref() == Ok(&v)).to_string()),
                ];
                merge(&["lower", "upper", "plus"], rs)
            }
            "i.rt" => {
                let v = p_ibig(arg(args, 0)?)?;
                let r = p_radix(arg(args, 1)?)?;
                let rs = vec![
                    run1t(|| (IBig::from_str_radix(&v.in_radix(r).to_string(), r).as_ref() == Ok(&v)).to_string()),
                    run1t(|| (IBig::from_str_radix(&format!("{:#}", v.in_radix(r)), r).as_ref() == Ok(&v)).to_string()),
                    run1t(|| (IBig::from_str_radix(&format!("{:+}", v.in_radix(r)), r).as_ref() == Ok(&v)).to_string()),
                ];
                merge(&["lower", "upper", "plus"], rs)
            }
            // ---------------------------------------------------------------- bytes
            "u.le" => {
                let v = p_ubig(arg(args, 0)?)?;
                merge(&["le"], vec![run1t(|| f_bytes(&v.to_le_bytes()))])
            }
            "u.be" => {
                let v = p_ubig(arg(args, 0)?)?;
                merge(&["be"], vec![run1t(|| f_bytes(&v.to_be_bytes()))])
            }
            "i.le" => {
                let v = p_ibig(arg(args, 0)?)?;
                merge(&["le"], vec![run1t(|| f_bytes(&v.to_le_bytes()))])
            }
            "i.be" => {
                let v = p_ibig(arg(args, 0)?)?;
                merge(&["be"], vec![run1t(|| f_bytes(&v.to_be_bytes()))])
            }
            "u.from_le" => {
                let b = p_bytes(arg(args, 0)?)?;
                merge(&["from_le"], vec![run1t(|| f_ubig(&UBig::from_le_bytes(&b)))])
            }
            "u.from_be" => {
                let b = p_bytes(arg(args, 0)?)?;
                merge(&["from_be"], vec![run1t(|| f_ubig(&UBig::from_be_bytes(&b)))])
            }
            "i.from_le" => {
                let b = p_bytes(arg(args, 0)?)?;
                merge(&["from_le"], vec![run1t(|| f_ibig(&IBig::from_le_bytes(&b)))])
            }
            "i.from_be" => {
                let b = p_bytes(arg(args, 0)?)?;
                merge(&["from_be"], vec![run1t(|| f_ibig(&IBig::from_be_bytes(&b)))])
            }
            // ---------------------------------------------------------------- chunks
            "u.chunks" => {
                let v = p_ubig(arg(args, 0)?)?;
                let k = p_usize(arg(args, 1)?)?;
                merge(
                    &["to_chunks"],
                    vec![run1t(|| {
                        let cs = v.to_chunks(k);
                        let mut s = f_dec(cs.len());
                        for c in cs.iter() {
                            s.push(' ');
                            s.push_str(&f_ubig(c));
                        }
                        s
                    })],
                )
            }
            "u.from_chunks" => {
                let k = p_usize(arg(args, 0)?)?;
                let mut cs = vec![];
                for a in &args[1..] {
                    cs.push(p_ubig(a)?);
                }
                merge(&["from_chunks"], vec![run1t(|| f_ubig(&UBig::from_chunks(cs.iter(), k)))])
            }
            _ => Err("__none__".into()),
        }
    })())
    .and_then(|r| match r {
        Err(e) if e == "__none__" => None,
        other => Some(other),
    })
}
