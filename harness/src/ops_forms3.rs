//! `fold <u|i|z2|h10> <sum|product> item…` — the `Sum` / `Product` impls (`iter.fold(INIT, OP)` of
//! {integer,rational,float}/src/iter.rs) against the explicit left fold with the operator forms (C15):
//! every item form the blanket impl admits (`T`, `&T`, and an integer item type where the values allow it)
//! must give what `((INIT op x0) op x1) op …` gives with the owned operator, the borrowed operator and the
//! compound-assignment operator.  Items: integers `[-]hex`, floats `f:m:e:p` / `n:hex`.
use crate::forms_rt2::*;
use dashu_float::{round::{mode, Round}, FBig};
use dashu_int::{IBig, UBig, Word};
use verif_harness::util::*;

macro_rules! fold_forms {
    ($out:ident, $sum:ident, $t:ty, $items:expr, $init:expr) => {{
        let items: &Vec<$t> = $items;
        if $sum {
            $out.push(("Sum<T>".to_string(), run1(|| show(&items.iter().cloned().sum::<$t>()))));
            $out.push(("Sum<&T>".to_string(), run1(|| show(&items.iter().sum::<$t>()))));
            $out.push(("fold `acc + x`".to_string(), run1(|| { let mut acc: $t = $init; for x in items.iter() { acc = acc + x.clone(); } show(&acc) })));
            $out.push(("fold `acc + &x`".to_string(), run1(|| { let mut acc: $t = $init; for x in items.iter() { acc = acc + x; } show(&acc) })));
            $out.push(("fold `acc += x`".to_string(), run1(|| { let mut acc: $t = $init; for x in items.iter() { acc += x.clone(); } show(&acc) })));
            $out.push(("fold `acc += &x`".to_string(), run1(|| { let mut acc: $t = $init; for x in items.iter() { acc += x; } show(&acc) })));
        } else {
            $out.push(("Product<T>".to_string(), run1(|| show(&items.iter().cloned().product::<$t>()))));
            $out.push(("Product<&T>".to_string(), run1(|| show(&items.iter().product::<$t>()))));
            $out.push(("fold `acc * x`".to_string(), run1(|| { let mut acc: $t = $init; for x in items.iter() { acc = acc * x.clone(); } show(&acc) })));
            $out.push(("fold `acc * &x`".to_string(), run1(|| { let mut acc: $t = $init; for x in items.iter() { acc = acc * x; } show(&acc) })));
            $out.push(("fold `acc *= x`".to_string(), run1(|| { let mut acc: $t = $init; for x in items.iter() { acc *= x.clone(); } show(&acc) })));
            $out.push(("fold `acc *= &x`".to_string(), run1(|| { let mut acc: $t = $init; for x in items.iter() { acc *= x; } show(&acc) })));
        }
    }};
}

/// items of another type that the blanket impl admits (`$t: Add<$it, Output = $t>`)
macro_rules! fold_items {
    ($out:ident, $sum:ident, $t:ty, $it:ty, $name:expr, $items:expr) => {{
        let items: &Vec<$it> = $items;
        if $sum {
            $out.push((format!("Sum<{}>", $name), run1(|| show(&items.iter().cloned().sum::<$t>()))));
        } else {
            $out.push((format!("Product<{}>", $name), run1(|| show(&items.iter().cloned().product::<$t>()))));
        }
    }};
}

fn floats<R: Round, const B: Word>(args: &[&str]) -> Result<Vec<FBig<R, B>>, String> {
    let mut v = Vec::new();
    for a in args {
        match parse_operand(a)? {
            Operand::Float(m, e, p) => v.push(FBig::<R, B>::from_parts(m, e).with_precision(p).value()),
            Operand::Int(n) => v.push(FBig::<R, B>::from(n)),
            Operand::Inf(neg, p) => {
                let r = if neg { dashu_float::Repr::<B>::neg_infinity() } else { dashu_float::Repr::<B>::infinity() };
                v.push(FBig::<R, B>::from_repr(r, dashu_float::Context::<R>::new(p)))
            }
        }
    }
    Ok(v)
}

pub fn dispatch(op: &str, args: &[&str]) -> Option<Res> {
    match op {
        "fold" => Some((|| -> Res {
            let ty = arg(args, 0)?;
            let sum = match arg(args, 1)? {
                "sum" => true,
                "product" => false,
                o => return Err(format!("bad-op fold {}", o)),
            };
            let rest = &args[2..];
            let mut out: Vec<(String, String)> = Vec::new();
            match ty {
                "u" => {
                    let items: Vec<UBig> = rest.iter().map(|a| p_ubig(a)).collect::<Result<_, _>>()?;
                    fold_forms!(out, sum, UBig, &items, if sum { UBig::ZERO } else { UBig::ONE });
                    let prims: Option<Vec<u64>> = items.iter().map(|x| u64::try_from(x.clone()).ok()).collect();
                    if let Some(p) = prims {
                        fold_items!(out, sum, UBig, u64, "u64", &p);
                    }
                }
                "i" => {
                    let items: Vec<IBig> = rest.iter().map(|a| p_ibig(a)).collect::<Result<_, _>>()?;
                    fold_forms!(out, sum, IBig, &items, if sum { IBig::ZERO } else { IBig::ONE });
                    let prims: Option<Vec<i64>> = items.iter().map(|x| i64::try_from(x.clone()).ok()).collect();
                    if let Some(p) = prims {
                        fold_items!(out, sum, IBig, i64, "i64", &p);
                    }
                    let us: Option<Vec<UBig>> = items.iter().map(|x| UBig::try_from(x.clone()).ok()).collect();
                    if let Some(u) = us {
                        fold_items!(out, sum, IBig, UBig, "UBig", &u);
                    }
                }
                // NOTE: rational/src/iter.rs (Sum / Product for RBig, Relaxed) is not part of the crate at this commit
                // (`mod iter;` is missing in rational/src/lib.rs), so there is nothing to call for "r" / "x"
                "z2" => {
                    let items = floats::<mode::Zero, 2>(rest)?;
                    fold_forms!(out, sum, FBig<mode::Zero, 2>, &items, if sum { FBig::<mode::Zero, 2>::ZERO } else { FBig::<mode::Zero, 2>::ONE });
                }
                "h10" => {
                    let items = floats::<mode::HalfAway, 10>(rest)?;
                    fold_forms!(out, sum, FBig<mode::HalfAway, 10>, &items, if sum { FBig::<mode::HalfAway, 10>::ZERO } else { FBig::<mode::HalfAway, 10>::ONE });
                }
                _ => return Err(format!("bad-op fold type {}", ty)),
            }
            // the common value is printed (the Lean driver computes it: integers at the Int specification, floats by the
            // mirrored operator model)
            verdict_value(out)
        })()),
        _ => None,
    }
}
