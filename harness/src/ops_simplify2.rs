//! C18 (round 5): `RBig::simplest_from_float` over MORE BASES than `ops_ratio::from_float`
//! (2, 3, 4, 5, 7, 8, 10, 16, 36, 100, 255) and with infinities carried by an arbitrary context:
//!   s2.fromfloat <mode> d:<base> <signif hex int | inf | -inf> d:<exp> d:<precision>
//! (`s.fromfloat` with a base outside {2, 3, 10, 16}, or `inf` with a non-zero precision, is also served here).
//! The float is `FBig::from_repr(Repr::new(signif, exp), Context::new(precision))`, an infinity is
//! `FBig::from_repr(Repr::infinity() / neg_infinity(), Context::new(precision))`.
use dashu_int::IBig;
use dashu_ratio::RBig;
use std::panic::{catch_unwind, AssertUnwindSafe};
use verif_harness::util::*;

fn catch<T>(f: impl FnOnce() -> T) -> Result<T, String> {
    match catch_unwind(AssertUnwindSafe(f)) {
        Ok(v) => Ok(v),
        Err(_) => {
            let (msg, loc) = LAST_PANIC
                .with(|p| p.borrow_mut().take())
                .unwrap_or_else(|| ("?".into(), "?".into()));
            Err(format!("panic {}", classify_panic(&msg, &loc)))
        }
    }
}

/// `None` = infinity of the given sign
fn run_g<R: dashu_float::round::ErrorBounds, const B: dashu_int::Word>(
    val: Result<(IBig, isize), bool>,
    prec: usize,
) -> Res {
    catch(|| {
        let repr = match &val {
            Ok((s, e)) => dashu_float::Repr::<B>::new(s.clone(), *e),
            Err(false) => dashu_float::Repr::<B>::infinity(),
            Err(true) => dashu_float::Repr::<B>::neg_infinity(),
        };
        let f = dashu_float::FBig::<R, B>::from_repr(repr, dashu_float::Context::<R>::new(prec));
        RBig::simplest_from_float(&f)
    })
    .map(|v| {
        v.map(|r| format!("{}/{}", f_ibig(r.numerator()), f_ubig(r.denominator())))
            .unwrap_or_else(|| "none".into())
    })
}

/// (round 6) `eb.bounds <mode> d:<base> <signif> d:<exp> d:<precision>`: `<R as ErrorBounds>::error_bounds(&f)` called DIRECTLY
/// (float/src/round.rs), printed as exact values `L R incl_L incl_R` (L, R as reduced fractions through `RBig::try_from`).
fn bounds_g<R: dashu_float::round::ErrorBounds, const B: dashu_int::Word>(
    val: Result<(IBig, isize), bool>,
    prec: usize,
) -> Res {
    let (s, e) = match val {
        Ok(v) => v,
        Err(_) => return Err("bad-arg eb.bounds of an infinity".into()),
    };
    catch(|| {
        let f = dashu_float::FBig::<R, B>::from_repr(
            dashu_float::Repr::<B>::new(s.clone(), e),
            dashu_float::Context::<R>::new(prec),
        );
        let (l, r, il, ir) = R::error_bounds(&f);
        let q = |x: dashu_float::FBig<R, B>| {
            let v = RBig::try_from(x).unwrap();
            format!("{}/{}", f_ibig(v.numerator()), f_ubig(v.denominator()))
        };
        format!("{} {} {} {}", q(l), q(r), il, ir)
    })
}

fn run_op(bounds: bool, mode: &str, base: usize, val: Result<(IBig, isize), bool>, prec: usize) -> Res {
    use dashu_float::round::mode::*;
    macro_rules! by_base {
        ($R:ty) => {
            match base {
                2 => if bounds { bounds_g::<$R, 2>(val, prec) } else { run_g::<$R, 2>(val, prec) },
                3 => if bounds { bounds_g::<$R, 3>(val, prec) } else { run_g::<$R, 3>(val, prec) },
                4 => if bounds { bounds_g::<$R, 4>(val, prec) } else { run_g::<$R, 4>(val, prec) },
                5 => if bounds { bounds_g::<$R, 5>(val, prec) } else { run_g::<$R, 5>(val, prec) },
                7 => if bounds { bounds_g::<$R, 7>(val, prec) } else { run_g::<$R, 7>(val, prec) },
                8 => if bounds { bounds_g::<$R, 8>(val, prec) } else { run_g::<$R, 8>(val, prec) },
                10 => if bounds { bounds_g::<$R, 10>(val, prec) } else { run_g::<$R, 10>(val, prec) },
                16 => if bounds { bounds_g::<$R, 16>(val, prec) } else { run_g::<$R, 16>(val, prec) },
                36 => if bounds { bounds_g::<$R, 36>(val, prec) } else { run_g::<$R, 36>(val, prec) },
                100 => if bounds { bounds_g::<$R, 100>(val, prec) } else { run_g::<$R, 100>(val, prec) },
                255 => if bounds { bounds_g::<$R, 255>(val, prec) } else { run_g::<$R, 255>(val, prec) },
                _ => Err("bad-arg base".into()),
            }
        };
    }
    match mode {
        "Zero" => by_base!(Zero),
        "Away" => by_base!(Away),
        "Up" => by_base!(Up),
        "Down" => by_base!(Down),
        "HalfAway" => by_base!(HalfAway),
        "HalfEven" => by_base!(HalfEven),
        _ => Err("bad-arg mode".into()),
    }
}

pub fn dispatch(op: &str, args: &[&str]) -> Option<Res> {
    // `s2.fromfloat`: always here.  `s.fromfloat`: taken over only for what `ops_ratio::from_float` cannot build
    // (a base outside {2, 3, 10, 16}, or an infinity carried by a context of non-zero precision).
    if op == "s.fromfloat" {
        let legacy_base = matches!(args.get(1).copied(), Some("d:2") | Some("d:3") | Some("d:10") | Some("d:16"));
        let inf = matches!(args.get(2).copied(), Some("inf") | Some("-inf"));
        let prec0 = matches!(args.get(4).copied(), Some("d:0"));
        if legacy_base && (!inf || prec0) {
            return None;
        }
    } else if op != "s2.fromfloat" && op != "eb.bounds" {
        return None;
    }
    let bounds = op == "eb.bounds";
    let r: Res = (|| -> Res {
        let mode = arg(args, 0)?;
        let base = p_usize(arg(args, 1)?)?;
        let sg = arg(args, 2)?;
        let exp = p_dec(arg(args, 3)?)? as isize;
        let prec = p_usize(arg(args, 4)?)?;
        let val = match sg {
            "inf" => Err(false),
            "-inf" => Err(true),
            _ => Ok((p_ibig(sg)?, exp)),
        };
        run_op(bounds, mode, base, val, prec)
    })();
    Some(r)
}
