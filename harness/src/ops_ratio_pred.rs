//! C04 (round 5): the predicates, accessors and constants of rational/src/{rbig,sign}.rs that carry no arithmetic:
//!   qp.preds q:<num>/<den>:<R|X>   ->  `<sign +|-> <is_zero> <is_one> <is_int | -> <into_parts n/d> <clone_from n/d>`
//!        (`sign` through the inherent method AND the `Signed` trait, `as_relaxed()` for an RBig — all forms must agree;
//!         `is_int` exists for RBig only)
//!   qp.consts <R|X>                ->  `ZERO ONE NEG_ONE default()` as stored pairs
//!   qp.prog <regs…> ; <steps…>       ->  alias of `prog` of ops_ratio.rs (the model side uses the guarded pow)
//!   qp.pow q:<num>/<den>:<R|X> d:<n> ->  `<num>/<den>` of `pow(n)` as stored, or `panic AllocTooMuch` (round 6: the allocation
//!        guards of IBig::pow / UBig::pow under Repr::pow — exp.checked_mul(shift), Buffer::allocate of the final shift)
use dashu_base::{Sign, Signed};
use dashu_int::{IBig, UBig};
use dashu_ratio::{RBig, Relaxed};
use std::panic::{catch_unwind, AssertUnwindSafe};
use verif_harness::util::*;

fn catch<T>(f: impl FnOnce() -> T) -> Result<T, String> {
    match catch_unwind(AssertUnwindSafe(f)) {
        Ok(v) => Ok(v),
        Err(_) => {
            let (msg, loc) = LAST_PANIC
                .with(|p| p.borrow_mut().take())
                .unwrap_or_else(|| ("?".into(), "?".into()));
            Err(format!("panic {}", classify_panic(&msg, &loc)))
        }
    }
}

fn parts(s: &str) -> Result<(IBig, UBig, char), String> {
    let body = s.strip_prefix("q:").ok_or_else(|| format!("bad-arg q {}", s))?;
    let mut it = body.split(':');
    let frac = it.next().ok_or("bad-arg q")?;
    let kind = it.next().ok_or("bad-arg q kind")?;
    let mut nd = frac.split('/');
    let n = p_ibig(nd.next().ok_or("bad-arg q num")?)?;
    let d = p_ubig(nd.next().ok_or("bad-arg q den")?)?;
    match kind {
        "R" => Ok((n, d, 'R')),
        "X" => Ok((n, d, 'X')),
        _ => Err(format!("bad-arg q kind {}", s)),
    }
}

fn sg(s: Sign) -> &'static str {
    if s == Sign::Negative {
        "-"
    } else {
        "+"
    }
}

fn pair(n: &IBig, d: &UBig) -> String {
    format!("{}/{}", f_ibig(n), f_ubig(d))
}

pub fn dispatch(op: &str, args: &[&str]) -> Option<Res> {
    let o = op.strip_prefix("qp.")?;
    if o == "prog" {
        // round 6: the same register programs as `prog` (ops_ratio.rs; the real `pow` raises its allocation panic by itself);
        // the Lean side runs them with the guarded `pow` (`runG`)
        return super::ops_ratio::dispatch("prog", args);
    }
    let r: Res = (|| -> Res {
        match o {
            "preds" => {
                let (n, d, k) = parts(arg(args, 0)?)?;
                let out = catch(|| {
                    if k == 'R' {
                        let a = RBig::from_parts(n.clone(), d.clone());
                        let s1 = a.sign();
                        let s2 = Signed::sign(&a);
                        let s3 = a.as_relaxed().sign();
                        let z = (a.is_zero(), a.as_relaxed().is_zero());
                        let one = (a.is_one(), a.as_relaxed().is_one());
                        let mut c = RBig::ONE;
                        c.clone_from(&a);
                        let (pn, pd) = a.clone().into_parts();
                        if s1 != s2 || s1 != s3 || z.0 != z.1 || one.0 != one.1 {
                            return format!(
                                "forms-disagree sign={}{}{} zero={}/{} one={}/{}",
                                sg(s1), sg(s2), sg(s3), z.0, z.1, one.0, one.1
                            );
                        }
                        format!(
                            "{} {} {} {} {} {}",
                            sg(s1), z.0, one.0, a.is_int(), pair(&pn, &pd), pair(c.numerator(), c.denominator())
                        )
                    } else {
                        let a = Relaxed::from_parts(n.clone(), d.clone());
                        let s1 = a.sign();
                        let s2 = Signed::sign(&a);
                        let mut c = Relaxed::ONE;
                        c.clone_from(&a);
                        let (pn, pd) = a.clone().into_parts();
                        if s1 != s2 {
                            return format!("forms-disagree sign={}{}", sg(s1), sg(s2));
                        }
                        format!(
                            "{} {} {} - {} {}",
                            sg(s1), a.is_zero(), a.is_one(), pair(&pn, &pd), pair(c.numerator(), c.denominator())
                        )
                    }
                });
                match out {
                    Ok(s) => Ok(s),
                    Err(p) => Err(p),
                }
            }
            "pow" => {
                let (n, d, k) = parts(arg(args, 0)?)?;
                let e = p_usize(arg(args, 1)?)?;
                let out = catch(|| {
                    if k == 'R' {
                        let a = RBig::from_parts(n.clone(), d.clone());
                        let r = a.pow(e);
                        pair(r.numerator(), r.denominator())
                    } else {
                        let a = Relaxed::from_parts(n.clone(), d.clone());
                        let r = a.pow(e);
                        pair(r.numerator(), r.denominator())
                    }
                });
                match out {
                    Ok(s) => Ok(s),
                    Err(p) => Err(p),
                }
            }
            "consts" => match arg(args, 0)? {
                "R" => {
                    let v = [RBig::ZERO, RBig::ONE, RBig::NEG_ONE, RBig::default()];
                    Ok(v.iter().map(|x| pair(x.numerator(), x.denominator())).collect::<Vec<_>>().join(" "))
                }
                "X" => {
                    let v = [Relaxed::ZERO, Relaxed::ONE, Relaxed::NEG_ONE, Relaxed::default()];
                    Ok(v.iter().map(|x| pair(x.numerator(), x.denominator())).collect::<Vec<_>>().join(" "))
                }
                _ => Err("bad-arg kind".into()),
            },
            _ => Err("__none__".into()),
        }
    })();
    match r {
        Err(e) if e == "__none__" => None,
        other => Some(other),
    }
}
