//! C08, round 5 — child module of `ops_text` (declared at the end of ops_text.rs, uses its private helpers).
//!
//!   f.rtsci K P S F [W]  K = lexp | uexp (every base) | bin (base 2) | oct (base 8) | lhex | uhex (base 16, and base 2 in the
//!                        hexadecimal form 0xh.hhp±e); P = none | d:precision; S = - | + | 0 | +0 (`+` and zero flags); W = optional width d:n.
//!                        format!("{:K}") / {:.P$K} / {:+K} ... then `str::parse::<FBig<R, B>>()` of the text:
//!                        -> `<text s:bytes> <result of the parse>`   (model side: lean/Dashu/Driver/TextSci.lean)
use super::*;

fn back<R: Round, const B: Word>(text: String) -> String {
    let b = match text.parse::<FBig<R, B>>() {
        Ok(v) => ff(&v),
        Err(e) => perr(e),
    };
    format!("{} {}", fs(text), b)
}

/// (kind, precision, flags, value, width)
fn sci_args<R: Round, const B: Word>(args: &[&str]) -> Result<(String, Option<usize>, String, FBig<R, B>, Option<usize>), String> {
    let fl = arg(args, 2)?;
    if fl != "+" && fl != "-" && fl != "0" && fl != "+0" {
        return Err(format!("bad-arg sign flag {}", fl));
    }
    let w = if args.len() > 4 { Some(p_usize(arg(args, 4)?)?) } else { None };
    Ok((arg(args, 0)?.to_string(), opt_usize(arg(args, 1)?)?, fl.to_string(), build::<R, B>(&p_farg(arg(args, 3)?)?), w))
}

fn sci_exp<R: Round, const B: Word>(args: &[&str]) -> Res {
    let (k, p, fl, a, w) = sci_args::<R, B>(args)?;
    merge(&["rtsci"], vec![run1t(|| back::<R, B>(ffmt(&a, &k, p, w, &fl).unwrap()))])
}
fn sci_bin<R: Round, const B: Word>(args: &[&str]) -> Res
where
    FBig<R, B>: core::fmt::Binary,
{
    let (_k, p, fl, a, w) = sci_args::<R, B>(args)?;
    merge(&["rtsci"], vec![run1t(|| back::<R, B>(ffmt_bin(&a, p, w, &fl).unwrap()))])
}
fn sci_oct<R: Round, const B: Word>(args: &[&str]) -> Res
where
    FBig<R, B>: core::fmt::Octal,
{
    let (_k, p, fl, a, w) = sci_args::<R, B>(args)?;
    merge(&["rtsci"], vec![run1t(|| back::<R, B>(ffmt_oct(&a, p, w, &fl).unwrap()))])
}
fn sci_hex<R: Round, const B: Word>(args: &[&str]) -> Res
where
    FBig<R, B>: core::fmt::LowerHex + core::fmt::UpperHex,
{
    let (k, p, fl, a, w) = sci_args::<R, B>(args)?;
    if k == "lhex" {
        merge(&["rtsci"], vec![run1t(|| back::<R, B>(ffmt_lhex(&a, p, w, &fl).unwrap()))])
    } else {
        merge(&["rtsci"], vec![run1t(|| back::<R, B>(ffmt_uhex(&a, p, w, &fl).unwrap()))])
    }
}

pub fn run(args: &[&str]) -> Res {
    let a = p_farg(arg(args, 3)?)?;
    match (arg(args, 0)?, a.base) {
        ("bin", 2) => fmode_table!(sci_bin, 2, a.mode, args),
        ("oct", 8) => fmode_table!(sci_oct, 8, a.mode, args),
        ("lhex", 2) | ("uhex", 2) => fmode_table!(sci_hex, 2, a.mode, args),
        ("lhex", 16) | ("uhex", 16) => fmode_table!(sci_hex, 16, a.mode, args),
        ("lexp", _) | ("uexp", _) => fbase_table!(sci_exp, a.base, a.mode, args),
        _ => Err("bad-arg trait not implemented for the base".to_string()),
    }
}
