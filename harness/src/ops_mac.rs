//! C20 level (i): the expansion functions of `/repo/macros/src/parse/*.rs` (included by path in
//! `exec_mac.rs` as `crate::parse`) are called **at run time** on token streams built from the case,
//! and the token stream they produce is *interpreted*: constructor paths are recognised and the real
//! constructors (`UBig::from_dword`, `from_le_bytes`, `from_static_words`, `FBig::from_parts_const`,
//! `Repr::new`, `RBig::from_parts`, …) are called with the data found in the tokens.
//!
//! Case:   `mac.<kind> <plain|static> <tok>…`   kind = ubig | ibig | fbig | dbig | rbig
//!         tok = `L:<literal>` | `I:<ident>` | `P:<punct char>` | `G:<literal>` (a parenthesised group)
//! Answer: `ok <path> <value…> rt:<value…|err|none>` or `reject rt:<…>`
//!   path  = const | bytes | static | heap (ratio built by from_parts at run time; how its two parts
//!           are spelled is not observable through the value and not promised)
//!   value = int: hex; float: `<signif> d:<exp> d:<prec>`; ratio: `<num>/<den>:<R|X>`
//!   rt    = what the run-time parser says about the same text (concatenated tokens; `base N` =
//!           from_str_radix; fbig: one leading `_` after the sign is macro-only syntax)
//!   static word arrays: all three selections (u16/u32/u64) are evaluated with an independent
//!   little-endian evaluation; they must agree, be padded with zeros to the common length and end in a
//!   non-zero word — otherwise `static-arrays-bad(<why>)` is appended.
//!
//! Level (ii) (`mac.compiled <idx> …`, `mac.cfail <idx> …`): answers recorded from the generated crate
//! that was compiled with the real proc-macros (`vlib/props/c20.py::pre_build`), read from the file
//! named by `DASHU_MAC_COMPILED`.
use crate::parse;
use dashu_base::Sign;
use dashu_float::{round::mode, Context, DBig, FBig, Repr};
use dashu_int::{DoubleWord, IBig, UBig, Word};
use dashu_ratio::{RBig, Relaxed};
use proc_macro2::{Delimiter, Group, Ident, Literal, Punct, Spacing, Span, TokenStream, TokenTree};
use std::collections::HashMap;
use std::str::FromStr;
use verif_harness::util::*;

type FBin = FBig<mode::Zero, 2>;

// ------------------------------------------------------------------------------------------ input

fn build_tokens(toks: &[&str]) -> Result<(TokenStream, Vec<(char, String)>), String> {
    let mut ts = TokenStream::new();
    let mut plain = Vec::new();
    for t in toks {
        let (k, body) = t.split_at(2.min(t.len()));
        let tree = match k {
            "L:" => TokenTree::Literal(Literal::from_str(body).map_err(|_| format!("bad-arg literal {}", body))?),
            "I:" => {
                if body.is_empty() || !body.chars().all(|c| c.is_ascii_alphanumeric() || c == '_') || body.as_bytes()[0].is_ascii_digit() {
                    return Err(format!("bad-arg ident {}", body));
                }
                TokenTree::Ident(Ident::new(body, Span::call_site()))
            }
            "P:" => TokenTree::Punct(Punct::new(body.chars().next().ok_or("bad-arg punct")?, Spacing::Alone)),
            "G:" => {
                let inner: TokenStream =
                    std::iter::once(TokenTree::Literal(Literal::from_str(body).map_err(|_| format!("bad-arg literal {}", body))?)).collect();
                TokenTree::Group(Group::new(Delimiter::Parenthesis, inner))
            }
            _ => return Err(format!("bad-arg token {}", t)),
        };
        plain.push((k.chars().next().unwrap(), body.to_string()));
        ts.extend(std::iter::once(tree));
    }
    Ok((ts, plain))
}

// ------------------------------------------------------------------------------------------ interpreter of the expansion

#[derive(Clone, Debug)]
enum Tok {
    Id(String),
    P(char),
    Lit(String),
    G(Delimiter, Vec<Tok>),
}

fn flatten(ts: TokenStream) -> Vec<Tok> {
    ts.into_iter()
        .map(|t| match t {
            TokenTree::Ident(i) => Tok::Id(i.to_string()),
            TokenTree::Punct(p) => Tok::P(p.as_char()),
            TokenTree::Literal(l) => Tok::Lit(l.to_string()),
            TokenTree::Group(g) => Tok::G(g.delimiter(), flatten(g.stream())),
        })
        .collect()
}

#[derive(Clone)]
struct WordSel {
    // (LEN, DATA) per selector width
    arrays: Vec<(u32, usize, Vec<u128>)>,
    max_len: usize,
}

#[derive(Clone)]
enum V {
    Num(i128),
    Sign(Sign),
    Bytes(Vec<u8>),
    Words(WordSel),
    U(UBig, String),
    I(IBig, String),
    R2(Repr<2>, String),
    R10(Repr<10>, String),
    Ctx(usize),
    F2(FBin, String),
    F10(DBig, String),
    Q(RBig, String),
    X(Relaxed, String),
    Opt(Option<Box<V>>),
    Ref(Box<V>),
}

struct Interp {
    problems: Vec<String>,
    /// the `_embedded` variants (what the `dashu` meta crate's macros call): constructor paths start with
    /// `::dashu::integer` / `::dashu::float` / `::dashu::rational` instead of `::dashu_int` / …
    embedded: bool,
}

type R<T> = Result<T, String>;

struct Cur<'a> {
    t: &'a [Tok],
    i: usize,
}

impl<'a> Cur<'a> {
    fn peek(&self) -> Option<&'a Tok> {
        self.t.get(self.i)
    }
    fn peek_at(&self, k: usize) -> Option<&'a Tok> {
        self.t.get(self.i + k)
    }
    fn next(&mut self) -> Option<&'a Tok> {
        let x = self.t.get(self.i);
        self.i += 1;
        x
    }
    fn eat_p(&mut self, c: char) -> bool {
        if let Some(Tok::P(x)) = self.peek() {
            if *x == c {
                self.i += 1;
                return true;
            }
        }
        false
    }
    fn eat_id(&mut self, s: &str) -> bool {
        if let Some(Tok::Id(x)) = self.peek() {
            if x == s {
                self.i += 1;
                return true;
            }
        }
        false
    }
    fn expect_p(&mut self, c: char) -> R<()> {
        if self.eat_p(c) {
            Ok(())
        } else {
            Err(format!("expected `{}` at {:?}", c, self.peek()))
        }
    }
    fn done(&self) -> bool {
        self.i >= self.t.len()
    }
}

fn lit_num(s: &str) -> R<i128> {
    // `123u32`, `5usize`, `7isize`, `200` (unsuffixed u8/u16/u32/u64)
    let digits: String = s.chars().take_while(|c| c.is_ascii_digit()).collect();
    let suffix = &s[digits.len()..];
    if digits.is_empty() || !matches!(suffix, "" | "u8" | "u16" | "u32" | "u64" | "usize" | "isize") {
        return Err(format!("unexpected literal {}", s));
    }
    digits.parse::<i128>().map_err(|_| format!("literal too large {}", s))
}

/// `:: a :: b :: < … > :: c` → segments (generic arguments are kept as the text of their tokens)
fn parse_path(c: &mut Cur) -> R<(Vec<String>, Vec<String>)> {
    let mut segs = Vec::new();
    let mut generics = Vec::new();
    loop {
        // leading or separating `::`
        let mut sep = false;
        if let (Some(Tok::P(':')), Some(Tok::P(':'))) = (c.peek(), c.peek_at(1)) {
            c.i += 2;
            sep = true;
        }
        if !segs.is_empty() && !sep {
            break;
        }
        match c.peek() {
            Some(Tok::Id(s)) => {
                segs.push(s.clone());
                c.i += 1;
            }
            Some(Tok::P('<')) => {
                // generic arguments: skip to the matching `>` (they contain paths and literals only)
                c.i += 1;
                let mut depth = 1;
                let mut text = String::new();
                while depth > 0 {
                    match c.next() {
                        Some(Tok::P('<')) => depth += 1,
                        Some(Tok::P('>')) => depth -= 1,
                        Some(Tok::Id(s)) => text.push_str(s),
                        Some(Tok::Lit(s)) => {
                            text.push(' ');
                            text.push_str(s)
                        }
                        Some(Tok::P(p)) => text.push(*p),
                        Some(Tok::G(..)) => text.push_str("{}"),
                        None => return Err("unterminated generic arguments".into()),
                    }
                }
                generics.push(text);
            }
            _ => {
                if sep {
                    return Err(format!("path ends in `::` at {:?}", c.peek()));
                }
                break;
            }
        }
    }
    Ok((segs, generics))
}

fn path_of(v: &V) -> String {
    match v {
        V::U(_, p) | V::I(_, p) | V::R2(_, p) | V::R10(_, p) | V::F2(_, p) | V::F10(_, p) | V::Q(_, p) | V::X(_, p) => p.clone(),
        V::Ref(b) => path_of(b),
        _ => "?".into(),
    }
}

impl Interp {
    fn le_value(words: &[u128], bits: u32) -> UBig {
        let mut v = UBig::ZERO;
        for (i, w) in words.iter().enumerate() {
            v += UBig::from(*w) << (i * bits as usize);
        }
        v
    }

    /// the value selected for this build's word size through the real `from_static_words`, after
    /// checking that every selector denotes the same number and satisfies the normalisation assertion
    fn static_words(&mut self, sel: &WordSel) -> R<(&'static [Word], UBig)> {
        let mut vals: Vec<UBig> = Vec::new();
        for (bits, len, data) in &sel.arrays {
            if data.len() != sel.max_len {
                self.problems.push(format!("u{}:array-len-{}-not-{}", bits, data.len(), sel.max_len));
            }
            if *len > data.len() {
                return Err(format!("LEN {} exceeds the array ({})", len, data.len()));
            }
            if data[*len..].iter().any(|w| *w != 0) {
                self.problems.push(format!("u{}:padding-not-zero", bits));
            }
            if *len > 0 && data[*len - 1] == 0 {
                self.problems.push(format!("u{}:last-word-zero", bits));
            }
            if data.iter().any(|w| (*w >> *bits) != 0) {
                self.problems.push(format!("u{}:element-out-of-range", bits));
            }
            vals.push(Self::le_value(&data[..*len], *bits));
        }
        if vals.len() != 3 {
            return Err("expected selectors for 16, 32 and 64 bit words".into());
        }
        if !(vals[0] == vals[1] && vals[1] == vals[2]) {
            self.problems.push(format!("selectors-disagree:{:x},{:x},{:x}", vals[0], vals[1], vals[2]));
        }
        let (_, len, data) = sel.arrays.iter().find(|(b, _, _)| *b == Word::BITS).ok_or("no selector for this word size")?;
        let words: Vec<Word> = data[..*len].iter().map(|w| *w as Word).collect();
        Ok((Box::leak(words.into_boxed_slice()), vals[0].clone()))
    }

    /// the `quote_words` block: trait / struct / three impls / type Select / static DATA_COPY / unsafe slice
    fn words_block(&mut self, toks: &[Tok]) -> R<V> {
        let mut arrays = Vec::new();
        let mut max_len = None;
        let mut i = 0;
        while i < toks.len() {
            if let Tok::Id(s) = &toks[i] {
                if s == "impl" {
                    // impl DataSource for DataSelector < N > { type Int = uN ; const LEN : usize = L ; const DATA : [uN ; M] = [ … ] ; }
                    let mut j = i;
                    let mut bits = None;
                    while j < toks.len() {
                        if let Tok::P('<') = toks[j] {
                            if let Some(Tok::Lit(n)) = toks.get(j + 1) {
                                bits = Some(lit_num(n)? as u32);
                            }
                        }
                        if let Tok::G(Delimiter::Brace, body) = &toks[j] {
                            let bits = bits.ok_or("impl without selector width")?;
                            let mut len = None;
                            let mut data = None;
                            let mut k = 0;
                            while k < body.len() {
                                if let (Tok::Id(c), Some(Tok::Id(name))) = (&body[k], body.get(k + 1)) {
                                    if c == "const" && name == "LEN" {
                                        // const LEN : usize = <lit> ;
                                        if let Some(Tok::Lit(l)) = body.get(k + 5) {
                                            len = Some(lit_num(l)? as usize);
                                        }
                                    }
                                    if c == "const" && name == "DATA" {
                                        // const DATA : [uN ; M] = [ … ] ;
                                        if let Some(Tok::G(Delimiter::Bracket, ty)) = body.get(k + 3) {
                                            if let Some(Tok::Lit(m)) = ty.last() {
                                                let m = lit_num(m)? as usize;
                                                if *max_len.get_or_insert(m) != m {
                                                    self.problems.push("max-len-differs".into());
                                                }
                                            }
                                        }
                                        if let Some(Tok::G(Delimiter::Bracket, arr)) = body.get(k + 5) {
                                            let mut v = Vec::new();
                                            for t in arr {
                                                match t {
                                                    Tok::Lit(l) => v.push(l.trim_end_matches(|c: char| c.is_ascii_alphabetic() || c == '_').parse::<u128>().map_err(|_| format!("array element {}", l))?),
                                                    Tok::P(',') => {}
                                                    other => return Err(format!("array element {:?}", other)),
                                                }
                                            }
                                            data = Some(v);
                                        }
                                    }
                                }
                                k += 1;
                            }
                            arrays.push((bits, len.ok_or("LEN missing")?, data.ok_or("DATA missing")?));
                            break;
                        }
                        j += 1;
                    }
                    i = j;
                }
            }
            i += 1;
        }
        Ok(V::Words(WordSel { arrays, max_len: max_len.ok_or("no DATA arrays")? }))
    }

    fn block(&mut self, toks: &[Tok], env: &HashMap<String, V>) -> R<V> {
        if toks.iter().any(|t| matches!(t, Tok::Id(s) if s == "DataSource")) && toks.iter().any(|t| matches!(t, Tok::Id(s) if s == "trait")) {
            return self.words_block(toks);
        }
        let mut env = env.clone();
        let mut c = Cur { t: toks, i: 0 };
        loop {
            let kw = match c.peek() {
                Some(Tok::Id(s)) if s == "const" || s == "static" || s == "let" => s.clone(),
                _ => break,
            };
            c.i += 1;
            let name = match c.next() {
                Some(Tok::Id(n)) => n.clone(),
                other => return Err(format!("{} without a name: {:?}", kw, other)),
            };
            // optional `: TYPE` up to `=`
            let mut declared_len = None;
            if c.eat_p(':') {
                while let Some(t) = c.peek() {
                    if let Tok::P('=') = t {
                        break;
                    }
                    if let Tok::G(Delimiter::Bracket, ty) = t {
                        // [u8 ; LEN]
                        if let (Some(Tok::Id(e)), Some(Tok::Lit(n))) = (ty.first(), ty.last()) {
                            if e == "u8" {
                                declared_len = Some(lit_num(n)? as usize);
                            }
                        }
                    }
                    c.i += 1;
                }
            }
            c.expect_p('=')?;
            // the initialiser extends to the next top-level `;`
            let start = c.i;
            while let Some(t) = c.peek() {
                if let Tok::P(';') = t {
                    break;
                }
                c.i += 1;
            }
            let v = self.expr(&toks[start..c.i], &env)?;
            c.expect_p(';')?;
            if let (Some(n), V::Bytes(b)) = (declared_len, &v) {
                if n != b.len() {
                    self.problems.push(format!("byte-array-len-{}-declared-{}", b.len(), n));
                }
            }
            env.insert(name, v);
        }
        self.expr(&toks[c.i..], &env)
    }

    fn args(&mut self, toks: &[Tok], env: &HashMap<String, V>) -> R<Vec<V>> {
        let mut out = Vec::new();
        let mut start = 0;
        for (i, t) in toks.iter().enumerate() {
            if let Tok::P(',') = t {
                out.push(self.expr(&toks[start..i], env)?);
                start = i + 1;
            }
        }
        if start < toks.len() {
            out.push(self.expr(&toks[start..], env)?);
        }
        Ok(out)
    }

    fn expr(&mut self, toks: &[Tok], env: &HashMap<String, V>) -> R<V> {
        // `<expr> . into ()`: UBig -> IBig is the only conversion an expansion can mean here
        if toks.len() >= 4 {
            if let [Tok::P('.'), Tok::Id(m), Tok::G(Delimiter::Parenthesis, a)] = &toks[toks.len() - 3..] {
                if m == "into" && a.is_empty() {
                    return match self.expr(&toks[..toks.len() - 3], env)? {
                        V::U(x, p) => Ok(V::I(IBig::from(x), p)),
                        V::I(x, p) => Ok(V::I(x, p)),
                        _ => Err("`.into()` on something that is not an integer".into()),
                    };
                }
            }
        }
        // `( <expr> )` and `<expr> as <type>`: parentheses and numeric casts do not change what is denoted
        if let [Tok::G(Delimiter::Parenthesis, inner)] = toks {
            return self.expr(inner, env);
        }
        if toks.len() >= 3 {
            if let Some(k) = toks.iter().rposition(|t| matches!(t, Tok::Id(s) if s == "as")) {
                if k > 0 && toks[k + 1..].iter().all(|t| matches!(t, Tok::Id(_) | Tok::P(':'))) && !toks[k + 1..].is_empty() {
                    return self.expr(&toks[..k], env);
                }
            }
        }
        let mut c = Cur { t: toks, i: 0 };
        match c.peek() {
            None => Err("empty expression".into()),
            Some(Tok::G(Delimiter::Brace, body)) if toks.len() == 1 => self.block(body, env),
            Some(Tok::G(Delimiter::Bracket, body)) if toks.len() == 1 => {
                let mut v = Vec::new();
                for t in body {
                    match t {
                        Tok::Lit(l) => v.push(u8::try_from(lit_num(l)?).map_err(|_| format!("byte {}", l))?),
                        Tok::P(',') => {}
                        other => return Err(format!("byte array element {:?}", other)),
                    }
                }
                Ok(V::Bytes(v))
            }
            Some(Tok::P('&')) => {
                c.i += 1;
                let v = self.expr(&toks[1..], env)?;
                Ok(V::Ref(Box::new(v)))
            }
            Some(Tok::P('-')) => match self.expr(&toks[1..], env)? {
                V::Num(n) => Ok(V::Num(-n)),
                _ => Err("negation of a non-number".into()),
            },
            Some(Tok::Lit(l)) => {
                let n = lit_num(l)?;
                c.i += 1;
                if c.eat_id("as") {
                    if !c.eat_id("_") {
                        // proc_macro2 prints `_` as an identifier
                        return Err("`as` without `_`".into());
                    }
                }
                if !c.done() {
                    return Err(format!("trailing tokens after literal: {:?}", c.peek()));
                }
                Ok(V::Num(n))
            }
            Some(Tok::Id(s)) if s == "unsafe" && toks.len() == 2 => match &toks[1] {
                Tok::G(Delimiter::Brace, body) => self.block(body, env),
                _ => Err("unsafe without block".into()),
            },
            _ => {
                let (segs, generics) = parse_path(&mut c)?;
                if segs.is_empty() {
                    return Err(format!("cannot interpret {:?}", toks.first()));
                }
                let last = segs.last().unwrap().as_str();
                let owner = if segs.len() >= 2 { segs[segs.len() - 2].as_str() } else { "" };
                match c.peek() {
                    None => {
                        // a name: variable, `None`, or a Sign path
                        if segs.len() == 1 {
                            if last == "None" {
                                return Ok(V::Opt(None));
                            }
                            return env.get(last).cloned().ok_or_else(|| format!("unbound name {}", last));
                        }
                        match (owner, last) {
                            ("Sign", "Positive") => Ok(V::Sign(Sign::Positive)),
                            ("Sign", "Negative") => Ok(V::Sign(Sign::Negative)),
                            _ => Err(format!("unknown path {}", segs.join("::"))),
                        }
                    }
                    Some(Tok::G(Delimiter::Parenthesis, a)) if c.i + 1 == toks.len() => {
                        let a = self.args(a, env)?;
                        self.call(&segs, &generics, owner, last, a)
                    }
                    other => Err(format!("unexpected token after path {}: {:?}", segs.join("::"), other)),
                }
            }
        }
    }

    fn call(&mut self, segs: &[String], generics: &[String], owner: &str, f: &str, a: Vec<V>) -> R<V> {
        let deref = |v: &V| -> V {
            match v {
                V::Ref(b) => (**b).clone(),
                x => x.clone(),
            }
        };
        let a: Vec<V> = a.iter().map(deref).collect();
        let base10 = generics.iter().any(|g| g.trim() == "10" || g.ends_with(" 10")) || owner == "DBig";
        let emb = self.embedded;
        let ns_ok = |want: &str| {
            if emb {
                let sub = match want {
                    "dashu_int" => "integer",
                    "dashu_float" => "float",
                    "dashu_ratio" => "rational",
                    _ => "base",
                };
                segs.len() >= 2 && segs[0] == "dashu" && segs[1] == sub
            } else {
                segs.first().map(|s| s == want).unwrap_or(false)
            }
        };
        match (owner, f, a.as_slice()) {
            ("", "Some", [v]) => Ok(V::Opt(Some(Box::new(v.clone())))),
            ("UBig", "from_dword", [V::Num(n)]) if ns_ok("dashu_int") => Ok(V::U(UBig::from_dword(*n as DoubleWord), "const".into())),
            ("IBig", "from_parts_const", [V::Sign(s), V::Num(n)]) if ns_ok("dashu_int") => Ok(V::I(IBig::from_parts_const(*s, *n as DoubleWord), "const".into())),
            ("UBig", "from_le_bytes", [V::Bytes(b)]) if ns_ok("dashu_int") => Ok(V::U(UBig::from_le_bytes(b), "bytes".into())),
            ("IBig", "from_parts", [V::Sign(s), V::U(m, p)]) if ns_ok("dashu_int") => Ok(V::I(IBig::from_parts(*s, m.clone()), p.clone())),
            ("UBig", "from_static_words", [V::Words(w)]) if ns_ok("dashu_int") => {
                let (words, indep) = self.static_words(w)?;
                let v = unsafe { UBig::from_static_words(words) };
                if v != indep {
                    self.problems.push("from_static_words-differs-from-le-value".into());
                }
                Ok(V::U(v, "static".into()))
            }
            ("IBig", "from_static_words", [V::Sign(s), V::Words(w)]) if ns_ok("dashu_int") => {
                let (words, indep) = self.static_words(w)?;
                let v = unsafe { IBig::from_static_words(*s, words) };
                if v.clone().into_parts().1 != indep {
                    self.problems.push("from_static_words-differs-from-le-value".into());
                }
                Ok(V::I(v, "static".into()))
            }
            // ---- floats
            (_, "from_parts_const", [V::Sign(s), V::Num(n), V::Num(e), V::Opt(p)]) if ns_ok("dashu_float") => {
                let prec = match p {
                    Some(b) => match **b {
                        V::Num(p) => Some(p as usize),
                        _ => return Err("precision is not a number".into()),
                    },
                    None => None,
                };
                if base10 {
                    Ok(V::F10(DBig::from_parts_const(*s, *n as DoubleWord, *e as isize, prec), "const".into()))
                } else {
                    Ok(V::F2(FBin::from_parts_const(*s, *n as DoubleWord, *e as isize, prec), "const".into()))
                }
            }
            ("Repr", "new", [V::I(sig, p), V::Num(e)]) if ns_ok("dashu_float") => {
                if base10 {
                    Ok(V::R10(Repr::<10>::new(sig.clone(), *e as isize), p.clone()))
                } else {
                    Ok(V::R2(Repr::<2>::new(sig.clone(), *e as isize), p.clone()))
                }
            }
            ("Repr", "from_static_words", [V::Sign(s), V::Words(w), V::Num(e)]) if ns_ok("dashu_float") => {
                let (words, _) = self.static_words(w)?;
                if base10 {
                    Ok(V::R10(unsafe { Repr::<10>::from_static_words(*s, words, *e as isize) }, "static".into()))
                } else {
                    Ok(V::R2(unsafe { Repr::<2>::from_static_words(*s, words, *e as isize) }, "static".into()))
                }
            }
            ("Context", "new", [V::Num(p)]) if ns_ok("dashu_float") => Ok(V::Ctx(*p as usize)),
            (_, "from_repr", [V::R2(r, p), V::Ctx(c)]) if ns_ok("dashu_float") => Ok(V::F2(FBin::from_repr(r.clone(), Context::new(*c)), p.clone())),
            (_, "from_repr", [V::R10(r, p), V::Ctx(c)]) if ns_ok("dashu_float") => Ok(V::F10(DBig::from_repr(r.clone(), Context::new(*c)), p.clone())),
            (_, "from_repr_const", [V::R2(r, p)]) if ns_ok("dashu_float") => Ok(V::F2(FBin::from_repr_const(r.clone()), p.clone())),
            (_, "from_repr_const", [V::R10(r, p)]) if ns_ok("dashu_float") => Ok(V::F10(DBig::from_repr_const(r.clone()), p.clone())),
            // ---- rationals
            ("RBig", "from_parts_const", [V::Sign(s), V::Num(n), V::Num(d)]) if ns_ok("dashu_ratio") => Ok(V::Q(RBig::from_parts_const(*s, *n as DoubleWord, *d as DoubleWord), "const".into())),
            ("Relaxed", "from_parts_const", [V::Sign(s), V::Num(n), V::Num(d)]) if ns_ok("dashu_ratio") => Ok(V::X(Relaxed::from_parts_const(*s, *n as DoubleWord, *d as DoubleWord), "const".into())),
            ("RBig", "from_parts", [V::I(n, p1), V::U(d, p2)]) if ns_ok("dashu_ratio") => Ok(V::Q(RBig::from_parts(n.clone(), d.clone()), { let _ = (p1, p2); "heap".to_string() })),
            ("Relaxed", "from_parts", [V::I(n, p1), V::U(d, p2)]) if ns_ok("dashu_ratio") => Ok(V::X(Relaxed::from_parts(n.clone(), d.clone()), { let _ = (p1, p2); "heap".to_string() })),
            ("Relaxed", "from_static_words", [V::Sign(s), V::Words(n), V::Words(d)]) if ns_ok("dashu_ratio") => {
                let (nw, _) = self.static_words(n)?;
                let (dw, _) = self.static_words(d)?;
                Ok(V::X(unsafe { Relaxed::from_static_words(*s, nw, dw) }, "static".into()))
            }
            ("mem", "transmute", [V::X(x, p)]) => {
                // RBig and Relaxed share their representation; the macro relies on the parsed parts
                // being reduced.  Rebuild through the checked constructor and report if that changes it.
                let (n, d) = x.clone().into_parts();
                let q = RBig::from_parts(n.clone(), d.clone());
                if *q.numerator() != n || *q.denominator() != d {
                    self.problems.push("transmuted-relaxed-is-not-reduced".into());
                }
                Ok(V::Q(q, p.clone()))
            }
            _ => Err(format!("unknown constructor {}({} args)", segs.join("::"), a.len())),
        }
    }
}

fn show(v: &V) -> R<String> {
    Ok(match v {
        V::Ref(b) => show(b)?,
        V::U(x, _) => f_ubig(x),
        V::I(x, _) => f_ibig(x),
        V::F2(x, _) => format!("{} {} {}", f_ibig(x.repr().significand()), f_dec(x.repr().exponent()), f_dec(x.precision())),
        V::F10(x, _) => format!("{} {} {}", f_ibig(x.repr().significand()), f_dec(x.repr().exponent()), f_dec(x.precision())),
        V::Q(x, _) => format!("{}/{}:R", f_ibig(x.numerator()), f_ubig(x.denominator())),
        V::X(x, _) => format!("{}/{}:X", f_ibig(x.numerator()), f_ubig(x.denominator())),
        _ => return Err("the expansion does not denote a number".into()),
    })
}

// ------------------------------------------------------------------------------------------ run-time parser on the same text

fn rt_int(signed: bool, plain: &[(char, String)]) -> String {
    // [sign puncts]* value [base N]
    let mut i = 0;
    let mut text = String::new();
    while i < plain.len() && plain[i].0 == 'P' {
        text.push_str(&plain[i].1);
        i += 1;
    }
    if i >= plain.len() || !(plain[i].0 == 'L' || plain[i].0 == 'I') {
        return "none".into();
    }
    text.push_str(&plain[i].1);
    i += 1;
    let radix = if i == plain.len() {
        None
    } else if i + 2 == plain.len() && plain[i] == ('I', "base".to_string()) && plain[i + 1].0 == 'L' {
        match plain[i + 1].1.parse::<u32>() {
            Ok(r) => Some(r),
            Err(_) => return "err".into(),
        }
    } else {
        return "none".into();
    };
    let res = match (signed, radix) {
        (false, None) => UBig::from_str_with_radix_prefix(&text).map(|x| f_ubig(&x.0)),
        (false, Some(r)) => UBig::from_str_radix(&text, r).map(|x| f_ubig(&x)),
        (true, None) => IBig::from_str_with_radix_prefix(&text).map(|x| f_ibig(&x.0)),
        (true, Some(r)) => IBig::from_str_radix(&text, r).map(|x| f_ibig(&x)),
    };
    res.unwrap_or_else(|_| "err".into())
}

fn concat(plain: &[(char, String)]) -> String {
    plain.iter().map(|(k, s)| if *k == 'G' { format!("({})", s) } else { s.clone() }).collect()
}

fn rt_float(binary: bool, plain: &[(char, String)]) -> String {
    // since 5997fe0 (float/src/parse.rs) the run-time parser rejects an exponent whose normalisation leaves `isize`
    // with an error instead of overflowing in `Repr::new`: no panic is caught here any more — a panic of the run-time
    // parser surfaces as the case's result and disagrees with the model
    rt_float_inner(binary, plain)
}

fn rt_float_inner(binary: bool, plain: &[(char, String)]) -> String {
    let text = concat(plain);
    if binary {
        // one `_` directly after the optional sign is macro-only syntax
        let (sign, rest) = match text.strip_prefix('-') {
            Some(r) => ("-", r),
            None => match text.strip_prefix('+') {
                Some(r) => ("+", r),
                None => ("", text.as_str()),
            },
        };
        let rest = rest.strip_prefix('_').unwrap_or(rest);
        let t = format!("{}{}", sign, rest);
        match FBin::from_str(&t) {
            Ok(f) => format!("{},{},{}", f_ibig(f.repr().significand()), f_dec(f.repr().exponent()), f_dec(f.precision())),
            Err(_) => "err".into(),
        }
    } else {
        match DBig::from_str(&text) {
            Ok(f) => format!("{},{},{}", f_ibig(f.repr().significand()), f_dec(f.repr().exponent()), f_dec(f.precision())),
            Err(_) => "err".into(),
        }
    }
}

fn rt_ratio(plain: &[(char, String)]) -> String {
    // [~] text [base N]
    let mut p = plain;
    let relaxed = matches!(p.first(), Some(('P', s)) if s == "~");
    if relaxed {
        p = &p[1..];
    }
    let (body, radix) = if p.len() >= 2 && p[p.len() - 2] == ('I', "base".to_string()) && p[p.len() - 1].0 == 'L' {
        match p[p.len() - 1].1.parse::<u32>() {
            Ok(r) => (&p[..p.len() - 2], Some(r)),
            Err(_) => return "err".into(),
        }
    } else {
        (p, None)
    };
    if body.is_empty() || body.iter().any(|(k, s)| *k == 'G' || (*k == 'P' && s == "~")) {
        return "none".into();
    }
    let text = concat(body);
    // the run-time parsers construct `n/0` (RBig) or panic (Relaxed) for a zero denominator; that is
    // another property's concern — both sides print `zeroden`
    let res = std::panic::catch_unwind(|| -> Result<String, ()> {
        if relaxed {
            let r = match radix {
                None => Relaxed::from_str_with_radix_prefix(&text).map(|x| x.0),
                Some(r) => Relaxed::from_str_radix(&text, r),
            };
            r.map(|x| if x.denominator().is_zero() { "zeroden".to_string() } else { format!("{}/{}:X", f_ibig(x.numerator()), f_ubig(x.denominator())) }).map_err(|_| ())
        } else {
            let r = match radix {
                None => RBig::from_str_with_radix_prefix(&text).map(|x| x.0),
                Some(r) => RBig::from_str_radix(&text, r),
            };
            r.map(|x| if x.denominator().is_zero() { "zeroden".to_string() } else { format!("{}/{}:R", f_ibig(x.numerator()), f_ubig(x.denominator())) }).map_err(|_| ())
        }
    });
    match res {
        Ok(Ok(s)) => s,
        Ok(Err(())) => "err".into(),
        Err(_) => {
            let _ = LAST_PANIC.with(|p| p.borrow_mut().take());
            "zeroden".into()
        }
    }
}

// ------------------------------------------------------------------------------------------ dispatch

fn expand(kind: &str, static_: bool, embedded: bool, ts: TokenStream) -> Option<TokenStream> {
    let kind = kind.to_string();
    std::panic::catch_unwind(move || match kind.as_str() {
        "mac.ubig" => parse::int::parse_integer(false, static_, embedded, ts),
        "mac.ibig" => parse::int::parse_integer(true, static_, embedded, ts),
        "mac.fbig" => parse::float::parse_binary_float(static_, embedded, ts),
        "mac.dbig" => parse::float::parse_decimal_float(static_, embedded, ts),
        _ => {
            if static_ {
                parse::ratio::parse_static_ratio(embedded, ts)
            } else {
                parse::ratio::parse_ratio(embedded, ts)
            }
        }
    })
    .ok()
}

fn compiled(idx: &str) -> Res {
    let path = std::env::var("DASHU_MAC_COMPILED").map_err(|_| "bad-arg DASHU_MAC_COMPILED-not-set".to_string())?;
    let txt = std::fs::read_to_string(&path).map_err(|_| "bad-arg cannot-read-compiled-results".to_string())?;
    for l in txt.lines() {
        if let Some(rest) = l.strip_prefix(idx) {
            if let Some(rest) = rest.strip_prefix(' ') {
                return Ok(rest.to_string());
            }
        }
    }
    Ok("missing-from-compiled-run".to_string())
}

pub fn dispatch(op: &str, args: &[&str]) -> Option<Res> {
    if !op.starts_with("mac.") {
        return None;
    }
    if op == "mac.compiled" || op == "mac.cfail" {
        return Some((|| {
            let r = compiled(&format!("{}:{}", if op == "mac.cfail" { "F" } else { "A" }, arg(args, 0)?))?;
            // the recorded answer already starts with `ok …` / `reject`; strip the `ok ` that run_main adds
            Err(r)
        })());
    }
    if !matches!(op, "mac.ubig" | "mac.ibig" | "mac.fbig" | "mac.dbig" | "mac.rbig") {
        return None;
    }
    Some((|| -> Res {
        // `eplain` / `estatic`: the `_embedded` entry points (macros of the `dashu` meta crate, /repo/src/lib.rs)
        let (static_, embedded) = match arg(args, 0)? {
            "plain" => (false, false),
            "static" => (true, false),
            "eplain" => (false, true),
            "estatic" => (true, true),
            other => return Err(format!("bad-arg mode {}", other)),
        };
        let (ts, plain) = build_tokens(&args[1..])?;
        let rt = match op {
            "mac.ubig" => rt_int(false, &plain),
            "mac.ibig" => rt_int(true, &plain),
            "mac.fbig" => rt_float(true, &plain),
            "mac.dbig" => rt_float(false, &plain),
            _ => rt_ratio(&plain),
        };
        let out = match expand(op, static_, embedded, ts) {
            None => return Err(format!("reject rt:{}", rt)),
            Some(o) => o,
        };
        let toks = flatten(out);
        let mut it = Interp { problems: Vec::new(), embedded };
        let v = std::panic::catch_unwind(std::panic::AssertUnwindSafe(|| it.expr(&toks, &HashMap::new())));
        let v = match v {
            Ok(Ok(v)) => v,
            Ok(Err(e)) => return Err(format!("bad-expansion {}", e.replace(' ', "_"))),
            Err(_) => {
                // a constructor called with the generated data panicked (e.g. the normalisation assertion)
                let (msg, loc) = LAST_PANIC.with(|p| p.borrow_mut().take()).unwrap_or_else(|| ("?".into(), "?".into()));
                return Err(format!("expansion-panics {} rt:{}", classify_panic(&msg, &loc), rt));
            }
        };
        let flat = show(&v).map_err(|e| format!("bad-expansion {}", e.replace(' ', "_")))?;
        let mut s = format!("{} {} rt:{}", path_of(&v), flat, rt);
        if !it.problems.is_empty() {
            s.push_str(&format!(" static-arrays-bad({})", it.problems.join(";")));
        }
        Ok(s)
    })())
}
