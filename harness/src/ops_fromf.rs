//! C05 (round 6): `FBig::<R, 2>::try_from(f32 / f64)` and `Repr::<2>::try_from(f32 / f64)` as PRODUCERS of floats.
//!
//!   f.from d:<32|64> <bits hex>   the float with this bit pattern converted; finite: the representation must be normalised,
//!                                 carry at most `precision + 1` digits (precision = bit length of the mantissa, 0 for ±0.0),
//!                                 be the same representation through `Repr::try_from`, under both rounding-mode types, and be
//!                                 `==` / `cmp Equal` (both orders) to `FBig::from_parts(signif, exp)` — a register of a
//!                                 different precision —; infinities must be `==` / `cmp Equal` to the constants and above /
//!                                 below a finite value
//!                                 -> `<signif> d:<exp> d:<precision> routes-agree` | `inf` | `-inf` | `err` (NaN) | `… BAD <what>`
use dashu_float::{round::mode, FBig, Repr};
use std::cmp::Ordering;
use std::convert::TryFrom;
use verif_harness::util::*;

type FZ = FBig<mode::Zero, 2>;
type FE = FBig<mode::HalfEven, 2>;

fn show(z: Result<FZ, ()>, e: Result<FE, ()>, r: Result<Repr<2>, ()>) -> Res {
    let (z, e, r) = match (z, e, r) {
        (Ok(z), Ok(e), Ok(r)) => (z, e, r),
        (Err(()), Err(()), Err(())) => return Ok("err".to_string()),
        _ => return Ok("BAD error-disagree".to_string()),
    };
    let mut bad = String::new();
    if z.repr() != &r || e.repr() != &r || r.cmp(z.repr()) != Ordering::Equal {
        bad.push_str(" BAD repr-routes");
    }
    if z.precision() != e.precision() {
        bad.push_str(" BAD precision-modes");
    }
    if r.is_infinite() {
        let (name, c) = if r.exponent() > 0 { ("inf", FZ::INFINITY) } else { ("-inf", FZ::NEG_INFINITY) };
        if z != c || z.cmp(&c) != Ordering::Equal || c.cmp(&z) != Ordering::Equal {
            bad.push_str(" BAD infinity-constant");
        }
        let one = FZ::ONE;
        let want = if r.exponent() > 0 { Ordering::Greater } else { Ordering::Less };
        if z.cmp(&one) != want || one.cmp(&z) != want.reverse() || z == one {
            bad.push_str(" BAD infinity-vs-finite");
        }
        return Ok(format!("{}{}", name, bad));
    }
    let p = z.precision();
    if p != 0 && r.digits() > p + 1 {
        bad.push_str(" BAD digits>precision+1");
    }
    let again = Repr::<2>::new(r.significand().clone(), r.exponent());
    if again != r {
        bad.push_str(" BAD unnormalized");
    }
    let q = FZ::from_parts(r.significand().clone(), r.exponent());
    if z != q || q != z || z.cmp(&q) != Ordering::Equal || q.cmp(&z) != Ordering::Equal || z.partial_cmp(&q) != Some(Ordering::Equal) {
        bad.push_str(" BAD vs-from_parts");
    }
    Ok(format!(
        "{} {} {}{}",
        f_ibig(r.significand()),
        f_dec(r.exponent()),
        f_dec(p),
        if bad.is_empty() { " routes-agree".to_string() } else { bad }
    ))
}

pub fn dispatch(op: &str, args: &[&str]) -> Option<Res> {
    if op != "f.from" {
        return None;
    }
    Some((|| -> Res {
        let t = p_dec(arg(args, 0)?)?;
        let bits = p_ubig(arg(args, 1)?)?;
        match t {
            32 => {
                let b = u32::try_from(&bits).map_err(|_| "bad-arg bits".to_string())?;
                let f = f32::from_bits(b);
                show(FZ::try_from(f).map_err(|_| ()), FE::try_from(f).map_err(|_| ()), Repr::<2>::try_from(f).map_err(|_| ()))
            }
            64 => {
                let b = u64::try_from(&bits).map_err(|_| "bad-arg bits".to_string())?;
                let f = f64::from_bits(b);
                show(FZ::try_from(f).map_err(|_| ()), FE::try_from(f).map_err(|_| ()), Repr::<2>::try_from(f).map_err(|_| ()))
            }
            _ => Err(format!("bad-arg type {}", t)),
        }
    })())
}
