//! Group `float`: C10 (rounding to integers / fewer digits, the two public rounding primitives) and
//! C03 (float add/sub/mul/div/sqrt/sqr/cubic/inv honour the rounding contract).
//!
//! Float argument  : `f:<base>:<signif hex int>:<exp decimal>:<precision decimal>:<mode Z|A|U|D|E|H>`
//! Float result    : `<signif hex> <exp dec> <precision dec>` (+ ` Exact` | ` Inexact:<NoOp|AddOne|SubOne>`)
//! `f.*` ops build `FBig`s with `FBig::from_repr` (operands must fit their precision) and evaluate the
//! `Context` method *and* every operator / method form at the same precision (C15).
//! `c.*` ops call only the `Context` method on `Repr` operands with an explicit context precision
//! (operands may be longer than the precision).
use dashu_base::{Approximation, Inverse, SquareRoot};
use dashu_float::round::{mode, Round, Rounded, Rounding};
use dashu_float::{Context, FBig, Repr};
use dashu_int::{IBig, Word};
use dashu_ratio::{RBig, Relaxed};
use verif_harness::forms::{merge, run1};
use verif_harness::util::*;

pub struct FArg {
    base: u64,
    signif: IBig,
    exp: isize,
    prec: usize,
    mode: char,
}

fn p_farg(s: &str) -> Result<FArg, String> {
    let t: Vec<&str> = s.split(':').collect();
    if t.len() != 6 || t[0] != "f" {
        return Err(format!("bad-arg float {}", s));
    }
    let bad = || format!("bad-arg float {}", s);
    let base: u64 = t[1].parse().map_err(|_| bad())?;
    let signif = p_ibig(t[2])?;
    let exp: isize = t[3].parse().map_err(|_| bad())?;
    let prec: usize = t[4].parse().map_err(|_| bad())?;
    let mode = t[5].chars().next().ok_or_else(bad)?;
    if t[5].len() != 1 {
        return Err(bad());
    }
    Ok(FArg { base, signif, exp, prec, mode })
}

fn fl(r: &Rounding) -> &'static str {
    match r {
        Rounding::NoOp => "NoOp",
        Rounding::AddOne => "AddOne",
        Rounding::SubOne => "SubOne",
    }
}

fn ff<R: Round, const B: Word>(x: &FBig<R, B>) -> String {
    format!("{} {} {}", f_ibig(x.repr().significand()), x.repr().exponent(), x.precision())
}

fn fr<R: Round, const B: Word>(x: &Rounded<FBig<R, B>>) -> String {
    match x {
        Approximation::Exact(v) => format!("{} Exact", ff(v)),
        Approximation::Inexact(v, e) => format!("{} Inexact:{}", ff(v), fl(e)),
    }
}

fn fri(x: &Rounded<IBig>) -> String {
    match x {
        Approximation::Exact(v) => format!("{} Exact", f_ibig(v)),
        Approximation::Inexact(v, e) => format!("{} Inexact:{}", f_ibig(v), fl(e)),
    }
}

/// first result is the Context method (value + flag); the others are value-only forms which must
/// equal the value part of the first
fn merge_ctx(names: &[&str], rs: Vec<String>) -> Res {
    let first = rs[0].clone();
    let valpart = match first.strip_prefix("ok ") {
        Some(v) => match v.rfind(' ') {
            Some(i) => format!("ok {}", &v[..i]),
            None => first.clone(),
        },
        None => first.clone(),
    };
    if rs[1..].iter().all(|r| *r == valpart) {
        if let Some(v) = first.strip_prefix("ok ") {
            Ok(v.to_string())
        } else {
            Err(first)
        }
    } else {
        let mut s = String::from("forms-disagree");
        for (n, r) in names.iter().zip(rs.iter()) {
            s.push_str(&format!(" [{}: {}]", n, r.replace(' ', "_")));
        }
        Err(s)
    }
}

fn ctx_max(a: usize, b: usize) -> usize {
    // Context::max
    if a > b {
        a
    } else {
        b
    }
}

macro_rules! binop_forms {
    ($a:expr, $b:expr, $ctx:expr, $meth:ident, $op:tt, $opa:tt) => {{
        let a = $a;
        let b = $b;
        let ctx = $ctx;
        let rs = vec![
            run1(|| fr(&ctx.$meth(a.repr(), b.repr()))),
            run1(|| ff(&(a.clone() $op b.clone()))),
            run1(|| ff(&(a.clone() $op &b))),
            run1(|| ff(&(&a $op b.clone()))),
            run1(|| ff(&(&a $op &b))),
            run1(|| { let mut x = a.clone(); x $opa b.clone(); ff(&x) }),
            run1(|| { let mut x = a.clone(); x $opa &b; ff(&x) }),
        ];
        merge_ctx(&["ctx", "vv", "vr", "rv", "rr", "as", "asr"], rs)
    }};
}

fn run<R: Round, const B: Word>(op: &str, args: &[&str]) -> Res {
    let mk = |a: &FArg| -> FBig<R, B> {
        FBig::<R, B>::from_repr(Repr::<B>::new(a.signif.clone(), a.exp), Context::<R>::new(a.prec))
    };
    let mkr = |a: &FArg| -> Repr<B> { Repr::<B>::new(a.signif.clone(), a.exp) };
    match op {
        // ------------------------------------------------------------ C10: primitives
        "r.fract" => {
            // r.fract <M> d:<B> <int> <fract> d:<k>
            let int = p_ibig(arg(args, 2)?)?;
            let fract = p_ibig(arg(args, 3)?)?;
            let k = p_usize(arg(args, 4)?)?;
            Ok(fl(&R::round_fract::<B>(&int, fract, k)).to_string())
        }
        "r.ratio" => {
            // r.ratio <M> d:<B> <int> <num> <den>
            let int = p_ibig(arg(args, 2)?)?;
            let num = p_ibig(arg(args, 3)?)?;
            let den = p_ibig(arg(args, 4)?)?;
            Ok(fl(&R::round_ratio(&int, num, &den)).to_string())
        }
        "r.fracth" => {
            // r.fracth <M> d:<B> <int> d:<k> d:<t> <c> <e> <neg>   (C10, directed probe of the coarse f32 test at huge
            // precisions without shipping the digits): |fract| = B^k div 2 + c * (B^k >> t) + e, sign by <neg>
            let int = p_ibig(arg(args, 2)?)?;
            let k = p_usize(arg(args, 3)?)?;
            let t = p_usize(arg(args, 4)?)?;
            let c = p_ibig(arg(args, 5)?)?;
            let e = p_ibig(arg(args, 6)?)?;
            let neg = match arg(args, 7)? {
                "true" => true,
                "false" => false,
                o => return Err(format!("bad-arg bool {}", o)),
            };
            let bk = dashu_int::UBig::from_word(B).pow(k);
            let mag = IBig::from(&bk >> 1usize) + c * IBig::from(&bk >> t) + e;
            if mag <= IBig::ZERO || mag >= IBig::from(bk) {
                return Err("bad-arg fracth range".into());
            }
            let fract = if neg { -mag } else { mag };
            Ok(fl(&R::round_fract::<B>(&int, fract, k)).to_string())
        }
        // ------------------------------------------------------------ C10: FBig rounding ops
        "f.trunc" | "f.floor" | "f.ceil" | "f.round" | "f.fract" => {
            let fa = p_farg(arg(args, 0)?)?;
            let a = mk(&fa);
            Ok(ff(&match op {
                "f.trunc" => a.trunc(),
                "f.floor" => a.floor(),
                "f.ceil" => a.ceil(),
                "f.round" => a.round(),
                _ => a.fract(),
            }))
        }
        "f.split" => {
            let fa = p_farg(arg(args, 0)?)?;
            let a = mk(&fa);
            let rs = vec![
                run1(|| {
                    let (t, f) = a.clone().split_at_point();
                    format!("{} {}", ff(&t), ff(&f))
                }),
                run1(|| format!("{} {}", ff(&a.trunc()), ff(&a.fract()))),
            ];
            merge(&["split_at_point", "trunc,fract"], rs)
        }
        "f.to_int" => {
            let fa = p_farg(arg(args, 0)?)?;
            let a = mk(&fa);
            Ok(fri(&a.to_int()))
        }
        "f.repr_to_int" => {
            let fa = p_farg(arg(args, 0)?)?;
            let a = mkr(&fa);
            Ok(fri(&a.to_int()))
        }
        "f.with_precision" => {
            let fa = p_farg(arg(args, 0)?)?;
            let p = p_usize(arg(args, 1)?)?;
            let a = mk(&fa);
            Ok(fr(&a.with_precision(p)))
        }
        // ------------------------------------------------------------ C03: all forms, operands fit
        "f.add" | "f.sub" | "f.mul" | "f.div" => {
            let fa = p_farg(arg(args, 0)?)?;
            let fb = p_farg(arg(args, 1)?)?;
            if fb.base != fa.base || fb.mode != fa.mode {
                return Err("bad-arg mixed base/mode".into());
            }
            let ctx = Context::<R>::new(ctx_max(fa.prec, fb.prec));
            match op {
                "f.add" => binop_forms!(mk(&fa), mk(&fb), ctx, add, +, +=),
                "f.sub" => binop_forms!(mk(&fa), mk(&fb), ctx, sub, -, -=),
                "f.mul" => binop_forms!(mk(&fa), mk(&fb), ctx, mul, *, *=),
                _ => binop_forms!(mk(&fa), mk(&fb), ctx, div, /, /=),
            }
        }
        "f.sqrt" => {
            let fa = p_farg(arg(args, 0)?)?;
            let a = mk(&fa);
            let ctx = Context::<R>::new(fa.prec);
            let rs = vec![run1(|| fr(&ctx.sqrt(a.repr()))), run1(|| ff(&a.sqrt()))];
            merge_ctx(&["ctx", "sqrt"], rs)
        }
        "f.sqr" => {
            let fa = p_farg(arg(args, 0)?)?;
            let a = mk(&fa);
            let ctx = Context::<R>::new(fa.prec);
            let rs = vec![
                run1(|| fr(&ctx.sqr(a.repr()))),
                run1(|| ff(&a.sqr())),
                run1(|| ff(&(&a * &a))),
            ];
            merge_ctx(&["ctx", "sqr", "mul_rr"], rs)
        }
        "f.cubic" => {
            let fa = p_farg(arg(args, 0)?)?;
            let a = mk(&fa);
            let ctx = Context::<R>::new(fa.prec);
            let rs = vec![run1(|| fr(&ctx.cubic(a.repr()))), run1(|| ff(&a.cubic()))];
            merge_ctx(&["ctx", "cubic"], rs)
        }
        "f.inv" => {
            let fa = p_farg(arg(args, 0)?)?;
            let a = mk(&fa);
            let ctx = Context::<R>::new(fa.prec);
            let rs = vec![
                run1(|| fr(&ctx.inv(a.repr()))),
                run1(|| ff(&a.clone().inv())),
                run1(|| ff(&(&a).inv())),
                run1(|| ff(&(FBig::<R, B>::ONE / &a))),
            ];
            merge_ctx(&["ctx", "inv_v", "inv_r", "one_div"], rs)
        }
        // ------------------------------------------------------------ C03: Context methods on arbitrary Reprs
        "c.add" | "c.sub" | "c.mul" | "c.div" => {
            let fa = p_farg(arg(args, 0)?)?;
            let fb = p_farg(arg(args, 1)?)?;
            let p = p_usize(arg(args, 2)?)?;
            if fb.base != fa.base || fb.mode != fa.mode {
                return Err("bad-arg mixed base/mode".into());
            }
            let ctx = Context::<R>::new(p);
            let (a, b) = (mkr(&fa), mkr(&fb));
            Ok(fr(&match op {
                "c.add" => ctx.add(&a, &b),
                "c.sub" => ctx.sub(&a, &b),
                "c.mul" => ctx.mul(&a, &b),
                _ => ctx.div(&a, &b),
            }))
        }
        "c.sqrt" | "c.sqr" | "c.cubic" | "c.inv" => {
            let fa = p_farg(arg(args, 0)?)?;
            let p = p_usize(arg(args, 1)?)?;
            let ctx = Context::<R>::new(p);
            let a = mkr(&fa);
            Ok(fr(&match op {
                "c.sqrt" => ctx.sqrt(&a),
                "c.sqr" => ctx.sqr(&a),
                "c.cubic" => ctx.cubic(&a),
                _ => ctx.inv(&a),
            }))
        }
        _ => Err(format!("bad-op {}", op)),
    }
}

macro_rules! mode_table {
    ($b:literal, $mode:expr, $op:expr, $args:expr) => {
        match $mode {
            'Z' => run::<mode::Zero, $b>($op, $args),
            'A' => run::<mode::Away, $b>($op, $args),
            'U' => run::<mode::Up, $b>($op, $args),
            'D' => run::<mode::Down, $b>($op, $args),
            'E' => run::<mode::HalfEven, $b>($op, $args),
            'H' => run::<mode::HalfAway, $b>($op, $args),
            m => Err(format!("bad-arg mode {}", m)),
        }
    };
}

fn by_type(base: u64, mode: char, op: &str, args: &[&str]) -> Res {
    match base {
        2 => mode_table!(2, mode, op, args),
        3 => mode_table!(3, mode, op, args),
        10 => mode_table!(10, mode, op, args),
        16 => mode_table!(16, mode, op, args),
        36 => mode_table!(36, mode, op, args),
        b => Err(format!("bad-arg base {}", b)),
    }
}

fn fq(n: &IBig, d: &dashu_int::UBig) -> String {
    format!("{} {}", f_ibig(n), f_ubig(d))
}

fn rational(op: &str, args: &[&str]) -> Res {
    // q.<op> <num> <den>   (RBig and Relaxed must agree; fractions are reported in lowest terms)
    let num = p_ibig(arg(args, 0)?)?;
    let den = p_ubig(arg(args, 1)?)?;
    let (n2, d2) = (num.clone(), den.clone());
    let which = op.to_string();
    let w2 = which.clone();
    let rs = vec![
        run1(move || {
            let q = RBig::from_parts(num, den);
            match which.as_str() {
                "q.trunc" => f_ibig(&q.trunc()),
                "q.floor" => f_ibig(&q.floor()),
                "q.ceil" => f_ibig(&q.ceil()),
                "q.round" => f_ibig(&q.round()),
                "q.fract" => {
                    let f = q.fract();
                    fq(f.numerator(), f.denominator())
                }
                _ => {
                    let (t, f) = q.split_at_point();
                    format!("{} {}", f_ibig(&t), fq(f.numerator(), f.denominator()))
                }
            }
        }),
        run1(move || {
            let q = Relaxed::from_parts(n2, d2);
            match w2.as_str() {
                "q.trunc" => f_ibig(&q.trunc()),
                "q.floor" => f_ibig(&q.floor()),
                "q.ceil" => f_ibig(&q.ceil()),
                "q.round" => f_ibig(&q.round()),
                "q.fract" => {
                    let f = q.fract().canonicalize();
                    fq(f.numerator(), f.denominator())
                }
                _ => {
                    let (t, f) = q.split_at_point();
                    let f = f.canonicalize();
                    format!("{} {}", f_ibig(&t), fq(f.numerator(), f.denominator()))
                }
            }
        }),
    ];
    merge(&["RBig", "Relaxed"], rs)
}

/// C10: `q.fract_raw` / `q.split_raw` `<num> <den>` — the fraction as the type holds it (no canonicalisation), first
/// through `RBig`, then through `Relaxed`: `[<trunc>] <num> <den> [<trunc>] <num> <den>`
fn rational_raw(op: &str, args: &[&str]) -> Res {
    let num = p_ibig(arg(args, 0)?)?;
    let den = p_ubig(arg(args, 1)?)?;
    let r = RBig::from_parts(num.clone(), den.clone());
    let x = Relaxed::from_parts(num, den);
    if op == "q.fract_raw" {
        let (a, b) = (r.fract(), x.fract());
        Ok(format!("{} {}", fq(a.numerator(), a.denominator()), fq(b.numerator(), b.denominator())))
    } else {
        let ((ta, a), (tb, b)) = (r.split_at_point(), x.split_at_point());
        Ok(format!(
            "{} {} {} {}",
            f_ibig(&ta),
            fq(a.numerator(), a.denominator()),
            f_ibig(&tb),
            fq(b.numerator(), b.denominator())
        ))
    }
}

pub fn dispatch(op: &str, args: &[&str]) -> Option<Res> {
    if !(op.starts_with("f.") || op.starts_with("c.") || op.starts_with("r.") || op.starts_with("q.")) {
        return None;
    }
    Some((|| -> Res {
        if op.starts_with("q.") {
            return match op {
                "q.trunc" | "q.floor" | "q.ceil" | "q.round" | "q.fract" | "q.split" => rational(op, args),
                "q.fract_raw" | "q.split_raw" => rational_raw(op, args),
                _ => Err(format!("bad-op {}", op)),
            };
        }
        let a0 = arg(args, 0)?;
        if op.starts_with("r.") {
            let mode = a0.chars().next().ok_or("bad-arg mode")?;
            if a0.len() != 1 {
                return Err(format!("bad-arg mode {}", a0));
            }
            let base = p_usize(arg(args, 1)?)? as u64;
            by_type(base, mode, op, args)
        } else {
            let fa = p_farg(a0)?;
            by_type(fa.base, fa.mode, op, args)
        }
    })())
}
