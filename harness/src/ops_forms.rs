//! `form <family> <lhs kind> <rhs kind> a b` — evaluate EVERY impl of the operation (generated
//! table), require agreement; `clone*` — clone / clone_from independence.
use crate::forms_int;
use crate::forms_rt::Vals;
use dashu_int::{IBig, UBig};
use verif_harness::util::*;

fn parse_ibig_hex(s: &str) -> Option<IBig> {
    p_ibig(s).ok()
}

pub fn dispatch(op: &str, args: &[&str]) -> Option<Res> {
    match op {
        "form" => Some((|| -> Res {
            let fam = arg(args, 0)?;
            let lk = arg(args, 1)?;
            let rk = arg(args, 2)?;
            let a = p_ibig(arg(args, 3)?)?;
            let b = p_ibig(arg(args, 4)?)?;
            let v = Vals::new(a.clone(), b.clone());
            let mut out = Vec::new();
            if !forms_int::run_group(fam, lk, rk, &v, &mut out) {
                return Err(format!("bad-op form group {} {} {}", fam, lk, rk));
            }
            if out.is_empty() {
                return Err("bad-arg no impl applicable to these operands".into());
            }
            let n = out.len();
            let first = out[0].1.clone();
            let agree = out.iter().all(|(_, r)| *r == first);
            if !agree {
                // report the distinct results with one representative impl each
                let mut kinds: Vec<(String, String, usize)> = Vec::new();
                for (name, r) in &out {
                    if let Some(k) = kinds.iter_mut().find(|k| k.1 == *r) {
                        k.2 += 1;
                    } else {
                        kinds.push((name.clone(), r.clone(), 1));
                    }
                }
                let mut s = String::from("forms-disagree");
                for (name, r, c) in kinds {
                    s.push_str(&format!(" [{}x e.g. `{}`: {}]", c, name.replace(' ', "_"), r.replace(' ', "_")));
                }
                return Err(s);
            }
            if fam == "gcdext" {
                if let Some(v) = first.strip_prefix("ok ") {
                    let parts: Vec<&str> = v.split(' ').collect();
                    let (g, s, t) = (parse_ibig_hex(parts[0]).unwrap(), parse_ibig_hex(parts[1]).unwrap(), parse_ibig_hex(parts[2]).unwrap());
                    if &s * &a + &t * &b != g {
                        return Err(format!("bezout-identity-fails g={} s={} t={}", parts[0], parts[1], parts[2]));
                    }
                    return Ok(format!("{} #n={}", parts[0], n));
                }
            }
            match first.strip_prefix("ok ") {
                Some(v) => Ok(format!("{} #n={}", v, n)),
                None => Err(format!("{} #n={}", first, n)),
            }
        })()),
        "clone.u" => Some((|| -> Res {
            let a = p_ubig(arg(args, 0)?)?;
            let b = p_ubig(arg(args, 1)?)?;
            let mut x = a.clone();
            let mut y = b.clone();
            y.clone_from(&x);
            let z = y.clone();
            x += UBig::ONE;
            y *= UBig::from(3u8);
            // a untouched, z == a, x == a+1, y == 3a
            Ok(format!("{} {} {} {}", f_ubig(&a), f_ubig(&z), f_ubig(&x), f_ubig(&y)))
        })()),
        "clone.i" => Some((|| -> Res {
            let a = p_ibig(arg(args, 0)?)?;
            let b = p_ibig(arg(args, 1)?)?;
            let mut x = a.clone();
            let mut y = b.clone();
            y.clone_from(&x);
            let z = y.clone();
            x += IBig::ONE;
            y *= IBig::from(-3i8);
            Ok(format!("{} {} {} {}", f_ibig(&a), f_ibig(&z), f_ibig(&x), f_ibig(&y)))
        })()),
        _ => None,
    }
}
