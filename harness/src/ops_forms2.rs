//! `rform <family> <R|X> na da nb db` and `fform <z2|h10> <family> <FF|FN|NF|FS> A B [d:shift]` — evaluate
//! EVERY operator impl of dashu-ratio / dashu-float for the operation (generated tables) and require
//! that all of them return the same value or all panic with the same kind (C15).
use crate::forms_rt2::*;
use crate::{forms_float, forms_ratio};
use dashu_float::{round::mode, FBig};
use verif_harness::util::*;

pub fn dispatch(op: &str, args: &[&str]) -> Option<Res> {
    match op {
        "rform" => Some((|| -> Res {
            let fam = arg(args, 0)?;
            let q = arg(args, 1)?;
            let na = p_ibig(arg(args, 2)?)?;
            let da = p_ubig(arg(args, 3)?)?;
            let nb = p_ibig(arg(args, 4)?)?;
            let db = p_ubig(arg(args, 5)?)?;
            if da == dashu_int::UBig::ZERO || db == dashu_int::UBig::ZERO {
                return Err("bad-arg zero denominator".into());
            }
            let v = RVals::new(na, da, nb, db);
            let mut out = Vec::new();
            if !forms_ratio::run_group(fam, q, &v, &mut out) {
                return Err(format!("bad-op rform group {} {}", fam, q));
            }
            verdict_value(out)
        })()),
        "fform" => Some((|| -> Res {
            let inst = arg(args, 0)?;
            let fam = arg(args, 1)?;
            let shape = arg(args, 2)?;
            let a = parse_operand(arg(args, 3)?)?;
            let b = parse_operand(arg(args, 4)?)?;
            let shift = if args.len() > 5 { p_dec(args[5])? as isize } else { 0 };
            let mut out = Vec::new();
            let known = match inst {
                "z2" => {
                    let v = FVals::<FBig<mode::Zero, 2>>::new(&a, &b, shift);
                    forms_float::run_group_z2(fam, shape, &v, &mut out)
                }
                "h10" => {
                    let v = FVals::<FBig<mode::HalfAway, 10>>::new(&a, &b, shift);
                    forms_float::run_group_h10(fam, shape, &v, &mut out)
                }
                _ => false,
            };
            if !known {
                return Err(format!("bad-op fform group {} {} {}", inst, fam, shape));
            }
            verdict_value(out)
        })()),
        _ => None,
    }
}
