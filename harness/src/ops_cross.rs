//! Cross-type numeric comparison and hashing (C14): `num_order::{NumOrd, NumHash}` and
//! `dashu_base::{AbsOrd, AbsEq}` over every implemented type pair.
//!
//! Number argument:
//!   `n:<[-]hex>:<U|I>`                         UBig / IBig
//!   `f:<base 2|10|16>:<signif hex int>:<exp dec>:<prec dec>`   FBig<_, base> built with
//!        `FBig::from_repr(Repr::new(signif, exp), Context::new(prec))`; `signif = 0, exp = ±1` is ±inf
//!   `q:<num hex int>/<den hex nat>:<R|X>`      RBig::from_parts (reduces) / Relaxed::from_parts (reduce2)
//!   `p:<type>:<value>`                         primitive; ints as `[-]hex`, floats as hex bit pattern
//! Ops: `numcmp X Y` -> lt|eq|gt|none   (num_partial_cmp + every derived method must agree)
//!      `numeq X Y`  -> true|false       (num_eq, num_ne)
//!      `abscmp X Y` -> lt|eq|gt         (AbsOrd::abs_cmp)
//!      `abseq X Y`  -> true|false       (AbsEq::abs_eq)
//!      `ordcmp X Y` -> lt|eq|gt         (core Ord/PartialOrd of one type, `==` must agree)
//!      `numhash X`  -> the sequence of `Hasher::write` calls, one `s:<hex bytes>` per call
//!      `hasheq X Y` -> true|false       (the two recorded sequences are equal)
//!      `log2encl X` -> enclosed      (the ESTIMATE-ORACLE HYPOTHESIS of the theorems, checked on the real
//!                                     estimator: `x.log2_bounds()` = (lb, ub) must satisfy lb <= log2|x| <= ub;
//!                                     log2|x| is enclosed here to 2^-137 by certified integer interval
//!                                     arithmetic — no libm, no floats; a failure prints the numbers)
//!      `fdecode X`  -> nan | inf <+|-> | fin <man> d:<exp>   (`FloatEncoding::decode` of a primitive float)
//!      `implset`    -> digest of the impl headers / macro invocations of the anchored source files
//! A pair for which the library has no impl prints `ok nopair` (the model carries the same table).
#![allow(deprecated, unreachable_patterns)]
use dashu_base::{AbsEq, AbsOrd, BitTest, EstimatedLog2};
use dashu_float::round::mode;
use dashu_float::{Context, FBig, Repr};
use dashu_int::{IBig, UBig};
use dashu_ratio::{RBig, Relaxed};
use num_order::{NumHash, NumOrd};
use std::cmp::Ordering;
use std::hash::Hasher;
use std::panic::{catch_unwind, AssertUnwindSafe};
use verif_harness::util::*;

type FB<const B: dashu_int::Word> = FBig<mode::Zero, B>;

#[derive(Clone)]
pub enum Num {
    U(UBig),
    I(IBig),
    F2(FB<2>),
    F10(FB<10>),
    F16(FB<16>),
    // internal: the `Repr<B>` of an FBig (separate impls exist for it)
    FR2(Repr<2>),
    FR10(Repr<10>),
    FR16(Repr<16>),
    R(RBig),
    X(Relaxed),
    U8(u8),
    U16(u16),
    U32(u32),
    U64(u64),
    U128(u128),
    Us(usize),
    I8(i8),
    I16(i16),
    I32(i32),
    I64(i64),
    I128(i128),
    Is(isize),
    F32(f32),
    F64(f64),
}

fn bad(s: &str) -> String {
    format!("bad-arg num {}", s)
}

fn mk_f<const B: dashu_int::Word>(signif: IBig, exp: isize, prec: usize) -> FB<B> {
    let repr = if signif.is_zero() && exp > 0 {
        Repr::<B>::infinity()
    } else if signif.is_zero() && exp < 0 {
        Repr::<B>::neg_infinity()
    } else {
        Repr::<B>::new(signif, exp)
    };
    FBig::from_repr(repr, Context::new(prec))
}

pub fn p_num(s: &str) -> Result<Num, String> {
    let f: Vec<&str> = s.split(':').collect();
    match f[0] {
        "n" if f.len() == 3 => match f[2] {
            "U" => Ok(Num::U(p_ubig(f[1])?)),
            "I" => Ok(Num::I(p_ibig(f[1])?)),
            _ => Err(bad(s)),
        },
        "f" if f.len() == 5 => {
            let signif = p_ibig(f[2])?;
            let exp: isize = f[3].parse().map_err(|_| bad(s))?;
            let prec: usize = f[4].parse().map_err(|_| bad(s))?;
            if signif.is_zero() && !(exp == 0 || exp == 1 || exp == -1) {
                return Err(bad(s));
            }
            match f[1] {
                "2" => Ok(Num::F2(mk_f::<2>(signif, exp, prec))),
                "10" => Ok(Num::F10(mk_f::<10>(signif, exp, prec))),
                "16" => Ok(Num::F16(mk_f::<16>(signif, exp, prec))),
                _ => Err(bad(s)),
            }
        }
        "q" if f.len() == 3 => {
            let nd: Vec<&str> = f[1].split('/').collect();
            if nd.len() != 2 {
                return Err(bad(s));
            }
            let n = p_ibig(nd[0])?;
            let d = p_ubig(nd[1])?;
            if d.is_zero() {
                return Err(bad(s));
            }
            match f[2] {
                "R" => Ok(Num::R(RBig::from_parts(n, d))),
                "X" => Ok(Num::X(Relaxed::from_parts(n, d))),
                _ => Err(bad(s)),
            }
        }
        "p" if f.len() == 3 => {
            let v = f[2];
            macro_rules! pint {
                ($t:ty, $var:ident) => {{
                    let (neg, h) = match v.strip_prefix('-') {
                        Some(r) => (true, r),
                        None => (false, v),
                    };
                    let m = u128::from_str_radix(h, 16).map_err(|_| bad(s))?;
                    let x: i128 = if neg {
                        if m > (1u128 << 127) {
                            return Err(bad(s));
                        }
                        (m as i128).wrapping_neg()
                    } else if m > i128::MAX as u128 {
                        // only u128 can hold it
                        return <$t>::try_from(m).map(Num::$var).map_err(|_| bad(s));
                    } else {
                        m as i128
                    };
                    <$t>::try_from(x).map(Num::$var).map_err(|_| bad(s))
                }};
            }
            match f[1] {
                "u8" => pint!(u8, U8),
                "u16" => pint!(u16, U16),
                "u32" => pint!(u32, U32),
                "u64" => pint!(u64, U64),
                "u128" => pint!(u128, U128),
                "usize" => pint!(usize, Us),
                "i8" => pint!(i8, I8),
                "i16" => pint!(i16, I16),
                "i32" => pint!(i32, I32),
                "i64" => pint!(i64, I64),
                "i128" => pint!(i128, I128),
                "isize" => pint!(isize, Is),
                "f32" => Ok(Num::F32(f32::from_bits(u32::from_str_radix(v, 16).map_err(|_| bad(s))?))),
                "f64" => Ok(Num::F64(f64::from_bits(u64::from_str_radix(v, 16).map_err(|_| bad(s))?))),
                _ => Err(bad(s)),
            }
        }
        _ => Err(bad(s)),
    }
}

// ------------------------------------------------------------------------------ evaluation helpers

fn catch<T>(f: impl FnOnce() -> T) -> Result<T, String> {
    match catch_unwind(AssertUnwindSafe(f)) {
        Ok(v) => Ok(v),
        Err(_) => {
            let (msg, loc) = LAST_PANIC
                .with(|p| p.borrow_mut().take())
                .unwrap_or_else(|| ("?".into(), "?".into()));
            Err(format!("panic {}", classify_panic(&msg, &loc)))
        }
    }
}

fn po(o: Option<Ordering>) -> &'static str {
    match o {
        Some(o) => f_ord(o),
        None => "none",
    }
}

/// `num_partial_cmp` and every other method of the trait; "ok <lt|eq|gt|none>" / "panic K" /
/// "forms-disagree …"
fn numord<A: NumOrd<B>, B>(a: &A, b: &B) -> String {
    let p = match catch(|| a.num_partial_cmp(b)) {
        Ok(p) => p,
        Err(e) => return e,
    };
    let mut bad: Vec<String> = vec![];
    if let Some(o) = p {
        match catch(|| a.num_cmp(b)) {
            Ok(c) if c == o => {}
            Ok(c) => bad.push(format!("[num_cmp: {}]", f_ord(c))),
            Err(e) => bad.push(format!("[num_cmp: {}]", e.replace(' ', "_"))),
        }
    }
    let exp = |f: fn(Ordering) -> bool| p.map(f).unwrap_or(false);
    let checks: [(&str, Result<bool, String>, bool); 6] = [
        ("num_eq", catch(|| a.num_eq(b)), exp(|o| o == Ordering::Equal)),
        ("num_ne", catch(|| a.num_ne(b)), !exp(|o| o == Ordering::Equal)),
        ("num_lt", catch(|| a.num_lt(b)), exp(|o| o == Ordering::Less)),
        ("num_le", catch(|| a.num_le(b)), exp(|o| o != Ordering::Greater)),
        ("num_gt", catch(|| a.num_gt(b)), exp(|o| o == Ordering::Greater)),
        ("num_ge", catch(|| a.num_ge(b)), exp(|o| o != Ordering::Less)),
    ];
    for (n, got, want) in checks.iter() {
        match got {
            Ok(g) if g == want => {}
            Ok(g) => bad.push(format!("[{}: {}]", n, g)),
            Err(e) => bad.push(format!("[{}: {}]", n, e.replace(' ', "_"))),
        }
    }
    if bad.is_empty() {
        format!("ok {}", po(p))
    } else {
        format!("forms-disagree [num_partial_cmp: {}] {}", po(p), bad.join(" "))
    }
}

fn numeq<A: NumOrd<B>, B>(a: &A, b: &B) -> String {
    let e = catch(|| a.num_eq(b));
    let n = catch(|| a.num_ne(b));
    match (e, n) {
        (Ok(e), Ok(n)) if e != n => format!("ok {}", e),
        (Err(e), Err(n)) if e == n => e,
        (e, n) => format!("forms-disagree [num_eq: {:?}] [num_ne: {:?}]", e, n).replace("\"", ""),
    }
}

fn abscmp<A: AbsOrd<B>, B>(a: &A, b: &B) -> String {
    match catch(|| a.abs_cmp(b)) {
        Ok(o) => format!("ok {}", f_ord(o)),
        Err(e) => e,
    }
}

fn abseq<A: AbsEq<B>, B>(a: &A, b: &B) -> String {
    match catch(|| a.abs_eq(b)) {
        Ok(o) => format!("ok {}", o),
        Err(e) => e,
    }
}

fn ordcmp<A: PartialOrd<A> + PartialEq<A>>(a: &A, b: &A) -> String {
    let p = match catch(|| a.partial_cmp(b)) {
        Ok(p) => p,
        Err(e) => return e,
    };
    let e = match catch(|| a == b) {
        Ok(p) => p,
        Err(e) => return e,
    };
    if e != (p == Some(Ordering::Equal)) {
        return format!("forms-disagree [partial_cmp: {}] [eq: {}]", po(p), e);
    }
    format!("ok {}", po(p))
}

macro_rules! rhs {
    ($f:ident, $a:expr, $y:expr; $($r:ident)*) => {
        match $y { $(Num::$r(b) => Some($f($a, b)),)* _ => None }
    };
}

/// the table of `impl NumOrd<Rhs> for Lhs` in {integer,float,rational}/src/third_party/num_order.rs
fn numord_dispatch(x: &Num, y: &Num, eq_only: bool) -> Option<String> {
    macro_rules! row {
        ($a:expr; $($r:ident)*) => {
            if eq_only { rhs!(numeq, $a, y; $($r)*) } else { rhs!(numord, $a, y; $($r)*) }
        };
    }
    macro_rules! big_int_row {
        ($a:expr) => {
            row!($a; U I U8 U16 U32 U64 U128 Us I8 I16 I32 I64 I128 Is F32 F64
                 F2 F10 F16 FR2 FR10 FR16 R X)
        };
    }
    macro_rules! prim_row {
        ($a:expr) => {
            row!($a; U I F2 F10 F16 FR2 FR10 FR16 R X)
        };
    }
    macro_rules! fbig_row {
        ($a:expr) => {
            row!($a; U I U8 U16 U32 U64 U128 Us I8 I16 I32 I64 I128 Is F32 F64 F2 F10 F16 R X)
        };
    }
    macro_rules! frepr_row {
        ($a:expr) => {
            row!($a; U I U8 U16 U32 U64 U128 Us I8 I16 I32 I64 I128 Is F32 F64 FR2 FR10 FR16)
        };
    }
    match x {
        Num::U(a) => big_int_row!(a),
        Num::I(a) => big_int_row!(a),
        Num::U8(a) => prim_row!(a),
        Num::U16(a) => prim_row!(a),
        Num::U32(a) => prim_row!(a),
        Num::U64(a) => prim_row!(a),
        Num::U128(a) => prim_row!(a),
        Num::Us(a) => prim_row!(a),
        Num::I8(a) => prim_row!(a),
        Num::I16(a) => prim_row!(a),
        Num::I32(a) => prim_row!(a),
        Num::I64(a) => prim_row!(a),
        Num::I128(a) => prim_row!(a),
        Num::Is(a) => prim_row!(a),
        Num::F32(a) => prim_row!(a),
        Num::F64(a) => prim_row!(a),
        Num::F2(a) => fbig_row!(a),
        Num::F10(a) => fbig_row!(a),
        Num::F16(a) => fbig_row!(a),
        Num::FR2(a) => frepr_row!(a),
        Num::FR10(a) => frepr_row!(a),
        Num::FR16(a) => frepr_row!(a),
        Num::R(a) => {
            row!(a; U I U8 U16 U32 U64 U128 Us I8 I16 I32 I64 I128 Is F32 F64 F2 F10 F16 X)
        }
        Num::X(a) => {
            row!(a; U I U8 U16 U32 U64 U128 Us I8 I16 I32 I64 I128 Is F32 F64 F2 F10 F16 R)
        }
    }
}

/// the table of `impl AbsOrd<Rhs> for Lhs` (integer/src/cmp.rs, float/src/cmp.rs,
/// rational/src/cmp.rs, base/src/sign.rs)
fn abscmp_dispatch(x: &Num, y: &Num) -> Option<String> {
    match x {
        Num::U(a) => rhs!(abscmp, a, y; U I F2 F10 F16 FR2 FR10 FR16 R X),
        Num::I(a) => rhs!(abscmp, a, y; U I F2 F10 F16 FR2 FR10 FR16 R X),
        Num::F2(a) => rhs!(abscmp, a, y; U I F2 R X),
        Num::F10(a) => rhs!(abscmp, a, y; U I F10 R X),
        Num::F16(a) => rhs!(abscmp, a, y; U I F16 R X),
        Num::FR2(a) => rhs!(abscmp, a, y; U I),
        Num::FR10(a) => rhs!(abscmp, a, y; U I),
        Num::FR16(a) => rhs!(abscmp, a, y; U I),
        Num::R(a) => rhs!(abscmp, a, y; U I F2 F10 F16 R X),
        Num::X(a) => rhs!(abscmp, a, y; U I F2 F10 F16 R X),
        Num::I8(a) => rhs!(abscmp, a, y; I8),
        Num::I16(a) => rhs!(abscmp, a, y; I16),
        Num::I32(a) => rhs!(abscmp, a, y; I32),
        Num::I64(a) => rhs!(abscmp, a, y; I64),
        Num::I128(a) => rhs!(abscmp, a, y; I128),
        Num::Is(a) => rhs!(abscmp, a, y; Is),
        Num::F32(a) => rhs!(abscmp, a, y; F32),
        Num::F64(a) => rhs!(abscmp, a, y; F64),
        _ => None,
    }
}

fn abseq_dispatch(x: &Num, y: &Num) -> Option<String> {
    match x {
        Num::U(a) => rhs!(abseq, a, y; U I),
        Num::I(a) => rhs!(abseq, a, y; U I),
        Num::R(a) => rhs!(abseq, a, y; R),
        Num::X(a) => rhs!(abseq, a, y; X),
        Num::I8(a) => rhs!(abseq, a, y; I8),
        Num::I16(a) => rhs!(abseq, a, y; I16),
        Num::I32(a) => rhs!(abseq, a, y; I32),
        Num::I64(a) => rhs!(abseq, a, y; I64),
        Num::I128(a) => rhs!(abseq, a, y; I128),
        Num::Is(a) => rhs!(abseq, a, y; Is),
        Num::F32(a) => rhs!(abseq, a, y; F32),
        Num::F64(a) => rhs!(abseq, a, y; F64),
        _ => None,
    }
}

fn ordcmp_dispatch(x: &Num, y: &Num) -> Option<String> {
    match x {
        Num::U(a) => rhs!(ordcmp, a, y; U),
        Num::I(a) => rhs!(ordcmp, a, y; I),
        Num::F2(a) => rhs!(ordcmp, a, y; F2),
        Num::F10(a) => rhs!(ordcmp, a, y; F10),
        Num::F16(a) => rhs!(ordcmp, a, y; F16),
        Num::FR2(a) => rhs!(ordcmp, a, y; FR2),
        Num::FR10(a) => rhs!(ordcmp, a, y; FR10),
        Num::FR16(a) => rhs!(ordcmp, a, y; FR16),
        Num::R(a) => rhs!(ordcmp, a, y; R),
        Num::X(a) => rhs!(ordcmp, a, y; X),
        _ => None,
    }
}

fn to_repr(x: &Num) -> Option<Num> {
    match x {
        Num::F2(a) => Some(Num::FR2(a.repr().clone())),
        Num::F10(a) => Some(Num::FR10(a.repr().clone())),
        Num::F16(a) => Some(Num::FR16(a.repr().clone())),
        _ => None,
    }
}

/// FBig operands are additionally evaluated through their `Repr<B>` (separate impls) and, for
/// FBig x FBig, with a different rounding-mode type parameter on the right
fn with_repr_forms(
    x: &Num,
    y: &Num,
    f: &dyn Fn(&Num, &Num) -> Option<String>,
    same_kind_only: bool,
) -> Option<String> {
    let main = f(x, y)?;
    let mut forms: Vec<(String, String)> = vec![("fbig".into(), main.clone())];
    let (xr, yr) = (to_repr(x), to_repr(y));
    if !same_kind_only {
        if let Some(xr) = &xr {
            if let Some(r) = f(xr, y) {
                forms.push(("lhs_repr".into(), r));
            }
        }
        if let Some(yr) = &yr {
            if let Some(r) = f(x, yr) {
                forms.push(("rhs_repr".into(), r));
            }
        }
    }
    if let (Some(xr), Some(yr)) = (&xr, &yr) {
        if let Some(r) = f(xr, yr) {
            forms.push(("both_repr".into(), r));
        }
    }
    if forms.iter().all(|(_, r)| *r == main) {
        Some(main)
    } else {
        let mut s = String::from("forms-disagree");
        for (n, r) in forms {
            s.push_str(&format!(" [{}: {}]", n, r.replace(' ', "_")));
        }
        Some(s)
    }
}

/// NumOrd<FBig<R2, B2>> for FBig<R1, B1> with R1 != R2
fn mixed_round(x: &Num, y: &Num) -> Option<String> {
    macro_rules! go {
        ($a:expr) => {
            match y {
                Num::F2(b) => Some(numord($a, &b.clone().with_rounding::<mode::HalfAway>())),
                Num::F10(b) => Some(numord($a, &b.clone().with_rounding::<mode::HalfEven>())),
                Num::F16(b) => Some(numord($a, &b.clone().with_rounding::<mode::Up>())),
                _ => None,
            }
        };
    }
    match x {
        Num::F2(a) => go!(a),
        Num::F10(a) => go!(a),
        Num::F16(a) => go!(a),
        _ => None,
    }
}

fn finish(r: Option<String>) -> Res {
    match r {
        None => Ok("nopair".to_string()),
        Some(s) => match s.strip_prefix("ok ") {
            Some(v) => Ok(v.to_string()),
            None => Err(s),
        },
    }
}

// ------------------------------------------------------------------------------ hashing

#[derive(Default)]
struct RecHasher {
    writes: Vec<Vec<u8>>,
}
impl Hasher for RecHasher {
    fn finish(&self) -> u64 {
        0
    }
    fn write(&mut self, bytes: &[u8]) {
        self.writes.push(bytes.to_vec());
    }
}

fn feed<T: NumHash>(x: &T) -> Result<Vec<Vec<u8>>, String> {
    catch(|| {
        let mut h = RecHasher::default();
        x.num_hash(&mut h);
        h.writes
    })
}

fn numhash_dispatch(x: &Num) -> Result<Vec<Vec<u8>>, String> {
    match x {
        Num::U(a) => feed(a),
        Num::I(a) => feed(a),
        Num::F2(a) => feed(a),
        Num::F10(a) => feed(a),
        Num::F16(a) => feed(a),
        Num::FR2(a) => feed(a),
        Num::FR10(a) => feed(a),
        Num::FR16(a) => feed(a),
        Num::R(a) => feed(a),
        Num::X(a) => feed(a),
        Num::U8(a) => feed(a),
        Num::U16(a) => feed(a),
        Num::U32(a) => feed(a),
        Num::U64(a) => feed(a),
        Num::U128(a) => feed(a),
        Num::Us(a) => feed(a),
        Num::I8(a) => feed(a),
        Num::I16(a) => feed(a),
        Num::I32(a) => feed(a),
        Num::I64(a) => feed(a),
        Num::I128(a) => feed(a),
        Num::Is(a) => feed(a),
        Num::F32(a) => feed(a),
        Num::F64(a) => feed(a),
    }
}

/// FBig: the Repr impl must feed the same sequence
fn numhash_all(x: &Num) -> Result<Vec<Vec<u8>>, String> {
    let main = numhash_dispatch(x)?;
    if let Some(xr) = to_repr(x) {
        let r = numhash_dispatch(&xr)?;
        if r != main {
            return Err(format!(
                "forms-disagree [fbig: {}] [repr: {}]",
                f_feed(&main).replace(' ', "_"),
                f_feed(&r).replace(' ', "_")
            ));
        }
    }
    Ok(main)
}

fn f_feed(ws: &[Vec<u8>]) -> String {
    let v: Vec<String> = ws.iter().map(|w| f_bytes(w)).collect();
    if v.is_empty() {
        "nowrite".to_string()
    } else {
        v.join(" ")
    }
}

// ------------------------------------------------------------------------------ estimator hypothesis
//
// `log2encl`: lb <= log2|x| <= ub for the REAL f32 estimator, decided with CERTIFIED integer interval
// arithmetic (no libm, no floating point): log2 of an integer is enclosed by bit length + KFRAC
// fractional bits obtained by repeated squaring of a PM-bit mantissa with directed rounding (lower
// track rounds down, upper track rounds up); the f32 bounds are decoded to exact dyadic rationals.

const KFRAC: usize = 200; // fractional bits of the enclosure (|exponent| < 2^63 costs 63 of them)
const PM: usize = 448; // mantissa bits (each squaring doubles the relative error: 448 - 200 - 2 left)

/// (lo, hi) with lo <= log2(x) * 2^KFRAC <= hi, x > 0; exact (lo = hi) when x is a power of two
fn log2_interval(x: &UBig) -> (IBig, IBig) {
    let l = x.bit_len() - 1;
    let int_part = IBig::from(l) << KFRAC;
    if x.trailing_zeros() == Some(l) {
        return (int_part.clone(), int_part);
    }
    // mantissa m/2^(PM-1) in [1, 2)
    let (mut m_lo, mut m_hi) = if l + 1 > PM {
        let sh = l + 1 - PM;
        let lo = x >> sh;
        let exact = (&lo << sh) == *x;
        let hi = if exact { lo.clone() } else { &lo + UBig::ONE };
        (lo, hi)
    } else {
        let m = x << (PM - 1 - l);
        (m.clone(), m)
    };
    let two_pm = UBig::ONE << PM;
    let (mut f_lo, mut f_hi) = (UBig::ZERO, UBig::ZERO);
    for _ in 0..KFRAC {
        // lower track: round down
        let sq = (&m_lo * &m_lo) >> (PM - 1);
        f_lo <<= 1;
        if sq >= two_pm {
            f_lo += UBig::ONE;
            m_lo = sq >> 1;
        } else {
            m_lo = sq;
        }
        // upper track: round up
        let full = &m_hi * &m_hi;
        let mut sq = &full >> (PM - 1);
        if (&sq << (PM - 1)) != full {
            sq += UBig::ONE;
        }
        f_hi <<= 1;
        if sq >= two_pm {
            f_hi += UBig::ONE;
            let odd = sq.bit(0);
            m_hi = sq >> 1;
            if odd {
                m_hi += UBig::ONE;
            }
        } else {
            m_hi = sq;
        }
    }
    // the remaining factor is in [1, 2): contributes [0, 1) units of 2^-KFRAC
    (&int_part + IBig::from(f_lo), int_part + IBig::from(f_hi) + IBig::ONE)
}

/// exact value of a finite f32 times 2^KFRAC as (numerator, shift): value = num / 2^shift
fn f32_scaled(f: f32) -> (IBig, usize) {
    let bits = f.to_bits();
    let neg = bits >> 31 == 1;
    let ex = ((bits >> 23) & 0xff) as i64;
    let man = (bits & 0x7fffff) as u64;
    let (m, e) = if ex == 0 { (man, -149i64) } else { (man | 0x800000, ex - 150) };
    let m = if neg { -IBig::from(m) } else { IBig::from(m) };
    let e = e + KFRAC as i64;
    if e >= 0 {
        (m << e as usize, 0)
    } else {
        (m, (-e) as usize)
    }
}

/// v = None: x is zero (log2 = -inf)
fn encl_check(lb: f32, ub: f32, v: Option<(IBig, IBig)>) -> Res {
    match v {
        None => {
            if lb == f32::NEG_INFINITY && !ub.is_nan() {
                Ok("enclosed".into())
            } else {
                Err(format!("violated zero lb={} ub={}", lb, ub))
            }
        }
        Some((lo, hi)) => {
            if !lb.is_finite() || !ub.is_finite() {
                return Err(format!("violated non-finite lb={} ub={}", lb, ub));
            }
            let (ln, ls) = f32_scaled(lb);
            let (un, us) = f32_scaled(ub);
            // lb <= log2: certain iff lb*2^K <= lo ; certainly violated iff lb*2^K > hi
            let lb_ok = ln <= (&lo << ls);
            let lb_bad = ln > (&hi << ls);
            let ub_ok = un >= (&hi << us);
            let ub_bad = un < (&lo << us);
            if lb_bad || ub_bad {
                Err(format!("violated lb={:e} ub={:e} log2~{}", lb, ub, f_ibig(&(lo >> (KFRAC - 40)))))
            } else if lb_ok && ub_ok {
                Ok("enclosed".into())
            } else {
                Err(format!("violated undecided lb={:e} ub={:e}", lb, ub))
            }
        }
    }
}

fn log2encl(x: &Num) -> Res {
    fn of_int(x: &IBig) -> Option<(IBig, IBig)> {
        if x.is_zero() {
            None
        } else {
            Some(log2_interval(&dashu_base::UnsignedAbs::unsigned_abs(x)))
        }
    }
    fn of_ratio(n: &IBig, d: &UBig) -> Option<(IBig, IBig)> {
        of_int(n).map(|(nl, nh)| {
            let (dl, dh) = log2_interval(d);
            (nl - dh, nh - dl)
        })
    }
    fn of_float<const B: dashu_int::Word>(a: &FB<B>) -> Result<Option<(IBig, IBig)>, String> {
        let r = a.repr();
        if r.is_infinite() {
            return Err("bad-arg log2encl infinite".into());
        }
        let (bl, bh) = log2_interval(&UBig::from(B));
        let e = IBig::from(r.exponent());
        Ok(of_int(r.significand()).map(|(sl, sh)| {
            if r.exponent() >= 0 {
                (sl + &e * bl, sh + &e * bh)
            } else {
                (sl + &e * bh, sh + &e * bl)
            }
        }))
    }
    match x {
        Num::U(a) => {
            let (l, u) = a.log2_bounds();
            encl_check(l, u, of_int(&IBig::from(a.clone())))
        }
        Num::I(a) => {
            let (l, u) = a.log2_bounds();
            encl_check(l, u, of_int(a))
        }
        Num::F2(a) => {
            let (l, u) = a.log2_bounds();
            encl_check(l, u, of_float(a)?)
        }
        Num::F10(a) => {
            let (l, u) = a.log2_bounds();
            encl_check(l, u, of_float(a)?)
        }
        Num::F16(a) => {
            let (l, u) = a.log2_bounds();
            encl_check(l, u, of_float(a)?)
        }
        Num::R(a) => {
            let (l, u) = a.log2_bounds();
            encl_check(l, u, of_ratio(a.numerator(), a.denominator()))
        }
        Num::X(a) => {
            let (l, u) = a.log2_bounds();
            encl_check(l, u, of_ratio(a.numerator(), a.denominator()))
        }
        _ => Err("bad-arg log2encl kind".into()),
    }
}

// ------------------------------------------------------------------------------ impl set (tie to source)

const IMPL_SOURCES: [(&str, &str); 7] = [
    ("integer/num_order.rs", "integer/src/third_party/num_order.rs"),
    ("float/num_order.rs", "float/src/third_party/num_order.rs"),
    ("rational/num_order.rs", "rational/src/third_party/num_order.rs"),
    ("integer/cmp.rs", "integer/src/cmp.rs"),
    ("float/cmp.rs", "float/src/cmp.rs"),
    ("rational/cmp.rs", "rational/src/cmp.rs"),
    ("base/sign.rs", "base/src/sign.rs"),
];

/// root of the dashu checkout this harness was built against: the `path` of the `dashu-base`
/// dependency in the manifest it was built from (/repo, or the scratch copy of a trial run)
fn repo_root() -> Result<String, String> {
    let man = std::fs::read_to_string(concat!(env!("CARGO_MANIFEST_DIR"), "/Cargo.toml"))
        .map_err(|e| format!("bad-arg implset manifest {}", e))?;
    for line in man.lines() {
        if line.starts_with("dashu-base") {
            if let Some(i) = line.find("path = \"") {
                let rest = &line[i + 8..];
                if let Some(j) = rest.find("/base\"") {
                    return Ok(rest[..j].to_string());
                }
            }
        }
    }
    Err("bad-arg implset no-dashu-base-path".into())
}

/// the impl headers (`impl … NumOrd<…>/NumHash/AbsOrd/AbsEq … for …`, also inside macro bodies) and
/// the top-level macro invocations of each anchored file, as `file:count:fnv64`.  The dispatch tables
/// of this harness and of the model were transcribed from exactly this set; if it changes the model
/// prints another digest and the tables must be revisited.
fn implset() -> Res {
    let root = repo_root()?;
    let mut out = vec![];
    for (name, rel) in IMPL_SOURCES.iter() {
        let src = std::fs::read_to_string(format!("{}/{}", root, rel))
            .map_err(|e| format!("bad-arg implset {} {}", rel, e))?;
        let mut n = 0usize;
        let mut h: u64 = 0xcbf29ce484222325;
        for line in src.lines() {
            let t = line.trim();
            let is_impl = t.starts_with("impl")
                && (t.contains("NumOrd<") || t.contains("NumHash for") || t.contains("AbsOrd") || t.contains("AbsEq"));
            let is_invocation = !line.starts_with(' ')
                && t.ends_with(");")
                && t.contains("!(")
                && !t.starts_with("//")
                && (t.contains("ord") || t.contains("abs") || t.contains("signed"));
            if is_impl || is_invocation {
                n += 1;
                for b in t.bytes().filter(|b| !b.is_ascii_whitespace()) {
                    h ^= b as u64;
                    h = h.wrapping_mul(0x100000001b3);
                }
                h ^= 0x0a;
                h = h.wrapping_mul(0x100000001b3);
            }
        }
        out.push(format!("{}:{}:{:016x}", name, n, h));
    }
    Ok(out.join(" "))
}

/// which way the real log2-bound filter goes for a pair that uses it (annotation only, not compared)
fn path_tag(x: &Num, y: &Num) -> &'static str {
    fn b(x: &Num) -> Option<(f32, f32, bool)> {
        Some(match x {
            Num::U(a) => { let (l, u) = a.log2_bounds(); (l, u, false) }
            Num::I(a) => { let (l, u) = a.log2_bounds(); (l, u, false) }
            Num::F2(a) if !a.repr().is_infinite() => { let (l, u) = a.log2_bounds(); (l, u, true) }
            Num::F10(a) if !a.repr().is_infinite() => { let (l, u) = a.log2_bounds(); (l, u, true) }
            Num::F16(a) if !a.repr().is_infinite() => { let (l, u) = a.log2_bounds(); (l, u, true) }
            Num::R(a) => { let (l, u) = a.log2_bounds(); (l, u, true) }
            Num::X(a) => { let (l, u) = a.log2_bounds(); (l, u, true) }
            _ => return None,
        })
    }
    match (b(x), b(y)) {
        (Some((xl, xh, fx)), Some((yl, yh, fy))) if fx || fy => {
            if xl > yh || yl > xh {
                " #path=filter"
            } else {
                " #path=exact"
            }
        }
        _ => "",
    }
}

pub fn dispatch(op: &str, args: &[&str]) -> Option<Res> {
    if !["numcmp", "numeq", "abscmp", "abseq", "ordcmp", "numhash", "hasheq", "log2encl", "implset", "fdecode"].contains(&op) {
        return None;
    }
    Some((|| -> Res {
        match op {
            "numcmp" => {
                let x = p_num(arg(args, 0)?)?;
                let y = p_num(arg(args, 1)?)?;
                let f = |a: &Num, b: &Num| numord_dispatch(a, b, false);
                let main = with_repr_forms(&x, &y, &f, false);
                if let (Some(m), Some(mr)) = (&main, mixed_round(&x, &y)) {
                    if *m != mr {
                        return Err(format!(
                            "forms-disagree [same_round: {}] [mixed_round: {}]",
                            m.replace(' ', "_"),
                            mr.replace(' ', "_")
                        ));
                    }
                }
                finish(main).map(|r| r + path_tag(&x, &y))
            }
            "numeq" => {
                let x = p_num(arg(args, 0)?)?;
                let y = p_num(arg(args, 1)?)?;
                let f = |a: &Num, b: &Num| numord_dispatch(a, b, true);
                finish(with_repr_forms(&x, &y, &f, false))
            }
            "abscmp" => {
                let x = p_num(arg(args, 0)?)?;
                let y = p_num(arg(args, 1)?)?;
                finish(with_repr_forms(&x, &y, &abscmp_dispatch, false)).map(|r| r + path_tag(&x, &y))
            }
            "abseq" => {
                let x = p_num(arg(args, 0)?)?;
                let y = p_num(arg(args, 1)?)?;
                finish(abseq_dispatch(&x, &y))
            }
            "ordcmp" => {
                let x = p_num(arg(args, 0)?)?;
                let y = p_num(arg(args, 1)?)?;
                finish(ordcmp_dispatch(&x, &y))
            }
            "numhash" => {
                let x = p_num(arg(args, 0)?)?;
                Ok(f_feed(&numhash_all(&x)?))
            }
            "log2encl" => log2encl(&p_num(arg(args, 0)?)?),
            "implset" => implset(),
            "fdecode" => {
                use dashu_base::FloatEncoding;
                use std::num::FpCategory;
                fn show<M: Into<i64>, E: Into<i64>>(r: Result<(M, E), FpCategory>, neg: bool) -> String {
                    match r {
                        Ok((m, e)) => format!("fin {} d:{}", f_ibig(&IBig::from(m.into())), e.into()),
                        Err(FpCategory::Nan) => "nan".into(),
                        Err(_) => format!("inf {}", if neg { "-" } else { "+" }),
                    }
                }
                match p_num(arg(args, 0)?)? {
                    Num::F32(f) => Ok(show(f.decode(), f.is_sign_negative())),
                    Num::F64(f) => Ok(show(f.decode(), f.is_sign_negative())),
                    _ => Err("bad-arg fdecode".into()),
                }
            }
            "hasheq" => {
                let x = p_num(arg(args, 0)?)?;
                let y = p_num(arg(args, 1)?)?;
                let a = numhash_all(&x)?;
                let b = numhash_all(&y)?;
                Ok((a == b).to_string())
            }
            _ => Err(format!("bad-op {}", op)),
        }
    })())
}
