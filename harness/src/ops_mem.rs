//! group `mem` (C17): memory safety of dashu-int's hand-managed storage (`buffer.rs`, `repr.rs`).
//!
//!   mem.buf <tok>…     buffer/Repr-level history over 8 registers (Empty | Buffer | IBig); per step the
//!                      target register and the allocator events seen during the library call(s)
//!   mem.val <tok>…     value-level history over 8 `Option<IBig>` registers; per step the value and the
//!                      layout invariants of every live register; leak / double-free counters at the end
//!   mem.policy d:n     capacity policy through the hooks
//!   mem.miri <res> …   echo of a Miri verdict
//!
//! The protocol (token grammar, output format) is specified by lean/Dashu/Driver/Mem.lean.
//!
//! `Counting` is a `GlobalAlloc` that forwards to `System` and — only while a history is active —
//! keeps a fixed-size event log and a fixed-size table of the pointers allocated while recording
//! (no allocation inside the allocator).  When it is not registered (miri_hist) every counter reads
//! zero and every event string is `.`.
#![allow(dead_code)]

use dashu_base::{Abs, Gcd, Sign};
use dashu_int::verif::{
    buffer_default_capacity, buffer_max_compact_capacity, ibig_repr_info, ubig_repr_info,
    BufferHandle,
    BUFFER_MAX_CAPACITY,
};
use dashu_int::{DoubleWord, IBig, UBig, Word};
use std::alloc::{GlobalAlloc, Layout, System};
use std::cell::UnsafeCell;
use std::hint::black_box;
use std::panic::{catch_unwind, AssertUnwindSafe};
use std::sync::atomic::{AtomicBool, Ordering};
use verif_harness::util::*;

// ================================================================== the counting allocator

const LOG_N: usize = 1 << 14;
const TAB_N: usize = 1 << 14;

const EV_ALLOC: u8 = 1;
const EV_REALLOC: u8 = 2;
const EV_DEALLOC: u8 = 3;

/// Alloc{size=a, ptr=p} | Realloc{old_size=a, new_size=b, old_ptr=p, new_ptr=q} | Dealloc{size=a, ptr=p}
#[derive(Clone, Copy)]
struct Ev {
    kind: u8,
    a: usize,
    b: usize,
    p: usize,
    q: usize,
}

const ST_LIVE: u8 = 1;
const ST_FREED: u8 = 2;

#[derive(Clone, Copy)]
struct Ent {
    ptr: usize,
    st: u8,
}

struct State {
    /// a history is running: the pointer table is maintained
    active: bool,
    /// allocations are recorded (set only around library calls)
    rec: bool,
    /// inside the panic hook: allocations are the hook's, not the library's
    suppress: bool,
    /// a panic is in flight (hook done, not yet caught): allocations are the unwinder's
    pending: bool,
    /// append events to the log (mem.buf only)
    log_on: bool,
    overflow: bool,
    nlog: usize,
    ntab: usize,
    live: usize,
    dfree: usize,
    log: [Ev; LOG_N],
    tab: [Ent; TAB_N],
}

struct Shared(UnsafeCell<State>);
// the harness is single-threaded
unsafe impl Sync for Shared {}

static ST: Shared = Shared(UnsafeCell::new(State {
    active: false,
    rec: false,
    suppress: false,
    pending: false,
    log_on: false,
    overflow: false,
    nlog: 0,
    ntab: 0,
    live: 0,
    dfree: 0,
    log: [Ev { kind: 0, a: 0, b: 0, p: 0, q: 0 }; LOG_N],
    tab: [Ent { ptr: 0, st: 0 }; TAB_N],
}));

#[inline]
fn st() -> *mut State {
    ST.0.get()
}

unsafe fn tab_find(s: *mut State, ptr: usize) -> Option<usize> {
    let n = (*s).ntab;
    let mut i = 0;
    while i < n {
        if (*s).tab[i].ptr == ptr {
            return Some(i);
        }
        i += 1;
    }
    None
}

unsafe fn tab_remove(s: *mut State, i: usize) {
    let n = (*s).ntab;
    (*s).tab[i] = (*s).tab[n - 1];
    (*s).ntab = n - 1;
}

unsafe fn tab_set_live(s: *mut State, ptr: usize) {
    match tab_find(s, ptr) {
        Some(i) => (*s).tab[i].st = ST_LIVE,
        None => {
            let n = (*s).ntab;
            if n < TAB_N {
                (*s).tab[n] = Ent { ptr, st: ST_LIVE };
                (*s).ntab = n + 1;
            } else {
                (*s).overflow = true;
            }
        }
    }
    (*s).live += 1;
}

unsafe fn log_push(s: *mut State, e: Ev) {
    if !(*s).log_on {
        return;
    }
    let n = (*s).nlog;
    if n < LOG_N {
        (*s).log[n] = e;
        (*s).nlog = n + 1;
    } else {
        (*s).overflow = true;
    }
}

#[inline]
unsafe fn recording(s: *mut State) -> bool {
    (*s).rec && !(*s).suppress && !(*s).pending
}

/// an allocation that is not the library's: the address may be one we remember as freed
unsafe fn foreign_alloc(s: *mut State, ptr: usize) {
    if let Some(i) = tab_find(s, ptr) {
        if (*s).tab[i].st == ST_FREED {
            tab_remove(s, i);
        }
    }
}

unsafe fn note_alloc(ptr: usize, size: usize) {
    let s = st();
    if !(*s).active {
        return;
    }
    if recording(s) {
        tab_set_live(s, ptr);
        log_push(s, Ev { kind: EV_ALLOC, a: size, b: 0, p: ptr, q: 0 });
    } else {
        foreign_alloc(s, ptr);
    }
}

/// returns true when this is a free of a pointer allocated during this history that is no longer
/// live (double free); the underlying deallocation is then skipped so that the harness survives to
/// report it
unsafe fn note_dealloc(ptr: usize, size: usize) -> bool {
    let s = st();
    if !(*s).active {
        return false;
    }
    match tab_find(s, ptr) {
        None => false, // not allocated while recording: not ours
        Some(i) => {
            log_push(s, Ev { kind: EV_DEALLOC, a: size, b: 0, p: ptr, q: 0 });
            if (*s).tab[i].st == ST_LIVE {
                (*s).tab[i].st = ST_FREED;
                (*s).live -= 1;
                false
            } else {
                (*s).dfree += 1;
                true
            }
        }
    }
}

/// before the underlying realloc: Some(true) = recorded pointer, stale (double free);
/// Some(false) = recorded and live; None = not ours
unsafe fn realloc_kind(ptr: usize) -> Option<bool> {
    let s = st();
    if !(*s).active {
        return None;
    }
    tab_find(s, ptr).map(|i| (*s).tab[i].st != ST_LIVE)
}

unsafe fn note_realloc(kind: Option<bool>, old: usize, old_size: usize, new: usize, new_size: usize) {
    let s = st();
    if !(*s).active {
        return;
    }
    match kind {
        None => foreign_alloc(s, new),
        Some(stale) => {
            if stale {
                (*s).dfree += 1;
            } else {
                if let Some(i) = tab_find(s, old) {
                    (*s).tab[i].st = ST_FREED;
                }
                (*s).live -= 1;
            }
            tab_set_live(s, new);
            log_push(s, Ev { kind: EV_REALLOC, a: old_size, b: new_size, p: old, q: new });
        }
    }
}

pub struct Counting;

unsafe impl GlobalAlloc for Counting {
    unsafe fn alloc(&self, l: Layout) -> *mut u8 {
        let p = System.alloc(l);
        if !p.is_null() {
            note_alloc(p as usize, l.size());
        }
        p
    }
    unsafe fn alloc_zeroed(&self, l: Layout) -> *mut u8 {
        let p = System.alloc_zeroed(l);
        if !p.is_null() {
            note_alloc(p as usize, l.size());
        }
        p
    }
    unsafe fn dealloc(&self, p: *mut u8, l: Layout) {
        if note_dealloc(p as usize, l.size()) {
            return;
        }
        System.dealloc(p, l)
    }
    unsafe fn realloc(&self, p: *mut u8, l: Layout, new_size: usize) -> *mut u8 {
        let kind = realloc_kind(p as usize);
        let q = if kind == Some(true) {
            // realloc of a freed pointer: do not hand it to the system allocator
            System.alloc(Layout::from_size_align_unchecked(new_size, l.align()))
        } else {
            System.realloc(p, l, new_size)
        };
        if !q.is_null() {
            note_realloc(kind, p as usize, l.size(), q as usize, new_size);
        }
        q
    }
}

// ------------------------------------------------------------------ harness side of the allocator

fn hist_begin(log_on: bool) {
    ensure_hook();
    unsafe {
        let s = st();
        (*s).active = true;
        (*s).rec = false;
        (*s).suppress = false;
        (*s).pending = false;
        (*s).log_on = log_on;
        (*s).overflow = false;
        (*s).nlog = 0;
        (*s).ntab = 0;
        (*s).live = 0;
        (*s).dfree = 0;
    }
}

fn hist_end() {
    unsafe {
        let s = st();
        (*s).active = false;
        (*s).rec = false;
        (*s).pending = false;
        (*s).log_on = false;
        (*s).nlog = 0;
        (*s).ntab = 0;
    }
}

fn rec_on() {
    unsafe {
        (*st()).rec = true;
    }
}

fn rec_off() {
    unsafe {
        let s = st();
        (*s).rec = false;
        (*s).pending = false;
    }
}

fn counters() -> (usize, usize, bool) {
    unsafe {
        let s = st();
        ((*s).live, (*s).dfree, (*s).overflow)
    }
}

fn ev_size(out: &mut String, bytes: usize, ok: bool) {
    if ok {
        out.push_str(&(bytes / std::mem::size_of::<Word>()).to_string());
    } else {
        out.push_str(&bytes.to_string());
        out.push('b');
    }
}

/// drain the event log into `A<words>` / `R<old>><new>` / `D<words>` …, `.` if empty
/// (call with recording off)
fn drain_events() -> String {
    let n = unsafe { (*st()).nlog };
    let mut out = String::new();
    let wsz = std::mem::size_of::<Word>();
    for i in 0..n {
        let e = unsafe { (*st()).log[i] };
        let ok = e.a % wsz == 0 && e.b % wsz == 0;
        out.push(match e.kind {
            EV_ALLOC => 'A',
            EV_REALLOC => 'R',
            _ => 'D',
        });
        if !ok {
            out.push('?');
        }
        ev_size(&mut out, e.a, ok);
        if e.kind == EV_REALLOC {
            out.push('>');
            ev_size(&mut out, e.b, ok);
        }
    }
    unsafe {
        (*st()).nlog = 0;
    }
    if out.is_empty() {
        out.push('.');
    }
    out
}

/// drain the event log and return the deallocation sizes (in words, ascending) as `D3,D5` (`.` if
/// none); anything that is not a deallocation, or not a whole number of words, is shown with `?`
fn drain_sorted_drops() -> String {
    let n = unsafe { (*st()).nlog };
    let wsz = std::mem::size_of::<Word>();
    let mut ds: Vec<usize> = Vec::new();
    let mut odd: Vec<String> = Vec::new();
    for i in 0..n {
        let e = unsafe { (*st()).log[i] };
        if e.kind == EV_DEALLOC && e.a % wsz == 0 {
            ds.push(e.a / wsz);
        } else {
            odd.push(format!("?{}:{}b:{}b", e.kind, e.a, e.b));
        }
    }
    unsafe {
        (*st()).nlog = 0;
    }
    ds.sort();
    let mut parts: Vec<String> = ds.iter().map(|c| format!("D{}", c)).collect();
    parts.extend(odd);
    if parts.is_empty() {
        ".".to_string()
    } else {
        parts.join(",")
    }
}

fn clear_log() {
    unsafe {
        (*st()).nlog = 0;
    }
}

/// wrap the installed panic hook: what the hook allocates is not recorded, and from the end of the
/// hook to the `catch_unwind` the allocations belong to the unwinder (payload box, exception object)
/// while the deallocations are the destructors of the unwound frames (still recorded)
fn ensure_hook() {
    static DONE: AtomicBool = AtomicBool::new(false);
    if DONE.swap(true, Ordering::SeqCst) {
        return;
    }
    let old = std::panic::take_hook();
    std::panic::set_hook(Box::new(move |info| {
        let was = unsafe {
            let s = st();
            let w = (*s).suppress;
            (*s).suppress = true;
            w
        };
        old(info);
        unsafe {
            let s = st();
            (*s).suppress = was;
            if (*s).rec {
                (*s).pending = true;
            }
        }
    }));
}

/// run one library call (or a short sequence) with recording on, catching a panic;
/// `Err((msg, loc))` = it panicked
fn guarded<T>(f: impl FnOnce() -> T) -> Result<T, (String, String)> {
    rec_on();
    let r = catch_unwind(AssertUnwindSafe(f));
    rec_off();
    match r {
        Ok(v) => Ok(v),
        Err(payload) => {
            drop(payload);
            Err(LAST_PANIC
                .with(|p| p.borrow_mut().take())
                .unwrap_or_else(|| ("?".into(), "?".into())))
        }
    }
}

// ================================================================== lexing

const R: usize = 8;

/// `String.toNat?`: decimal digits only; `None` also when it does not fit a `usize`
fn p_nat(s: &str) -> Option<usize> {
    if s.is_empty() || !s.bytes().all(|c| c.is_ascii_digit()) {
        return None;
    }
    s.parse::<usize>().ok()
}

/// a register number: any decimal numeral (out-of-range values are detected at the step)
fn p_reg(s: &str) -> Option<usize> {
    if s.is_empty() || !s.bytes().all(|c| c.is_ascii_digit()) {
        return None;
    }
    Some(s.parse::<usize>().unwrap_or(usize::MAX))
}

fn p_word(s: &str) -> Option<Word> {
    if s.is_empty() {
        return None;
    }
    let mut w: Word = 0;
    for c in s.bytes() {
        let d = match c {
            b'0'..=b'9' => c - b'0',
            b'a'..=b'f' => c - b'a' + 10,
            b'A'..=b'F' => c - b'A' + 10,
            _ => return None,
        };
        if w >> (Word::BITS - 4) != 0 {
            return None;
        }
        w = (w << 4) | d as Word;
    }
    Some(w)
}

fn p_ws(s: &str) -> Option<Vec<Word>> {
    if s == "-" {
        return Some(vec![]);
    }
    s.split(',').map(p_word).collect()
}

fn ws_str(ws: &[Word]) -> String {
    if ws.is_empty() {
        return "-".to_string();
    }
    let v: Vec<String> = ws.iter().map(|w| format!("{:x}", w)).collect();
    v.join(",")
}

// ================================================================== mem.buf

enum Reg {
    Empty,
    Buf(BufferHandle),
    Val(IBig),
    /// `&'static IBig` backed by a `static` word array (`from_static_words`, ≥ 3 words): read only,
    /// never dropped
    Stat(&'static IBig),
}

/// everything leaked on purpose for `static:` registers stays reachable from here (so that Miri's
/// leak check does not count it)
static KEEP_WORDS: std::sync::Mutex<Vec<&'static [Word]>> = std::sync::Mutex::new(Vec::new());
static KEEP_VALS: std::sync::Mutex<Vec<&'static IBig>> = std::sync::Mutex::new(Vec::new());

enum BOp {
    Alloc(usize, usize),
    AllocX(usize, usize),
    FromW(usize, Vec<Word>),
    Word(usize, Word),
    DWord(usize, Word, Word),
    Ones(usize, usize),
    BClone(usize, usize),
    RClone(usize, usize),
    Ensure(usize, usize),
    EnsureX(usize, usize),
    Shrink(usize),
    Push(usize, Word),
    PushR(usize, Word),
    Zeros(usize, usize),
    ZerosF(usize, usize),
    PushS(usize, Vec<Word>),
    PushSF(usize, usize),
    PopZ(usize),
    Trunc(usize, usize),
    Erase(usize, usize),
    Deref(usize),
    Cfs(usize, Vec<Word>),
    CfsF(usize, usize),
    BCloneFrom(usize, usize),
    Boxed(usize),
    ToU(usize),
    ToB(usize),
    RCloneFrom(usize, usize),
    Sign(usize, bool),
    Neg(usize),
    AsSlice(usize),
    Drop(usize),
    Static(usize, Vec<Word>, bool),
    BView(usize, usize),
    PushT(usize, usize, usize),
    Over(usize, Vec<Word>),
    Ist(usize),
}

fn p_bit(s: &str) -> Option<bool> {
    match s {
        "1" => Some(true),
        "0" => Some(false),
        _ => None,
    }
}

fn parse_bop(tok: &str) -> Option<BOp> {
    let p: Vec<&str> = tok.split(':').collect();
    Some(match p.as_slice() {
        ["alloc", k, n] => BOp::Alloc(p_reg(k)?, p_nat(n)?),
        ["allocx", k, c] => BOp::AllocX(p_reg(k)?, p_nat(c)?),
        ["fromw", k, ws] => BOp::FromW(p_reg(k)?, p_ws(ws)?),
        ["word", k, w] => BOp::Word(p_reg(k)?, p_word(w)?),
        ["dword", k, lo, hi] => BOp::DWord(p_reg(k)?, p_word(lo)?, p_word(hi)?),
        ["ones", k, n] => BOp::Ones(p_reg(k)?, p_nat(n)?),
        ["bclone", k, j] => BOp::BClone(p_reg(k)?, p_reg(j)?),
        ["rclone", k, j] => BOp::RClone(p_reg(k)?, p_reg(j)?),
        ["ensure", k, n] => BOp::Ensure(p_reg(k)?, p_nat(n)?),
        ["ensurex", k, c] => BOp::EnsureX(p_reg(k)?, p_nat(c)?),
        ["shrink", k] => BOp::Shrink(p_reg(k)?),
        ["push", k, w] => BOp::Push(p_reg(k)?, p_word(w)?),
        ["pushr", k, w] => BOp::PushR(p_reg(k)?, p_word(w)?),
        ["zeros", k, n] => BOp::Zeros(p_reg(k)?, p_nat(n)?),
        ["zerosf", k, n] => BOp::ZerosF(p_reg(k)?, p_nat(n)?),
        ["pushs", k, ws] => BOp::PushS(p_reg(k)?, p_ws(ws)?),
        ["pushsf", k, j] => BOp::PushSF(p_reg(k)?, p_reg(j)?),
        ["popz", k] => BOp::PopZ(p_reg(k)?),
        ["trunc", k, n] => BOp::Trunc(p_reg(k)?, p_nat(n)?),
        ["erase", k, n] => BOp::Erase(p_reg(k)?, p_nat(n)?),
        ["deref", k] => BOp::Deref(p_reg(k)?),
        ["cfs", k, ws] => BOp::Cfs(p_reg(k)?, p_ws(ws)?),
        ["cfsf", k, j] => BOp::CfsF(p_reg(k)?, p_reg(j)?),
        ["bclonefrom", k, j] => BOp::BCloneFrom(p_reg(k)?, p_reg(j)?),
        ["boxed", k] => BOp::Boxed(p_reg(k)?),
        ["tou", k] => BOp::ToU(p_reg(k)?),
        ["tob", k] => BOp::ToB(p_reg(k)?),
        ["rclonefrom", k, j] => BOp::RCloneFrom(p_reg(k)?, p_reg(j)?),
        ["sign", k, s] => BOp::Sign(
            p_reg(k)?,
            match *s {
                "1" => true,
                "0" => false,
                _ => return None,
            },
        ),
        ["neg", k] => BOp::Neg(p_reg(k)?),
        ["asslice", k] => BOp::AsSlice(p_reg(k)?),
        ["drop", k] => BOp::Drop(p_reg(k)?),
        ["static", k, ws, s] => BOp::Static(p_reg(k)?, p_ws(ws)?, p_bit(s)?),
        ["bview", k, j] => BOp::BView(p_reg(k)?, p_reg(j)?),
        ["pusht", k, j, lo] => BOp::PushT(p_reg(k)?, p_reg(j)?, p_nat(lo)?),
        ["over", k, ws] => BOp::Over(p_reg(k)?, p_ws(ws)?),
        ["ist", k] => BOp::Ist(p_reg(k)?),
        _ => return None,
    })
}

impl BOp {
    /// (target, second register if any)
    fn regs(&self) -> (usize, Option<usize>) {
        use BOp::*;
        match *self {
            BClone(k, j) | RClone(k, j) | PushSF(k, j) | CfsF(k, j) | BCloneFrom(k, j)
            | RCloneFrom(k, j) | BView(k, j) | PushT(k, j, _) => (k, Some(j)),
            Alloc(k, _) | AllocX(k, _) | FromW(k, _) | Word(k, _) | DWord(k, _, _) | Ones(k, _)
            | Ensure(k, _) | EnsureX(k, _) | Shrink(k) | Push(k, _) | PushR(k, _) | Zeros(k, _)
            | ZerosF(k, _) | PushS(k, _) | PopZ(k) | Trunc(k, _) | Erase(k, _) | Deref(k)
            | Cfs(k, _) | Boxed(k) | ToU(k) | ToB(k) | Sign(k, _) | Neg(k) | AsSlice(k)
            | Drop(k) | Static(k, _, _) | Over(k, _) | Ist(k) => (k, None),
        }
    }
}

fn slot_str(r: &Reg) -> String {
    match r {
        Reg::Empty => "e".to_string(),
        Reg::Buf(b) => format!("b{}/{}/{}", b.len(), b.capacity(), ws_str(b.words())),
        Reg::Val(v) => {
            let (cap, len) = ibig_repr_info(v);
            format!("r{}/{}/{}", cap, len, ws_str(v.as_sign_words().1))
        }
        Reg::Stat(v) => {
            let (cap, len) = ibig_repr_info(v);
            format!("s{}/{}/{}", cap, len, ws_str(v.as_sign_words().1))
        }
    }
}

/// the words a register exposes to a borrower
fn view(r: &Reg) -> Option<&[Word]> {
    match r {
        Reg::Empty => None,
        Reg::Buf(b) => Some(b.words()),
        Reg::Val(v) => Some(v.as_sign_words().1),
        Reg::Stat(v) => Some(v.as_sign_words().1),
    }
}

fn is_empty(r: &Reg) -> bool {
    matches!(r, Reg::Empty)
}
fn is_buf(r: &Reg) -> bool {
    matches!(r, Reg::Buf(_))
}
fn is_val(r: &Reg) -> bool {
    matches!(r, Reg::Val(_))
}
fn is_stat(r: &Reg) -> bool {
    matches!(r, Reg::Stat(_))
}

fn take_buf(regs: &mut [Reg; R], k: usize) -> Option<BufferHandle> {
    if !is_buf(&regs[k]) {
        return None;
    }
    match std::mem::replace(&mut regs[k], Reg::Empty) {
        Reg::Buf(b) => Some(b),
        _ => None,
    }
}

fn take_val(regs: &mut [Reg; R], k: usize) -> Option<IBig> {
    if !is_val(&regs[k]) {
        return None;
    }
    match std::mem::replace(&mut regs[k], Reg::Empty) {
        Reg::Val(v) => Some(v),
        _ => None,
    }
}

type Outcome = Result<(), (String, String)>;

/// constructor into the empty register k
fn create(regs: &mut [Reg; R], k: usize, f: impl FnOnce() -> Reg) -> Option<Outcome> {
    if !is_empty(&regs[k]) {
        return None;
    }
    Some(guarded(f).map(|r| regs[k] = r))
}

/// `&mut Buffer` operation on register k: the buffer is back in the register also after a panic
fn on_buf(regs: &mut [Reg; R], k: usize, f: impl FnOnce(&mut BufferHandle)) -> Option<Outcome> {
    let mut b = take_buf(regs, k)?;
    let r = guarded(|| f(&mut b));
    regs[k] = Reg::Buf(b);
    Some(r)
}

/// `&mut Buffer` operation on register k reading the words of register j (k ≠ j)
fn on_buf_from(
    regs: &mut [Reg; R],
    k: usize,
    j: usize,
    f: impl FnOnce(&mut BufferHandle, &[Word]),
) -> Option<Outcome> {
    if k == j || !is_buf(&regs[k]) || is_empty(&regs[j]) {
        return None;
    }
    let mut b = take_buf(regs, k)?;
    let r = {
        let src = view(&regs[j])?;
        guarded(|| f(&mut b, src))
    };
    regs[k] = Reg::Buf(b);
    Some(r)
}

/// one step; `None` = ill-typed (not a history)
fn exec_bop(regs: &mut [Reg; R], op: &BOp) -> Option<Outcome> {
    let (k, j) = op.regs();
    if k >= R || j.map_or(false, |j| j >= R) {
        return None;
    }
    match op {
        BOp::Alloc(_, n) => create(regs, k, || Reg::Buf(BufferHandle::allocate(*n))),
        BOp::AllocX(_, c) => create(regs, k, || Reg::Buf(BufferHandle::allocate_exact(*c))),
        BOp::FromW(_, ws) => create(regs, k, || Reg::Buf(BufferHandle::from_words(ws))),
        BOp::Word(_, w) => create(regs, k, || Reg::Val(IBig::from(UBig::from_word(*w)))),
        BOp::DWord(_, lo, hi) => {
            let dw: DoubleWord = (*lo as DoubleWord) | ((*hi as DoubleWord) << Word::BITS);
            create(regs, k, || Reg::Val(IBig::from(UBig::from_dword(dw))))
        }
        BOp::Ones(_, n) => create(regs, k, || Reg::Val(IBig::from(UBig::ones(*n)))),
        BOp::BClone(_, j) => {
            if k == *j || !is_empty(&regs[k]) {
                return None;
            }
            let r = match &regs[*j] {
                Reg::Buf(src) => guarded(|| src.clone_buffer()),
                _ => return None,
            };
            Some(r.map(|b| regs[k] = Reg::Buf(b)))
        }
        BOp::RClone(_, j) => {
            if k == *j || !is_empty(&regs[k]) {
                return None;
            }
            let r = match &regs[*j] {
                Reg::Val(src) => guarded(|| src.clone()),
                Reg::Stat(src) => guarded(|| (*src).clone()),
                _ => return None,
            };
            Some(r.map(|v| regs[k] = Reg::Val(v)))
        }
        BOp::Ensure(_, n) => on_buf(regs, k, |b| b.ensure_capacity(*n)),
        BOp::EnsureX(_, c) => on_buf(regs, k, |b| b.ensure_capacity_exact(*c)),
        BOp::Shrink(_) => on_buf(regs, k, |b| b.shrink_to_fit()),
        BOp::Push(_, w) => on_buf(regs, k, |b| b.push(*w)),
        BOp::PushR(_, w) => on_buf(regs, k, |b| b.push_resizing(*w)),
        BOp::Zeros(_, n) => on_buf(regs, k, |b| b.push_zeros(*n)),
        BOp::ZerosF(_, n) => on_buf(regs, k, |b| b.push_zeros_front(*n)),
        BOp::PushS(_, ws) => on_buf(regs, k, |b| b.push_slice(ws)),
        BOp::PushSF(_, j) => on_buf_from(regs, k, *j, |b, src| b.push_slice(src)),
        BOp::PopZ(_) => on_buf(regs, k, |b| b.pop_zeros()),
        BOp::Trunc(_, n) => on_buf(regs, k, |b| b.truncate(*n)),
        BOp::Erase(_, n) => on_buf(regs, k, |b| b.erase_front(*n)),
        BOp::Deref(_) => on_buf(regs, k, |b| {
            black_box(b.words());
        }),
        BOp::Cfs(_, ws) => on_buf(regs, k, |b| b.clone_from_slice(ws)),
        BOp::CfsF(_, j) => on_buf_from(regs, k, *j, |b, src| b.clone_from_slice(src)),
        BOp::BCloneFrom(_, j) => {
            if k == *j || !is_buf(&regs[k]) || !is_buf(&regs[*j]) {
                return None;
            }
            let mut b = take_buf(regs, k)?;
            let r = match &regs[*j] {
                Reg::Buf(src) => guarded(|| b.clone_from_buffer(src)),
                _ => unreachable!(),
            };
            regs[k] = Reg::Buf(b);
            Some(r)
        }
        BOp::Boxed(_) => {
            let b = take_buf(regs, k)?;
            Some(guarded(move || {
                let bx = b.into_boxed_slice();
                drop(bx);
            }))
        }
        BOp::ToU(_) => {
            let b = take_buf(regs, k)?;
            Some(guarded(move || IBig::from(b.into_ubig())).map(|v| regs[k] = Reg::Val(v)))
        }
        BOp::ToB(_) => {
            // `BufferHandle::from_ubig` takes a `UBig`: a negative value cannot be passed at all
            match &regs[k] {
                Reg::Val(v) if v.sign() == Sign::Positive => {}
                _ => return None,
            }
            let v = take_val(regs, k)?;
            Some(
                guarded(move || BufferHandle::from_ubig(UBig::try_from(v).unwrap()))
                    .map(|b| regs[k] = Reg::Buf(b)),
            )
        }
        BOp::RCloneFrom(_, j) => {
            if k == *j || !is_val(&regs[k]) || !(is_val(&regs[*j]) || is_stat(&regs[*j])) {
                return None;
            }
            let mut v = take_val(regs, k)?;
            let r = match &regs[*j] {
                Reg::Val(src) => guarded(|| v.clone_from(src)),
                Reg::Stat(src) => guarded(|| v.clone_from(*src)),
                _ => unreachable!(),
            };
            regs[k] = Reg::Val(v);
            Some(r)
        }
        BOp::Sign(_, neg) => {
            let v = take_val(regs, k)?;
            let sign = if *neg { Sign::Negative } else { Sign::Positive };
            Some(
                guarded(move || {
                    let (_, m) = v.into_parts();
                    IBig::from_parts(sign, m)
                })
                .map(|v| regs[k] = Reg::Val(v)),
            )
        }
        BOp::Neg(_) => {
            let v = take_val(regs, k)?;
            Some(guarded(move || -v).map(|v| regs[k] = Reg::Val(v)))
        }
        BOp::AsSlice(_) => match &regs[k] {
            Reg::Val(v) => Some(guarded(|| {
                black_box(v.as_sign_words());
            })),
            Reg::Stat(v) => Some(guarded(|| {
                black_box(v.as_sign_words());
            })),
            _ => None,
        },
        BOp::Drop(_) => {
            // a `Stat` register holds a reference: dropping it does nothing
            let r = std::mem::replace(&mut regs[k], Reg::Empty);
            Some(guarded(move || drop(r)))
        }
        BOp::Static(_, ws, neg) => {
            if !is_empty(&regs[k]) {
                return None;
            }
            // the `static DATA: [Word; N]` of the macros: leaked outside recording
            let data: &'static [Word] = Box::leak(ws.clone().into_boxed_slice());
            KEEP_WORDS.lock().unwrap().push(data);
            let sign = if *neg { Sign::Negative } else { Sign::Positive };
            // SAFETY (of the harness): a non-inline result is only ever kept behind `&'static` and
            // never dropped or mutated; the requirements on `data` are what the asserts check
            let r = guarded(|| unsafe { IBig::from_static_words(sign, data) });
            Some(r.map(|v| {
                let (cap, _) = ibig_repr_info(&v);
                if cap.unsigned_abs() <= 2 {
                    regs[k] = Reg::Val(v);
                } else {
                    let sv: &'static IBig = Box::leak(Box::new(v));
                    KEEP_VALS.lock().unwrap().push(sv);
                    regs[k] = Reg::Stat(sv);
                }
            }))
        }
        BOp::BView(_, j) => {
            if k == *j || !is_empty(&regs[k]) {
                return None;
            }
            let r = {
                let src = view(&regs[*j])?;
                guarded(|| BufferHandle::from_words(src))
            };
            Some(r.map(|b| regs[k] = Reg::Buf(b)))
        }
        BOp::PushT(_, j, lo) => {
            if k == *j || !is_buf(&regs[k]) {
                return None;
            }
            let n = view(&regs[*j])?.len();
            if *lo > n {
                // `&words[lo..]` is a slice-index panic before any storage call
                return Some(Err((
                    "slice index starts past the end (harness)".to_string(),
                    "integer/src/buffer.rs:0".to_string(),
                )));
            }
            on_buf_from(regs, k, *j, |b, src| b.push_slice(&src[*lo..]))
        }
        BOp::Over(_, ws) => {
            match &regs[k] {
                Reg::Buf(b) if b.len() == ws.len() => {}
                _ => return None,
            }
            // a kernel writing through `&mut buffer[..]`: the direct-copy branch of clone_from_slice
            on_buf(regs, k, |b| b.clone_from_slice(ws))
        }
        BOp::Ist(_) => {
            let v = take_val(regs, k)?;
            Some(
                guarded(move || {
                    let (_s, m) = v.into_parts();
                    let (cap, _) = ubig_repr_info(&m);
                    if cap.unsigned_abs() <= 2 {
                        Reg::Val(IBig::from(m))
                    } else {
                        Reg::Buf(BufferHandle::from_ubig(m))
                    }
                })
                .map(|r| regs[k] = r),
            )
        }
    }
}

/// canonical token of a panic at buffer level: every `assert!`/`debug_assert!` of buffer.rs / repr.rs
/// is `assert`
fn buf_panic_tag(msg: &str, loc: &str) -> String {
    let c = classify_panic(msg, loc);
    if c == "AllocTooMuch" {
        c
    } else if loc.contains("integer/src/buffer.rs") || loc.contains("integer/src/repr.rs") {
        "assert".to_string()
    } else {
        c
    }
}

fn empty_regs() -> [Reg; R] {
    [
        Reg::Empty,
        Reg::Empty,
        Reg::Empty,
        Reg::Empty,
        Reg::Empty,
        Reg::Empty,
        Reg::Empty,
        Reg::Empty,
    ]
}

pub fn buf_history(toks: &[&str]) -> Res {
    // parse everything first (the driver does: an unparsable token makes the whole op `bad-op`)
    let mut ops = Vec::with_capacity(toks.len());
    for t in toks {
        match parse_bop(t) {
            Some(op) => ops.push(op),
            None => return Err("bad-op mem.buf".to_string()),
        }
    }
    let mut out: Vec<String> = Vec::with_capacity(ops.len() + 1);
    let mut regs = empty_regs();
    hist_begin(true);
    let mut bad = false;
    for op in &ops {
        match exec_bop(&mut regs, op) {
            None => {
                bad = true;
                break;
            }
            Some(Ok(())) => {
                let ev = drain_events();
                out.push(format!("{}|{}", slot_str(&regs[op.regs().0]), ev));
            }
            Some(Err((msg, loc))) => {
                let ev = drain_events();
                out.push(format!("!{}|{}", buf_panic_tag(&msg, &loc), ev));
                break;
            }
        }
    }
    if bad {
        drop(regs);
        hist_end();
        return Err("bad-history".to_string());
    }
    // drop every register, in order
    let fin = guarded(|| {
        for k in 0..R {
            let r = std::mem::replace(&mut regs[k], Reg::Empty);
            drop(r);
        }
    });
    let ev = drain_events();
    let (live, dfree, overflow) = counters();
    hist_end();
    let mut tail = format!("end:{}:live={}:dfree={}", ev, live, dfree);
    if let Err((msg, loc)) = fin {
        tail.push_str(&format!(":!{}", buf_panic_tag(&msg, &loc)));
    }
    if overflow {
        tail.push_str(":!log-overflow");
    }
    out.push(tail);
    Ok(out.join(" "))
}

// ================================================================== mem.val

#[derive(Clone, Copy, PartialEq)]
enum Ar {
    Add,
    Sub,
    Mul,
    Div,
    Rem,
    Gcd,
}

enum VOp {
    Bad,
    Set(usize, String),
    Clone(usize, usize),
    CloneFrom(usize, usize),
    Bin(Ar, usize, usize, usize),
    BinM(Ar, usize, usize, usize),
    BinA(Ar, usize, usize),
    SelfOp(Ar, usize),
    SelfAddV(usize),
    Sqr(usize, usize),
    Pow(usize, usize, usize),
    Shl(usize, usize),
    Shr(usize, usize),
    Neg(usize),
    Abs(usize),
    Ones(usize, usize),
    Words(usize),
    Bytes(usize),
    BytesBe(usize),
    Parts(usize),
    Take(usize, usize),
    Swap(usize, usize),
    Drop(usize),
    SClone(usize, usize),
    SAdd(usize, usize),
    SMul(usize, usize),
}

// values backed by `static` word arrays (what the static_ubig!/ubig! macros generate): they are
// never dropped or mutated, only read through shared references
static SW0: [Word; 1] = [7];
static SW1: [Word; 2] = [5, 9];
static SW2: [Word; 3] = [1, 2, 3];
static SW3: [Word; 5] = [Word::MAX, 0, 0, 0, 1];
// SAFETY: top words are non-zero; the statics are never dropped
static S0: UBig = unsafe { UBig::from_static_words(&SW0) };
static S1: UBig = unsafe { UBig::from_static_words(&SW1) };
static S2: UBig = unsafe { UBig::from_static_words(&SW2) };
static S3: UBig = unsafe { UBig::from_static_words(&SW3) };

fn static_val(i: usize) -> Option<&'static UBig> {
    match i {
        0 => Some(&S0),
        1 => Some(&S1),
        2 => Some(&S2),
        3 => Some(&S3),
        _ => None,
    }
}

fn valid_hexint(s: &str) -> bool {
    let body = s.strip_prefix('-').unwrap_or(s);
    hex_to_words(body).is_some()
}

fn parse_vop(tok: &str) -> VOp {
    fn go(tok: &str) -> Option<VOp> {
        let p: Vec<&str> = tok.split(':').collect();
        Some(match p.as_slice() {
            ["set", k, v] => {
                if !valid_hexint(v) {
                    return None;
                }
                VOp::Set(p_reg(k)?, v.to_string())
            }
            ["clone", k, a] => VOp::Clone(p_reg(k)?, p_reg(a)?),
            ["clonefrom", k, a] => VOp::CloneFrom(p_reg(k)?, p_reg(a)?),
            ["add", k, a, b] => VOp::Bin(Ar::Add, p_reg(k)?, p_reg(a)?, p_reg(b)?),
            ["sub", k, a, b] => VOp::Bin(Ar::Sub, p_reg(k)?, p_reg(a)?, p_reg(b)?),
            ["mul", k, a, b] => VOp::Bin(Ar::Mul, p_reg(k)?, p_reg(a)?, p_reg(b)?),
            ["div", k, a, b] => VOp::Bin(Ar::Div, p_reg(k)?, p_reg(a)?, p_reg(b)?),
            ["rem", k, a, b] => VOp::Bin(Ar::Rem, p_reg(k)?, p_reg(a)?, p_reg(b)?),
            ["gcd", k, a, b] => VOp::Bin(Ar::Gcd, p_reg(k)?, p_reg(a)?, p_reg(b)?),
            ["addm", k, a, b] => VOp::BinM(Ar::Add, p_reg(k)?, p_reg(a)?, p_reg(b)?),
            ["subm", k, a, b] => VOp::BinM(Ar::Sub, p_reg(k)?, p_reg(a)?, p_reg(b)?),
            ["mulm", k, a, b] => VOp::BinM(Ar::Mul, p_reg(k)?, p_reg(a)?, p_reg(b)?),
            ["divm", k, a, b] => VOp::BinM(Ar::Div, p_reg(k)?, p_reg(a)?, p_reg(b)?),
            ["remm", k, a, b] => VOp::BinM(Ar::Rem, p_reg(k)?, p_reg(a)?, p_reg(b)?),
            ["adda", k, a] => VOp::BinA(Ar::Add, p_reg(k)?, p_reg(a)?),
            ["suba", k, a] => VOp::BinA(Ar::Sub, p_reg(k)?, p_reg(a)?),
            ["mula", k, a] => VOp::BinA(Ar::Mul, p_reg(k)?, p_reg(a)?),
            ["selfadd", k] => VOp::SelfOp(Ar::Add, p_reg(k)?),
            ["selfsub", k] => VOp::SelfOp(Ar::Sub, p_reg(k)?),
            ["selfmul", k] => VOp::SelfOp(Ar::Mul, p_reg(k)?),
            ["selfaddv", k] => VOp::SelfAddV(p_reg(k)?),
            ["sqr", k, a] => VOp::Sqr(p_reg(k)?, p_reg(a)?),
            ["pow", k, a, n] => VOp::Pow(p_reg(k)?, p_reg(a)?, p_nat(n)?),
            ["shl", k, n] => VOp::Shl(p_reg(k)?, p_nat(n)?),
            ["shr", k, n] => VOp::Shr(p_reg(k)?, p_nat(n)?),
            ["neg", k] => VOp::Neg(p_reg(k)?),
            ["abs", k] => VOp::Abs(p_reg(k)?),
            ["ones", k, n] => VOp::Ones(p_reg(k)?, p_nat(n)?),
            ["words", k] => VOp::Words(p_reg(k)?),
            ["bytes", k] => VOp::Bytes(p_reg(k)?),
            ["bytesbe", k] => VOp::BytesBe(p_reg(k)?),
            ["parts", k] => VOp::Parts(p_reg(k)?),
            ["take", k, a] => VOp::Take(p_reg(k)?, p_reg(a)?),
            ["swap", k, a] => VOp::Swap(p_reg(k)?, p_reg(a)?),
            ["drop", k] => VOp::Drop(p_reg(k)?),
            ["sclone", k, i] => VOp::SClone(p_reg(k)?, p_nat(i)?),
            ["sadd", k, i] => VOp::SAdd(p_reg(k)?, p_nat(i)?),
            ["smul", k, i] => VOp::SMul(p_reg(k)?, p_nat(i)?),
            _ => return None,
        })
    }
    go(tok).unwrap_or(VOp::Bad)
}

type VRegs = [Option<IBig>; R];

fn has(regs: &VRegs, k: usize) -> bool {
    k < R && regs[k].is_some()
}

/// layout invariants of a `Repr` seen through the hooks; `None` = all hold
fn layout_violation(x: &IBig) -> Option<&'static str> {
    let (cap, len) = ibig_repr_info(x);
    let a = cap.unsigned_abs();
    let ws = x.as_sign_words().1;
    if a == 0 {
        return Some("cap0");
    }
    if ws.len() != len {
        return Some("len-mismatch");
    }
    if len <= 2 && a > 2 {
        return Some("heap-short");
    }
    if a == 1 && len > 1 {
        return Some("inline1-len");
    }
    if a == 2 {
        if len != 2 {
            return Some("inline2-len");
        }
        if ws[1] == 0 {
            return Some("lead0");
        }
    }
    if a >= 3 {
        if len < 3 {
            return Some("heap-short");
        }
        if ws[len - 1] == 0 {
            return Some("lead0");
        }
        if len > a {
            return Some("len>cap");
        }
        if a > BUFFER_MAX_CAPACITY {
            return Some("cap>max");
        }
        if a > buffer_max_compact_capacity(len) {
            return Some("not-compact");
        }
    }
    if len == 0 && cap < 0 {
        return Some("negzero");
    }
    None
}

fn inv_str(regs: &VRegs, shown: usize) -> String {
    if let Some(x) = &regs[shown] {
        if let Some(r) = layout_violation(x) {
            return format!("BAD:{}", r);
        }
    }
    for (j, r) in regs.iter().enumerate() {
        if j == shown {
            continue;
        }
        if let Some(x) = r {
            if let Some(r) = layout_violation(x) {
                return format!("BAD:r{}:{}", j, r);
            }
        }
    }
    "ok".to_string()
}

fn arith_rr(ar: Ar, x: &IBig, y: &IBig) -> IBig {
    match ar {
        Ar::Add => x + y,
        Ar::Sub => x - y,
        Ar::Mul => x * y,
        Ar::Div => x / y,
        Ar::Rem => x % y,
        Ar::Gcd => IBig::from(x.gcd(y)),
    }
}

enum VStep {
    Bad,
    Shown(usize),
    Empty,
    Panic(String),
}

fn exec_vop(regs: &mut VRegs, op: &VOp) -> VStep {
    // every library call of the step (including the drop of the value that is overwritten) runs
    // inside `guarded`
    macro_rules! run {
        ($k:expr, $body:expr) => {{
            match guarded(|| $body) {
                Ok(()) => VStep::Shown($k),
                Err((msg, loc)) => VStep::Panic(classify_panic(&msg, &loc)),
            }
        }};
    }
    match op {
        VOp::Bad => VStep::Bad,
        VOp::Set(k, s) => {
            let k = *k;
            if k >= R {
                return VStep::Bad;
            }
            run!(k, {
                regs[k] = Some(p_ibig(s).unwrap());
            })
        }
        VOp::Clone(k, a) => {
            let (k, a) = (*k, *a);
            if k >= R || !has(regs, a) {
                return VStep::Bad;
            }
            run!(k, {
                let v = regs[a].as_ref().unwrap().clone();
                regs[k] = Some(v);
            })
        }
        VOp::CloneFrom(k, a) => {
            let (k, a) = (*k, *a);
            if k >= R || a >= R || k == a || !has(regs, k) || !has(regs, a) {
                return VStep::Bad;
            }
            let mut x = regs[k].take();
            let r = {
                let src = regs[a].as_ref().unwrap();
                guarded(|| x.as_mut().unwrap().clone_from(src))
            };
            regs[k] = x;
            match r {
                Ok(()) => VStep::Shown(k),
                Err((msg, loc)) => VStep::Panic(classify_panic(&msg, &loc)),
            }
        }
        VOp::Bin(ar, k, a, b) => {
            let (ar, k, a, b) = (*ar, *k, *a, *b);
            if k >= R || !has(regs, a) || !has(regs, b) {
                return VStep::Bad;
            }
            run!(k, {
                let v = arith_rr(ar, regs[a].as_ref().unwrap(), regs[b].as_ref().unwrap());
                regs[k] = Some(v);
            })
        }
        VOp::BinM(ar, k, a, b) => {
            let (ar, k, a, b) = (*ar, *k, *a, *b);
            if k >= R || a >= R || b >= R || a == b || !has(regs, a) || !has(regs, b) {
                return VStep::Bad;
            }
            let x = regs[a].take().unwrap();
            run!(k, {
                let y = regs[b].as_ref().unwrap();
                let v = match ar {
                    Ar::Add => x + y,
                    Ar::Sub => x - y,
                    Ar::Div => x / y,
                    Ar::Rem => x % y,
                    _ => x * y,
                };
                regs[k] = Some(v);
            })
        }
        VOp::BinA(ar, k, a) => {
            let (ar, k, a) = (*ar, *k, *a);
            if k >= R || a >= R || k == a || !has(regs, k) || !has(regs, a) {
                return VStep::Bad;
            }
            let mut x = regs[k].take();
            let r = {
                let y = regs[a].as_ref().unwrap();
                guarded(|| {
                    let x = x.as_mut().unwrap();
                    match ar {
                        Ar::Add => *x += y,
                        Ar::Sub => *x -= y,
                        _ => *x *= y,
                    }
                })
            };
            regs[k] = x;
            match r {
                Ok(()) => VStep::Shown(k),
                Err((msg, loc)) => VStep::Panic(classify_panic(&msg, &loc)),
            }
        }
        VOp::SelfOp(ar, k) => {
            let (ar, k) = (*ar, *k);
            if !has(regs, k) {
                return VStep::Bad;
            }
            run!(k, {
                let x = regs[k].as_mut().unwrap();
                let c = x.clone();
                match ar {
                    Ar::Add => *x += &c,
                    Ar::Sub => *x -= &c,
                    _ => *x *= &c,
                }
            })
        }
        VOp::SelfAddV(k) => {
            let k = *k;
            if !has(regs, k) {
                return VStep::Bad;
            }
            run!(k, {
                let x = regs[k].as_mut().unwrap();
                let c = x.clone();
                *x += c;
            })
        }
        VOp::Sqr(k, a) => {
            let (k, a) = (*k, *a);
            if k >= R || !has(regs, a) {
                return VStep::Bad;
            }
            run!(k, {
                let x = regs[a].as_ref().unwrap();
                let v = x * x;
                regs[k] = Some(v);
            })
        }
        VOp::Pow(k, a, n) => {
            let (k, a, n) = (*k, *a, *n);
            if k >= R || !has(regs, a) {
                return VStep::Bad;
            }
            run!(k, {
                let v = regs[a].as_ref().unwrap().pow(n);
                regs[k] = Some(v);
            })
        }
        VOp::Shl(k, n) => {
            let (k, n) = (*k, *n);
            if !has(regs, k) {
                return VStep::Bad;
            }
            run!(k, {
                *regs[k].as_mut().unwrap() <<= n;
            })
        }
        VOp::Shr(k, n) => {
            let (k, n) = (*k, *n);
            if !has(regs, k) {
                return VStep::Bad;
            }
            run!(k, {
                *regs[k].as_mut().unwrap() >>= n;
            })
        }
        VOp::Neg(k) => {
            let k = *k;
            if !has(regs, k) {
                return VStep::Bad;
            }
            let x = regs[k].take().unwrap();
            run!(k, {
                regs[k] = Some(-x);
            })
        }
        VOp::Abs(k) => {
            let k = *k;
            if !has(regs, k) {
                return VStep::Bad;
            }
            let x = regs[k].take().unwrap();
            run!(k, {
                regs[k] = Some(x.abs());
            })
        }
        VOp::Ones(k, n) => {
            let (k, n) = (*k, *n);
            if k >= R {
                return VStep::Bad;
            }
            run!(k, {
                regs[k] = Some(IBig::from(UBig::ones(n)));
            })
        }
        VOp::Words(k) => {
            let k = *k;
            if !has(regs, k) {
                return VStep::Bad;
            }
            let x = regs[k].take().unwrap();
            run!(k, {
                let (s, m) = x.into_parts();
                regs[k] = Some(IBig::from_parts(s, UBig::from_words(m.as_words())));
            })
        }
        VOp::Bytes(k) => {
            let k = *k;
            if !has(regs, k) {
                return VStep::Bad;
            }
            let x = regs[k].take().unwrap();
            run!(k, {
                let (s, m) = x.into_parts();
                let bs = m.to_le_bytes();
                regs[k] = Some(IBig::from_parts(s, UBig::from_le_bytes(&bs)));
            })
        }
        VOp::BytesBe(k) => {
            let k = *k;
            if !has(regs, k) {
                return VStep::Bad;
            }
            let x = regs[k].take().unwrap();
            run!(k, {
                let (s, m) = x.into_parts();
                let bs = m.to_be_bytes();
                regs[k] = Some(IBig::from_parts(s, UBig::from_be_bytes(&bs)));
            })
        }
        VOp::Parts(k) => {
            let k = *k;
            if !has(regs, k) {
                return VStep::Bad;
            }
            let x = regs[k].take().unwrap();
            run!(k, {
                let (s, m) = x.into_parts();
                regs[k] = Some(IBig::from_parts(s, m));
            })
        }
        VOp::Take(k, a) => {
            let (k, a) = (*k, *a);
            if k >= R || a >= R || k == a || !has(regs, a) {
                return VStep::Bad;
            }
            run!(k, {
                let v = std::mem::take(regs[a].as_mut().unwrap());
                regs[k] = Some(v);
            })
        }
        VOp::Swap(k, a) => {
            let (k, a) = (*k, *a);
            if k >= R || a >= R || k == a || !has(regs, k) || !has(regs, a) {
                return VStep::Bad;
            }
            run!(k, {
                let (lo, hi) = regs.split_at_mut(k.max(a));
                std::mem::swap(lo[k.min(a)].as_mut().unwrap(), hi[0].as_mut().unwrap());
            })
        }
        VOp::SClone(k, i) => {
            let k = *k;
            let sv = match static_val(*i) {
                Some(v) if k < R => v,
                _ => return VStep::Bad,
            };
            run!(k, {
                regs[k] = Some(IBig::from(sv.clone()));
            })
        }
        VOp::SAdd(k, i) | VOp::SMul(k, i) => {
            let k = *k;
            let sv = match static_val(*i) {
                Some(v) if has(regs, k) => v,
                _ => return VStep::Bad,
            };
            let mul = matches!(op, VOp::SMul(..));
            run!(k, {
                let x = regs[k].take().unwrap();
                regs[k] = Some(if mul { x * sv } else { x + sv });
            })
        }
        VOp::Drop(k) => {
            let k = *k;
            if k >= R {
                return VStep::Bad;
            }
            match guarded(|| {
                regs[k] = None;
            }) {
                Ok(()) => VStep::Empty,
                Err((msg, loc)) => VStep::Panic(classify_panic(&msg, &loc)),
            }
        }
    }
}

pub fn val_history(toks: &[&str]) -> Res {
    let ops: Vec<VOp> = toks.iter().map(|t| parse_vop(t)).collect();
    let mut out: Vec<String> = Vec::with_capacity(ops.len() + 2);
    let mut regs: VRegs = [None, None, None, None, None, None, None, None];
    hist_begin(false);
    for op in &ops {
        match exec_vop(&mut regs, op) {
            VStep::Bad => {
                drop(regs);
                hist_end();
                return Err("bad-history".to_string());
            }
            VStep::Shown(k) => {
                let v = f_ibig(regs[k].as_ref().unwrap());
                out.push(format!("{}/{}", v, inv_str(&regs, k)));
            }
            VStep::Empty => out.push("e".to_string()),
            VStep::Panic(kind) => {
                out.push(format!("!{}", kind));
                break;
            }
        }
    }
    let fin: Vec<String> = regs
        .iter()
        .map(|r| match r {
            Some(v) => f_ibig(v),
            None => "e".to_string(),
        })
        .collect();
    out.push(format!("fin:{}", fin.join(",")));
    let dropped = guarded(|| {
        for k in 0..R {
            regs[k] = None;
        }
    });
    let (live, dfree, overflow) = counters();
    hist_end();
    let mut tail = format!("end:live={}:dfree={}", live, dfree);
    if let Err((msg, loc)) = dropped {
        tail.push_str(&format!(":!{}", classify_panic(&msg, &loc)));
    }
    if overflow {
        tail.push_str(":!table-overflow");
    }
    out.push(tail);
    Ok(out.join(" "))
}

// ================================================================== mem.arith

/// `mem.arith iadd|isub|imul <form> <a> <b>` with signed hex operands: one public `IBig` call
fn signed_case(args: &[&str]) -> Res {
    let bad = || Err("bad-op mem.arith".to_string());
    let (op, form) = (args[0], args[1]);
    if !matches!(form, "rr" | "rv" | "vr" | "vv" | "av" | "ar") {
        return bad();
    }
    let ok_hex = |s: &str| hex_to_words(s.strip_prefix('-').unwrap_or(s)).is_some();
    if !ok_hex(args[2]) || !ok_hex(args[3]) {
        return bad();
    }
    hist_begin(true);
    let built = guarded(|| (p_ibig(args[2]).unwrap(), p_ibig(args[3]).unwrap()));
    clear_log();
    let (a, b) = match built {
        Ok(x) => x,
        Err(_) => {
            hist_end();
            return bad();
        }
    };
    let (mut a, mut b) = (Some(a), Some(b));
    macro_rules! forms {
        ($o:tt, $oa:tt) => {
            match form {
                // `x op= y` / `x op= &y` (impl_binop_assign_by_taking: `*self = mem::take(self) op rhs`)
                "av" => {
                    let mut x = a.take().unwrap();
                    let y = b.take().unwrap();
                    guarded(move || {
                        x $oa y;
                        x
                    })
                }
                "ar" => {
                    let mut x = a.take().unwrap();
                    let y = b.as_ref().unwrap();
                    guarded(move || {
                        x $oa y;
                        x
                    })
                }
                "rr" => {
                    let (x, y) = (a.as_ref().unwrap(), b.as_ref().unwrap());
                    guarded(|| x $o y)
                }
                "rv" => {
                    let x = a.as_ref().unwrap();
                    let y = b.take().unwrap();
                    guarded(move || x $o y)
                }
                "vr" => {
                    let x = a.take().unwrap();
                    let y = b.as_ref().unwrap();
                    guarded(move || x $o y)
                }
                _ => {
                    let x = a.take().unwrap();
                    let y = b.take().unwrap();
                    guarded(move || x $o y)
                }
            }
        };
    }
    let res: Result<IBig, (String, String)> = match op {
        "iadd" => forms!(+, +=),
        "isub" => forms!(-, -=),
        "idiv" => forms!(/, /=),
        "irem" => forms!(%, %=),
        "iand" => forms!(&, &=),
        "ior" => forms!(|, |=),
        "ixor" => forms!(^, ^=),
        _ => forms!(*, *=),
    };
    let ev = drain_events();
    let head = match &res {
        Ok(r) => {
            let (cap, len) = ibig_repr_info(r);
            format!("r{}/{}/{}", cap, len, ws_str(r.as_sign_words().1))
        }
        Err((msg, loc)) => format!("!{}", classify_panic(msg, loc)),
    };
    let _ = guarded(move || {
        drop(res);
        drop(a);
        drop(b);
    });
    let drops = drain_sorted_drops();
    let (live, dfree, _) = counters();
    hist_end();
    Ok(format!("{}|{} end:{}:live={}:dfree={}", head, ev, drops, live, dfree))
}

/// `mem.arith frombytes le|be <hex value> d:<nbytes>`: `UBig::from_le_bytes` / `from_be_bytes` of the value
/// written on exactly `nbytes` bytes (high zero bytes included)
fn frombytes_case(args: &[&str]) -> Res {
    let bad = || Err("bad-op mem.arith".to_string());
    let le = match args[1] {
        "le" => true,
        "be" => false,
        _ => return bad(),
    };
    let words = match hex_to_words(args[2]) {
        Some(w) => w,
        None => return bad(),
    };
    let n = match p_usize(args[3]) {
        Ok(n) => n,
        Err(_) => return bad(),
    };
    let mut bytes: Vec<u8> = words.iter().flat_map(|w| w.to_le_bytes()).collect();
    while bytes.len() > n && bytes.last() == Some(&0) {
        bytes.pop();
    }
    if bytes.len() > n {
        return bad();
    }
    bytes.resize(n, 0);
    if !le {
        bytes.reverse();
    }
    hist_begin(true);
    clear_log();
    let res = guarded(|| if le { UBig::from_le_bytes(&bytes) } else { UBig::from_be_bytes(&bytes) });
    let ev = drain_events();
    let head = match &res {
        Ok(r) => {
            let (cap, len) = ubig_repr_info(r);
            format!("r{}/{}/{}", cap, len, ws_str(r.as_words()))
        }
        Err((msg, loc)) => format!("!{}", classify_panic(msg, loc)),
    };
    let _ = guarded(move || drop(res));
    let drops = drain_sorted_drops();
    let (live, dfree, _) = counters();
    hist_end();
    Ok(format!("{}|{} end:{}:live={}:dfree={}", head, ev, drops, live, dfree))
}

/// one- or two-result heads of `mem.arith`
fn head_ibig(r: &IBig) -> String {
    let (cap, len) = ibig_repr_info(r);
    format!("r{}/{}/{}", cap, len, ws_str(r.as_sign_words().1))
}
fn head_ubig(r: &UBig) -> String {
    let (cap, len) = ubig_repr_info(r);
    format!("r{}/{}/{}", cap, len, ws_str(r.as_words()))
}

/// `mem.arith idivrem <form> <a> <b>` (signed hex operands), `mem.arith ishl|ishr v|r <a> d:<n>`, `mem.arith ipow r <a> d:<n>`,
/// `mem.arith setbit|clearbit|clearhigh|splitbits|nextpow2 v <a> d:<n>`: one public call, its allocator events, then the drops
fn unary_case(args: &[&str]) -> Res {
    use dashu_base::{DivRem, PowerOfTwo, SquareRootRem};
    let bad = || Err("bad-op mem.arith".to_string());
    let (op, form) = (args[0], args[1]);
    let two = matches!(op, "idivrem" | "idivremassign" | "idiveuc" | "iremeuc" | "idivremeuc");
    let signed = two || matches!(op, "ishl" | "ishr" | "ipow" | "inot");
    let ok_hex = |s: &str| hex_to_words(s.strip_prefix('-').unwrap_or(s)).is_some();
    let form_ok = match op {
        "idivrem" | "idiveuc" | "iremeuc" | "idivremeuc" => matches!(form, "rr" | "rv" | "vr" | "vv"),
        "idivremassign" => matches!(form, "av" | "ar"),
        "ishl" | "ishr" => matches!(form, "v" | "r" | "a"),
        "inot" => matches!(form, "v" | "r"),
        "ipow" | "sqrtrem" | "sqrt" => form == "r",
        _ => form == "v",
    };
    if !form_ok || !(if signed { ok_hex(args[2]) } else { hex_to_words(args[2]).is_some() }) {
        return bad();
    }
    let n: usize = if two {
        if !ok_hex(args[3]) {
            return bad();
        }
        0
    } else {
        match p_usize(args[3]) {
            Ok(n) => n,
            Err(_) => return bad(),
        }
    };
    hist_begin(true);
    let built = guarded(|| {
        let a = p_ibig(args[2]).unwrap();
        let b = if two { p_ibig(args[3]).unwrap() } else { IBig::ZERO };
        (a, b)
    });
    clear_log();
    let (a, b) = match built {
        Ok(x) => x,
        Err(_) => {
            hist_end();
            return bad();
        }
    };
    let (mut a, mut b) = (Some(a), Some(b));
    // the result(s) as a list of heads; kept alive until after the events were drained
    enum Out {
        I(IBig),
        U(UBig),
        II(IBig, IBig),
        UU(UBig, UBig),
        IU(IBig, UBig),
    }
    let mut kept: Option<UBig> = None;
    // round 6: `IBig`'s Euclidean division family, one call in one of the four ownership forms
    macro_rules! forms2 {
        ($m:ident) => {
            match form {
                "rr" => {
                    let (x, y) = (a.as_ref().unwrap(), b.as_ref().unwrap());
                    guarded(|| x.$m(y))
                }
                "rv" => {
                    let x = a.as_ref().unwrap();
                    let y = b.take().unwrap();
                    guarded(move || x.$m(y))
                }
                "vr" => {
                    let x = a.take().unwrap();
                    let y = b.as_ref().unwrap();
                    guarded(move || x.$m(y))
                }
                _ => {
                    let x = a.take().unwrap();
                    let y = b.take().unwrap();
                    guarded(move || x.$m(y))
                }
            }
        };
    }
    let res: Result<Out, (String, String)> = match op {
        "idivremassign" => {
            // `DivRemAssign::div_rem_assign` of IBig (`impl_binop_assign_by_taking`: `let (a, b) = mem::take(self).div_rem(rhs);
            // *self = a; b`): the quotient replaces the lhs, the remainder is returned
            use dashu_base::DivRemAssign;
            let mut x = a.take().unwrap();
            if form == "av" {
                let y = b.take().unwrap();
                guarded(move || {
                    let r = x.div_rem_assign(y);
                    Out::II(x, r)
                })
            } else {
                let y = b.as_ref().unwrap();
                guarded(move || {
                    let r = x.div_rem_assign(y);
                    Out::II(x, r)
                })
            }
        }
        "idiveuc" => {
            use dashu_base::DivEuclid;
            forms2!(div_euclid).map(Out::I)
        }
        "iremeuc" => {
            use dashu_base::RemEuclid;
            forms2!(rem_euclid).map(Out::U)
        }
        "idivremeuc" => {
            use dashu_base::DivRemEuclid;
            forms2!(div_rem_euclid).map(|(q, r)| Out::IU(q, r))
        }
        "idivrem" => match form {
            "rr" => {
                let (x, y) = (a.as_ref().unwrap(), b.as_ref().unwrap());
                guarded(|| x.div_rem(y)).map(|(q, r)| Out::II(q, r))
            }
            "rv" => {
                let x = a.as_ref().unwrap();
                let y = b.take().unwrap();
                guarded(move || x.div_rem(y)).map(|(q, r)| Out::II(q, r))
            }
            "vr" => {
                let x = a.take().unwrap();
                let y = b.as_ref().unwrap();
                guarded(move || x.div_rem(y)).map(|(q, r)| Out::II(q, r))
            }
            _ => {
                let x = a.take().unwrap();
                let y = b.take().unwrap();
                guarded(move || x.div_rem(y)).map(|(q, r)| Out::II(q, r))
            }
        },
        "ishl" | "ishr" => {
            if form == "a" {
                let mut x = a.take().unwrap();
                if op == "ishl" {
                    guarded(move || {
                        x <<= n;
                        x
                    })
                    .map(Out::I)
                } else {
                    guarded(move || {
                        x >>= n;
                        x
                    })
                    .map(Out::I)
                }
            } else if form == "v" {
                let x = a.take().unwrap();
                if op == "ishl" {
                    guarded(move || x << n).map(Out::I)
                } else {
                    guarded(move || x >> n).map(Out::I)
                }
            } else {
                let x = a.as_ref().unwrap();
                if op == "ishl" {
                    guarded(|| x << n).map(Out::I)
                } else {
                    guarded(|| x >> n).map(Out::I)
                }
            }
        }
        "ipow" => {
            let x = a.as_ref().unwrap();
            guarded(|| x.pow(n)).map(Out::I)
        }
        "inot" => {
            // `!IBig` by value / `!&IBig`
            if form == "v" {
                let x = a.take().unwrap();
                guarded(move || !x).map(Out::I)
            } else {
                let x = a.as_ref().unwrap();
                guarded(|| !x).map(Out::I)
            }
        }
        _ => {
            // by-value bit methods of UBig (`&mut self` methods are `mem::take(self)` + the by-value TypedRepr method)
            let x: UBig = match a.take().unwrap().try_into() {
                Ok(u) => u,
                Err(_) => {
                    hist_end();
                    return bad();
                }
            };
            if op == "sqrt" {
                // `UBig::sqrt(&self)` (root_only): the operand stays alive until the events were drained
                use dashu_base::SquareRoot;
                let r = guarded(|| x.sqrt()).map(Out::U);
                kept = Some(x);
                r
            } else if op == "sqrtrem" {
                // `UBig::sqrt_rem(&self)`: the operand stays alive until the events were drained
                let r = guarded(|| x.sqrt_rem()).map(|(s, r)| Out::UU(s, r));
                kept = Some(x);
                r
            } else {
            match op {
                "setbit" => guarded(move || {
                    let mut x = x;
                    x.set_bit(n);
                    x
                })
                .map(Out::U),
                "clearbit" => guarded(move || {
                    let mut x = x;
                    x.clear_bit(n);
                    x
                })
                .map(Out::U),
                "clearhigh" => guarded(move || {
                    let mut x = x;
                    x.clear_high_bits(n);
                    x
                })
                .map(Out::U),
                "splitbits" => guarded(move || x.split_bits(n)).map(|(lo, hi)| Out::UU(lo, hi)),
                _ => guarded(move || x.next_power_of_two()).map(Out::U),
            }
            }
        }
    };
    let ev = drain_events();
    let head = match &res {
        Ok(Out::I(r)) => head_ibig(r),
        Ok(Out::U(r)) => head_ubig(r),
        Ok(Out::II(q, r)) => format!("{}&{}", head_ibig(q), head_ibig(r)),
        Ok(Out::UU(q, r)) => format!("{}&{}", head_ubig(q), head_ubig(r)),
        Ok(Out::IU(q, r)) => format!("{}&{}", head_ibig(q), head_ubig(r)),
        Err((msg, loc)) => format!("!{}", classify_panic(msg, loc)),
    };
    let _ = guarded(move || {
        drop(res);
        drop(a);
        drop(b);
        drop(kept);
    });
    let drops = drain_sorted_drops();
    let (live, dfree, overflow) = counters();
    hist_end();
    let mut s = format!("{}|{} end:{}:live={}:dfree={}", head, ev, drops, live, dfree);
    if overflow {
        s.push_str(":!log-overflow");
    }
    Ok(s)
}

/// `mem.arith divrem <form> <a> <b>`: one `DivRem::div_rem` call on `UBig` operands in one ownership form; both
/// results (quotient `&` remainder) with their layout, the allocator events of the call, then the drops.
/// Also `divremeuc` (`DivRemEuclid::div_rem_euclid`), `diveuc` / `remeuc` (`DivEuclid` / `RemEuclid`: one result) and
/// `divremassign` (`DivRemAssign::div_rem_assign`, forms `av` / `ar`: the quotient replaces the lhs, the remainder is returned)
fn divrem_case(args: &[&str]) -> Res {
    use dashu_base::{DivEuclid, DivRem, DivRemAssign, DivRemEuclid, RemEuclid};
    let bad = || Err("bad-op mem.arith".to_string());
    let (op, form) = (args[0], args[1]);
    let form_ok = if op == "divremassign" { matches!(form, "av" | "ar") } else { matches!(form, "rr" | "rv" | "vr" | "vv") };
    if !form_ok || hex_to_words(args[2]).is_none() || hex_to_words(args[3]).is_none() {
        return bad();
    }
    hist_begin(true);
    let built = guarded(|| (p_ubig(args[2]).unwrap(), p_ubig(args[3]).unwrap()));
    clear_log();
    let (a, b) = match built {
        Ok(x) => x,
        Err(_) => {
            hist_end();
            return bad();
        }
    };
    let (mut a, mut b) = (Some(a), Some(b));
    macro_rules! forms {
        ($m:ident) => {
            match form {
                "rr" => {
                    let (x, y) = (a.as_ref().unwrap(), b.as_ref().unwrap());
                    guarded(|| x.$m(y))
                }
                "rv" => {
                    let x = a.as_ref().unwrap();
                    let y = b.take().unwrap();
                    guarded(move || x.$m(y))
                }
                "vr" => {
                    let x = a.take().unwrap();
                    let y = b.as_ref().unwrap();
                    guarded(move || x.$m(y))
                }
                _ => {
                    let x = a.take().unwrap();
                    let y = b.take().unwrap();
                    guarded(move || x.$m(y))
                }
            }
        };
    }
    // one result is printed as a pair with an absent second component
    let res: Result<(UBig, Option<UBig>), (String, String)> = match op {
        "divrem" => forms!(div_rem).map(|(q, r)| (q, Some(r))),
        "divremeuc" => forms!(div_rem_euclid).map(|(q, r)| (q, Some(r))),
        "diveuc" => forms!(div_euclid).map(|q| (q, None)),
        "remeuc" => forms!(rem_euclid).map(|r| (r, None)),
        _ => {
            let mut x = a.take().unwrap();
            if form == "av" {
                let y = b.take().unwrap();
                guarded(move || {
                    let r = x.div_rem_assign(y);
                    (x, Some(r))
                })
            } else {
                let y = b.as_ref().unwrap();
                guarded(move || {
                    let r = x.div_rem_assign(y);
                    (x, Some(r))
                })
            }
        }
    };
    let ev = drain_events();
    let head = match &res {
        Ok((q, Some(r))) => format!("{}&{}", head_ubig(q), head_ubig(r)),
        Ok((q, None)) => head_ubig(q),
        Err((msg, loc)) => format!("!{}", classify_panic(msg, loc)),
    };
    let _ = guarded(move || {
        drop(res);
        drop(a);
        drop(b);
    });
    let drops = drain_sorted_drops();
    let (live, dfree, _) = counters();
    hist_end();
    Ok(format!("{}|{} end:{}:live={}:dfree={}", head, ev, drops, live, dfree))
}

/// `mem.arith padd|psub|pmul|pdiv|por|pxor <v64|r64|v128|r128> <a> <b>`: `UBig op primitive` / `&UBig op primitive` with a `u64` /
/// `u128` right operand (helper_macros.rs `impl_binop_with_primitive`: `self.op(UBig::from(rhs)).try_into().unwrap()`); the result
/// with its layout, the allocator events of the call, then the drops
fn prim_case(args: &[&str]) -> Res {
    let bad = || Err("bad-op mem.arith".to_string());
    let (op, form) = (args[0], args[1]);
    if !matches!(form, "v64" | "r64" | "v128" | "r128") || hex_to_words(args[2]).is_none() {
        return bad();
    }
    let p: u128 = match u128::from_str_radix(args[3], 16) {
        Ok(p) => p,
        Err(_) => return bad(),
    };
    let wide = form.ends_with("128");
    if !wide && p > u64::MAX as u128 {
        return bad();
    }
    let by_val = form.starts_with('v');
    hist_begin(true);
    let built = guarded(|| p_ubig(args[2]).unwrap());
    clear_log();
    let a = match built {
        Ok(x) => x,
        Err(_) => {
            hist_end();
            return bad();
        }
    };
    let mut a = Some(a);
    macro_rules! forms {
        ($o:tt) => {
            if by_val {
                let x = a.take().unwrap();
                if wide {
                    guarded(move || x $o p)
                } else {
                    let q = p as u64;
                    guarded(move || x $o q)
                }
            } else {
                let x = a.as_ref().unwrap();
                if wide {
                    guarded(|| x $o p)
                } else {
                    let q = p as u64;
                    guarded(|| x $o q)
                }
            }
        };
    }
    let res: Result<UBig, (String, String)> = match op {
        "padd" => forms!(+),
        "psub" => forms!(-),
        "pmul" => forms!(*),
        "pdiv" => forms!(/),
        "por" => forms!(|),
        _ => forms!(^),
    };
    let ev = drain_events();
    let head = match &res {
        Ok(r) => head_ubig(r),
        Err((msg, loc)) => format!("!{}", classify_panic(msg, loc)),
    };
    let _ = guarded(move || {
        drop(res);
        drop(a);
    });
    let drops = drain_sorted_drops();
    let (live, dfree, _) = counters();
    hist_end();
    Ok(format!("{}|{} end:{}:live={}:dfree={}", head, ev, drops, live, dfree))
}

/// `mem.arith gcd|gcdext <form> <a> <b>` (UBig operands), `igcd|igcdext` (IBig operands), `gcd_ui|gcdext_ui` (UBig lhs, IBig rhs),
/// `gcd_iu|gcdext_iu` (IBig lhs, UBig rhs): one `Gcd::gcd` / `ExtendedGcd::gcd_ext` call in one ownership form; the result(s) with
/// their layout joined by `&`, the allocator events of the call, then the drops
fn gcd_case(args: &[&str]) -> Res {
    use dashu_base::ExtendedGcd;
    let bad = || Err("bad-op mem.arith".to_string());
    let (op, form) = (args[0], args[1]);
    let a_i = matches!(op, "igcd" | "igcdext" | "gcd_iu" | "gcdext_iu");
    let b_i = matches!(op, "igcd" | "igcdext" | "gcd_ui" | "gcdext_ui");
    let ok_hex = |s: &str, signed: bool| if signed { hex_to_words(s.strip_prefix('-').unwrap_or(s)).is_some() } else { hex_to_words(s).is_some() };
    if !matches!(form, "rr" | "rv" | "vr" | "vv") || !ok_hex(args[2], a_i) || !ok_hex(args[3], b_i) {
        return bad();
    }
    hist_begin(true);
    let built = guarded(|| (p_ibig(args[2]).unwrap(), p_ibig(args[3]).unwrap()));
    clear_log();
    let (a, b) = match built {
        Ok(x) => x,
        Err(_) => {
            hist_end();
            return bad();
        }
    };
    macro_rules! forms {
        ($a:ident, $b:ident, $m:ident) => {
            match form {
                "rr" => {
                    let (x, y) = ($a.as_ref().unwrap(), $b.as_ref().unwrap());
                    guarded(|| x.$m(y))
                }
                "rv" => {
                    let x = $a.as_ref().unwrap();
                    let y = $b.take().unwrap();
                    guarded(move || x.$m(y))
                }
                "vr" => {
                    let x = $a.take().unwrap();
                    let y = $b.as_ref().unwrap();
                    guarded(move || x.$m(y))
                }
                _ => {
                    let x = $a.take().unwrap();
                    let y = $b.take().unwrap();
                    guarded(move || x.$m(y))
                }
            }
        };
    }
    enum Out {
        G(UBig),
        X(UBig, IBig, IBig),
    }
    let mut ia: Option<IBig> = None;
    let mut ib: Option<IBig> = None;
    let mut ua: Option<UBig> = None;
    let mut ub: Option<UBig> = None;
    // the conversion IBig -> UBig moves the representation (no allocator event)
    if a_i {
        ia = Some(a);
    } else {
        ua = Some(a.try_into().unwrap());
    }
    if b_i {
        ib = Some(b);
    } else {
        ub = Some(b.try_into().unwrap());
    }
    clear_log();
    let x3 = |(g, s, t): (UBig, IBig, IBig)| Out::X(g, s, t);
    let res: Result<Out, (String, String)> = match op {
        "gcd" => forms!(ua, ub, gcd).map(Out::G),
        "igcd" => forms!(ia, ib, gcd).map(Out::G),
        "gcd_ui" => forms!(ua, ib, gcd).map(Out::G),
        "gcd_iu" => forms!(ia, ub, gcd).map(Out::G),
        "gcdext" => forms!(ua, ub, gcd_ext).map(x3),
        "igcdext" => forms!(ia, ib, gcd_ext).map(x3),
        "gcdext_ui" => forms!(ua, ib, gcd_ext).map(x3),
        _ => forms!(ia, ub, gcd_ext).map(x3),
    };
    let ev = drain_events();
    let head = match &res {
        Ok(Out::G(g)) => head_ubig(g),
        Ok(Out::X(g, s, t)) => format!("{}&{}&{}", head_ubig(g), head_ibig(s), head_ibig(t)),
        Err((msg, loc)) => format!("!{}", classify_panic(msg, loc)),
    };
    let _ = guarded(move || {
        drop(res);
        drop(ia);
        drop(ib);
        drop(ua);
        drop(ub);
    });
    let drops = drain_sorted_drops();
    let (live, dfree, overflow) = counters();
    hist_end();
    let mut s = format!("{}|{} end:{}:live={}:dfree={}", head, ev, drops, live, dfree);
    if overflow {
        s.push_str(":!log-overflow");
    }
    Ok(s)
}

/// `mem.arith pow r <a> d:<exp>`: `UBig::pow(&self, exp)`; the operand stays alive
fn pow_case(args: &[&str]) -> Res {
    let bad = || Err("bad-op mem.arith".to_string());
    if args[1] != "r" || hex_to_words(args[2]).is_none() {
        return bad();
    }
    let exp = match p_usize(args[3]) {
        Ok(n) => n,
        Err(_) => return bad(),
    };
    hist_begin(true);
    let built = guarded(|| p_ubig(args[2]).unwrap());
    clear_log();
    let a = match built {
        Ok(x) => x,
        Err(_) => {
            hist_end();
            return bad();
        }
    };
    let res = guarded(|| a.pow(exp));
    let ev = drain_events();
    let head = match &res {
        Ok(r) => {
            let (cap, len) = ubig_repr_info(r);
            format!("r{}/{}/{}", cap, len, ws_str(r.as_words()))
        }
        Err((msg, loc)) => format!("!{}", classify_panic(msg, loc)),
    };
    let _ = guarded(move || {
        drop(res);
        drop(a);
    });
    let drops = drain_sorted_drops();
    let (live, dfree, overflow) = counters();
    hist_end();
    let mut s = format!("{}|{} end:{}:live={}:dfree={}", head, ev, drops, live, dfree);
    if overflow {
        s.push_str(":!log-overflow");
    }
    Ok(s)
}

/// `mem.arith <op> <form> <a> <b>`: exactly one public `UBig` call (`+ - *` in the four ownership
/// forms, `<< >>` by value / by reference) with the allocator events it causes, then the drops of
/// the result and of the operands that are still alive.
pub fn arith_case(args: &[&str]) -> Res {
    let bad = || Err("bad-op mem.arith".to_string());
    if args.len() != 4 {
        return bad();
    }
    let (op, form) = (args[0], args[1]);
    if op == "frombytes" {
        return frombytes_case(args);
    }
    if matches!(op, "iadd" | "isub" | "imul" | "idiv" | "irem" | "iand" | "ior" | "ixor") {
        return signed_case(args);
    }
    if matches!(op, "divrem" | "divremeuc" | "diveuc" | "remeuc" | "divremassign") {
        return divrem_case(args);
    }
    if matches!(op, "padd" | "psub" | "pmul" | "pdiv" | "por" | "pxor") {
        return prim_case(args);
    }
    if matches!(op, "inot" | "idivrem" | "idivremassign" | "idiveuc" | "iremeuc" | "idivremeuc" | "ishl" | "ishr" | "ipow" | "setbit" | "clearbit" | "clearhigh" | "splitbits" | "nextpow2" | "sqrtrem" | "sqrt") {
        return unary_case(args);
    }
    if op == "pow" {
        return pow_case(args);
    }
    if matches!(op, "gcd" | "igcd" | "gcdext" | "igcdext" | "gcd_ui" | "gcd_iu" | "gcdext_ui" | "gcdext_iu") {
        return gcd_case(args);
    }
    if op == "sqr" {
        // `UBig::sqr(&self)`: the operand stays alive
        if form != "r" || hex_to_words(args[2]).is_none() {
            return bad();
        }
        hist_begin(true);
        let built = guarded(|| p_ubig(args[2]).unwrap());
        clear_log();
        let a = match built {
            Ok(x) => x,
            Err(_) => {
                hist_end();
                return bad();
            }
        };
        let res = guarded(|| a.sqr());
        let ev = drain_events();
        let head = match &res {
            Ok(r) => {
                let (cap, len) = ubig_repr_info(r);
                format!("r{}/{}/{}", cap, len, ws_str(r.as_words()))
            }
            Err((msg, loc)) => format!("!{}", classify_panic(msg, loc)),
        };
        let _ = guarded(move || {
            drop(res);
            drop(a);
        });
        let drops = drain_sorted_drops();
        let (live, dfree, _) = counters();
        hist_end();
        return Ok(format!("{}|{} end:{}:live={}:dfree={}", head, ev, drops, live, dfree));
    }
    let shift = matches!(op, "shl" | "shr");
    if !shift && !matches!(op, "add" | "sub" | "mul" | "div" | "rem" | "and" | "or" | "xor") {
        return bad();
    }
    let form_ok = if shift { matches!(form, "v" | "r" | "a") } else { matches!(form, "rr" | "rv" | "vr" | "vv" | "av" | "ar") };
    if !form_ok || hex_to_words(args[2]).is_none() {
        return bad();
    }
    let n: usize = if shift {
        match p_usize(args[3]) {
            Ok(n) => n,
            Err(_) => return bad(),
        }
    } else {
        if hex_to_words(args[3]).is_none() {
            return bad();
        }
        0
    };
    hist_begin(true);
    // the operands are built while the pointer table is maintained (so that their later frees and
    // reallocations are seen) but their construction is not part of the printed events
    let built = guarded(|| {
        let a = p_ubig(args[2]).unwrap();
        let b = if shift { UBig::ZERO } else { p_ubig(args[3]).unwrap() };
        (a, b)
    });
    clear_log();
    let (a, b) = match built {
        Ok(x) => x,
        Err(_) => {
            hist_end();
            return bad();
        }
    };
    let (mut a, mut b) = (Some(a), Some(b));
    let res: Result<UBig, (String, String)> = if shift {
        if form == "a" {
            // `x <<= n` / `x >>= n`
            let mut x = a.take().unwrap();
            if op == "shl" {
                guarded(move || {
                    x <<= n;
                    x
                })
            } else {
                guarded(move || {
                    x >>= n;
                    x
                })
            }
        } else if form == "v" {
            let x = a.take().unwrap();
            if op == "shl" {
                guarded(move || x << n)
            } else {
                guarded(move || x >> n)
            }
        } else {
            let x = a.as_ref().unwrap();
            if op == "shl" {
                guarded(|| x << n)
            } else {
                guarded(|| x >> n)
            }
        }
    } else {
        macro_rules! forms {
            ($o:tt, $oa:tt) => {
                match form {
                    // `x op= y` / `x op= &y` (impl_binop_assign_by_taking: `*self = mem::take(self) op rhs`)
                    "av" => {
                        let mut x = a.take().unwrap();
                        let y = b.take().unwrap();
                        guarded(move || {
                            x $oa y;
                            x
                        })
                    }
                    "ar" => {
                        let mut x = a.take().unwrap();
                        let y = b.as_ref().unwrap();
                        guarded(move || {
                            x $oa y;
                            x
                        })
                    }
                    "rr" => {
                        let (x, y) = (a.as_ref().unwrap(), b.as_ref().unwrap());
                        guarded(|| x $o y)
                    }
                    "rv" => {
                        let x = a.as_ref().unwrap();
                        let y = b.take().unwrap();
                        guarded(move || x $o y)
                    }
                    "vr" => {
                        let x = a.take().unwrap();
                        let y = b.as_ref().unwrap();
                        guarded(move || x $o y)
                    }
                    _ => {
                        let x = a.take().unwrap();
                        let y = b.take().unwrap();
                        guarded(move || x $o y)
                    }
                }
            };
        }
        match op {
            "add" => forms!(+, +=),
            "sub" => forms!(-, -=),
            "div" => forms!(/, /=),
            "rem" => forms!(%, %=),
            "and" => forms!(&, &=),
            "or" => forms!(|, |=),
            "xor" => forms!(^, ^=),
            _ => forms!(*, *=),
        }
    };
    let ev = drain_events();
    let head = match &res {
        Ok(r) => {
            let (cap, len) = ubig_repr_info(r);
            format!("r{}/{}/{}", cap, len, ws_str(r.as_words()))
        }
        Err((msg, loc)) => format!("!{}", classify_panic(msg, loc)),
    };
    // the result and the operands that were not moved go away
    let fin = guarded(move || {
        drop(res);
        drop(a);
        drop(b);
    });
    let drops = drain_sorted_drops();
    let (live, dfree, overflow) = counters();
    hist_end();
    let mut s = format!("{}|{} end:{}:live={}:dfree={}", head, ev, drops, live, dfree);
    if let Err((msg, loc)) = fin {
        s.push_str(&format!(":!{}", classify_panic(&msg, &loc)));
    }
    if overflow {
        s.push_str(":!log-overflow");
    }
    Ok(s)
}

// ================================================================== self test

/// deliberately broken "histories" showing that the counters see a leak, a double free, and the
/// destructors run by an unwinding panic: `leak` → live=1, `dfree` → dfree=1, `unwind` → live=0
fn selftest(kind: &str) -> Res {
    hist_begin(true);
    let r = match kind {
        "leak" => guarded(|| std::mem::forget(IBig::from(UBig::ones(500)))),
        "dfree" => guarded(|| {
            let v = IBig::from(UBig::ones(500));
            // a second owner of the same heap block
            let c = unsafe { std::ptr::read(&v) };
            drop(v);
            drop(c);
        }),
        "unwind" => guarded(|| {
            let v = IBig::from(UBig::ones(500));
            let z = IBig::ZERO;
            black_box(&v / &z);
        }),
        _ => {
            hist_end();
            return Err("bad-op mem.selftest".to_string());
        }
    };
    let ev = drain_events();
    let (live, dfree, overflow) = counters();
    hist_end();
    Ok(format!(
        "{}{} live={} dfree={}{}",
        if r.is_err() { "!" } else { "" },
        ev,
        live,
        dfree,
        if overflow { " overflow" } else { "" }
    ))
}

// ================================================================== dispatch

/// `mem.bump d:<total bytes> <k>:<count> …` — the real `MemoryAllocation`/`Memory` bump allocator through
/// the `memory_split` hook: offsets (relative to the allocation start) and byte lengths of the nested
/// slices, then the remainder; `nomem@i` when request i panics with "not enough memory allocated"
fn bump_case(args: &[&str]) -> Res {
    let bad = || "bad-op mem.bump".to_string();
    let total = p_usize(args.first().copied().ok_or_else(bad)?).map_err(|_| bad())?;
    let mut reqs: Vec<(u8, usize)> = Vec::new();
    for t in &args[1..] {
        let p: Vec<&str> = t.split(':').collect();
        if p.len() != 2 {
            return Err(bad());
        }
        let k = p_nat(p[0]).ok_or_else(bad)?;
        let c = p_nat(p[1]).ok_or_else(bad)?;
        if k > 4 {
            return Err(bad());
        }
        reqs.push((k as u8, c));
    }
    let run = |n: usize| {
        let r = &reqs[..n];
        catch_unwind(AssertUnwindSafe(|| dashu_int::verif::memory_split(total, r)))
    };
    let fmt = |v: &[(usize, usize)]| -> Vec<String> { v.iter().map(|(o, l)| format!("{},{}", o, l)).collect() };
    match run(reqs.len()) {
        Ok((slices, rem)) => {
            let mut out = fmt(&slices);
            out.push(format!("rem:{},{}", rem.0, rem.1));
            Ok(out.join(" "))
        }
        Err(_) => {
            let (msg, loc) = LAST_PANIC.with(|p| p.borrow_mut().take()).unwrap_or_default();
            if !msg.contains("not enough memory allocated") {
                return Ok(format!("!{}", classify_panic(&msg, &loc)));
            }
            // the first failing request: the shortest prefix that still panics
            let mut i = 0;
            while i < reqs.len() && run(i + 1).is_ok() {
                i += 1;
            }
            let _ = LAST_PANIC.with(|p| p.borrow_mut().take());
            let mut out = match run(i) {
                Ok((slices, _)) => fmt(&slices),
                Err(_) => vec!["?".to_string()],
            };
            out.push(format!("nomem@{}", i));
            Ok(out.join(" "))
        }
    }
}

pub fn dispatch(op: &str, args: &[&str]) -> Option<Res> {
    match op {
        "mem.buf" => Some(buf_history(args)),
        "mem.val" => Some(val_history(args)),
        "mem.arith" => Some(arith_case(args)),
        "mem.bump" => Some(bump_case(args)),
        "mem.policy" => Some((|| -> Res {
            if args.len() != 1 {
                return Err("bad-op mem.policy".to_string());
            }
            let n = p_usize(args[0])?;
            Ok(format!(
                "{} {} {}",
                buffer_default_capacity(n),
                buffer_max_compact_capacity(n),
                BUFFER_MAX_CAPACITY
            ))
        })()),
        // positive controls of the counting allocator (no model counterpart: the driver says bad-op)
        "mem.selftest" => Some(selftest(args.first().copied().unwrap_or(""))),
        "mem.miri" => Some(match args.first() {
            Some(r) => Ok(format!("miri={}", r)),
            None => Err("bad-op mem.miri".to_string()),
        }),
        _ => None,
    }
}
