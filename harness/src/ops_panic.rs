//! Group `panic` (C16): operations terminate and panic only where the documentation says so.
//!
//! Every op prints only HOW the call ended — values are other properties' business:
//!   `ok`                 normal return (an `Err(..)`/`None` of a fallible API is a normal return too; it is
//!                        shown as a trailing ` #ret=…` annotation which the differ does not compare)
//!   `panic <Kind>`       kinds of `util::classify_panic`, else `Undocumented(<file:line>|<msg>)`
//!   `hang` / `crash …`   produced by the supervisor in `exec_panic.rs`, never here
//!
//! Arguments: integers `[-]<hex>`, machine sizes `d:<decimal>` (u64 range), strings `s:<hex of UTF-8 bytes>`,
//! floats `f:<base 2|10>:<signif hex>:<exp dec>:<precision dec>:<mode Z|H>` (signif 0 with exp 1 / -1 is
//! +inf / -inf; value operands must be canonical), rationals as two integers `<num> <den>` followed by `k:R` (RBig)
//! or `k:X` (Relaxed), ring operation names as `fn:add|sub|mul|div|eq`, IEEE values as `d:<bit pattern>`.
//! The first argument of the ops whose documented behaviour depends on the build profile
//! (`f.from_repr`) is `d:1` (debug assertions on) / `d:0`; the harness refuses a mismatch.
#![allow(deprecated)]
use dashu_base::{
    Abs, BitTest, CubicRoot, PowerOfTwo, DivEuclid, DivRem, DivRemEuclid, ExtendedGcd, Gcd, Inverse, RemEuclid, SquareRoot,
    SquareRootRem,
};
use dashu_float::round::{mode, Round};
use dashu_float::{Context, FBig, Repr};
use dashu_int::{fast_div::ConstDivisor, IBig, UBig, Word};
use dashu_ratio::{RBig, Relaxed};
use std::str::FromStr;
use verif_harness::util::*;
use verif_harness::{forms_bin4, forms_bin6, forms_meth4};
use verif_harness::forms::{merge, run1};

fn p_str(s: &str) -> Result<String, String> {
    String::from_utf8(p_bytes(s)?).map_err(|_| format!("bad-arg utf8 {}", s))
}

fn p_u64(s: &str) -> Result<u64, String> {
    let v = p_dec(s)?;
    u64::try_from(v).map_err(|_| format!("bad-arg u64 {}", s))
}

fn p_isz(s: &str) -> Result<isize, String> {
    let v = p_dec(s)?;
    isize::try_from(v).map_err(|_| format!("bad-arg isize {}", s))
}

fn p_u32(s: &str) -> Result<u32, String> {
    let v = p_dec(s)?;
    u32::try_from(v).map_err(|_| format!("bad-arg u32 {}", s))
}

const OK: &str = "ok_";

fn p_kind(s: &str) -> Result<&'static str, String> {
    match s {
        "k:R" => Ok("R"),
        "k:X" => Ok("X"),
        _ => Err(format!("bad-arg kind {}", s)),
    }
}

fn p_fn(s: &str) -> Result<&str, String> {
    s.strip_prefix("fn:").ok_or_else(|| format!("bad-arg fn {}", s))
}

/// `ok` with a non-compared annotation
fn ret<T: std::fmt::Debug>(what: &str, v: &T) -> Res {
    let mut d = format!("{:?}", v).replace(' ', "_");
    d.truncate(60);
    Ok(format!("#ret={}:{}", what, d))
}

fn done() -> Res {
    Ok(String::new())
}

fn resf<T, E: std::fmt::Debug>(r: Result<T, E>) -> Res {
    match r {
        Ok(_) => Ok("#ret=Ok".to_string()),
        Err(e) => ret("Err", &e),
    }
}

fn optf<T>(r: Option<T>) -> Res {
    match r {
        Some(_) => Ok("#ret=Some".to_string()),
        None => Ok("#ret=None".to_string()),
    }
}

// ------------------------------------------------------------------------------------------ integers

fn int_op(op: &str, a: &[&str]) -> Option<Res> {
    let r = (|| -> Res {
        match op {
            // ---- parsers: any string, any radix
            "u.from_str_radix" => resf(UBig::from_str_radix(&p_str(arg(a, 0)?)?, p_u32(arg(a, 1)?)?)),
            "i.from_str_radix" => resf(IBig::from_str_radix(&p_str(arg(a, 0)?)?, p_u32(arg(a, 1)?)?)),
            "u.from_str_prefix" => resf(UBig::from_str_with_radix_prefix(&p_str(arg(a, 0)?)?)),
            "i.from_str_prefix" => resf(IBig::from_str_with_radix_prefix(&p_str(arg(a, 0)?)?)),
            "u.from_str_default" => resf(UBig::from_str_with_radix_default(&p_str(arg(a, 0)?)?, p_u32(arg(a, 1)?)?)),
            "i.from_str_default" => resf(IBig::from_str_with_radix_default(&p_str(arg(a, 0)?)?, p_u32(arg(a, 1)?)?)),
            "u.from_str" => {
                let s = p_str(arg(a, 0)?)?;
                let _ = s.parse::<UBig>();
                resf(UBig::from_str(&s))
            }
            "i.from_str" => {
                let s = p_str(arg(a, 0)?)?;
                let _ = s.parse::<IBig>();
                resf(IBig::from_str(&s))
            }
            // ---- formatting
            "u.in_radix" => {
                let x = p_ubig(arg(a, 0)?)?;
                let r = p_u32(arg(a, 1)?)?;
                let s = format!("{} {:#} {:+010}", x.in_radix(r), x.in_radix(r), x.in_radix(r));
                let _ = s.len();
                done()
            }
            "i.in_radix" => {
                let x = p_ibig(arg(a, 0)?)?;
                let r = p_u32(arg(a, 1)?)?;
                let s = format!("{} {:#} {:+010}", x.in_radix(r), x.in_radix(r), x.in_radix(r));
                let _ = s.len();
                done()
            }
            "u.fmt" => {
                let x = p_ubig(arg(a, 0)?)?;
                let s = format!("{} {:?} {:#?} {:x} {:#X} {:o} {:b} {:#b} {:>30} {:<+5}", x, x, x, x, x, x, x, x, x, x);
                let _ = s.len();
                done()
            }
            "i.fmt" => {
                let x = p_ibig(arg(a, 0)?)?;
                let s = format!("{} {:?} {:#?} {:x} {:#X} {:o} {:b} {:#b} {:>30} {:<+5}", x, x, x, x, x, x, x, x, x, x);
                let _ = s.len();
                done()
            }
            // ---- shifts by arbitrary counts
            "u.shl" => {
                let x = p_ubig(arg(a, 0)?)?;
                let n = p_usize(arg(a, 1)?)?;
                return forms_shift(&x, n, true);
            }
            "i.shl" => {
                let x = p_ibig(arg(a, 0)?)?;
                let n = p_usize(arg(a, 1)?)?;
                return forms_shift(&x, n, true);
            }
            "u.shr" => {
                let x = p_ubig(arg(a, 0)?)?;
                let n = p_usize(arg(a, 1)?)?;
                return forms_shift(&x, n, false);
            }
            "i.shr" => {
                let x = p_ibig(arg(a, 0)?)?;
                let n = p_usize(arg(a, 1)?)?;
                return forms_shift(&x, n, false);
            }
            // ---- powers, roots, logarithms
            "u.pow" => {
                let _ = p_ubig(arg(a, 0)?)?.pow(p_usize(arg(a, 1)?)?);
                done()
            }
            "i.pow" => {
                let _ = p_ibig(arg(a, 0)?)?.pow(p_usize(arg(a, 1)?)?);
                done()
            }
            "u.sqrt" => {
                let x = p_ubig(arg(a, 0)?)?;
                let _ = x.sqrt();
                let _ = x.sqrt_rem();
                done()
            }
            "i.sqrt" => {
                let _ = p_ibig(arg(a, 0)?)?.sqrt();
                done()
            }
            "u.cbrt" => {
                let _ = p_ubig(arg(a, 0)?)?.cbrt();
                done()
            }
            "i.cbrt" => {
                let _ = p_ibig(arg(a, 0)?)?.cbrt();
                done()
            }
            "u.nth_root" => {
                let _ = p_ubig(arg(a, 0)?)?.nth_root(p_usize(arg(a, 1)?)?);
                done()
            }
            "i.nth_root" => {
                let _ = p_ibig(arg(a, 0)?)?.nth_root(p_usize(arg(a, 1)?)?);
                done()
            }
            "u.ilog" => {
                let _ = p_ubig(arg(a, 0)?)?.ilog(&p_ubig(arg(a, 1)?)?);
                done()
            }
            "i.ilog" => {
                let _ = p_ibig(arg(a, 0)?)?.ilog(&p_ubig(arg(a, 1)?)?);
                done()
            }
            // ---- gcd
            "u.gcd" => {
                let (x, y) = (p_ubig(arg(a, 0)?)?, p_ubig(arg(a, 1)?)?);
                forms_meth4!(x, y, gcd, |_: &UBig| String::new())
            }
            "i.gcd" => {
                let (x, y) = (p_ibig(arg(a, 0)?)?, p_ibig(arg(a, 1)?)?);
                forms_meth4!(x, y, gcd, |_: &UBig| String::new())
            }
            "u.gcd_ext" => {
                let (x, y) = (p_ubig(arg(a, 0)?)?, p_ubig(arg(a, 1)?)?);
                forms_meth4!(x, y, gcd_ext, |_: &(UBig, IBig, IBig)| String::new())
            }
            "i.gcd_ext" => {
                let (x, y) = (p_ibig(arg(a, 0)?)?, p_ibig(arg(a, 1)?)?);
                forms_meth4!(x, y, gcd_ext, |_: &(UBig, IBig, IBig)| String::new())
            }
            // ---- guards of the basic arithmetic (the operator impls in all forms are C15's)
            // every ownership / assign form of the operator must end the same way (`forms-disagree` otherwise)
            "u.sub" => {
                let (x, y) = (p_ubig(arg(a, 0)?)?, p_ubig(arg(a, 1)?)?);
                forms_bin6!(x, y, -, -=, |_: &UBig| String::new())
            }
            "u.div" | "u.rem" | "u.div_rem" | "u.div_euclid" | "u.rem_euclid" | "u.div_rem_euclid" => {
                let (x, y) = (p_ubig(arg(a, 0)?)?, p_ubig(arg(a, 1)?)?);
                match op {
                    "u.div" => forms_bin6!(x, y, /, /=, |_: &UBig| String::new()),
                    "u.rem" => forms_bin6!(x, y, %, %=, |_: &UBig| String::new()),
                    "u.div_rem" => {
                        let r1 = forms_meth4!(x.clone(), y.clone(), div_rem, |_: &(UBig, UBig)| String::new());
                        let r2 = merge(&["asv", "asr"], vec![
                            run1(|| { let mut z = x.clone(); let _ = dashu_base::DivRemAssign::div_rem_assign(&mut z, y.clone()); String::new() }),
                            run1(|| { let mut z = x.clone(); let _ = dashu_base::DivRemAssign::div_rem_assign(&mut z, &y); String::new() }),
                        ]);
                        if r1 == r2 { r1 } else { Err(format!("forms-disagree [meth: {:?}] [assign: {:?}]", r1, r2).replace(' ', "_")) }
                    }
                    "u.div_euclid" => forms_meth4!(x, y, div_euclid, |_: &UBig| String::new()),
                    "u.rem_euclid" => forms_meth4!(x, y, rem_euclid, |_: &UBig| String::new()),
                    _ => forms_meth4!(x, y, div_rem_euclid, |_: &(UBig, UBig)| String::new()),
                }
            }
            "i.div" | "i.rem" | "i.div_rem" | "i.div_euclid" | "i.rem_euclid" | "i.div_rem_euclid" => {
                let (x, y) = (p_ibig(arg(a, 0)?)?, p_ibig(arg(a, 1)?)?);
                match op {
                    "i.div" => forms_bin6!(x, y, /, /=, |_: &IBig| String::new()),
                    "i.rem" => forms_bin6!(x, y, %, %=, |_: &IBig| String::new()),
                    "i.div_rem" => {
                        let r1 = forms_meth4!(x.clone(), y.clone(), div_rem, |_: &(IBig, IBig)| String::new());
                        let r2 = merge(&["asv", "asr"], vec![
                            run1(|| { let mut z = x.clone(); let _ = dashu_base::DivRemAssign::div_rem_assign(&mut z, y.clone()); String::new() }),
                            run1(|| { let mut z = x.clone(); let _ = dashu_base::DivRemAssign::div_rem_assign(&mut z, &y); String::new() }),
                        ]);
                        if r1 == r2 { r1 } else { Err(format!("forms-disagree [meth: {:?}] [assign: {:?}]", r1, r2).replace(' ', "_")) }
                    }
                    "i.div_euclid" => forms_meth4!(x, y, div_euclid, |_: &IBig| String::new()),
                    "i.rem_euclid" => forms_meth4!(x, y, rem_euclid, |_: &UBig| String::new()),
                    _ => forms_meth4!(x, y, div_rem_euclid, |_: &(IBig, UBig)| String::new()),
                }
            }
            "u.is_multiple_of" => {
                let _ = p_ubig(arg(a, 0)?)?.is_multiple_of(&p_ubig(arg(a, 1)?)?);
                done()
            }
            "i.is_multiple_of" => {
                let _ = p_ibig(arg(a, 0)?)?.is_multiple_of(&p_ibig(arg(a, 1)?)?);
                done()
            }
            "u.is_multiple_of_const" => {
                let d = u128::try_from(&p_ubig(arg(a, 1)?)?).map_err(|_| "bad-arg dword".to_string())?;
                let _ = p_ubig(arg(a, 0)?)?.is_multiple_of_const(d);
                done()
            }
            "i.is_multiple_of_const" => {
                let d = u128::try_from(&p_ubig(arg(a, 1)?)?).map_err(|_| "bad-arg dword".to_string())?;
                let _ = p_ibig(arg(a, 0)?)?.is_multiple_of_const(d);
                done()
            }
            "u.remove" => {
                let mut x = p_ubig(arg(a, 0)?)?;
                optf(x.remove(&p_ubig(arg(a, 1)?)?))
            }
            // ---- chunks
            "u.to_chunks" => {
                let _ = p_ubig(arg(a, 0)?)?.to_chunks(p_usize(arg(a, 1)?)?);
                done()
            }
            "u.from_chunks" => {
                // u.from_chunks d:<chunk_bits> <chunk>…
                let k = p_usize(arg(a, 0)?)?;
                let cs: Result<Vec<UBig>, String> = a[1..].iter().map(|s| p_ubig(s)).collect();
                let cs = cs?;
                let _ = UBig::from_chunks(cs.iter(), k);
                done()
            }
            // ---- bits at arbitrary indices
            "u.set_bit" => {
                let mut x = p_ubig(arg(a, 0)?)?;
                x.set_bit(p_usize(arg(a, 1)?)?);
                done()
            }
            "u.clear_bit" => {
                let mut x = p_ubig(arg(a, 0)?)?;
                x.clear_bit(p_usize(arg(a, 1)?)?);
                done()
            }
            "u.bit" => {
                let _ = p_ubig(arg(a, 0)?)?.bit(p_usize(arg(a, 1)?)?);
                done()
            }
            "i.bit" => {
                let _ = p_ibig(arg(a, 0)?)?.bit(p_usize(arg(a, 1)?)?);
                done()
            }
            "u.ones" => {
                let _ = UBig::ones(p_usize(arg(a, 0)?)?);
                done()
            }
            "u.split_bits" => {
                let _ = p_ubig(arg(a, 0)?)?.split_bits(p_usize(arg(a, 1)?)?);
                done()
            }
            "u.clear_high_bits" => {
                let mut x = p_ubig(arg(a, 0)?)?;
                x.clear_high_bits(p_usize(arg(a, 1)?)?);
                done()
            }
            "u.bitinfo" => {
                let x = p_ubig(arg(a, 0)?)?;
                let _ = (x.bit_len(), x.trailing_zeros(), x.trailing_ones(), x.count_ones(), x.count_zeros(), x.is_power_of_two());
                let _ = x.next_power_of_two();
                done()
            }
            "i.bitinfo" => {
                let x = p_ibig(arg(a, 0)?)?;
                let _ = (x.bit_len(), x.trailing_zeros(), x.trailing_ones());
                done()
            }
            // ---- conversions
            "u.try_from_i" => resf(UBig::try_from(p_ibig(arg(a, 0)?)?)),
            "u.to_prims" => {
                let x = p_ubig(arg(a, 0)?)?;
                let _ = (u8::try_from(&x), u16::try_from(&x), u32::try_from(&x), u64::try_from(&x), u128::try_from(&x), usize::try_from(&x));
                let _ = (i8::try_from(&x), i16::try_from(&x), i32::try_from(&x), i64::try_from(&x), i128::try_from(&x), isize::try_from(&x));
                let _ = (x.to_f32(), x.to_f64());
                done()
            }
            "i.to_prims" => {
                let x = p_ibig(arg(a, 0)?)?;
                let _ = (u8::try_from(&x), u16::try_from(&x), u32::try_from(&x), u64::try_from(&x), u128::try_from(&x), usize::try_from(&x));
                let _ = (i8::try_from(&x), i16::try_from(&x), i32::try_from(&x), i64::try_from(&x), i128::try_from(&x), isize::try_from(&x));
                let _ = (x.to_f32(), x.to_f64());
                done()
            }
            // which primitive conversions succeed: `y`/`n` for u8 u16 u32 u64 u128 usize i8 i16 i32 i64 i128 isize, then UBig
            "u.try_prims" => {
                let x = p_ubig(arg(a, 0)?)?;
                let f = |b: bool| if b { 'y' } else { 'n' };
                let v = [u8::try_from(&x).is_ok(), u16::try_from(&x).is_ok(), u32::try_from(&x).is_ok(), u64::try_from(&x).is_ok(),
                    u128::try_from(&x).is_ok(), usize::try_from(&x).is_ok(), i8::try_from(&x).is_ok(), i16::try_from(&x).is_ok(),
                    i32::try_from(&x).is_ok(), i64::try_from(&x).is_ok(), i128::try_from(&x).is_ok(), isize::try_from(&x).is_ok(), true];
                let w = [u8::try_from(x.clone()).is_ok(), u16::try_from(x.clone()).is_ok(), u32::try_from(x.clone()).is_ok(),
                    u64::try_from(x.clone()).is_ok(), u128::try_from(x.clone()).is_ok(), usize::try_from(x.clone()).is_ok(),
                    i8::try_from(x.clone()).is_ok(), i16::try_from(x.clone()).is_ok(), i32::try_from(x.clone()).is_ok(),
                    i64::try_from(x.clone()).is_ok(), i128::try_from(x.clone()).is_ok(), isize::try_from(x.clone()).is_ok(), true];
                if v != w {
                    return Err("forms-disagree try_from(&x)/try_from(x)".to_string());
                }
                Ok(v.iter().map(|b| f(*b)).collect())
            }
            "i.try_prims" => {
                let x = p_ibig(arg(a, 0)?)?;
                let f = |b: bool| if b { 'y' } else { 'n' };
                let v = [u8::try_from(&x).is_ok(), u16::try_from(&x).is_ok(), u32::try_from(&x).is_ok(), u64::try_from(&x).is_ok(),
                    u128::try_from(&x).is_ok(), usize::try_from(&x).is_ok(), i8::try_from(&x).is_ok(), i16::try_from(&x).is_ok(),
                    i32::try_from(&x).is_ok(), i64::try_from(&x).is_ok(), i128::try_from(&x).is_ok(), isize::try_from(&x).is_ok(),
                    UBig::try_from(x.clone()).is_ok()];
                let w = [u8::try_from(x.clone()).is_ok(), u16::try_from(x.clone()).is_ok(), u32::try_from(x.clone()).is_ok(),
                    u64::try_from(x.clone()).is_ok(), u128::try_from(x.clone()).is_ok(), usize::try_from(x.clone()).is_ok(),
                    i8::try_from(x.clone()).is_ok(), i16::try_from(x.clone()).is_ok(), i32::try_from(x.clone()).is_ok(),
                    i64::try_from(x.clone()).is_ok(), i128::try_from(x.clone()).is_ok(), isize::try_from(x.clone()).is_ok(),
                    x.as_ubig().is_some()];
                if v != w {
                    return Err("forms-disagree try_from(&x)/try_from(x)".to_string());
                }
                Ok(v.iter().map(|b| f(*b)).collect())
            }
            "u.try_from_f64" => resf(UBig::try_from(f64::from_bits(p_u64(arg(a, 0)?)?))),
            "i.try_from_f64" => resf(IBig::try_from(f64::from_bits(p_u64(arg(a, 0)?)?))),
            "u.try_from_f32" => resf(UBig::try_from(f32::from_bits(p_u32(arg(a, 0)?)?))),
            "i.try_from_f32" => resf(IBig::try_from(f32::from_bits(p_u32(arg(a, 0)?)?))),
            "u.bytes" => {
                let x = p_ubig(arg(a, 0)?)?;
                let _ = UBig::from_le_bytes(&x.to_le_bytes());
                let _ = UBig::from_be_bytes(&x.to_be_bytes());
                done()
            }
            "i.bytes" => {
                let x = p_ibig(arg(a, 0)?)?;
                let _ = IBig::from_le_bytes(&x.to_le_bytes());
                let _ = IBig::from_be_bytes(&x.to_be_bytes());
                done()
            }
            // ---- core::iter::Sum / Product (integer/src/iter.rs) over owned items and over references, and Hash
            "u.sum" | "u.product" => {
                let cs: Result<Vec<UBig>, String> = a.iter().map(|s| p_ubig(s)).collect();
                let cs = cs?;
                let rs = if op == "u.sum" {
                    vec![
                        run1(|| { let _: UBig = cs.iter().sum(); String::new() }),
                        run1(|| { let _: UBig = cs.clone().into_iter().sum(); String::new() }),
                    ]
                } else {
                    vec![
                        run1(|| { let _: UBig = cs.iter().product(); String::new() }),
                        run1(|| { let _: UBig = cs.clone().into_iter().product(); String::new() }),
                    ]
                };
                return merge(&["r", "v"], rs);
            }
            "i.sum" | "i.product" => {
                let cs: Result<Vec<IBig>, String> = a.iter().map(|s| p_ibig(s)).collect();
                let cs = cs?;
                let rs = if op == "i.sum" {
                    vec![
                        run1(|| { let _: IBig = cs.iter().sum(); String::new() }),
                        run1(|| { let _: IBig = cs.clone().into_iter().sum(); String::new() }),
                    ]
                } else {
                    vec![
                        run1(|| { let _: IBig = cs.iter().product(); String::new() }),
                        run1(|| { let _: IBig = cs.clone().into_iter().product(); String::new() }),
                    ]
                };
                return merge(&["r", "v"], rs);
            }
            "u.hash" => {
                use std::hash::{Hash, Hasher};
                let x = p_ubig(arg(a, 0)?)?;
                let mut h = std::collections::hash_map::DefaultHasher::new();
                x.hash(&mut h);
                let mut h2 = std::collections::hash_map::DefaultHasher::new();
                x.clone().hash(&mut h2);
                if h.finish() != h2.finish() {
                    return Err("forms-disagree hash(x)/hash(x.clone())".to_string());
                }
                done()
            }
            "i.hash" => {
                use std::hash::{Hash, Hasher};
                let x = p_ibig(arg(a, 0)?)?;
                let mut h = std::collections::hash_map::DefaultHasher::new();
                x.hash(&mut h);
                let mut h2 = std::collections::hash_map::DefaultHasher::new();
                x.clone().hash(&mut h2);
                if h.finish() != h2.finish() {
                    return Err("forms-disagree hash(x)/hash(x.clone())".to_string());
                }
                done()
            }
            // ---- constant divisors and reduced rings
            "cd.new" => {
                let _ = ConstDivisor::new(p_ubig(arg(a, 0)?)?);
                done()
            }
            "cd.from_word" => {
                let w = Word::try_from(&p_ubig(arg(a, 0)?)?).map_err(|_| "bad-arg word".to_string())?;
                let _ = ConstDivisor::from_word(w);
                done()
            }
            "cd.from_dword" => {
                let w = u128::try_from(&p_ubig(arg(a, 0)?)?).map_err(|_| "bad-arg dword".to_string())?;
                let _ = ConstDivisor::from_dword(w);
                done()
            }
            "cd.divrem" => {
                // cd.divrem <x : IBig> <m>
                let x = p_ibig(arg(a, 0)?)?;
                let m = ConstDivisor::new(p_ubig(arg(a, 1)?)?);
                let _ = (&x / &m, &x % &m, (&x).div_rem(&m));
                if let Ok(u) = UBig::try_from(x) {
                    let _ = (&u / &m, &u % &m, (&u).div_rem(&m));
                }
                done()
            }
            "m.same" => {
                // m.same <fn> <m> <a> <b>   both operands in ONE ring
                let f = p_fn(arg(a, 0)?)?;
                let ring = ConstDivisor::new(p_ubig(arg(a, 1)?)?);
                let x = ring.reduce(p_ibig(arg(a, 2)?)?);
                let y = ring.reduce(p_ibig(arg(a, 3)?)?);
                mod_bin(f, x, y)
            }
            "m.diff" => {
                // m.diff <fn> <m1> <a> <m2> <b>   operands in two ConstDivisor instances (even if m1 = m2)
                let f = p_fn(arg(a, 0)?)?;
                let r1 = ConstDivisor::new(p_ubig(arg(a, 1)?)?);
                let x = r1.reduce(p_ibig(arg(a, 2)?)?);
                let r2 = ConstDivisor::new(p_ubig(arg(a, 3)?)?);
                let y = r2.reduce(p_ibig(arg(a, 4)?)?);
                mod_bin(f, x, y)
            }
            "m.inv" => {
                let ring = ConstDivisor::new(p_ubig(arg(a, 0)?)?);
                optf(ring.reduce(p_ibig(arg(a, 1)?)?).inv())
            }
            "m.pow" => {
                let ring = ConstDivisor::new(p_ubig(arg(a, 0)?)?);
                let x = ring.reduce(p_ibig(arg(a, 1)?)?);
                let _ = x.pow(&p_ubig(arg(a, 2)?)?);
                let _ = (x.sqr(), x.clone().dbl(), -x.clone(), x.residue(), x.modulus());
                done()
            }
            _ => return Err(String::from("\u{0}")),
        }
    })();
    match r {
        Err(e) if e == "\u{0}" => None,
        other => Some(other),
    }
}

/// `<<` / `>>` by value, by reference, by `&usize`, and the assign forms
fn forms_shift<T>(x: &T, n: usize, left: bool) -> Res
where
    T: Clone + std::ops::Shl<usize, Output = T> + std::ops::Shr<usize, Output = T>,
    for<'a> &'a T: std::ops::Shl<usize, Output = T> + std::ops::Shr<usize, Output = T>,
    for<'a> T: std::ops::Shl<&'a usize, Output = T> + std::ops::Shr<&'a usize, Output = T>,
    for<'a, 'b> &'a T: std::ops::Shl<&'b usize, Output = T> + std::ops::Shr<&'b usize, Output = T>,
    T: std::ops::ShlAssign<usize> + std::ops::ShrAssign<usize>,
    for<'a> T: std::ops::ShlAssign<&'a usize> + std::ops::ShrAssign<&'a usize>,
{
    let rs = if left {
        vec![
            run1(|| { let _ = x.clone() << n; String::new() }),
            run1(|| { let _ = x << n; String::new() }),
            run1(|| { let _ = x.clone() << &n; String::new() }),
            run1(|| { let _ = x << &n; String::new() }),
            run1(|| { let mut y = x.clone(); y <<= n; String::new() }),
            run1(|| { let mut y = x.clone(); y <<= &n; String::new() }),
        ]
    } else {
        vec![
            run1(|| { let _ = x.clone() >> n; String::new() }),
            run1(|| { let _ = x >> n; String::new() }),
            run1(|| { let _ = x.clone() >> &n; String::new() }),
            run1(|| { let _ = x >> &n; String::new() }),
            run1(|| { let mut y = x.clone(); y >>= n; String::new() }),
            run1(|| { let mut y = x.clone(); y >>= &n; String::new() }),
        ]
    };
    merge(&["v", "r", "v&", "r&", "as", "as&"], rs)
}

fn mod_bin<'a>(f: &str, x: dashu_int::modular::Reduced<'a>, y: dashu_int::modular::Reduced<'a>) -> Res {
    match f {
        "add" => {
            let _ = &x + &y;
            let mut z = x.clone();
            z += &y;
            let _ = x + y;
        }
        "sub" => {
            let _ = &x - &y;
            let mut z = x.clone();
            z -= &y;
            let _ = x - y;
        }
        "mul" => {
            let _ = &x * &y;
            let mut z = x.clone();
            z *= &y;
            let _ = x * y;
        }
        "div" => {
            let _ = &x / &y;
            let mut z = x.clone();
            z /= &y;
            let _ = x / y;
        }
        "eq" => {
            let _ = x == y;
        }
        _ => return Err(format!("bad-arg modfn {}", f)),
    }
    done()
}

// ------------------------------------------------------------------------------------------ floats

struct FA {
    base: u64,
    signif: IBig,
    exp: isize,
    prec: usize,
    mode: char,
}

fn p_fa(s: &str) -> Result<FA, String> {
    let t: Vec<&str> = s.split(':').collect();
    let bad = || format!("bad-arg float {}", s);
    if t.len() != 6 || t[0] != "f" || t[5].len() != 1 {
        return Err(bad());
    }
    Ok(FA {
        base: t[1].parse().map_err(|_| bad())?,
        signif: p_ibig(t[2])?,
        exp: t[3].parse().map_err(|_| bad())?,
        prec: t[4].parse().map_err(|_| bad())?,
        mode: t[5].chars().next().unwrap(),
    })
}

/// operands are built outside the measured call: a panic while BUILDING one (e.g. `Repr::new` normalising at an
/// extreme exponent) is reported as `bad-arg`, never as the operation's outcome
fn guard<T>(f: impl FnOnce() -> T) -> Result<T, String> {
    std::panic::catch_unwind(std::panic::AssertUnwindSafe(f)).map_err(|_| {
        LAST_PANIC.with(|p| p.borrow_mut().take());
        "bad-arg operand-construction-panicked".to_string()
    })
}

fn mk_repr<const B: Word>(x: &FA) -> Repr<B> {
    if x.signif.is_zero() && x.exp > 0 {
        Repr::<B>::infinity()
    } else if x.signif.is_zero() && x.exp < 0 {
        Repr::<B>::neg_infinity()
    } else {
        Repr::<B>::new(x.signif.clone(), x.exp)
    }
}

/// builds the FBig WITHOUT the `from_repr` debug assertion getting in the way of the operation under test:
/// the repr is rounded into the context first when it has more digits than the precision
/// operands of the value ops must be canonical (normalized, infinities exactly (0, +-1), significand within the
/// precision): building them with `FBig::from_repr` is then within its documented contract
fn mk<R: Round, const B: Word>(x: &FA) -> Result<FBig<R, B>, String> {
    let bad = || "bad-arg non-canonical float operand".to_string();
    if x.signif.is_zero() && !(x.exp == 0 || x.exp == 1 || x.exp == -1) {
        return Err(bad());
    }
    let r = mk_repr::<B>(x);
    if !r.is_infinite() && (r.significand() != &x.signif || r.exponent() != x.exp) {
        return Err(bad());
    }
    if !(r.is_infinite() || x.prec == 0 || r.digits() <= x.prec) {
        return Err(bad());
    }
    Ok(FBig::from_repr(r, Context::<R>::new(x.prec)))
}

fn float_run<R: Round, const B: Word>(op: &str, a: &[&str]) -> Res {
    let f0 = |i: usize| -> Result<FBig<R, B>, String> {
        let fa = p_fa(arg(a, i)?)?;
        guard(|| mk::<R, B>(&fa))?
    };
    match op {
        "f.add" | "f.sub" | "f.mul" | "f.div" | "f.rem" | "f.div_euclid" | "f.rem_euclid" | "f.powf" | "f.cmp" => {
            let (x, y) = (f0(0)?, f0(1)?);
            let ctx = Context::<R>::new(x.precision().max(y.precision()));
            match op {
                "f.add" => {
                    let _ = ctx.add(x.repr(), y.repr());
                    let _ = &x + &y;
                    let mut z = x.clone();
                    z += &y;
                    let _ = x + y;
                }
                "f.sub" => {
                    let _ = ctx.sub(x.repr(), y.repr());
                    let _ = &x - &y;
                    let mut z = x.clone();
                    z -= &y;
                    let _ = x - y;
                }
                "f.mul" => {
                    let _ = ctx.mul(x.repr(), y.repr());
                    let _ = &x * &y;
                    let mut z = x.clone();
                    z *= &y;
                    let _ = x * y;
                }
                "f.div" => {
                    let _ = ctx.div(x.repr(), y.repr());
                    let _ = &x / &y;
                    let mut z = x.clone();
                    z /= &y;
                    let _ = x / y;
                }
                "f.rem" => {
                    let _ = ctx.rem(x.repr(), y.repr());
                    let _ = &x % &y;
                    let mut z = x.clone();
                    z %= &y;
                    let _ = x % y;
                }
                "f.div_euclid" => {
                    let _ = x.clone().div_rem_euclid(y.clone());
                    let _ = x.div_euclid(y);
                }
                "f.rem_euclid" => {
                    let _ = x.rem_euclid(y);
                }
                "f.powf" => {
                    let _ = ctx.powf(x.repr(), y.repr());
                    let _ = x.powf(&y);
                }
                _ => {
                    use dashu_base::AbsOrd;
                    let _ = (x == y, x.partial_cmp(&y), x.cmp(&y), x.abs_cmp(&y));
                }
            }
            done()
        }
        "f.sqr" | "f.cubic" | "f.sqrt" | "f.inv" | "f.ln" | "f.ln_1p" | "f.exp" | "f.exp_m1" | "f.to_int"
        | "f.trunc" | "f.fract" | "f.ceil" | "f.floor" | "f.round" | "f.split_at_point" | "f.ulp" | "f.to_f32"
        | "f.to_f64" | "f.neg_abs" | "f.fmt" | "f.to_int_try" | "f.to_decimal" | "f.to_binary" | "f.info" => {
            let x = f0(0)?;
            let ctx = x.context();
            match op {
                "f.sqr" => {
                    let _ = ctx.sqr(x.repr());
                    let _ = x.sqr();
                }
                "f.cubic" => {
                    let _ = ctx.cubic(x.repr());
                    let _ = x.cubic();
                }
                "f.sqrt" => {
                    let _ = ctx.sqrt(x.repr());
                    let _ = x.sqrt();
                }
                "f.inv" => {
                    let _ = ctx.inv(x.repr());
                    let _ = x.inv();
                }
                "f.ln" => {
                    let _ = ctx.ln(x.repr());
                    let _ = x.ln();
                }
                "f.ln_1p" => {
                    let _ = ctx.ln_1p(x.repr());
                    let _ = x.ln_1p();
                }
                "f.exp" => {
                    let _ = ctx.exp(x.repr());
                    let _ = x.exp();
                }
                "f.exp_m1" => {
                    let _ = ctx.exp_m1(x.repr());
                    let _ = x.exp_m1();
                }
                "f.to_int" => {
                    let _ = x.repr().to_int();
                    let _ = x.to_int();
                }
                "f.trunc" => drop(x.trunc()),
                "f.fract" => drop(x.fract()),
                "f.ceil" => drop(x.ceil()),
                "f.floor" => drop(x.floor()),
                "f.round" => drop(x.round()),
                "f.split_at_point" => drop(x.split_at_point()),
                "f.ulp" => drop(x.ulp()),
                "f.to_f32" => {
                    let _ = x.repr().to_f32();
                    let _ = x.to_f32();
                }
                "f.to_f64" => {
                    let _ = x.repr().to_f64();
                    let _ = x.to_f64();
                }
                "f.neg_abs" => {
                    let _ = (-x.clone(), x.clone().abs(), x.signum(), x.sign());
                }
                "f.fmt" => {
                    let s = format!("{} {:?} {:#?} {:.3} {:+12.2} {:<8}", x, x, x, x, x, x);
                    let _ = s.len();
                }
                "f.to_int_try" => {
                    let _ = IBig::try_from(x.clone());
                    let _ = UBig::try_from(x.clone());
                    let _ = (u8::try_from(x.clone()), i64::try_from(x.clone()), u128::try_from(x.clone()));
                    return resf(IBig::try_from(x));
                }
                "f.to_decimal" => {
                    let _ = x.to_decimal();
                    let _ = x.clone().with_base::<10>();
                }
                "f.to_binary" => {
                    let _ = x.to_binary();
                    let _ = x.clone().with_base::<2>();
                }
                _ => {
                    let _ = (x.precision(), x.digits(), x.repr().digits(), x.repr().digits_ub(), x.repr().digits_lb(), x.repr().is_int());
                    let _ = x.clone().into_repr().into_parts();
                }
            }
            done()
        }
        "f.powi" => {
            let x = f0(0)?;
            let e = p_ibig(arg(a, 1)?)?;
            let _ = x.context().powi(x.repr(), e.clone());
            let _ = x.powi(e);
            done()
        }
        "f.shl" | "f.shr" => {
            let x = f0(0)?;
            let n = p_isz(arg(a, 1)?)?;
            if op == "f.shl" {
                let _ = x.clone() << n;
                let mut z = x;
                z <<= n;
            } else {
                let _ = x.clone() >> n;
                let mut z = x;
                z >>= n;
            }
            done()
        }
        "f.with_precision" => {
            let x = f0(0)?;
            let _ = x.with_precision(p_usize(arg(a, 1)?)?);
            done()
        }
        "f.from_parts" => {
            // f.from_parts <signif> d:<exp>
            let _ = FBig::<R, B>::from_parts(p_ibig(arg(a, 0)?)?, p_isz(arg(a, 1)?)?);
            done()
        }
        "f.from_repr" => {
            // f.from_repr d:<debug 1|0> <float>   : FBig::from_repr(repr, Context::new(prec)) as given
            let dbg = p_usize(arg(a, 0)?)? == 1;
            if dbg != cfg!(debug_assertions) {
                return Err("bad-arg profile".to_string());
            }
            let x = p_fa(arg(a, 1)?)?;
            let r = guard(|| mk_repr::<B>(&x))?;
            let _ = FBig::<R, B>::from_repr(r, Context::<R>::new(x.prec));
            done()
        }
        "f.parse" => {
            let s = p_str(arg(a, 0)?)?;
            let _ = Repr::<B>::from_str_native(&s);
            let _ = FBig::<R, B>::from_str_native(&s);
            let _ = s.parse::<FBig<R, B>>();
            resf(FBig::<R, B>::from_str(&s))
        }
        "f.from_int" => {
            let i = p_ibig(arg(a, 0)?)?;
            let _ = FBig::<R, B>::from(i.clone());
            let _ = Context::<R>::new(p_usize(arg(a, 1)?)?).convert_int::<B>(i);
            done()
        }
        "f.sum" | "f.product" => {
            // core::iter::Sum / Product (float/src/iter.rs): a fold with `+` / `*` from ZERO / ONE, owned and by reference
            let mut xs: Vec<FBig<R, B>> = Vec::new();
            for i in 0..a.len() {
                xs.push(f0(i)?);
            }
            let rs = if op == "f.sum" {
                vec![
                    run1(|| { let _: FBig<R, B> = xs.iter().sum(); String::new() }),
                    run1(|| { let _: FBig<R, B> = xs.clone().into_iter().sum(); String::new() }),
                ]
            } else {
                vec![
                    run1(|| { let _: FBig<R, B> = xs.iter().product(); String::new() }),
                    run1(|| { let _: FBig<R, B> = xs.clone().into_iter().product(); String::new() }),
                ]
            };
            merge(&["r", "v"], rs)
        }
        "f.to_ratio" => {
            let x = f0(0)?;
            let _ = Relaxed::try_from(x.clone());
            resf(RBig::try_from(x))
        }
        _ => Err(format!("bad-op {}", op)),
    }
}

fn float_op(op: &str, a: &[&str]) -> Option<Res> {
    if !op.starts_with("f.") {
        return None;
    }
    // base/mode are taken from the first float argument; `f.parse`/`f.from_parts`/`f.from_int` carry them as a trailing
    // `f:` argument of value zero
    let fa = a.iter().find(|s| s.starts_with("f:")).map(|s| p_fa(s));
    let fa = match fa {
        Some(Ok(f)) => f,
        Some(Err(e)) => return Some(Err(e)),
        None => return Some(Err("bad-arg missing float".to_string())),
    };
    if op == "f.from_f64" {
        return Some((|| -> Res {
            let v = f64::from_bits(p_u64(arg(a, 0)?)?);
            let _ = Repr::<2>::try_from(v);
            let _ = FBig::<mode::Zero, 2>::try_from(v as f32);
            resf(FBig::<mode::Zero, 2>::try_from(v))
        })());
    }
    Some(match (fa.base, fa.mode) {
        (2, 'Z') => float_run::<mode::Zero, 2>(op, a),
        (10, 'H') => float_run::<mode::HalfAway, 10>(op, a),
        _ => Err("bad-arg float base/mode".to_string()),
    })
}

// ------------------------------------------------------------------------------------------ rationals

fn ratio_op(op: &str, a: &[&str]) -> Option<Res> {
    if !op.starts_with("q.") {
        return None;
    }
    Some((|| -> Res {
        // constructors and parsers take the kind letter last
        match op {
            "q.from_parts" => {
                let (n, d) = (p_ibig(arg(a, 0)?)?, p_ubig(arg(a, 1)?)?);
                match p_kind(arg(a, 2)?)? {
                    "R" => drop(RBig::from_parts(n, d)),
                    _ => drop(Relaxed::from_parts(n, d)),
                }
                return done();
            }
            "q.from_parts_signed" => {
                let (n, d) = (p_ibig(arg(a, 0)?)?, p_ibig(arg(a, 1)?)?);
                match p_kind(arg(a, 2)?)? {
                    "R" => drop(RBig::from_parts_signed(n, d)),
                    _ => drop(Relaxed::from_parts_signed(n, d)),
                }
                return done();
            }
            "q.parse" => {
                let s = p_str(arg(a, 0)?)?;
                return match p_kind(arg(a, 1)?)? {
                    "R" => {
                        let _ = s.parse::<RBig>();
                        resf(RBig::from_str(&s))
                    }
                    _ => {
                        let _ = s.parse::<Relaxed>();
                        resf(Relaxed::from_str(&s))
                    }
                };
            }
            "q.from_str_radix" => {
                let s = p_str(arg(a, 0)?)?;
                let r = p_u32(arg(a, 1)?)?;
                return match p_kind(arg(a, 2)?)? {
                    "R" => resf(RBig::from_str_radix(&s, r)),
                    _ => resf(Relaxed::from_str_radix(&s, r)),
                };
            }
            "q.from_str_prefix" => {
                let s = p_str(arg(a, 0)?)?;
                return match p_kind(arg(a, 1)?)? {
                    "R" => resf(RBig::from_str_with_radix_prefix(&s)),
                    _ => resf(Relaxed::from_str_with_radix_prefix(&s)),
                };
            }
            "q.from_f64" => {
                let v = f64::from_bits(p_u64(arg(a, 0)?)?);
                let _ = RBig::simplest_from_f64(v);
                let _ = RBig::simplest_from_f32(v as f32);
                let _ = Relaxed::try_from(v);
                let _ = RBig::try_from(v as f32);
                return resf(RBig::try_from(v));
            }
            // (rational/src/iter.rs is not a module of the crate: RBig / Relaxed have no Sum / Product impl to drive)
            "q.hash" => {
                use std::hash::{Hash, Hasher};
                let (n, d) = (p_ibig(arg(a, 0)?)?, p_ubig(arg(a, 1)?)?);
                if d.is_zero() || p_kind(arg(a, 2)?)? != "R" {
                    return Err("bad-arg q.hash".to_string());
                }
                let x = RBig::from_parts(n, d);
                let mut h = std::collections::hash_map::DefaultHasher::new();
                x.hash(&mut h);
                let _ = h.finish();
                return done();
            }
            _ => {}
        }
        // value ops: <num> <den> <kind> …  (den != 0 is the generator's duty; a zero den is reported as bad-arg)
        let n = p_ibig(arg(a, 0)?)?;
        let d = p_ubig(arg(a, 1)?)?;
        if d.is_zero() {
            return Err("bad-arg zero denominator".to_string());
        }
        let kind = p_kind(arg(a, 2)?)?;
        macro_rules! both {
            ($x:ident, $body:expr) => {{
                if kind == "R" {
                    let $x = RBig::from_parts(n.clone(), d.clone());
                    let _ = $body;
                } else {
                    let $x = Relaxed::from_parts(n.clone(), d.clone());
                    let _ = $body;
                }
            }};
        }
        match op {
            "q.inv" => both!(x, x.inv()),
            "q.pow" => {
                let e = p_usize(arg(a, 3)?)?;
                both!(x, x.pow(e))
            }
            "q.sqr_cubic" => both!(x, (x.sqr(), x.cubic())),
            "q.rounding" => both!(x, (x.trunc(), x.ceil(), x.floor(), x.round(), x.fract(), x.clone().split_at_point())),
            "q.to_floats" => both!(x, (x.to_f32(), x.to_f64(), x.to_f32_fast(), x.to_f64_fast(), x.to_int())),
            "q.sign" => both!(x, (x.sign(), x.signum(), -x.clone(), x.clone().abs(), x.is_zero(), x.is_one())),
            "q.fmt" => both!(x, format!("{} {:?} {:#?} {:>12} {:+}", x, x, x, x, x).len()),
            "q.to_float" => {
                let p = p_usize(arg(a, 3)?)?;
                both!(x, (x.to_float::<mode::HalfAway, 10>(p), x.to_float::<mode::Zero, 2>(p)))
            }
            "q.to_float_b" => {
                // q.to_float_b <num> <den> <kind> d:<precision> d:<base 2|10>   one base per call (extreme precisions)
                let p = p_usize(arg(a, 3)?)?;
                match p_usize(arg(a, 4)?)? {
                    2 => both!(x, x.to_float::<mode::Zero, 2>(p)),
                    10 => both!(x, x.to_float::<mode::HalfAway, 10>(p)),
                    _ => return Err("bad-arg base".to_string()),
                }
            }
            "q.to_int_try" => both!(x, (IBig::try_from(x.clone()), UBig::try_from(x.clone()))),
            "q.div" | "q.add" | "q.sub" | "q.mul" | "q.rem" | "q.div_euclid" | "q.cmp" => {
                let n2 = p_ibig(arg(a, 3)?)?;
                let d2 = p_ubig(arg(a, 4)?)?;
                if d2.is_zero() {
                    return Err("bad-arg zero denominator".to_string());
                }
                macro_rules! bin {
                    ($x:ident, $y:ident, $body:expr) => {{
                        if kind == "R" {
                            let $x = RBig::from_parts(n.clone(), d.clone());
                            let $y = RBig::from_parts(n2.clone(), d2.clone());
                            let _ = $body;
                        } else {
                            let $x = Relaxed::from_parts(n.clone(), d.clone());
                            let $y = Relaxed::from_parts(n2.clone(), d2.clone());
                            let _ = $body;
                        }
                    }};
                }
                match op {
                    "q.div" => bin!(x, y, (&x / &y, x / y)),
                    "q.add" => bin!(x, y, (&x + &y, x + y)),
                    "q.sub" => bin!(x, y, (&x - &y, x - y)),
                    "q.mul" => bin!(x, y, (&x * &y, x * y)),
                    "q.rem" => bin!(x, y, (&x % &y, x % y)),
                    "q.div_euclid" => bin!(x, y, (x.clone().div_euclid(y.clone()), x.clone().rem_euclid(y.clone()), x.div_rem_euclid(y))),
                    _ => bin!(x, y, (x == y, x.cmp(&y))),
                }
            }
            "q.div_int" => {
                let i = p_ibig(arg(a, 3)?)?;
                both!(x, (&x / &i, x / i.clone()))
            }
            "q.nearest" | "q.next_up" | "q.next_down" => {
                let lim = p_ubig(arg(a, 3)?)?;
                let x = RBig::from_parts(n.clone(), d.clone());
                match op {
                    "q.nearest" => drop(x.nearest(&lim)),
                    "q.next_up" => drop(x.next_up(&lim)),
                    _ => drop(x.next_down(&lim)),
                }
            }
            "q.simplest_in" => {
                let n2 = p_ibig(arg(a, 3)?)?;
                let d2 = p_ubig(arg(a, 4)?)?;
                if d2.is_zero() {
                    return Err("bad-arg zero denominator".to_string());
                }
                let _ = RBig::simplest_in(RBig::from_parts(n.clone(), d.clone()), RBig::from_parts(n2, d2));
            }
            _ => return Err(format!("bad-op {}", op)),
        }
        done()
    })())
}

pub fn dispatch(op: &str, args: &[&str]) -> Option<Res> {
    let _ = OK;
    if let Some(r) = int_op(op, args) {
        return Some(r);
    }
    if let Some(r) = float_op(op, args) {
        return Some(r);
    }
    ratio_op(op, args)
}
