//! Group `float`, C10: the IEEE-754 binary32 operations the `f32` estimators of dashu are built from, evaluated by the
//! machine (`s32.*`), so that the assumption "each `f32` operation returns the exact result rounded to nearest-even"
//! (`rne32` of lean/Dashu/Proofs/Float/F32.lean, executable replica lean/Dashu/Model/Float/SoftF32.lean) is compared on
//! every driven case; plus `log2_bounds` of dashu itself (`s32.l2b`), the estimate every coarse test starts from.
//! Values travel as bit patterns `d:<u32>`.
use dashu_base::utils::{next_down, next_up};
use dashu_base::EstimatedLog2;
use verif_harness::util::*;

fn p_f32(s: &str) -> Result<f32, String> {
    let v = p_dec(s)?;
    let b = u32::try_from(v).map_err(|_| format!("bad-arg f32bits {}", s))?;
    Ok(f32::from_bits(b))
}

fn out(f: f32) -> String {
    format!("d:{}", f.to_bits())
}

pub fn dispatch(op: &str, args: &[&str]) -> Option<Res> {
    if !op.starts_with("s32.") {
        return None;
    }
    Some((|| -> Res {
        match op {
            "s32.add" | "s32.sub" | "s32.mul" | "s32.div" => {
                let a = p_f32(arg(args, 0)?)?;
                let b = p_f32(arg(args, 1)?)?;
                let a = std::hint::black_box(a);
                let b = std::hint::black_box(b);
                Ok(out(match op {
                    "s32.add" => a + b,
                    "s32.sub" => a - b,
                    "s32.mul" => a * b,
                    _ => a / b,
                }))
            }
            "s32.ofnat" => {
                // `n as f32` for a u128 (the conversions `precision as f32`, `rem_bits as f32`, `shift as f32`, `*self as f32`)
                let n = p_ubig(arg(args, 0)?)?;
                let v = u128::try_from(&n).map_err(|_| "bad-arg u128".to_string())?;
                let small = u64::try_from(v);
                let f = std::hint::black_box(v) as f32;
                if let Ok(s) = small {
                    // the usize / u64 conversion must agree with the u128 one
                    let g = std::hint::black_box(s) as f32;
                    if g.to_bits() != f.to_bits() {
                        return Ok(format!("forms-disagree u128={} u64={}", f.to_bits(), g.to_bits()));
                    }
                }
                Ok(out(f))
            }
            "s32.dec" => {
                // s32.dec s:<ascii decimal literal as hex bytes>: the decimal -> binary32 conversion of a literal
                let bytes = p_bytes(arg(args, 0)?)?;
                let text = String::from_utf8(bytes).map_err(|_| "bad-arg utf8".to_string())?;
                let f: f32 = text.parse().map_err(|_| "bad-arg literal".to_string())?;
                Ok(out(f))
            }
            "s32.nextup" => Ok(out(next_up(p_f32(arg(args, 0)?)?))),
            "s32.nextdown" => Ok(out(next_down(p_f32(arg(args, 0)?)?))),
            "s32.log2" => Ok(out(std::hint::black_box(p_f32(arg(args, 0)?)?).log2())),
            "s32.l2b" => {
                // UBig::log2_bounds of dashu (inline values through the u128 routine, heap values through log2_bounds_large)
                let n = p_ubig(arg(args, 0)?)?;
                let (lb, ub) = n.log2_bounds();
                Ok(format!("{} {}", out(lb), out(ub)))
            }
            "s32.dest" => {
                // s32.dest d:<B> <n>: Repr::<B>::new(n, 0).digits_lb() / .digits_ub() (float/src/repr.rs) - the f32 digit estimates
                // themselves, against digitsLbReal / digitsUbReal evaluated by the soft-float replica (Driver/FloatX.lean)
                let b = p_usize(arg(args, 0)?)?;
                let n = dashu_int::IBig::from(p_ubig(arg(args, 1)?)?);
                macro_rules! est {
                    ($B:literal) => {{
                        let r = dashu_float::Repr::<$B>::new(n, 0);
                        (r.digits_lb(), r.digits_ub())
                    }};
                }
                let (lb, ub) = match b {
                    2 => est!(2),
                    3 => est!(3),
                    7 => est!(7),
                    10 => est!(10),
                    16 => est!(16),
                    36 => est!(36),
                    1000 => est!(1000),
                    4294967296 => est!(4294967296),
                    18446744073709551615 => est!(18446744073709551615),
                    _ => return Err("bad-arg base".into()),
                };
                Ok(format!("d:{} d:{}", lb, ub))
            }
            "s32.sweep" => {
                // s32.sweep d:<lo> d:<hi>: libm's log2f on EVERY integer lo <= m < hi (1 <= lo, hi <= 2^24 + 1) against a rigorous
                // integer-arithmetic enclosure of log2 m (40 fractional bits by interval squaring): counts the m where
                // next_down(log2f m) <= log2 m <= next_up(log2f m) cannot be confirmed, or where log2f m leaves [16, 32) for
                // 2^23 < m <= 2^24 -- the hypothesis (LIBM) of lean/Dashu/Props/C10F32.lean, checked exhaustively.
                let lo = p_usize(arg(args, 0)?)? as u64;
                let hi = p_usize(arg(args, 1)?)? as u64;
                if lo < 1 || hi > (1 << 24) + 1 || lo > hi {
                    return Err("bad-arg sweep range".into());
                }
                let mut sum: u64 = 0;
                let mut viol: u64 = 0;
                for m in lo..hi {
                    let bits = std::hint::black_box(m as f32).log2().to_bits();
                    sum = sum.wrapping_mul(31).wrapping_add(bits as u64);
                    if !log2f_ok(m, bits) {
                        viol += 1;
                    }
                }
                Ok(format!("{:x} d:{}", sum, viol))
            }
            _ => Err(format!("bad-op {}", op)),
        }
    })())
}

/// enclosure `[lo, hi]` of `log2(m) * 2^40` for `m >= 1`, by interval squaring in 62-bit fixed point
fn log2_enclosure(m: u64) -> (u128, u128) {
    let e = 63 - m.leading_zeros() as u128;
    let mut a: u128 = (m as u128) << (62 - e);
    let mut b: u128 = a;
    let mut frac: u128 = 0;
    let mut known: u32 = 40;
    for i in 0..40u32 {
        let a2 = (a * a) >> 62;
        let b2 = (b * b + (1u128 << 62) - 1) >> 62;
        if a2 >= 1u128 << 63 {
            frac = frac * 2 + 1;
            a = a2 >> 1;
            b = (b2 + 1) >> 1;
        } else if b2 < 1u128 << 63 {
            frac *= 2;
            a = a2;
            b = b2;
        } else {
            known = i;
            break;
        }
    }
    let lo = (e << 40) + (frac << (40 - known));
    let hi = if a == b && known == 40 && a == 1u128 << 62 { lo } else { lo + (1u128 << (40 - known)) };
    (lo, hi)
}

fn log2f_ok(m: u64, bits: u32) -> bool {
    if m == 1 {
        return bits == 0;
    }
    let be = (bits >> 23) as i64;
    if bits >= 0x8000_0000 || be < 127 || be > 254 {
        return false; // log2 m >= 1 for m >= 2: a positive normal number with exponent >= 0
    }
    let er = be - 127;
    if m > (1 << 23) && er != 4 {
        return false;
    }
    let mant = (0x80_0000 | (bits & 0x7f_ffff)) as u128;
    // scaled by 2^40: value = mant * 2^(er - 23 + 40)
    let sh = (er + 17) as u32;
    let up = (mant + 1) << sh;
    let down = if mant == 0x80_0000 { (2 * mant - 1) << (sh - 1) } else { (mant - 1) << sh };
    let (lo, hi) = log2_enclosure(m);
    down <= lo && hi <= up
}
