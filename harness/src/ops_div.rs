//! Division ops of C02 that are not already in ops_int.rs: is_multiple_of for IBig, the const
//! (double-word divisor) divisibility test, ConstDivisor constructors from machine words, and
//! separate `/` and `%` through a ConstDivisor (so that a defect in one operator is not hidden
//! behind a forms-disagree line of the combined op).
use dashu_base::DivRem;
use dashu_int::{fast_div::ConstDivisor, DoubleWord, IBig, UBig, Word};
use verif_harness::forms::{merge, run1};
use verif_harness::util::*;

fn fu(x: &UBig) -> String {
    f_ubig(x)
}
fn fi(x: &IBig) -> String {
    f_ibig(x)
}

fn p_dword(s: &str) -> Result<DoubleWord, String> {
    let ws = hex_to_words(s).ok_or_else(|| format!("bad-arg dword {}", s))?;
    let mut n = ws.len();
    while n > 0 && ws[n - 1] == 0 {
        n -= 1;
    }
    if n > 2 {
        return Err(format!("bad-arg dword {}", s));
    }
    let lo = if n > 0 { ws[0] } else { 0 };
    let hi = if n > 1 { ws[1] } else { 0 };
    Ok((lo as DoubleWord) | ((hi as DoubleWord) << WBITS))
}

fn p_word(s: &str) -> Result<Word, String> {
    let d = p_dword(s)?;
    if d > Word::MAX as DoubleWord {
        return Err(format!("bad-arg word {}", s));
    }
    Ok(d as Word)
}


// ---------------------------------------------------------------- num-modular primitives, called directly
macro_rules! nm_impl {
    ($name:ident, $T:ty, $D:ty) => {
        fn $name(op: &str, v: &[u128]) -> Option<Res> {
            use num_modular::{Normalized2by1Divisor as N1, Normalized3by2Divisor as N2};
            let g = |i: usize| -> Result<u128, String> {
                v.get(i).copied().ok_or_else(|| format!("bad-arg missing {}", i))
            };
            Some((|| -> Res {
                Ok(match op {
                    "inv1" => format!("{:x}", N1::<$T>::invert_word(g(0)? as $T)),
                    "inv2" => format!("{:x}", N2::<$T, $D>::invert_double_word(g(0)? as $D)),
                    "div1by1" => {
                        let (q, r) = N1::<$T>::new(g(0)? as $T).div_rem_1by1(g(1)? as $T);
                        format!("{:x} {:x}", q, r)
                    }
                    "div2by1" => {
                        let (q, r) = N1::<$T>::new(g(0)? as $T).div_rem_2by1(g(1)? as $D);
                        format!("{:x} {:x}", q, r)
                    }
                    "div2by2" => {
                        let (q, r) = N2::<$T, $D>::new(g(0)? as $D).div_rem_2by2(g(1)? as $D);
                        format!("{:x} {:x}", q, r)
                    }
                    "div3by2" => {
                        let (q, r) = N2::<$T, $D>::new(g(0)? as $D).div_rem_3by2(g(1)? as $T, g(2)? as $D);
                        format!("{:x} {:x}", q, r)
                    }
                    "div4by2" => {
                        let (q, r) = N2::<$T, $D>::new(g(0)? as $D).div_rem_4by2(g(1)? as $D, g(2)? as $D);
                        format!("{:x} {:x}", q, r)
                    }
                    _ => return Err("__none__".into()),
                })
            })())
        }
    };
}
nm_impl!(nm8, u8, u16);
nm_impl!(nm16, u16, u32);
nm_impl!(nm32, u32, u64);
nm_impl!(nm64, u64, u128);

const CK_MOD: u128 = (1u128 << 61) - 1;
fn ck(h: u128, q: u128, r: u128) -> u128 {
    ((h * 31 + q) % CK_MOD * 31 + r) % CK_MOD
}

/// exhaustive sweeps over the 8-bit instance of the crate (checksums of all results)
fn nm_sweep8(op: &str, v: &[u128]) -> Option<Res> {
    use num_modular::{Normalized2by1Divisor as N1, Normalized3by2Divisor as N2};
    Some((|| -> Res {
        Ok(match op {
            // all a = a_hi*256 + a_lo with a_hi < d, for one divisor d
            "sweep2by1" => {
                let d = v[0] as u8;
                let dv = N1::<u8>::new(d);
                let mut h = 0u128;
                for a in 0..((d as u32) << 8) {
                    let (q, r) = dv.div_rem_2by1(a as u16);
                    h = ck(h, q as u128, r as u128);
                }
                format!("{:x}", h)
            }
            // reciprocals of all normalized double words in [lo, lo + cnt)
            "sweepinv2" => {
                let (lo, cnt) = (v[0] as u32, v[1] as u32);
                let mut h = 0u128;
                for d in lo..lo + cnt {
                    h = ck(h, N2::<u8, u16>::invert_double_word(d as u16) as u128, 0);
                }
                format!("{:x}", h)
            }
            // all a_lo for one divisor d and one a_hi < d
            "sweep3by2" => {
                let (d, ahi) = (v[0] as u16, v[1] as u16);
                let dv = N2::<u8, u16>::new(d);
                let mut h = 0u128;
                for alo in 0..256u32 {
                    let (q, r) = dv.div_rem_3by2(alo as u8, ahi);
                    h = ck(h, q as u128, r as u128);
                }
                format!("{:x}", h)
            }
            _ => return Err("__none__".into()),
        })
    })())
}

fn nm_dispatch(op: &str, args: &[&str]) -> Option<Res> {
    let sub = op.strip_prefix("nm.")?;
    let parse = || -> Result<(usize, Vec<u128>), String> {
        let w = p_usize(arg(args, 0)?)?;
        let mut v = Vec::new();
        for a in &args[1..] {
            v.push(p_dword(a)? as u128);
        }
        Ok((w, v))
    };
    let (w, v) = match parse() {
        Ok(x) => x,
        Err(e) => return Some(Err(e)),
    };
    let r = if sub.starts_with("sweep") {
        nm_sweep8(sub, &v)
    } else {
        match w {
            8 => nm8(sub, &v),
            16 => nm16(sub, &v),
            32 => nm32(sub, &v),
            64 => nm64(sub, &v),
            _ => None,
        }
    };
    match r {
        Some(Err(e)) if e == "__none__" => None,
        other => other,
    }
}

// ---------------------------------------------------------------- primitive kernels of base/src/ring/div_rem.rs
fn prim_kind(r: String) -> String {
    // Rust's own arithmetic panics of the primitive operators (not dashu messages)
    if r.contains("attempt_to_divide_by_zero") || r.contains("divisor_of_zero") {
        "panic Undocumented(PrimDivideByZero)".to_string()
    } else if r.contains("with_overflow") {
        "panic Undocumented(PrimOverflow)".to_string()
    } else {
        r
    }
}

fn hx128(v: i128) -> String {
    if v < 0 {
        format!("-{:x}", (v as i128).unsigned_abs())
    } else {
        format!("{:x}", v)
    }
}

fn p_i129(s: &str) -> Result<(bool, u128), String> {
    // sign + magnitude (u128::MAX needs more than i128)
    let (neg, body) = match s.strip_prefix('-') {
        Some(r) => (true, r),
        None => (false, s),
    };
    let m = u128::from_str_radix(body, 16).map_err(|_| format!("bad-arg int {}", s))?;
    Ok((neg, m))
}

macro_rules! prim_ty {
    ($name:ident, $T:ty, $signed:expr) => {
        fn $name(op: &str, a: (bool, u128), b: (bool, u128)) -> Option<String> {
            use dashu_base::{DivEuclid, DivRem, DivRemAssign, DivRemEuclid, RemEuclid};
            fn conv(x: (bool, u128)) -> Option<$T> {
                if $signed {
                    let v: i128 = if x.0 {
                        if x.1 > (1u128 << 127) { return None; }
                        (x.1 as i128).wrapping_neg()
                    } else {
                        if x.1 >= (1u128 << 127) { return None; }
                        x.1 as i128
                    };
                    <$T>::try_from(v).ok()
                } else {
                    if x.0 && x.1 != 0 { return None; }
                    <$T>::try_from(x.1).ok()
                }
            }
            fn f(x: $T) -> String {
                if $signed { hx128(x as i128) } else { format!("{:x}", x as u128) }
            }
            let a = conv(a)?;
            let b = conv(b)?;
            let r = match op {
                "divrem" => run1(|| { let (q, r) = a.div_rem(b); format!("{} {}", f(q), f(r)) }),
                "divremassign" => run1(|| { let mut x = a; let r = x.div_rem_assign(b); format!("{} {}", f(x), f(r)) }),
                "diveuclid" => run1(|| f(DivEuclid::div_euclid(a, b))),
                "remeuclid" => run1(|| f(RemEuclid::rem_euclid(a, b))),
                "divremeuclid" => run1(|| { let (q, r) = a.div_rem_euclid(b); format!("{} {}", f(q), f(r)) }),
                _ => return None,
            };
            Some(prim_kind(r))
        }
    };
}
prim_ty!(prim_u8, u8, false);
prim_ty!(prim_u16, u16, false);
prim_ty!(prim_u32, u32, false);
prim_ty!(prim_u64, u64, false);
prim_ty!(prim_u128, u128, false);
prim_ty!(prim_usize, usize, false);
prim_ty!(prim_i8, i8, true);
prim_ty!(prim_i16, i16, true);
prim_ty!(prim_i32, i32, true);
prim_ty!(prim_i64, i64, true);
prim_ty!(prim_i128, i128, true);
prim_ty!(prim_isize, isize, true);

fn prim_call(ty: &str, op: &str, a: (bool, u128), b: (bool, u128)) -> Option<String> {
    match ty {
        "u8" => prim_u8(op, a, b),
        "u16" => prim_u16(op, a, b),
        "u32" => prim_u32(op, a, b),
        "u64" => prim_u64(op, a, b),
        "u128" => prim_u128(op, a, b),
        "usize" => prim_usize(op, a, b),
        "i8" => prim_i8(op, a, b),
        "i16" => prim_i16(op, a, b),
        "i32" => prim_i32(op, a, b),
        "i64" => prim_i64(op, a, b),
        "i128" => prim_i128(op, a, b),
        "isize" => prim_isize(op, a, b),
        _ => None,
    }
}

/// `p.<op> <ty> a b`, and `p.sweep <ty> <op> a`: all 256 values of b for one a of an 8-bit type
fn prim_dispatch(op: &str, args: &[&str]) -> Option<Res> {
    let sub = op.strip_prefix("p.")?;
    Some((|| -> Res {
        if sub == "sweep" {
            let ty = arg(args, 0)?;
            let o = arg(args, 1)?;
            let a = p_i129(arg(args, 2)?)?;
            let bs: Vec<(bool, u128)> = if ty == "i8" {
                (-128i32..128).map(|v| (v < 0, v.unsigned_abs() as u128)).collect()
            } else if ty == "u8" {
                (0u128..256).map(|v| (false, v)).collect()
            } else {
                return Err("bad-arg sweep type".into());
            };
            let mut out = String::new();
            let mut h: u128 = 0;
            for b in bs {
                let r = prim_call(ty, o, a, b).ok_or_else(|| "bad-arg prim".to_string())?;
                for byte in r.bytes() {
                    h = (h * 257 + byte as u128) % CK_MOD;
                }
                h = (h * 257 + 10) % CK_MOD;
            }
            out.push_str(&format!("{:x}", h));
            Ok(out)
        } else {
            let ty = arg(args, 0)?;
            let a = p_i129(arg(args, 1)?)?;
            let b = p_i129(arg(args, 2)?)?;
            let r = prim_call(ty, sub, a, b).ok_or_else(|| "bad-arg prim".to_string())?;
            match r.strip_prefix("ok ") {
                Some(v) => Ok(v.to_string()),
                None => Err(r),
            }
        }
    })())
}

pub fn dispatch(op: &str, args: &[&str]) -> Option<Res> {
    if op.starts_with("p.") {
        return prim_dispatch(op, args);
    }
    if op.starts_with("nm.") {
        return nm_dispatch(op, args);
    }
    Some((|| -> Res {
        match op {
            "i.ismultiple" => {
                let a = p_ibig(arg(args, 0)?)?;
                let b = p_ibig(arg(args, 1)?)?;
                Ok(a.is_multiple_of(&b).to_string())
            }
            "u.ismultipleconst" => {
                let a = p_ubig(arg(args, 0)?)?;
                let b = p_dword(arg(args, 1)?)?;
                Ok(a.is_multiple_of_const(b).to_string())
            }
            "i.ismultipleconst" => {
                let a = p_ibig(arg(args, 0)?)?;
                let b = p_dword(arg(args, 1)?)?;
                Ok(a.is_multiple_of_const(b).to_string())
            }
            "cd.fromword" => Ok(fu(&ConstDivisor::from_word(p_word(arg(args, 0)?)?).value())),
            "cd.fromdword" => Ok(fu(&ConstDivisor::from_dword(p_dword(arg(args, 0)?)?).value())),
            // quotient only, every form of `/` by a ConstDivisor
            "u.cdiv" => {
                let a = p_ubig(arg(args, 0)?)?;
                let b = p_ubig(arg(args, 1)?)?;
                let rs = vec![
                    run1(|| fu(&(a.clone() / &ConstDivisor::new(b.clone())))),
                    run1(|| fu(&(&a / &ConstDivisor::new(b.clone())))),
                    run1(|| {
                        let mut x = a.clone();
                        x /= &ConstDivisor::new(b.clone());
                        fu(&x)
                    }),
                ];
                merge(&["v", "r", "as"], rs)
            }
            // remainder only, every form of `%` by a ConstDivisor
            "u.crem" => {
                let a = p_ubig(arg(args, 0)?)?;
                let b = p_ubig(arg(args, 1)?)?;
                let rs = vec![
                    run1(|| fu(&(a.clone() % &ConstDivisor::new(b.clone())))),
                    run1(|| fu(&(&a % &ConstDivisor::new(b.clone())))),
                    run1(|| {
                        let mut x = a.clone();
                        x %= &ConstDivisor::new(b.clone());
                        fu(&x)
                    }),
                ];
                merge(&["v", "r", "as"], rs)
            }
            // quotient and remainder through div_rem / div_rem_assign only
            "u.cdivrem2" => {
                let a = p_ubig(arg(args, 0)?)?;
                let b = p_ubig(arg(args, 1)?)?;
                let f = |x: &(UBig, UBig)| format!("{} {}", fu(&x.0), fu(&x.1));
                let rs = vec![
                    run1(|| f(&a.clone().div_rem(&ConstDivisor::new(b.clone())))),
                    run1(|| f(&(&a).div_rem(&ConstDivisor::new(b.clone())))),
                    run1(|| {
                        use dashu_base::DivRemAssign;
                        let mut x = a.clone();
                        let r = x.div_rem_assign(&ConstDivisor::new(b.clone()));
                        f(&(x, r))
                    }),
                ];
                merge(&["v", "r", "as"], rs)
            }
            "i.cdiv" => {
                let a = p_ibig(arg(args, 0)?)?;
                let b = p_ubig(arg(args, 1)?)?;
                let rs = vec![
                    run1(|| fi(&(a.clone() / &ConstDivisor::new(b.clone())))),
                    run1(|| fi(&(&a / &ConstDivisor::new(b.clone())))),
                    run1(|| {
                        let mut x = a.clone();
                        x /= &ConstDivisor::new(b.clone());
                        fi(&x)
                    }),
                ];
                merge(&["v", "r", "as"], rs)
            }
            "i.crem" => {
                let a = p_ibig(arg(args, 0)?)?;
                let b = p_ubig(arg(args, 1)?)?;
                let rs = vec![
                    run1(|| fi(&(a.clone() % &ConstDivisor::new(b.clone())))),
                    run1(|| fi(&(&a % &ConstDivisor::new(b.clone())))),
                    run1(|| {
                        let mut x = a.clone();
                        x %= &ConstDivisor::new(b.clone());
                        fi(&x)
                    }),
                ];
                merge(&["v", "r", "as"], rs)
            }
            "i.cdivrem2" => {
                let a = p_ibig(arg(args, 0)?)?;
                let b = p_ubig(arg(args, 1)?)?;
                let f = |x: &(IBig, IBig)| format!("{} {}", fi(&x.0), fi(&x.1));
                let rs = vec![
                    run1(|| f(&a.clone().div_rem(&ConstDivisor::new(b.clone())))),
                    run1(|| f(&(&a).div_rem(&ConstDivisor::new(b.clone())))),
                    run1(|| {
                        use dashu_base::DivRemAssign;
                        let mut x = a.clone();
                        let r = x.div_rem_assign(&ConstDivisor::new(b.clone()));
                        f(&(x, r))
                    }),
                ];
                merge(&["v", "r", "as"], rs)
            }
            _ => return Err("__none__".into()),
        }
    })())
    .and_then(|r| match r {
        Err(e) if e == "__none__" => None,
        other => Some(other),
    })
}
