//! Division ops of C02 that are not already in ops_int.rs: is_multiple_of for IBig, the const
//! (double-word divisor) divisibility test, ConstDivisor constructors from machine words, and
//! separate `/` and `%` through a ConstDivisor (so that a defect in one operator is not hidden
//! behind a forms-disagree line of the combined op).
use dashu_base::DivRem;
use dashu_int::{fast_div::ConstDivisor, DoubleWord, IBig, UBig, Word};
use verif_harness::forms::{merge, run1};
use verif_harness::util::*;

fn fu(x: &UBig) -> String {
    f_ubig(x)
}
fn fi(x: &IBig) -> String {
    f_ibig(x)
}

fn p_dword(s: &str) -> Result<DoubleWord, String> {
    let ws = hex_to_words(s).ok_or_else(|| format!("bad-arg dword {}", s))?;
    let mut n = ws.len();
    while n > 0 && ws[n - 1] == 0 {
        n -= 1;
    }
    if n > 2 {
        return Err(format!("bad-arg dword {}", s));
    }
    let lo = if n > 0 { ws[0] } else { 0 };
    let hi = if n > 1 { ws[1] } else { 0 };
    Ok((lo as DoubleWord) | ((hi as DoubleWord) << WBITS))
}

fn p_word(s: &str) -> Result<Word, String> {
    let d = p_dword(s)?;
    if d > Word::MAX as DoubleWord {
        return Err(format!("bad-arg word {}", s));
    }
    Ok(d as Word)
}

pub fn dispatch(op: &str, args: &[&str]) -> Option<Res> {
    Some((|| -> Res {
        match op {
            "i.ismultiple" => {
                let a = p_ibig(arg(args, 0)?)?;
                let b = p_ibig(arg(args, 1)?)?;
                Ok(a.is_multiple_of(&b).to_string())
            }
            "u.ismultipleconst" => {
                let a = p_ubig(arg(args, 0)?)?;
                let b = p_dword(arg(args, 1)?)?;
                Ok(a.is_multiple_of_const(b).to_string())
            }
            "i.ismultipleconst" => {
                let a = p_ibig(arg(args, 0)?)?;
                let b = p_dword(arg(args, 1)?)?;
                Ok(a.is_multiple_of_const(b).to_string())
            }
            "cd.fromword" => Ok(fu(&ConstDivisor::from_word(p_word(arg(args, 0)?)?).value())),
            "cd.fromdword" => Ok(fu(&ConstDivisor::from_dword(p_dword(arg(args, 0)?)?).value())),
            // quotient only, every form of `/` by a ConstDivisor
            "u.cdiv" => {
                let a = p_ubig(arg(args, 0)?)?;
                let b = p_ubig(arg(args, 1)?)?;
                let rs = vec![
                    run1(|| fu(&(a.clone() / &ConstDivisor::new(b.clone())))),
                    run1(|| fu(&(&a / &ConstDivisor::new(b.clone())))),
                    run1(|| {
                        let mut x = a.clone();
                        x /= &ConstDivisor::new(b.clone());
                        fu(&x)
                    }),
                ];
                merge(&["v", "r", "as"], rs)
            }
            // remainder only, every form of `%` by a ConstDivisor
            "u.crem" => {
                let a = p_ubig(arg(args, 0)?)?;
                let b = p_ubig(arg(args, 1)?)?;
                let rs = vec![
                    run1(|| fu(&(a.clone() % &ConstDivisor::new(b.clone())))),
                    run1(|| fu(&(&a % &ConstDivisor::new(b.clone())))),
                    run1(|| {
                        let mut x = a.clone();
                        x %= &ConstDivisor::new(b.clone());
                        fu(&x)
                    }),
                ];
                merge(&["v", "r", "as"], rs)
            }
            // quotient and remainder through div_rem / div_rem_assign only
            "u.cdivrem2" => {
                let a = p_ubig(arg(args, 0)?)?;
                let b = p_ubig(arg(args, 1)?)?;
                let f = |x: &(UBig, UBig)| format!("{} {}", fu(&x.0), fu(&x.1));
                let rs = vec![
                    run1(|| f(&a.clone().div_rem(&ConstDivisor::new(b.clone())))),
                    run1(|| f(&(&a).div_rem(&ConstDivisor::new(b.clone())))),
                    run1(|| {
                        use dashu_base::DivRemAssign;
                        let mut x = a.clone();
                        let r = x.div_rem_assign(&ConstDivisor::new(b.clone()));
                        f(&(x, r))
                    }),
                ];
                merge(&["v", "r", "as"], rs)
            }
            "i.cdiv" => {
                let a = p_ibig(arg(args, 0)?)?;
                let b = p_ubig(arg(args, 1)?)?;
                let rs = vec![
                    run1(|| fi(&(a.clone() / &ConstDivisor::new(b.clone())))),
                    run1(|| fi(&(&a / &ConstDivisor::new(b.clone())))),
                    run1(|| {
                        let mut x = a.clone();
                        x /= &ConstDivisor::new(b.clone());
                        fi(&x)
                    }),
                ];
                merge(&["v", "r", "as"], rs)
            }
            "i.crem" => {
                let a = p_ibig(arg(args, 0)?)?;
                let b = p_ubig(arg(args, 1)?)?;
                let rs = vec![
                    run1(|| fi(&(a.clone() % &ConstDivisor::new(b.clone())))),
                    run1(|| fi(&(&a % &ConstDivisor::new(b.clone())))),
                    run1(|| {
                        let mut x = a.clone();
                        x %= &ConstDivisor::new(b.clone());
                        fi(&x)
                    }),
                ];
                merge(&["v", "r", "as"], rs)
            }
            "i.cdivrem2" => {
                let a = p_ibig(arg(args, 0)?)?;
                let b = p_ubig(arg(args, 1)?)?;
                let f = |x: &(IBig, IBig)| format!("{} {}", fi(&x.0), fi(&x.1));
                let rs = vec![
                    run1(|| f(&a.clone().div_rem(&ConstDivisor::new(b.clone())))),
                    run1(|| f(&(&a).div_rem(&ConstDivisor::new(b.clone())))),
                    run1(|| {
                        use dashu_base::DivRemAssign;
                        let mut x = a.clone();
                        let r = x.div_rem_assign(&ConstDivisor::new(b.clone()));
                        f(&(x, r))
                    }),
                ];
                merge(&["v", "r", "as"], rs)
            }
            _ => return Err("__none__".into()),
        }
    })())
    .and_then(|r| match r {
        Err(e) if e == "__none__" => None,
        other => Some(other),
    })
}
