//! Runtime for the generated forms table (gen/forms_int.rs).
use dashu_base::Sign;
use dashu_int::{IBig, UBig, Word};
pub use verif_harness::forms::run1;
use verif_harness::util::*;

#[derive(Clone)]
pub struct Vals {
    pub ua: Option<UBig>,
    pub ub: Option<UBig>,
    pub ia: IBig,
    pub ib: IBig,
    ma: Option<(bool, u128)>,
    mb: Option<(bool, u128)>,
}

fn small(v: &IBig) -> Option<(bool, u128)> {
    let (sign, ws) = v.as_sign_words();
    let per = 128 / Word::BITS as usize;
    if ws.len() > per {
        return None;
    }
    let mut m: u128 = 0;
    for (i, w) in ws.iter().enumerate() {
        m |= (*w as u128) << (i as u32 * Word::BITS);
    }
    Some((sign == Sign::Negative, m))
}

pub trait PrimFrom: Sized {
    fn from_sign_mag(neg: bool, mag: u128) -> Option<Self>;
}
macro_rules! impl_prim_from {
    ($($t:ty)*) => {$(
        impl PrimFrom for $t {
            fn from_sign_mag(neg: bool, mag: u128) -> Option<Self> {
                if !neg {
                    <$t>::try_from(mag).ok()
                } else if mag <= (1u128 << 127) {
                    <$t>::try_from((mag as i128).wrapping_neg()).ok()
                } else {
                    None
                }
            }
        }
    )*};
}
impl_prim_from!(u8 u16 u32 u64 u128 usize i8 i16 i32 i64 i128 isize);

impl Vals {
    pub fn new(a: IBig, b: IBig) -> Self {
        let ua = if a.sign() == Sign::Positive { Some(a.clone().into_parts().1) } else { None };
        let ub = if b.sign() == Sign::Positive { Some(b.clone().into_parts().1) } else { None };
        let ma = small(&a);
        let mb = small(&b);
        Vals { ua, ub, ia: a, ib: b, ma, mb }
    }
    pub fn prim_a<T: PrimFrom>(&self) -> Option<T> {
        self.ma.and_then(|(n, m)| T::from_sign_mag(n, m))
    }
    pub fn prim_b<T: PrimFrom>(&self) -> Option<T> {
        self.mb.and_then(|(n, m)| T::from_sign_mag(n, m))
    }
}

pub trait Show {
    fn show(&self) -> String;
}
impl Show for UBig {
    fn show(&self) -> String {
        f_ubig(self)
    }
}
impl Show for IBig {
    fn show(&self) -> String {
        f_ibig(self)
    }
}
macro_rules! impl_show_unsigned {
    ($($t:ty)*) => {$( impl Show for $t { fn show(&self) -> String { format!("{:x}", self) } } )*};
}
macro_rules! impl_show_signed {
    ($($t:ty)*) => {$( impl Show for $t { fn show(&self) -> String {
        if *self < 0 { format!("-{:x}", self.unsigned_abs()) } else { format!("{:x}", self) } } } )*};
}
impl_show_unsigned!(u8 u16 u32 u64 u128 usize);
impl_show_signed!(i8 i16 i32 i64 i128 isize);
impl<A: Show, B: Show> Show for (A, B) {
    fn show(&self) -> String {
        format!("{} {}", self.0.show(), self.1.show())
    }
}
impl<A: Show, B: Show, C: Show> Show for (A, B, C) {
    fn show(&self) -> String {
        format!("{} {} {}", self.0.show(), self.1.show(), self.2.show())
    }
}
pub fn show<T: Show>(x: &T) -> String {
    x.show()
}
