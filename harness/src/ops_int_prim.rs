//! C01: `+ - *` between UBig / IBig and the primitive integer types (add_ops.rs / mul_ops.rs "Ops with primitives":
//! `impl_commutative_binop_with_primitive!`, `impl_binop_assign_with_primitive!`), every call form:
//!   up.<op> <ty> <ubig> <prim>   UBig ∘ prim   (vp, rp, vpr, rpr = value/reference on either side; as, asr = assign)
//!   pu.<op> <ty> <prim> <ubig>   prim ∘ UBig   (pv, pr, prv, prr)
//!   ip.<op> <ty> <ibig> <prim>   IBig ∘ prim
//!   pi.<op> <ty> <prim> <ibig>   prim ∘ IBig
//! `<ty>` is the Rust name of the primitive type, `<prim>` its value as `[-]hex`; a value outside the type is `bad-arg`.
use dashu_int::{IBig, UBig};
use verif_harness::forms::{merge, run1};
use verif_harness::util::*;

fn fu(x: &UBig) -> String {
    f_ubig(x)
}
fn fi(x: &IBig) -> String {
    f_ibig(x)
}

macro_rules! big_prim {
    ($t:ident, $p:expr, ($a:expr, $op:tt, $opa:tt, $fmt:expr)) => {{
        let a = $a;
        let p: $t = $p;
        let rs = vec![
            run1(|| $fmt(&(a.clone() $op p))),
            run1(|| $fmt(&(&a $op p))),
            run1(|| $fmt(&(a.clone() $op &p))),
            run1(|| $fmt(&(&a $op &p))),
            run1(|| { let mut x = a.clone(); x $opa p; $fmt(&x) }),
            run1(|| { let mut x = a.clone(); x $opa &p; $fmt(&x) }),
        ];
        merge(&["vp", "rp", "vpr", "rpr", "as", "asr"], rs)
    }};
}

macro_rules! prim_big {
    ($t:ident, $p:expr, ($a:expr, $op:tt, $fmt:expr)) => {{
        let a = $a;
        let p: $t = $p;
        let rs = vec![
            run1(|| $fmt(&(p $op a.clone()))),
            run1(|| $fmt(&(p $op &a))),
            run1(|| $fmt(&(&p $op a.clone()))),
            run1(|| $fmt(&(&p $op &a))),
        ];
        merge(&["pv", "pr", "prv", "prr"], rs)
    }};
}

/// select the primitive type by name, convert the value (fails ⇒ bad-arg), expand `$mac!(type, value, args…)`
macro_rules! by_type {
    ($tyname:expr, $v:expr, [$($t:ident)*], $mac:ident, $args:tt) => {
        match $tyname {
            $( stringify!($t) => {
                let p: $t = <$t>::try_from($v.clone()).map_err(|_| format!("bad-arg {} {}", $tyname, f_ibig(&$v)))?;
                $mac!($t, p, $args)
            } )*
            _ => Err(format!("bad-arg type {}", $tyname)),
        }
    };
}

pub fn dispatch(op: &str, args: &[&str]) -> Option<Res> {
    if !(op.starts_with("up.") || op.starts_with("pu.") || op.starts_with("ip.") || op.starts_with("pi.")) {
        return None;
    }
    Some((|| -> Res {
        let ty = arg(args, 0)?;
        match op {
            "up.add" | "up.sub" | "up.mul" => {
                let a = p_ubig(arg(args, 1)?)?;
                let v = p_ibig(arg(args, 2)?)?;
                match op {
                    "up.add" => by_type!(ty, v, [u8 u16 u32 u64 u128 usize], big_prim, (a, +, +=, fu)),
                    "up.sub" => by_type!(ty, v, [u8 u16 u32 u64 u128 usize], big_prim, (a, -, -=, fu)),
                    _ => by_type!(ty, v, [u8 u16 u32 u64 u128 usize], big_prim, (a, *, *=, fu)),
                }
            }
            "pu.add" | "pu.sub" | "pu.mul" => {
                let v = p_ibig(arg(args, 1)?)?;
                let a = p_ubig(arg(args, 2)?)?;
                match op {
                    "pu.add" => by_type!(ty, v, [u8 u16 u32 u64 u128 usize], prim_big, (a, +, fu)),
                    "pu.sub" => by_type!(ty, v, [u8 u16 u32 u64 u128 usize], prim_big, (a, -, fu)),
                    _ => by_type!(ty, v, [u8 u16 u32 u64 u128 usize], prim_big, (a, *, fu)),
                }
            }
            "ip.add" | "ip.sub" | "ip.mul" => {
                let a = p_ibig(arg(args, 1)?)?;
                let v = p_ibig(arg(args, 2)?)?;
                match op {
                    "ip.add" => by_type!(ty, v, [u8 u16 u32 u64 u128 usize i8 i16 i32 i64 i128 isize], big_prim, (a, +, +=, fi)),
                    "ip.sub" => by_type!(ty, v, [u8 u16 u32 u64 u128 usize i8 i16 i32 i64 i128 isize], big_prim, (a, -, -=, fi)),
                    _ => by_type!(ty, v, [u8 u16 u32 u64 u128 usize i8 i16 i32 i64 i128 isize], big_prim, (a, *, *=, fi)),
                }
            }
            "pi.add" | "pi.sub" | "pi.mul" => {
                let v = p_ibig(arg(args, 1)?)?;
                let a = p_ibig(arg(args, 2)?)?;
                match op {
                    "pi.add" => by_type!(ty, v, [u8 u16 u32 u64 u128 usize i8 i16 i32 i64 i128 isize], prim_big, (a, +, fi)),
                    "pi.sub" => by_type!(ty, v, [u8 u16 u32 u64 u128 usize i8 i16 i32 i64 i128 isize], prim_big, (a, -, fi)),
                    _ => by_type!(ty, v, [u8 u16 u32 u64 u128 usize i8 i16 i32 i64 i128 isize], prim_big, (a, *, fi)),
                }
            }
            _ => Err(format!("bad-op {}", op)),
        }
    })())
}
