//! Rational arithmetic (C04): every op runs all of its call forms (C15) and prints numerator and
//! denominator *as stored* (`numerator()`, `denominator()`), so a non-reduced RBig is visible.
//!
//! Rational argument: `q:<num hex int>/<den hex nat>:<R|X>` built with `RBig::from_parts`
//! (reduces) or `Relaxed::from_parts`.  Integer operand: `i:<hex>` (IBig) or `u:<hex>` (UBig).
//! Register programs: `prog <q…> ; <step> <step> …`, step = `op,arg,arg` (see `step`).
use dashu_base::{Abs, DivEuclid, DivRemEuclid, Inverse, RemEuclid, Sign};
use dashu_int::{IBig, UBig};
use dashu_ratio::{RBig, Relaxed};
use std::panic::{catch_unwind, AssertUnwindSafe};
use verif_harness::util::*;

#[derive(Clone)]
pub enum Val {
    R(RBig),
    X(Relaxed),
}

pub trait QLike {
    fn show(&self) -> String;
}
impl QLike for RBig {
    fn show(&self) -> String {
        format!("{}/{}", f_ibig(self.numerator()), f_ubig(self.denominator()))
    }
}
impl QLike for Relaxed {
    fn show(&self) -> String {
        format!("{}/{}", f_ibig(self.numerator()), f_ubig(self.denominator()))
    }
}
impl QLike for IBig {
    fn show(&self) -> String {
        f_ibig(self)
    }
}
impl<A: QLike, B: QLike> QLike for (A, B) {
    fn show(&self) -> String {
        format!("{} {}", self.0.show(), self.1.show())
    }
}
impl QLike for Val {
    fn show(&self) -> String {
        match self {
            Val::R(r) => r.show(),
            Val::X(x) => x.show(),
        }
    }
}

/// run one call form; Err("panic <Kind>") if it panicked
fn catch<T>(f: impl FnOnce() -> T) -> Result<T, String> {
    match catch_unwind(AssertUnwindSafe(f)) {
        Ok(v) => Ok(v),
        Err(_) => {
            let (msg, loc) = LAST_PANIC
                .with(|p| p.borrow_mut().take())
                .unwrap_or_else(|| ("?".into(), "?".into()));
            Err(format!("panic {}", classify_panic(&msg, &loc)))
        }
    }
}

/// all forms must agree (stored representation or panic kind); the agreed outcome is returned
fn agree<T: QLike>(names: &[&str], rs: Vec<Result<T, String>>) -> Result<T, String> {
    let strs: Vec<String> = rs
        .iter()
        .map(|r| match r {
            Ok(v) => format!("ok {}", v.show()),
            Err(e) => e.clone(),
        })
        .collect();
    if strs.iter().all(|s| *s == strs[0]) {
        rs.into_iter().next().unwrap()
    } else {
        let mut s = String::from("forms-disagree");
        for (n, r) in names.iter().zip(strs.iter()) {
            s.push_str(&format!(" [{}: {}]", n, r.replace(' ', "_")));
        }
        Err(s)
    }
}

macro_rules! bin6 {
    ($a:expr, $b:expr, $op:tt, $opa:tt) => {{
        let (a, b) = ($a, $b);
        agree(
            &["vv", "vr", "rv", "rr", "as", "asr"],
            vec![
                catch(|| a.clone() $op b.clone()),
                catch(|| a.clone() $op b),
                catch(|| a $op b.clone()),
                catch(|| a $op b),
                catch(|| { let mut x = a.clone(); x $opa b.clone(); x }),
                catch(|| { let mut x = a.clone(); x $opa b; x }),
            ],
        )
    }};
}
macro_rules! bin4 {
    ($a:expr, $b:expr, $op:tt) => {{
        let (a, b) = ($a, $b);
        agree(
            &["vv", "vr", "rv", "rr"],
            vec![
                catch(|| a.clone() $op b.clone()),
                catch(|| a.clone() $op b),
                catch(|| a $op b.clone()),
                catch(|| a $op b),
            ],
        )
    }};
}
macro_rules! meth4 {
    ($a:expr, $b:expr, $m:ident) => {{
        let (a, b) = ($a, $b);
        agree(
            &["vv", "vr", "rv", "rr"],
            vec![
                catch(|| a.clone().$m(b.clone())),
                catch(|| a.clone().$m(b)),
                catch(|| a.$m(b.clone())),
                catch(|| a.$m(b)),
            ],
        )
    }};
}

/// integer operand of a mixed operation
#[derive(Clone)]
pub enum Z {
    U(UBig),
    I(IBig),
}

fn p_z(s: &str) -> Result<Z, String> {
    if let Some(h) = s.strip_prefix("u:") {
        Ok(Z::U(p_ubig(h)?))
    } else if let Some(h) = s.strip_prefix("i:") {
        Ok(Z::I(p_ibig(h)?))
    } else {
        Err(format!("bad-arg int {}", s))
    }
}

fn p_parts(s: &str) -> Result<(IBig, UBig, char), String> {
    let body = s.strip_prefix("q:").ok_or_else(|| format!("bad-arg q {}", s))?;
    let mut it = body.split(':');
    let frac = it.next().ok_or("bad-arg q")?;
    let kind = it.next().ok_or("bad-arg q kind")?;
    let mut nd = frac.split('/');
    let n = p_ibig(nd.next().ok_or("bad-arg q num")?)?;
    let d = p_ubig(nd.next().ok_or("bad-arg q den")?)?;
    let k = match kind {
        "R" => 'R',
        "X" => 'X',
        _ => return Err(format!("bad-arg q kind {}", s)),
    };
    Ok((n, d, k))
}

/// may panic (zero denominator): callers run it under `catch`
fn p_q(s: &str) -> Result<Val, String> {
    let (n, d, k) = p_parts(s)?;
    Ok(if k == 'R' { Val::R(RBig::from_parts(n, d)) } else { Val::X(Relaxed::from_parts(n, d)) })
}

macro_rules! kind_ops {
    ($modname:ident, $T:ty) => {
        mod $modname {
            use super::*;

            pub fn bin(op: &str, a: &$T, b: &$T) -> Option<Result<$T, String>> {
                Some(match op {
                    "add" => bin6!(a, b, +, +=),
                    "sub" => bin6!(a, b, -, -=),
                    "mul" => bin6!(a, b, *, *=),
                    "div" => bin6!(a, b, /, /=),
                    "rem" => bin6!(a, b, %, %=),
                    "remeuclid" => meth4!(a, b, rem_euclid),
                    _ => return None,
                })
            }

            pub fn diveuclid(a: &$T, b: &$T) -> Result<IBig, String> {
                meth4!(a, b, div_euclid)
            }

            pub fn divremeuclid(a: &$T, b: &$T) -> Result<(IBig, $T), String> {
                meth4!(a, b, div_rem_euclid)
            }

            pub fn un(op: &str, a: &$T) -> Option<Result<$T, String>> {
                Some(match op {
                    "neg" => agree(&["v", "r"], vec![catch(|| -a.clone()), catch(|| -a)]),
                    "abs" => agree(&["v"], vec![catch(|| a.clone().abs())]),
                    "inv" => agree(&["v", "r"], vec![catch(|| a.clone().inv()), catch(|| a.inv())]),
                    "sqr" => agree(&["sqr"], vec![catch(|| a.sqr())]),
                    "cubic" => agree(&["cubic"], vec![catch(|| a.cubic())]),
                    "signum" => agree(&["signum"], vec![catch(|| a.signum())]),
                    "fract" => agree(
                        &["fract", "split"],
                        vec![catch(|| a.fract()), catch(|| a.clone().split_at_point().1)],
                    ),
                    _ => return None,
                })
            }

            pub fn pow(a: &$T, n: usize) -> Result<$T, String> {
                agree(&["pow"], vec![catch(|| a.pow(n))])
            }

            pub fn mulsign(a: &$T, s: Sign) -> Result<$T, String> {
                agree(&["v"], vec![catch(|| a.clone() * s)])
            }

            /// `a op z`
            pub fn int_r(op: &str, a: &$T, z: &Z) -> Option<Result<$T, String>> {
                Some(match (op, z) {
                    ("add", Z::U(u)) => bin4!(a, u, +),
                    ("add", Z::I(i)) => bin4!(a, i, +),
                    ("sub", Z::U(u)) => bin4!(a, u, -),
                    ("sub", Z::I(i)) => bin4!(a, i, -),
                    ("mul", Z::U(u)) => bin4!(a, u, *),
                    ("mul", Z::I(i)) => bin4!(a, i, *),
                    ("div", Z::U(u)) => bin4!(a, u, /),
                    ("div", Z::I(i)) => bin4!(a, i, /),
                    _ => return None,
                })
            }

            /// `z op a`
            pub fn int_l(op: &str, z: &Z, a: &$T) -> Option<Result<$T, String>> {
                Some(match (op, z) {
                    ("add", Z::U(u)) => bin4!(u, a, +),
                    ("add", Z::I(i)) => bin4!(i, a, +),
                    ("sub", Z::U(u)) => bin4!(u, a, -),
                    ("sub", Z::I(i)) => bin4!(i, a, -),
                    ("mul", Z::U(u)) => bin4!(u, a, *),
                    ("mul", Z::I(i)) => bin4!(i, a, *),
                    ("div", Z::U(u)) => bin4!(u, a, /),
                    ("div", Z::I(i)) => bin4!(i, a, /),
                    _ => return None,
                })
            }

            pub fn ints(op: &str, a: &$T) -> Option<Result<IBig, String>> {
                Some(match op {
                    "trunc" => agree(
                        &["trunc", "split"],
                        vec![catch(|| a.trunc()), catch(|| a.clone().split_at_point().0)],
                    ),
                    "floor" => agree(&["floor"], vec![catch(|| a.floor())]),
                    "ceil" => agree(&["ceil"], vec![catch(|| a.ceil())]),
                    "round" => agree(&["round"], vec![catch(|| a.round())]),
                    _ => return None,
                })
            }
        }
    };
}
kind_ops!(rk, RBig);
kind_ops!(xk, Relaxed);

fn wrap_r(r: Option<Result<RBig, String>>) -> Option<Result<Val, String>> {
    r.map(|x| x.map(Val::R))
}
fn wrap_x(r: Option<Result<Relaxed, String>>) -> Option<Result<Val, String>> {
    r.map(|x| x.map(Val::X))
}

fn v_bin(op: &str, a: &Val, b: &Val) -> Option<Result<Val, String>> {
    match (a, b) {
        (Val::R(a), Val::R(b)) => wrap_r(rk::bin(op, a, b)),
        (Val::X(a), Val::X(b)) => wrap_x(xk::bin(op, a, b)),
        _ => None,
    }
}

fn v_un(op: &str, a: &Val) -> Option<Result<Val, String>> {
    match (op, a) {
        ("relax", Val::R(a)) => Some(catch(|| Val::X(a.clone().relax()))),
        ("relax", Val::X(a)) => Some(Ok(Val::X(a.clone()))),
        ("canon", Val::X(a)) => Some(catch(|| Val::R(a.clone().canonicalize()))),
        ("canon", Val::R(a)) => Some(catch(|| Val::R(a.clone().relax().canonicalize()))),
        (_, Val::R(a)) => wrap_r(rk::un(op, a)),
        (_, Val::X(a)) => wrap_x(xk::un(op, a)),
    }
}

fn v_pow(a: &Val, n: usize) -> Result<Val, String> {
    match a {
        Val::R(a) => rk::pow(a, n).map(Val::R),
        Val::X(a) => xk::pow(a, n).map(Val::X),
    }
}

fn p_sign(s: &str) -> Result<Sign, String> {
    match s {
        "+" => Ok(Sign::Positive),
        "-" => Ok(Sign::Negative),
        _ => Err(format!("bad-arg sign {}", s)),
    }
}

fn v_mulsign(a: &Val, s: Sign) -> Result<Val, String> {
    match a {
        Val::R(a) => rk::mulsign(a, s).map(Val::R),
        Val::X(a) => xk::mulsign(a, s).map(Val::X),
    }
}

fn v_int_r(op: &str, a: &Val, z: &Z) -> Option<Result<Val, String>> {
    match a {
        Val::R(a) => wrap_r(rk::int_r(op, a, z)),
        Val::X(a) => wrap_x(xk::int_r(op, a, z)),
    }
}

fn v_int_l(op: &str, z: &Z, a: &Val) -> Option<Result<Val, String>> {
    match a {
        Val::R(a) => wrap_r(rk::int_l(op, z, a)),
        Val::X(a) => wrap_x(xk::int_l(op, z, a)),
    }
}

/// one program step `op,arg,arg`; None = malformed
fn step(regs: &[Val], tok: &str) -> Option<Result<Val, String>> {
    let parts: Vec<&str> = tok.split(',').collect();
    let reg = |s: &str| -> Option<&Val> { s.parse::<usize>().ok().and_then(|i| regs.get(i)) };
    match parts.as_slice() {
        [op, a, b] => {
            if *op == "pow" {
                return Some(v_pow(reg(a)?, b.parse::<usize>().ok()?));
            }
            if *op == "mulsign" {
                return Some(v_mulsign(reg(a)?, p_sign(b).ok()?));
            }
            if let Some(o) = op.strip_suffix('z') {
                // reg op int
                if matches!(o, "add" | "sub" | "mul" | "div") {
                    return v_int_r(o, reg(a)?, &p_z(b).ok()?);
                }
            }
            if let Some(o) = op.strip_prefix('z') {
                if matches!(o, "add" | "sub" | "mul" | "div") {
                    return v_int_l(o, &p_z(a).ok()?, reg(b)?);
                }
            }
            v_bin(op, reg(a)?, reg(b)?)
        }
        [op, a] => v_un(op, reg(a)?),
        _ => None,
    }
}

fn prog(args: &[&str]) -> Res {
    let mut regs: Vec<Val> = Vec::new();
    let mut out: Vec<String> = Vec::new();
    let mut i = 0;
    while i < args.len() && args[i] != ";" {
        match catch(|| p_q(args[i])) {
            Ok(Ok(v)) => {
                out.push(v.show());
                regs.push(v);
            }
            Ok(Err(e)) => return Err(e),
            Err(p) => {
                out.push(p.replace(' ', ":"));
                return Ok(out.join(" "));
            }
        }
        i += 1;
    }
    if i >= args.len() {
        return Err("bad-arg prog without ;".into());
    }
    for tok in &args[i + 1..] {
        match step(&regs, tok) {
            None => return Err(format!("bad-op step {}", tok)),
            Some(Ok(v)) => {
                out.push(v.show());
                regs.push(v);
            }
            Some(Err(e)) => {
                if e.starts_with("panic ") {
                    out.push(e.replace(' ', ":"));
                    return Ok(out.join(" "));
                }
                return Err(e);
            }
        }
    }
    Ok(out.join(" "))
}

fn show_res<T: QLike>(r: Result<T, String>) -> Res {
    r.map(|v| v.show())
}

fn opt<T: QLike>(r: Option<Result<T, String>>) -> Res {
    match r {
        Some(x) => show_res(x),
        None => Err("__none__".into()),
    }
}

// ---------------------------------------------------------------- C18: rational approximation

fn p_r(s: &str) -> Result<RBig, String> {
    match p_q(s)? {
        Val::R(r) => Ok(r),
        Val::X(_) => Err("bad-arg RBig expected".into()),
    }
}

fn p_bits(s: &str, n: usize) -> Result<u64, String> {
    let b = s.strip_prefix("x:").ok_or_else(|| format!("bad-arg bits {}", s))?;
    if b.len() != n {
        return Err(format!("bad-arg bits {}", s));
    }
    u64::from_str_radix(b, 16).map_err(|_| format!("bad-arg bits {}", s))
}

fn show_approx(a: dashu_base::Approximation<RBig, Sign>) -> String {
    match a {
        dashu_base::Approximation::Exact(v) => format!("exact {}", v.show()),
        dashu_base::Approximation::Inexact(v, s) => format!("inexact {} {}", v.show(), f_sign(s)),
    }
}

fn simplify(o: &str, args: &[&str]) -> Res {
    match o {
        "in" => {
            let a = p_r(arg(args, 0)?)?;
            let b = p_r(arg(args, 1)?)?;
            catch(|| RBig::simplest_in(a.clone(), b.clone())).map(|v| v.show())
        }
        "simpler" => {
            let a = p_r(arg(args, 0)?)?;
            let b = p_r(arg(args, 1)?)?;
            catch(|| a.is_simpler_than(&b)).map(|v| v.to_string())
        }
        "nextup" | "nextdown" | "nearest" => {
            let a = p_r(arg(args, 0)?)?;
            let lim = match p_z(arg(args, 1)?)? {
                Z::U(u) => u,
                Z::I(_) => return Err("bad-arg limit must be u:".into()),
            };
            match o {
                "nextup" => catch(|| a.next_up(&lim)).map(|v| v.show()),
                "nextdown" => catch(|| a.next_down(&lim)).map(|v| v.show()),
                _ => catch(|| {
                    // an exact tie between the two neighbours may go either way (the property
                    // promises "the closer of the two"): print both neighbours instead of the choice
                    let r = a.nearest(&lim);
                    if let dashu_base::Approximation::Inexact(v, s) = &r {
                        let dn = a.next_down(&lim);
                        let up = a.next_up(&lim);
                        let tie = (&a - &dn) == (&up - &a);
                        let consistent = (*v == dn && *s == Sign::Negative)
                            || (*v == up && *s == Sign::Positive);
                        if tie && consistent {
                            return format!("inexact-tie {} {}", dn.show(), up.show());
                        }
                    }
                    show_approx(r)
                }),
            }
        }
        "fromf32" => {
            let f = f32::from_bits(p_bits(arg(args, 0)?, 8)? as u32);
            catch(|| RBig::simplest_from_f32(f))
                .map(|v| v.map(|r| r.show()).unwrap_or_else(|| "none".into()))
        }
        "fromf64" => {
            let f = f64::from_bits(p_bits(arg(args, 0)?, 16)?);
            catch(|| RBig::simplest_from_f64(f))
                .map(|v| v.map(|r| r.show()).unwrap_or_else(|| "none".into()))
        }
        "fromfloat" => {
            // s.fromfloat <mode> d:<base> <signif hex int> d:<exp> d:<precision>
            let mode = arg(args, 0)?;
            let base = p_usize(arg(args, 1)?)?;
            if arg(args, 2)? == "inf" || arg(args, 2)? == "-inf" {
                return from_float_inf(mode, base, arg(args, 2)? == "-inf");
            }
            let signif = p_ibig(arg(args, 2)?)?;
            let exp = p_dec(arg(args, 3)?)? as isize;
            let prec = p_usize(arg(args, 4)?)?;
            from_float(mode, base, signif, exp, prec)
        }
        _ => Err("__none__".into()),
    }
}

fn from_float_g<R: dashu_float::round::ErrorBounds, const B: dashu_int::Word>(
    signif: IBig,
    exp: isize,
    prec: usize,
) -> Res {
    catch(|| {
        let repr = dashu_float::Repr::<B>::new(signif.clone(), exp);
        let f = dashu_float::FBig::<R, B>::from_repr(repr, dashu_float::Context::<R>::new(prec));
        RBig::simplest_from_float(&f)
    })
    .map(|v| v.map(|r| r.show()).unwrap_or_else(|| "none".into()))
}

fn from_float_inf_g<R: dashu_float::round::ErrorBounds, const B: dashu_int::Word>(neg: bool) -> Res {
    catch(|| {
        let f = if neg {
            dashu_float::FBig::<R, B>::NEG_INFINITY
        } else {
            dashu_float::FBig::<R, B>::INFINITY
        };
        RBig::simplest_from_float(&f)
    })
    .map(|v| v.map(|r| r.show()).unwrap_or_else(|| "none".into()))
}

fn from_float_inf(mode: &str, base: usize, neg: bool) -> Res {
    use dashu_float::round::mode::*;
    macro_rules! by_base {
        ($R:ty) => {
            match base {
                2 => from_float_inf_g::<$R, 2>(neg),
                3 => from_float_inf_g::<$R, 3>(neg),
                10 => from_float_inf_g::<$R, 10>(neg),
                16 => from_float_inf_g::<$R, 16>(neg),
                _ => Err("bad-arg base".into()),
            }
        };
    }
    match mode {
        "Zero" => by_base!(Zero),
        "Away" => by_base!(Away),
        "Up" => by_base!(Up),
        "Down" => by_base!(Down),
        "HalfAway" => by_base!(HalfAway),
        "HalfEven" => by_base!(HalfEven),
        _ => Err("bad-arg mode".into()),
    }
}

fn from_float(mode: &str, base: usize, signif: IBig, exp: isize, prec: usize) -> Res {
    use dashu_float::round::mode::*;
    macro_rules! by_base {
        ($R:ty) => {
            match base {
                2 => from_float_g::<$R, 2>(signif, exp, prec),
                3 => from_float_g::<$R, 3>(signif, exp, prec),
                10 => from_float_g::<$R, 10>(signif, exp, prec),
                16 => from_float_g::<$R, 16>(signif, exp, prec),
                _ => Err("bad-arg base".into()),
            }
        };
    }
    match mode {
        "Zero" => by_base!(Zero),
        "Away" => by_base!(Away),
        "Up" => by_base!(Up),
        "Down" => by_base!(Down),
        "HalfAway" => by_base!(HalfAway),
        "HalfEven" => by_base!(HalfEven),
        _ => Err("bad-arg mode".into()),
    }
}

pub fn dispatch(op: &str, args: &[&str]) -> Option<Res> {
    let r: Res = (|| -> Res {
        if op == "prog" {
            return prog(args);
        }
        if let Some(o) = op.strip_prefix("s.") {
            return simplify(o, args);
        }
        if let Some(o) = op.strip_prefix("q.") {
            match o {
                "fromparts" | "frompartssigned" => {
                    let n = p_ibig(arg(args, 0)?)?;
                    let k = arg(args, 2)?;
                    if o == "fromparts" {
                        let d = p_ubig(arg(args, 1)?)?;
                        return match k {
                            "R" => show_res(catch(|| RBig::from_parts(n.clone(), d.clone()))),
                            "X" => show_res(catch(|| Relaxed::from_parts(n.clone(), d.clone()))),
                            _ => Err("bad-arg kind".into()),
                        };
                    } else {
                        let d = p_ibig(arg(args, 1)?)?;
                        return match k {
                            "R" => show_res(catch(|| RBig::from_parts_signed(n.clone(), d.clone()))),
                            "X" => show_res(catch(|| Relaxed::from_parts_signed(n.clone(), d.clone()))),
                            _ => Err("bad-arg kind".into()),
                        };
                    }
                }
                "frompartsconst" => {
                    let s = p_sign(arg(args, 0)?)?;
                    // DoubleWord of the build (u128 with 64-bit words, u64 with force_bits="32")
                    let n = dashu_int::DoubleWord::from_str_radix(arg(args, 1)?, 16).map_err(|_| "bad-arg dword")?;
                    let d = dashu_int::DoubleWord::from_str_radix(arg(args, 2)?, 16).map_err(|_| "bad-arg dword")?;
                    return match arg(args, 3)? {
                        "R" => show_res(catch(|| RBig::from_parts_const(s, n, d))),
                        "X" => show_res(catch(|| Relaxed::from_parts_const(s, n, d))),
                        _ => Err("bad-arg kind".into()),
                    };
                }
                _ => {}
            }
            // ops with rational first operand
            if let Some(io) = o.strip_prefix('z') {
                if matches!(io, "add" | "sub" | "mul" | "div") {
                    let z = p_z(arg(args, 0)?)?;
                    let a = p_q(arg(args, 1)?)?;
                    return opt(v_int_l(io, &z, &a));
                }
            }
            let a = p_q(arg(args, 0)?)?;
            if let Some(io) = o.strip_suffix('z') {
                if matches!(io, "add" | "sub" | "mul" | "div") {
                    let z = p_z(arg(args, 1)?)?;
                    return opt(v_int_r(io, &a, &z));
                }
            }
            match o {
                "pow" => return show_res(v_pow(&a, p_usize(arg(args, 1)?)?)),
                "mulsign" => return show_res(v_mulsign(&a, p_sign(arg(args, 1)?)?)),
                "trunc" | "floor" | "ceil" | "round" => {
                    return match &a {
                        Val::R(a) => opt(rk::ints(o, a)),
                        Val::X(a) => opt(xk::ints(o, a)),
                    }
                }
                "split" => {
                    return match &a {
                        Val::R(a) => show_res(catch(|| a.clone().split_at_point())),
                        Val::X(a) => show_res(catch(|| a.clone().split_at_point())),
                    }
                }
                "diveuclid" | "divremeuclid" => {
                    let b = p_q(arg(args, 1)?)?;
                    return match (&a, &b, o) {
                        (Val::R(a), Val::R(b), "diveuclid") => show_res(rk::diveuclid(a, b)),
                        (Val::X(a), Val::X(b), "diveuclid") => show_res(xk::diveuclid(a, b)),
                        (Val::R(a), Val::R(b), _) => show_res(rk::divremeuclid(a, b)),
                        (Val::X(a), Val::X(b), _) => show_res(xk::divremeuclid(a, b)),
                        _ => Err("bad-arg kinds differ".into()),
                    };
                }
                _ => {}
            }
            if args.len() == 1 {
                return opt(v_un(o, &a));
            }
            let b = p_q(arg(args, 1)?)?;
            return opt(v_bin(o, &a, &b));
        }
        if let Some(o) = op.strip_prefix("rx.") {
            // the same parts as RBig and as Relaxed: `R-result X-result canonicalize(X-result)`
            let (n1, d1, _) = p_parts(arg(args, 0)?)?;
            let (n2, d2, _) = p_parts(arg(args, 1)?)?;
            let ra = RBig::from_parts(n1.clone(), d1.clone());
            let rb = RBig::from_parts(n2.clone(), d2.clone());
            let xa = Relaxed::from_parts(n1, d1);
            let xb = Relaxed::from_parts(n2, d2);
            let r = match rk::bin(o, &ra, &rb) {
                Some(r) => r,
                None => return Err("__none__".into()),
            };
            let x = xk::bin(o, &xa, &xb).unwrap();
            return match (r, x) {
                (Ok(r), Ok(x)) => {
                    let c = x.clone().canonicalize();
                    Ok(format!("{} {} {}", r.show(), x.show(), c.show()))
                }
                (Err(e1), Err(e2)) if e1 == e2 => Err(e1),
                (r, x) => Err(format!(
                    "rx-disagree [{}] [{}]",
                    r.map(|v| v.show()).unwrap_or_else(|e| e).replace(' ', "_"),
                    x.map(|v| v.show()).unwrap_or_else(|e| e).replace(' ', "_")
                )),
            };
        }
        Err("__none__".into())
    })();
    match r {
        Err(e) if e == "__none__" => None,
        other => Some(other),
    }
}
