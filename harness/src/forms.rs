//! Evaluate one operation through every call form the library offers and require that all
//! forms agree (C15); the agreed result is what is reported to the differ.

use crate::util::*;
use std::panic::{catch_unwind, AssertUnwindSafe};

/// run one form; "ok <v>" or "panic <kind>"
pub fn run1(f: impl FnOnce() -> String) -> String {
    match catch_unwind(AssertUnwindSafe(f)) {
        Ok(s) => format!("ok {}", s),
        Err(_) => {
            let (msg, loc) = LAST_PANIC
                .with(|p| p.borrow_mut().take())
                .unwrap_or_else(|| ("?".into(), "?".into()));
            format!("panic {}", classify_panic(&msg, &loc))
        }
    }
}

/// all forms must agree; result is the payload for the protocol line (without id)
pub fn merge(names: &[&str], rs: Vec<String>) -> Res {
    let first = rs[0].clone();
    if rs.iter().all(|r| *r == first) {
        if let Some(v) = first.strip_prefix("ok ") {
            Ok(v.to_string())
        } else {
            Err(first)
        }
    } else {
        let mut s = String::from("forms-disagree");
        for (n, r) in names.iter().zip(rs.iter()) {
            s.push_str(&format!(" [{}: {}]", n, r.replace(' ', "_")));
        }
        Err(s)
    }
}

/// binary operator: 4 ownership forms + 2 assign forms
#[macro_export]
macro_rules! forms_bin6 {
    ($a:expr, $b:expr, $op:tt, $opa:tt, $fmt:expr) => {{
        let a = $a;
        let b = $b;
        let rs = vec![
            $crate::forms::run1(|| $fmt(&(a.clone() $op b.clone()))),
            $crate::forms::run1(|| $fmt(&(a.clone() $op &b))),
            $crate::forms::run1(|| $fmt(&(&a $op b.clone()))),
            $crate::forms::run1(|| $fmt(&(&a $op &b))),
            $crate::forms::run1(|| { let mut x = a.clone(); x $opa b.clone(); $fmt(&x) }),
            $crate::forms::run1(|| { let mut x = a.clone(); x $opa &b; $fmt(&x) }),
        ];
        $crate::forms::merge(&["vv", "vr", "rv", "rr", "as", "asr"], rs)
    }};
}

/// binary operator: 4 ownership forms only
#[macro_export]
macro_rules! forms_bin4 {
    ($a:expr, $b:expr, $op:tt, $fmt:expr) => {{
        let a = $a;
        let b = $b;
        let rs = vec![
            $crate::forms::run1(|| $fmt(&(a.clone() $op b.clone()))),
            $crate::forms::run1(|| $fmt(&(a.clone() $op &b))),
            $crate::forms::run1(|| $fmt(&(&a $op b.clone()))),
            $crate::forms::run1(|| $fmt(&(&a $op &b))),
        ];
        $crate::forms::merge(&["vv", "vr", "rv", "rr"], rs)
    }};
}

/// trait-method binary op `a.method(b)` in 4 ownership forms
#[macro_export]
macro_rules! forms_meth4 {
    ($a:expr, $b:expr, $method:ident, $fmt:expr) => {{
        let a = $a;
        let b = $b;
        let rs = vec![
            $crate::forms::run1(|| $fmt(&(a.clone().$method(b.clone())))),
            $crate::forms::run1(|| $fmt(&(a.clone().$method(&b)))),
            $crate::forms::run1(|| $fmt(&((&a).$method(b.clone())))),
            $crate::forms::run1(|| $fmt(&((&a).$method(&b)))),
        ];
        $crate::forms::merge(&["vv", "vr", "rv", "rr"], rs)
    }};
}
