//! C05 (round 5): the normalising constructor of floats, driven alone.
//!
//!   f.norm d:<B> <signif> d:<exp>   `Repr::<B>::new(signif, exp)` (= `Repr::normalize`: the `B == 2`, power-of-two and
//!                                   `UBig::remove` arms), cross-checked against `FBig::from_parts(..).into_repr()` and —
//!                                   when |signif| fits a double word — against the separate const normaliser
//!                                   `FBig::from_parts_const(sign, |signif|, exp, None)`; all must be the same
//!                                   representation, `==` and `cmp Equal`
//!                                   -> `<signif> d:<exp> pc:<precision inferred by from_parts_const | -> routes-agree` | `… BAD <route>`
use dashu_base::Sign;
use dashu_float::{round::mode, FBig, Repr};
use dashu_int::{DoubleWord, IBig, UBig, Word};
use std::cmp::Ordering;
use verif_harness::util::*;

fn p_isize(s: &str) -> Result<isize, String> {
    let v = p_dec(s)?;
    isize::try_from(v).map_err(|_| format!("bad-arg isize {}", s))
}

fn norm<const B: Word>(s: IBig, e: isize) -> Res {
    let r = Repr::<B>::new(s.clone(), e);
    let head = format!("{} {}", f_ibig(r.significand()), f_dec(r.exponent()));
    let mut bad = String::new();
    let f = FBig::<mode::Zero, B>::from_parts(s.clone(), e);
    let via = f.clone().into_repr();
    if via != r || via.cmp(&r) != Ordering::Equal || r.cmp(&via) != Ordering::Equal {
        bad.push_str(" BAD from_parts");
    }
    let (sign, mag) = s.clone().into_parts();
    let mut pc = "pc:-".to_string();
    if let Ok(dw) = DoubleWord::try_from(&mag) {
        let c = FBig::<mode::Zero, B>::from_parts_const(sign, dw, e, None);
        // the precision `from_parts_const` infers (its own `checked_mul` loop) — printed, compared with the mirrored loop
        pc = format!("pc:{}", c.precision());
        if c.repr().digits() > c.precision() + 1 {
            bad.push_str(" BAD from_parts_const:digits>precision+1");
        }
        if c.repr() != &r {
            bad.push_str(&format!(
                " BAD from_parts_const:{}e{}",
                f_ibig(c.repr().significand()),
                c.repr().exponent()
            ));
        }
        if c != f || c.cmp(&f) != Ordering::Equal || f.cmp(&c) != Ordering::Equal {
            bad.push_str(" BAD from_parts_const-vs-from_parts:cmp");
        }
    }
    // normalising again is the identity; a negated value is the negated representation
    let again = Repr::<B>::new(r.significand().clone(), r.exponent());
    if again != r {
        bad.push_str(" BAD idempotent");
    }
    let neg = Repr::<B>::new(-s, e);
    if neg.significand() != &(-r.significand().clone()) || neg.exponent() != r.exponent() {
        bad.push_str(" BAD neg");
    }
    let _ = Sign::Positive;
    Ok(if bad.is_empty() { format!("{} {} routes-agree", head, pc) } else { format!("{} {}{}", head, pc, bad) })
}

/// `c.ext x d:n` (E1, round 5): the integer producers that take a `usize` count, driven with ANY count up to usize::MAX —
/// `IBig >> n` (by value / by reference), `UBig |x| >> n` (both forms), `clear_high_bits(n)`, `split_bits(n)`,
/// `clear_bit(n)` and, when `n >= bit_len`, `nth_root(n)` of |x|: every result must be canonical (hook `repr_info`),
/// the two ownership forms equal, and `==` / `cmp Equal` / same hash feed as the same value parsed from text
/// -> `<x>>n> <|x|>>n> <clear_high> <lo> <hi> <clear_bit> <root|-> canon` | `… BAD <what>`
fn ext(x: IBig, n: usize) -> Res {
    use crate::ops_cmp::{canon_i, canon_u, feed};
    use dashu_base::BitTest;
    let mut bad = String::new();
    let (_, u) = x.clone().into_parts();
    let chk_u = |tag: &str, v: &UBig, bad: &mut String| {
        if let Some(e) = canon_u(v) {
            bad.push_str(&format!(" BAD {}:{}", tag, e));
        }
        let w = p_ubig(&f_ubig(v)).unwrap();
        if &w != v || w.cmp(v) != Ordering::Equal || v.cmp(&w) != Ordering::Equal || feed(&w) != feed(v) {
            bad.push_str(&format!(" BAD {}:eq-cmp-hash", tag));
        }
    };
    let s1 = x.clone() >> n;
    let s2 = &x >> n;
    if let Some(e) = canon_i(&s1) {
        bad.push_str(&format!(" BAD ishr:{}", e));
    }
    let w = p_ibig(&f_ibig(&s1)).unwrap();
    if s1 != s2 || s1.cmp(&s2) != Ordering::Equal || w != s1 || w.cmp(&s1) != Ordering::Equal || feed(&w) != feed(&s1) || feed(&s1) != feed(&s2) {
        bad.push_str(" BAD ishr:forms-eq-cmp-hash");
    }
    let t1 = u.clone() >> n;
    let t2 = &u >> n;
    if t1 != t2 {
        bad.push_str(" BAD ushr:forms");
    }
    chk_u("ushr", &t1, &mut bad);
    chk_u("ushr.ref", &t2, &mut bad);
    let mut c = u.clone();
    c.clear_high_bits(n);
    chk_u("clear_high", &c, &mut bad);
    let (lo, hi) = u.clone().split_bits(n);
    chk_u("lo", &lo, &mut bad);
    chk_u("hi", &hi, &mut bad);
    let mut cb = u.clone();
    cb.clear_bit(n);
    chk_u("clear_bit", &cb, &mut bad);
    let root = if n >= 1 && n >= u.bit_len() {
        let r = u.nth_root(n);
        chk_u("root", &r, &mut bad);
        f_ubig(&r)
    } else {
        "-".to_string()
    };
    Ok(format!(
        "{} {} {} {} {} {} {}{}",
        f_ibig(&s1),
        f_ubig(&t1),
        f_ubig(&c),
        f_ubig(&lo),
        f_ubig(&hi),
        f_ubig(&cb),
        root,
        if bad.is_empty() { " canon".to_string() } else { bad }
    ))
}

pub fn dispatch(op: &str, args: &[&str]) -> Option<Res> {
    if op == "c.ext" {
        return Some((|| -> Res { ext(p_ibig(arg(args, 0)?)?, p_usize(arg(args, 1)?)?) })());
    }
    if op != "f.norm" {
        return None;
    }
    Some((|| -> Res {
        let b = p_dec(arg(args, 0)?)?;
        let s = p_ibig(arg(args, 1)?)?;
        let e = p_isize(arg(args, 2)?)?;
        macro_rules! bases {
            ($($b:literal),*) => {
                match b {
                    $( $b => norm::<$b>(s, e), )*
                    _ => Err(format!("bad-arg base {}", b)),
                }
            };
        }
        bases!(
            2, 3, 4, 5, 6, 7, 8, 9, 10, 11, 12, 16, 24, 32, 36, 64, 100, 255, 256, 1000, 65536, 65537, 4294967296,
            4294967295, 9223372036854775808, 10000000000000000000, 18446744073709551615, 12157665459056928801
        )
    })())
}
