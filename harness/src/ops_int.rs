//! Integer ring arithmetic and division (C01, C02) — every op runs all of its call forms (C15).
use verif_harness::util::*;
use verif_harness::{forms_bin4, forms_bin6, forms_meth4};
use dashu_base::{DivEuclid, DivRem, DivRemAssign, DivRemEuclid, RemEuclid};
use dashu_int::{fast_div::ConstDivisor, IBig, UBig};

fn fu(x: &UBig) -> String {
    f_ubig(x)
}
fn fi(x: &IBig) -> String {
    f_ibig(x)
}
fn fuu(x: &(UBig, UBig)) -> String {
    format!("{} {}", f_ubig(&x.0), f_ubig(&x.1))
}
fn fii(x: &(IBig, IBig)) -> String {
    format!("{} {}", f_ibig(&x.0), f_ibig(&x.1))
}
fn fiu(x: &(IBig, UBig)) -> String {
    format!("{} {}", f_ibig(&x.0), f_ubig(&x.1))
}

pub fn dispatch(op: &str, args: &[&str]) -> Option<Res> {
    Some((|| -> Res {
        match op {
            // ---------------------------------------------------------------- UBig ring
            "u.add" => forms_bin6!(p_ubig(arg(args, 0)?)?, p_ubig(arg(args, 1)?)?, +, +=, fu),
            "u.sub" => forms_bin6!(p_ubig(arg(args, 0)?)?, p_ubig(arg(args, 1)?)?, -, -=, fu),
            "u.mul" => forms_bin6!(p_ubig(arg(args, 0)?)?, p_ubig(arg(args, 1)?)?, *, *=, fu),
            "u.sqr" => {
                let a = p_ubig(arg(args, 0)?)?;
                let r = vec![
                    verif_harness::forms::run1(|| fu(&a.sqr())),
                    verif_harness::forms::run1(|| fu(&(&a * &a))),
                    verif_harness::forms::run1(|| fu(&(a.clone() * a.clone()))),
                ];
                verif_harness::forms::merge(&["sqr", "mul_rr", "mul_vv"], r)
            }
            "u.cubic" => Ok(fu(&p_ubig(arg(args, 0)?)?.cubic())),
            "u.pow" => Ok(fu(&p_ubig(arg(args, 0)?)?.pow(p_usize(arg(args, 1)?)?))),
            // ---------------------------------------------------------------- IBig ring
            "i.add" => forms_bin6!(p_ibig(arg(args, 0)?)?, p_ibig(arg(args, 1)?)?, +, +=, fi),
            "i.sub" => forms_bin6!(p_ibig(arg(args, 0)?)?, p_ibig(arg(args, 1)?)?, -, -=, fi),
            "i.mul" => forms_bin6!(p_ibig(arg(args, 0)?)?, p_ibig(arg(args, 1)?)?, *, *=, fi),
            "i.sqr" => {
                let a = p_ibig(arg(args, 0)?)?;
                let r = vec![
                    verif_harness::forms::run1(|| fu(&a.sqr())),
                    verif_harness::forms::run1(|| fi(&(&a * &a))),
                ];
                verif_harness::forms::merge(&["sqr", "mul_rr"], r)
            }
            "i.cubic" => Ok(fi(&p_ibig(arg(args, 0)?)?.cubic())),
            "i.pow" => Ok(fi(&p_ibig(arg(args, 0)?)?.pow(p_usize(arg(args, 1)?)?))),
            "i.neg" => {
                let a = p_ibig(arg(args, 0)?)?;
                let r = vec![
                    verif_harness::forms::run1(|| fi(&(-a.clone()))),
                    verif_harness::forms::run1(|| fi(&(-&a))),
                ];
                verif_harness::forms::merge(&["v", "r"], r)
            }
            "i.abs" => {
                use dashu_base::{Abs, UnsignedAbs};
                let a = p_ibig(arg(args, 0)?)?;
                let r = vec![
                    verif_harness::forms::run1(|| fi(&a.clone().abs())),
                    verif_harness::forms::run1(|| fi(&(&a).abs())),
                    verif_harness::forms::run1(|| fu(&a.clone().unsigned_abs())),
                    verif_harness::forms::run1(|| fu(&(&a).unsigned_abs())),
                ];
                verif_harness::forms::merge(&["abs_v", "abs_r", "uabs_v", "uabs_r"], r)
            }
            "i.signum" => Ok(fi(&p_ibig(arg(args, 0)?)?.signum())),
            // ---------------------------------------------------------------- mixed ring
            "ui.add" => forms_bin4!(p_ubig(arg(args, 0)?)?, p_ibig(arg(args, 1)?)?, +, fi),
            "ui.sub" => forms_bin4!(p_ubig(arg(args, 0)?)?, p_ibig(arg(args, 1)?)?, -, fi),
            "ui.mul" => forms_bin4!(p_ubig(arg(args, 0)?)?, p_ibig(arg(args, 1)?)?, *, fi),
            "iu.add" => forms_bin6!(p_ibig(arg(args, 0)?)?, p_ubig(arg(args, 1)?)?, +, +=, fi),
            "iu.sub" => forms_bin6!(p_ibig(arg(args, 0)?)?, p_ubig(arg(args, 1)?)?, -, -=, fi),
            "iu.mul" => forms_bin6!(p_ibig(arg(args, 0)?)?, p_ubig(arg(args, 1)?)?, *, *=, fi),
            // ---------------------------------------------------------------- UBig division
            "u.div" => forms_bin6!(p_ubig(arg(args, 0)?)?, p_ubig(arg(args, 1)?)?, /, /=, fu),
            "u.rem" => forms_bin6!(p_ubig(arg(args, 0)?)?, p_ubig(arg(args, 1)?)?, %, %=, fu),
            "u.divrem" => {
                let a = p_ubig(arg(args, 0)?)?;
                let b = p_ubig(arg(args, 1)?)?;
                let mut rs = vec![
                    verif_harness::forms::run1(|| fuu(&a.clone().div_rem(b.clone()))),
                    verif_harness::forms::run1(|| fuu(&a.clone().div_rem(&b))),
                    verif_harness::forms::run1(|| fuu(&(&a).div_rem(b.clone()))),
                    verif_harness::forms::run1(|| fuu(&(&a).div_rem(&b))),
                ];
                rs.push(verif_harness::forms::run1(|| {
                    let mut x = a.clone();
                    let r = x.div_rem_assign(b.clone());
                    fuu(&(x, r))
                }));
                rs.push(verif_harness::forms::run1(|| {
                    let mut x = a.clone();
                    let r = x.div_rem_assign(&b);
                    fuu(&(x, r))
                }));
                rs.push(verif_harness::forms::run1(|| fuu(&(&a / &b, &a % &b))));
                verif_harness::forms::merge(&["vv", "vr", "rv", "rr", "as", "asr", "ops"], rs)
            }
            "u.diveuclid" => {
                forms_meth4!(p_ubig(arg(args, 0)?)?, p_ubig(arg(args, 1)?)?, div_euclid, fu)
            }
            "u.remeuclid" => {
                forms_meth4!(p_ubig(arg(args, 0)?)?, p_ubig(arg(args, 1)?)?, rem_euclid, fu)
            }
            "u.divremeuclid" => {
                forms_meth4!(p_ubig(arg(args, 0)?)?, p_ubig(arg(args, 1)?)?, div_rem_euclid, fuu)
            }
            "u.ismultiple" => {
                let a = p_ubig(arg(args, 0)?)?;
                let b = p_ubig(arg(args, 1)?)?;
                Ok(a.is_multiple_of(&b).to_string())
            }
            // ---------------------------------------------------------------- IBig division
            "i.div" => forms_bin6!(p_ibig(arg(args, 0)?)?, p_ibig(arg(args, 1)?)?, /, /=, fi),
            "i.rem" => forms_bin6!(p_ibig(arg(args, 0)?)?, p_ibig(arg(args, 1)?)?, %, %=, fi),
            "i.divrem" => {
                let a = p_ibig(arg(args, 0)?)?;
                let b = p_ibig(arg(args, 1)?)?;
                let mut rs = vec![
                    verif_harness::forms::run1(|| fii(&a.clone().div_rem(b.clone()))),
                    verif_harness::forms::run1(|| fii(&a.clone().div_rem(&b))),
                    verif_harness::forms::run1(|| fii(&(&a).div_rem(b.clone()))),
                    verif_harness::forms::run1(|| fii(&(&a).div_rem(&b))),
                ];
                rs.push(verif_harness::forms::run1(|| {
                    let mut x = a.clone();
                    let r = x.div_rem_assign(b.clone());
                    fii(&(x, r))
                }));
                rs.push(verif_harness::forms::run1(|| {
                    let mut x = a.clone();
                    let r = x.div_rem_assign(&b);
                    fii(&(x, r))
                }));
                rs.push(verif_harness::forms::run1(|| fii(&(&a / &b, &a % &b))));
                verif_harness::forms::merge(&["vv", "vr", "rv", "rr", "as", "asr", "ops"], rs)
            }
            "i.diveuclid" => {
                forms_meth4!(p_ibig(arg(args, 0)?)?, p_ibig(arg(args, 1)?)?, div_euclid, fi)
            }
            "i.remeuclid" => {
                forms_meth4!(p_ibig(arg(args, 0)?)?, p_ibig(arg(args, 1)?)?, rem_euclid, fu)
            }
            "i.divremeuclid" => {
                forms_meth4!(p_ibig(arg(args, 0)?)?, p_ibig(arg(args, 1)?)?, div_rem_euclid, fiu)
            }
            // ---------------------------------------------------------------- mixed division
            "ui.div" => forms_bin4!(p_ubig(arg(args, 0)?)?, p_ibig(arg(args, 1)?)?, /, fi),
            "ui.rem" => forms_bin4!(p_ubig(arg(args, 0)?)?, p_ibig(arg(args, 1)?)?, %, fu),
            "ui.divrem" => {
                forms_meth4!(p_ubig(arg(args, 0)?)?, p_ibig(arg(args, 1)?)?, div_rem, fiu)
            }
            "iu.div" => forms_bin6!(p_ibig(arg(args, 0)?)?, p_ubig(arg(args, 1)?)?, /, /=, fi),
            "iu.rem" => forms_bin6!(p_ibig(arg(args, 0)?)?, p_ubig(arg(args, 1)?)?, %, %=, fi),
            "iu.divrem" => {
                forms_meth4!(p_ibig(arg(args, 0)?)?, p_ubig(arg(args, 1)?)?, div_rem, fii)
            }
            // ---------------------------------------------------------------- ConstDivisor
            "u.cdivrem" => {
                let a = p_ubig(arg(args, 0)?)?;
                let b = p_ubig(arg(args, 1)?)?;
                let rs = vec![
                    verif_harness::forms::run1(|| {
                        let d = ConstDivisor::new(b.clone());
                        fuu(&a.clone().div_rem(&d))
                    }),
                    verif_harness::forms::run1(|| {
                        let d = ConstDivisor::new(b.clone());
                        fuu(&(&a).div_rem(&d))
                    }),
                    verif_harness::forms::run1(|| {
                        let d = ConstDivisor::new(b.clone());
                        fuu(&(&a / &d, &a % &d))
                    }),
                    verif_harness::forms::run1(|| {
                        let d = ConstDivisor::new(b.clone());
                        fuu(&(a.clone() / &d, a.clone() % &d))
                    }),
                    verif_harness::forms::run1(|| {
                        let d = ConstDivisor::new(b.clone());
                        let mut x = a.clone();
                        let r = x.div_rem_assign(&d);
                        fuu(&(x, r))
                    }),
                    verif_harness::forms::run1(|| {
                        let d = ConstDivisor::new(b.clone());
                        let mut x = a.clone();
                        x /= &d;
                        let mut y = a.clone();
                        y %= &d;
                        fuu(&(x, y))
                    }),
                ];
                verif_harness::forms::merge(&["v", "r", "ops_r", "ops_v", "as", "opas"], rs)
            }
            "i.cdivrem" => {
                let a = p_ibig(arg(args, 0)?)?;
                let b = p_ubig(arg(args, 1)?)?;
                let rs = vec![
                    verif_harness::forms::run1(|| {
                        let d = ConstDivisor::new(b.clone());
                        fii(&a.clone().div_rem(&d))
                    }),
                    verif_harness::forms::run1(|| {
                        let d = ConstDivisor::new(b.clone());
                        fii(&(&a).div_rem(&d))
                    }),
                    verif_harness::forms::run1(|| {
                        let d = ConstDivisor::new(b.clone());
                        fii(&(&a / &d, &a % &d))
                    }),
                    verif_harness::forms::run1(|| {
                        let d = ConstDivisor::new(b.clone());
                        fii(&(a.clone() / &d, a.clone() % &d))
                    }),
                    verif_harness::forms::run1(|| {
                        let d = ConstDivisor::new(b.clone());
                        let mut x = a.clone();
                        let r = x.div_rem_assign(&d);
                        fii(&(x, r))
                    }),
                    verif_harness::forms::run1(|| {
                        let d = ConstDivisor::new(b.clone());
                        let mut x = a.clone();
                        x /= &d;
                        let mut y = a.clone();
                        y %= &d;
                        fii(&(x, y))
                    }),
                ];
                verif_harness::forms::merge(&["v", "r", "ops_r", "ops_v", "as", "opas"], rs)
            }
            "cd.value" => {
                let b = p_ubig(arg(args, 0)?)?;
                Ok(fu(&ConstDivisor::new(b).value()))
            }
            _ => return Err("__none__".into()),
        }
    })())
    .and_then(|r| match r {
        Err(e) if e == "__none__" => None,
        other => Some(other),
    })
}
