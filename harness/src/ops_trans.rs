//! Group `trans`: C11 (exp, exp_m1, ln, ln_1p, powi, powf of `dashu-float`).
//!
//! Float argument  : `f:<base>:<signif hex int | inf | -inf>:<exp decimal>:<precision decimal>:<mode Z|A|U|D|E|H>`
//! Float result    : `<signif hex> <exp dec> <precision dec> <Exact | Inexact:NoOp|AddOne|SubOne>`
//!
//! `f.<fn> <x> [<y>]`        builds `FBig::from_repr(x, Context::new(prec))` (the operand must fit its
//!                           precision, or the precision is 0 = unlimited) and evaluates the `Context`
//!                           method (value + flag) and the `FBig` method of the same name (value only);
//!                           the forms must agree (`forms-disagree …` otherwise).
//! `c.<fn> <x> [<y>] d:<p>`  evaluates only the `Context` method with context precision `p` on the
//!                           `Repr` operands (which may be longer than `p`).
//! Everything from a literal `|` token on is ignored by this side: the property module appends the
//! result observed in a first pass (`… | <result tokens>`) and the model driver certifies that claim
//! against a proved enclosure of the real value; this side simply recomputes.
//! `obs.<anything> … | <outcome>` echoes `observed <outcome>` without running anything (outcomes
//! `hang` / `crash…` seen by the property module's watchdog in the first pass).
use dashu_base::Approximation;
use dashu_float::round::{mode, Round, Rounded, Rounding};
use dashu_float::{Context, FBig, Repr};
use dashu_int::{IBig, Word};
use verif_harness::forms::run1;
use verif_harness::util::*;

pub struct FArg {
    base: u64,
    signif: Option<IBig>, // None: infinity, sign in `neg_inf`
    neg_inf: bool,
    exp: isize,
    prec: usize,
    mode: char,
}

fn p_farg(s: &str) -> Result<FArg, String> {
    let t: Vec<&str> = s.split(':').collect();
    if t.len() != 6 || t[0] != "f" {
        return Err(format!("bad-arg float {}", s));
    }
    let bad = || format!("bad-arg float {}", s);
    let base: u64 = t[1].parse().map_err(|_| bad())?;
    let (signif, neg_inf) = match t[2] {
        "inf" => (None, false),
        "-inf" => (None, true),
        h => (Some(p_ibig(h)?), false),
    };
    let exp: isize = t[3].parse().map_err(|_| bad())?;
    let prec: usize = t[4].parse().map_err(|_| bad())?;
    let mode = t[5].chars().next().ok_or_else(bad)?;
    if t[5].len() != 1 {
        return Err(bad());
    }
    Ok(FArg { base, signif, neg_inf, exp, prec, mode })
}

fn fl(r: &Rounding) -> &'static str {
    match r {
        Rounding::NoOp => "NoOp",
        Rounding::AddOne => "AddOne",
        Rounding::SubOne => "SubOne",
    }
}

fn ff<R: Round, const B: Word>(x: &FBig<R, B>) -> String {
    if x.repr().is_infinite() {
        return format!("inf{} {}", x.repr().exponent(), x.precision());
    }
    format!("{} {} {}", f_ibig(x.repr().significand()), x.repr().exponent(), x.precision())
}

fn fr<R: Round, const B: Word>(x: &Rounded<FBig<R, B>>) -> String {
    match x {
        Approximation::Exact(v) => format!("{} Exact", ff(v)),
        Approximation::Inexact(v, e) => format!("{} Inexact:{}", ff(v), fl(e)),
    }
}

/// first result is the Context method (value + flag); the others are value-only forms which must
/// equal the value part of the first
fn merge_ctx(names: &[&str], rs: Vec<String>) -> Res {
    let first = rs[0].clone();
    let valpart = match first.strip_prefix("ok ") {
        Some(v) => match v.rfind(' ') {
            Some(i) => format!("ok {}", &v[..i]),
            None => first.clone(),
        },
        None => first.clone(),
    };
    if rs[1..].iter().all(|r| *r == valpart) {
        if let Some(v) = first.strip_prefix("ok ") {
            Ok(v.to_string())
        } else {
            Err(first)
        }
    } else {
        let mut s = String::from("forms-disagree");
        for (n, r) in names.iter().zip(rs.iter()) {
            s.push_str(&format!(" [{}: {}]", n, r.replace(' ', "_")));
        }
        Err(s)
    }
}

fn run<R: Round, const B: Word>(op: &str, args: &[&str]) -> Res {
    let mkr = |a: &FArg| -> Repr<B> {
        match &a.signif {
            Some(s) => Repr::<B>::new(s.clone(), a.exp),
            None => {
                if a.neg_inf {
                    Repr::<B>::neg_infinity()
                } else {
                    Repr::<B>::infinity()
                }
            }
        }
    };
    let mk = |a: &FArg| -> FBig<R, B> { FBig::<R, B>::from_repr(mkr(a), Context::<R>::new(a.prec)) };
    let same = |a: &FArg, b: &FArg| -> Result<(), String> {
        if a.base != b.base || a.mode != b.mode {
            Err("bad-arg mixed base/mode".to_string())
        } else {
            Ok(())
        }
    };
    match op {
        "f.exp" | "f.exp_m1" | "f.ln" | "f.ln_1p" => {
            let fa = p_farg(arg(args, 0)?)?;
            let ctx = Context::<R>::new(fa.prec);
            let a = mk(&fa);
            let rs = vec![
                run1(|| {
                    fr(&match op {
                        "f.exp" => ctx.exp(a.repr()),
                        "f.exp_m1" => ctx.exp_m1(a.repr()),
                        "f.ln" => ctx.ln(a.repr()),
                        _ => ctx.ln_1p(a.repr()),
                    })
                }),
                run1(|| {
                    ff(&match op {
                        "f.exp" => a.exp(),
                        "f.exp_m1" => a.exp_m1(),
                        "f.ln" => a.ln(),
                        _ => a.ln_1p(),
                    })
                }),
            ];
            merge_ctx(&["ctx", "fbig"], rs)
        }
        "c.exp" | "c.exp_m1" | "c.ln" | "c.ln_1p" => {
            let fa = p_farg(arg(args, 0)?)?;
            let p = p_usize(arg(args, 1)?)?;
            let ctx = Context::<R>::new(p);
            let a = mkr(&fa);
            Ok(fr(&match op {
                "c.exp" => ctx.exp(&a),
                "c.exp_m1" => ctx.exp_m1(&a),
                "c.ln" => ctx.ln(&a),
                _ => ctx.ln_1p(&a),
            }))
        }
        "f.powi" => {
            let fa = p_farg(arg(args, 0)?)?;
            let n = p_ibig(arg(args, 1)?.trim_start_matches("k:"))?;
            let ctx = Context::<R>::new(fa.prec);
            let a = mk(&fa);
            let n2 = n.clone();
            let rs = vec![run1(|| fr(&ctx.powi(a.repr(), n))), run1(|| ff(&a.powi(n2)))];
            merge_ctx(&["ctx", "fbig"], rs)
        }
        "c.powi" => {
            let fa = p_farg(arg(args, 0)?)?;
            let n = p_ibig(arg(args, 1)?.trim_start_matches("k:"))?;
            let p = p_usize(arg(args, 2)?)?;
            Ok(fr(&Context::<R>::new(p).powi(&mkr(&fa), n)))
        }
        "f.powf" => {
            let fa = p_farg(arg(args, 0)?)?;
            let fb = p_farg(arg(args, 1)?)?;
            same(&fa, &fb)?;
            // FBig::powf works at Context::max of the operands
            let ctx = Context::<R>::new(if fa.prec > fb.prec { fa.prec } else { fb.prec });
            let (a, b) = (mk(&fa), mk(&fb));
            let rs = vec![run1(|| fr(&ctx.powf(a.repr(), b.repr()))), run1(|| ff(&a.powf(&b)))];
            merge_ctx(&["ctx", "fbig"], rs)
        }
        "c.powf" => {
            let fa = p_farg(arg(args, 0)?)?;
            let fb = p_farg(arg(args, 1)?)?;
            same(&fa, &fb)?;
            let p = p_usize(arg(args, 2)?)?;
            Ok(fr(&Context::<R>::new(p).powf(&mkr(&fa), &mkr(&fb))))
        }
        _ => Err(format!("bad-op {}", op)),
    }
}

macro_rules! mode_table {
    ($b:literal, $mode:expr, $op:expr, $args:expr) => {
        match $mode {
            'Z' => run::<mode::Zero, $b>($op, $args),
            'A' => run::<mode::Away, $b>($op, $args),
            'U' => run::<mode::Up, $b>($op, $args),
            'D' => run::<mode::Down, $b>($op, $args),
            'E' => run::<mode::HalfEven, $b>($op, $args),
            'H' => run::<mode::HalfAway, $b>($op, $args),
            m => Err(format!("bad-arg mode {}", m)),
        }
    };
}

fn by_type(base: u64, mode: char, op: &str, args: &[&str]) -> Res {
    match base {
        2 => mode_table!(2, mode, op, args),
        3 => mode_table!(3, mode, op, args),
        10 => mode_table!(10, mode, op, args),
        16 => mode_table!(16, mode, op, args),
        36 => mode_table!(36, mode, op, args),
        b => Err(format!("bad-arg base {}", b)),
    }
}

pub fn dispatch(op: &str, args: &[&str]) -> Option<Res> {
    if op.starts_with("obs.") {
        // outcome observed by the watchdog of the first pass; nothing is run here
        let k = args.iter().position(|a| *a == "|");
        return Some(match k {
            Some(k) => Err(format!("observed {}", args[k + 1..].join(" "))),
            None => Err("bad-arg obs without outcome".to_string()),
        });
    }
    if op == "tie.formula" {
        // source-text tie: the statement extracted from the repository under check (by vlib/props/c11.py) is echoed;
        // the model side prints the statement its mirror was written against
        return Some(match args {
            [_name, found] if found.starts_with("s:") => Ok(found.to_string()),
            _ => Err("bad-arg tie.formula".to_string()),
        });
    }
    if !(op.starts_with("f.") || op.starts_with("c.")) {
        return None;
    }
    let cut = args.iter().position(|a| *a == "|").unwrap_or(args.len());
    let args = &args[..cut];
    Some((|| -> Res {
        let fa = p_farg(arg(args, 0)?)?;
        by_type(fa.base, fa.mode, op, args)
    })())
}
