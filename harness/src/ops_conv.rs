//! Conversions (C06): primitive <-> UBig/IBig, IEEE encode/decode, to_f32/to_f64 of integers,
//! rationals and floats, exactness-checked TryFrom conversions, the `to_int` family.
//!
//! Lexical forms added by this group (see lean/Dashu/Driver/Conv.lean):
//!   primitive integers `p:<type>:<[-]hex>`, primitive floats ONLY as bit patterns
//!   `p:f32:<hex bits>` / `p:f64:<hex bits>`; approximation flags `Exact | Inexact:+ | Inexact:-`
//!   (sign of result - exact); conversion errors as the value `err:<Kind>`.
use dashu_base::{Approximation, ConversionError, FloatEncoding, Sign};
use dashu_float::round::mode::{Away, Down, HalfAway, HalfEven, Up, Zero};
use dashu_float::round::{Round, Rounding};
use dashu_float::{FBig, Repr as FRepr};
use dashu_int::{IBig, UBig};
use dashu_ratio::{RBig, Relaxed};
use std::convert::TryFrom;
use verif_harness::forms::{merge, run1};
use verif_harness::util::*;

// ------------------------------------------------------------------ lexical helpers

fn p_prim(s: &str) -> Result<(&str, bool, u128), String> {
    // `p:<type>:<[-]hex>` -> (type, negative, magnitude)
    let mut it = s.splitn(3, ':');
    let (p, t, v) = (it.next(), it.next(), it.next());
    if p != Some("p") {
        return Err(format!("bad-arg prim {}", s));
    }
    let t = t.ok_or_else(|| format!("bad-arg prim {}", s))?;
    let v = v.ok_or_else(|| format!("bad-arg prim {}", s))?;
    let (neg, h) = match v.strip_prefix('-') {
        Some(r) => (true, r),
        None => (false, v),
    };
    let mag = u128::from_str_radix(h, 16).map_err(|_| format!("bad-arg prim {}", s))?;
    Ok((t, neg, mag))
}

macro_rules! prim_parse_unsigned {
    ($s:expr, $t:ty) => {{
        let s_: &str = $s;
        let (_, neg, mag) = p_prim(s_)?;
        if neg && mag != 0 {
            return Err(format!("bad-arg prim-range {}", s_));
        }
        <$t>::try_from(mag).map_err(|_| format!("bad-arg prim-range {}", s_))?
    }};
}
macro_rules! prim_parse_signed {
    ($s:expr, $t:ty) => {{
        let s_: &str = $s;
        let (_, neg, mag) = p_prim(s_)?;
        let v: i128 = if neg {
            if mag == 1u128 << 127 {
                i128::MIN
            } else {
                -(i128::try_from(mag).map_err(|_| format!("bad-arg prim-range {}", s_))?)
            }
        } else {
            i128::try_from(mag).map_err(|_| format!("bad-arg prim-range {}", s_))?
        };
        <$t>::try_from(v).map_err(|_| format!("bad-arg prim-range {}", s_))?
    }};
}

fn f_u(t: &str, v: u128) -> String {
    format!("p:{}:{:x}", t, v)
}
fn f_i(t: &str, v: i128) -> String {
    if v < 0 {
        format!("p:{}:-{:x}", t, v.unsigned_abs())
    } else {
        format!("p:{}:{:x}", t, v)
    }
}

fn p_f32(s: &str) -> Result<f32, String> {
    let b = s.strip_prefix("p:f32:").ok_or_else(|| format!("bad-arg f32 {}", s))?;
    Ok(f32::from_bits(u32::from_str_radix(b, 16).map_err(|_| format!("bad-arg f32 {}", s))?))
}
fn p_f64(s: &str) -> Result<f64, String> {
    let b = s.strip_prefix("p:f64:").ok_or_else(|| format!("bad-arg f64 {}", s))?;
    Ok(f64::from_bits(u64::from_str_radix(b, 16).map_err(|_| format!("bad-arg f64 {}", s))?))
}
fn f_f32(v: f32) -> String {
    format!("p:f32:{:x}", v.to_bits())
}
fn f_f64(v: f64) -> String {
    format!("p:f64:{:x}", v.to_bits())
}

fn f_err(e: ConversionError) -> String {
    match e {
        ConversionError::OutOfBounds => "err:OutOfBounds".into(),
        ConversionError::LossOfPrecision => "err:LossOfPrecision".into(),
    }
}
fn f_sign_flag(s: Sign) -> &'static str {
    match s {
        Sign::Positive => "Inexact:+",
        Sign::Negative => "Inexact:-",
    }
}
fn f_apx32(a: Approximation<f32, Sign>) -> String {
    match a {
        Approximation::Exact(v) => format!("{} Exact", f_f32(v)),
        Approximation::Inexact(v, s) => format!("{} {}", f_f32(v), f_sign_flag(s)),
    }
}
fn f_apx64(a: Approximation<f64, Sign>) -> String {
    match a {
        Approximation::Exact(v) => format!("{} Exact", f_f64(v)),
        Approximation::Inexact(v, s) => format!("{} {}", f_f64(v), f_sign_flag(s)),
    }
}
fn f_rounding(r: Rounding) -> &'static str {
    match r {
        Rounding::NoOp => "NoOp",
        Rounding::AddOne => "AddOne",
        Rounding::SubOne => "SubOne",
    }
}
fn f_rnd32(a: Approximation<f32, Rounding>) -> String {
    match a {
        Approximation::Exact(v) => format!("{} Exact", f_f32(v)),
        Approximation::Inexact(v, r) => format!("{} {}", f_f32(v), f_rounding(r)),
    }
}
fn f_rnd64(a: Approximation<f64, Rounding>) -> String {
    match a {
        Approximation::Exact(v) => format!("{} Exact", f_f64(v)),
        Approximation::Inexact(v, r) => format!("{} {}", f_f64(v), f_rounding(r)),
    }
}
fn f_rndint(a: Approximation<IBig, Rounding>) -> String {
    match a {
        Approximation::Exact(v) => format!("{} Exact", f_ibig(&v)),
        Approximation::Inexact(v, r) => format!("{} {}", f_ibig(&v), f_rounding(r)),
    }
}
fn p_isize(s: &str) -> Result<isize, String> {
    isize::try_from(p_dec(s)?).map_err(|_| format!("bad-arg isize {}", s))
}
fn rbig(args: &[&str], i: usize) -> Result<RBig, String> {
    let n = p_ibig(arg(args, i)?)?;
    let d = p_ubig(arg(args, i + 1)?)?;
    if d == UBig::ZERO {
        return Err("bad-arg zero-denominator".into());
    }
    Ok(RBig::from_parts(n, d))
}
fn relaxed(args: &[&str], i: usize) -> Result<Relaxed, String> {
    let n = p_ibig(arg(args, i)?)?;
    let d = p_ubig(arg(args, i + 1)?)?;
    if d == UBig::ZERO {
        return Err("bad-arg zero-denominator".into());
    }
    Ok(Relaxed::from_parts(n, d))
}
fn f_frepr<const B: dashu_int::Word>(r: &FRepr<B>) -> String {
    if r.is_infinite() {
        return match r.sign() {
            Sign::Positive => "inf".into(),
            Sign::Negative => "-inf".into(),
        };
    }
    format!("{} {}", f_ibig(r.significand()), f_dec(r.exponent()))
}

// ------------------------------------------------------------------ primitive <-> big integers

macro_rules! from_unsigned_ops {
    ($args:expr, $tname:expr, $($t:ty)*) => {{
        let s = arg($args, 0)?;
        let (t, _, _) = p_prim(s)?;
        match t {
            $(stringify!($t) => {
                let v: $t = prim_parse_unsigned!(s, $t);
                match $tname {
                    "u" => Some(merge(&["from", "into"], vec![
                        run1(|| f_ubig(&UBig::from(v))),
                        run1(|| { let x: UBig = v.into(); f_ubig(&x) }),
                    ])),
                    "i" => Some(merge(&["from", "into"], vec![
                        run1(|| f_ibig(&IBig::from(v))),
                        run1(|| { let x: IBig = v.into(); f_ibig(&x) }),
                    ])),
                    _ => Some(merge(&["rbig", "relaxed"], vec![
                        run1(|| { let x = RBig::from(v); format!("{} {}", f_ibig(x.numerator()), f_ubig(x.denominator())) }),
                        run1(|| { let x = Relaxed::from(v); format!("{} {}", f_ibig(x.numerator()), f_ubig(x.denominator())) }),
                    ])),
                }
            })*
            _ => None,
        }
    }};
}
macro_rules! from_signed_ops {
    ($args:expr, $tname:expr, $($t:ty)*) => {{
        let s = arg($args, 0)?;
        let (t, _, _) = p_prim(s)?;
        match t {
            $(stringify!($t) => {
                let v: $t = prim_parse_signed!(s, $t);
                match $tname {
                    "u" => Some(Ok(match UBig::try_from(v) { Ok(x) => f_ubig(&x), Err(e) => f_err(e) })),
                    "i" => Some(merge(&["from", "into"], vec![
                        run1(|| f_ibig(&IBig::from(v))),
                        run1(|| { let x: IBig = v.into(); f_ibig(&x) }),
                    ])),
                    _ => Some(merge(&["rbig", "relaxed"], vec![
                        run1(|| { let x = RBig::from(v); format!("{} {}", f_ibig(x.numerator()), f_ubig(x.denominator())) }),
                        run1(|| { let x = Relaxed::from(v); format!("{} {}", f_ibig(x.numerator()), f_ubig(x.denominator())) }),
                    ])),
                }
            })*
            _ => None,
        }
    }};
}

macro_rules! to_prim_u {
    ($x:expr, $ty:expr, $fmt:ident, $($t:ty)*) => {{
        let x = $x;
        match $ty {
            $(stringify!($t) => Some(merge(&["owned", "ref"], vec![
                run1(|| match <$t>::try_from(x.clone()) { Ok(v) => $fmt(stringify!($t), v as _), Err(e) => f_err(e) }),
                run1(|| match <$t>::try_from(&x) { Ok(v) => $fmt(stringify!($t), v as _), Err(e) => f_err(e) }),
            ])),)*
            _ => None,
        }
    }};
}
macro_rules! to_prim_owned {
    ($x:expr, $ty:expr, $fmt:ident, $($t:ty)*) => {{
        let x = $x;
        match $ty {
            $(stringify!($t) => Some(Ok(match <$t>::try_from(x.clone()) { Ok(v) => $fmt(stringify!($t), v as _), Err(e) => f_err(e) })),)*
            _ => None,
        }
    }};
}

// ------------------------------------------------------------------ FBig (base x mode) dispatch

macro_rules! with_base {
    ($b:expr, $f:ident, $($a:expr),*) => {
        match $b {
            2 => $f::<2>($($a),*),
            10 => $f::<10>($($a),*),
            16 => $f::<16>($($a),*),
            3 => $f::<3>($($a),*),
            _ => Err(format!("bad-arg base {}", $b)),
        }
    };
}
macro_rules! with_mode {
    ($m:expr, $f:ident, $b:ident, $($a:expr),*) => {
        match $m {
            "Zero" => $f::<Zero, $b>($($a),*),
            "Away" => $f::<Away, $b>($($a),*),
            "Up" => $f::<Up, $b>($($a),*),
            "Down" => $f::<Down, $b>($($a),*),
            "HalfEven" => $f::<HalfEven, $b>($($a),*),
            "HalfAway" => $f::<HalfAway, $b>($($a),*),
            _ => Err(format!("bad-arg mode {}", $m)),
        }
    };
}

fn fb_to_f32<R: Round, const B: dashu_int::Word>(s: IBig, e: isize) -> Res {
    let x = FBig::<R, B>::from_parts(s, e);
    Ok(f_rnd32(x.to_f32()))
}
fn fb_to_f64<R: Round, const B: dashu_int::Word>(s: IBig, e: isize) -> Res {
    let x = FBig::<R, B>::from_parts(s.clone(), e);
    let r = FRepr::<B>::new(s, e);
    merge(&["fbig", "repr"], vec![run1(|| f_rnd64(x.to_f64())), run1(|| f_rnd64(r.to_f64()))])
}
fn fb_to_int<R: Round, const B: dashu_int::Word>(s: IBig, e: isize) -> Res {
    let x = FBig::<R, B>::from_parts(s, e);
    Ok(f_rndint(x.to_int()))
}
fn fb_mode_f32<const B: dashu_int::Word>(m: &str, s: IBig, e: isize) -> Res {
    with_mode!(m, fb_to_f32, B, s, e)
}
fn fb_mode_f64<const B: dashu_int::Word>(m: &str, s: IBig, e: isize) -> Res {
    with_mode!(m, fb_to_f64, B, s, e)
}
fn fb_mode_int<const B: dashu_int::Word>(m: &str, s: IBig, e: isize) -> Res {
    with_mode!(m, fb_to_int, B, s, e)
}
fn fr_to_f32<const B: dashu_int::Word>(s: IBig, e: isize) -> Res {
    Ok(f_rnd32(FRepr::<B>::new(s, e).to_f32()))
}
fn fr_to_int<const B: dashu_int::Word>(s: IBig, e: isize) -> Res {
    Ok(f_rndint(FRepr::<B>::new(s, e).to_int()))
}
fn fb_try_ibig<const B: dashu_int::Word>(s: IBig, e: isize) -> Res {
    let x = FBig::<Zero, B>::from_parts(s, e);
    Ok(match IBig::try_from(x) {
        Ok(v) => f_ibig(&v),
        Err(e) => f_err(e),
    })
}
fn fb_try_ubig<const B: dashu_int::Word>(s: IBig, e: isize) -> Res {
    let x = FBig::<Zero, B>::from_parts(s, e);
    Ok(match UBig::try_from(x) {
        Ok(v) => f_ubig(&v),
        Err(e) => f_err(e),
    })
}
fn fb_try_prim<const B: dashu_int::Word>(ty: &str, s: IBig, e: isize) -> Res {
    let x = FBig::<Zero, B>::from_parts(s, e);
    let r = to_prim_owned!(x.clone(), ty, f_u, u8 u16 u32 u64 u128 usize);
    if let Some(r) = r {
        return r;
    }
    let r = to_prim_owned!(x, ty, f_i, i8 i16 i32 i64 i128 isize);
    r.unwrap_or_else(|| Err(format!("bad-arg type {}", ty)))
}
fn fb_to_rbig<const B: dashu_int::Word>(s: IBig, e: isize) -> Res {
    let x = FBig::<Zero, B>::from_parts(s.clone(), e);
    let y = FBig::<Zero, B>::from_parts(s, e);
    let f = |r: Result<(IBig, UBig), ConversionError>| match r {
        Ok((n, d)) => format!("{} {}", f_ibig(&n), f_ubig(&d)),
        Err(e) => f_err(e),
    };
    merge(
        &["rbig", "relaxed"],
        vec![
            run1(|| f(RBig::try_from(x.clone()).map(|r| r.into_parts()))),
            run1(|| {
                // Relaxed only removes common factors of two: report it in lowest terms
                f(Relaxed::try_from(y.clone()).map(|r| r.canonicalize().into_parts()))
            }),
        ],
    )
}
fn fb_from_int<const B: dashu_int::Word>(v: IBig) -> Res {
    let x = FBig::<Zero, B>::from(v.clone());
    let back = IBig::try_from(x.clone());
    Ok(format!(
        "{} {}",
        f_frepr(x.repr()),
        match back {
            Ok(b) => f_ibig(&b),
            Err(e) => f_err(e),
        }
    ))
}
fn r_to_float<R: Round, const B: dashu_int::Word>(r: &RBig, rel: &Relaxed, prec: usize) -> Res {
    let f = |a: Approximation<FBig<R, B>, Rounding>| match a {
        Approximation::Exact(v) => format!("{} Exact", f_frepr(v.repr())),
        Approximation::Inexact(v, r) => format!("{} {}", f_frepr(v.repr()), f_rounding(r)),
    };
    merge(
        &["rbig", "relaxed"],
        vec![run1(|| f(r.to_float::<R, B>(prec))), run1(|| f(rel.to_float::<R, B>(prec)))],
    )
}
fn r_to_float_mode<const B: dashu_int::Word>(m: &str, r: &RBig, rel: &Relaxed, prec: usize) -> Res {
    with_mode!(m, r_to_float, B, r, rel, prec)
}
// Round 5: the mirrored `Repr::to_float` / `From<Repr> for FBig` (`.code` ops): ONE stored representation per op
// (the algorithm's digit counts depend on it), the precision of the result is printed too.
fn r_to_float_code<R: Round, const B: dashu_int::Word>(r: Option<&RBig>, rel: Option<&Relaxed>, prec: usize) -> Res {
    let f = |a: Approximation<FBig<R, B>, Rounding>| match a {
        Approximation::Exact(v) => format!("{} {} Exact", f_frepr(v.repr()), f_dec(v.precision())),
        Approximation::Inexact(v, r) => format!("{} {} {}", f_frepr(v.repr()), f_dec(v.precision()), f_rounding(r)),
    };
    match (r, rel) {
        (Some(x), _) => merge(&["rbig"], vec![run1(|| f(x.to_float::<R, B>(prec)))]),
        (_, Some(y)) => merge(&["relaxed"], vec![run1(|| f(y.to_float::<R, B>(prec)))]),
        _ => Err("bad-arg".into()),
    }
}
fn r_to_float_code_mode<const B: dashu_int::Word>(m: &str, r: Option<&RBig>, rel: Option<&Relaxed>, prec: usize) -> Res {
    with_mode!(m, r_to_float_code, B, r, rel, prec)
}
fn f_from_rat_code<R: Round, const B: dashu_int::Word>(r: Option<RBig>, rel: Option<Relaxed>) -> Res {
    let x: FBig<R, B> = match (r, rel) {
        (Some(x), _) => x.into(),
        (_, Some(y)) => y.into(),
        _ => return Err("bad-arg".into()),
    };
    Ok(format!("{} {}", f_frepr(x.repr()), f_dec(x.precision())))
}
fn f_from_rat_code_mode<const B: dashu_int::Word>(m: &str, r: Option<RBig>, rel: Option<Relaxed>) -> Res {
    with_mode!(m, f_from_rat_code, B, r, rel)
}
fn f_from_rbig<const B: dashu_int::Word>(r: RBig) -> Res {
    // `From<RBig> for FBig` (infallible by type): reports the float and the rational it denotes
    let x: FBig<Zero, B> = r.into();
    let back = RBig::try_from(x.clone());
    Ok(format!(
        "{} {}",
        f_frepr(x.repr()),
        match back {
            Ok(b) => format!("{} {}", f_ibig(b.numerator()), f_ubig(b.denominator())),
            Err(e) => f_err(e),
        }
    ))
}

pub fn dispatch(op: &str, args: &[&str]) -> Option<Res> {
    Some((|| -> Res {
        match op {
            // ------------------------------------------------ FloatEncoding (direct, Tie of encode_correct)
            "f32.encode" | "f32.encode.asis" => {
                let m: i32 = prim_parse_signed!(arg(args, 0)?, i32);
                let e: i16 = prim_parse_signed!(arg(args, 1)?, i16);
                Ok(f_apx32(f32::encode(m, e)))
            }
            "f64.encode" | "f64.encode.asis" => {
                let m: i64 = prim_parse_signed!(arg(args, 0)?, i64);
                let e: i16 = prim_parse_signed!(arg(args, 1)?, i16);
                Ok(f_apx64(f64::encode(m, e)))
            }
            "f32.decode" => Ok(match p_f32(arg(args, 0)?)?.decode() {
                Ok((m, e)) => format!("{} {}", f_i("i32", m as i128), f_i("i16", e as i128)),
                Err(c) => format!("err:{:?}", c),
            }),
            "f64.decode" => Ok(match p_f64(arg(args, 0)?)?.decode() {
                Ok((m, e)) => format!("{} {}", f_i("i64", m as i128), f_i("i16", e as i128)),
                Err(c) => format!("err:{:?}", c),
            }),
            // decode then encode: must be the identity on every non-NaN, finite bit pattern
            "f32.roundtrip" => {
                let f = p_f32(arg(args, 0)?)?;
                Ok(match f.decode() {
                    Ok((m, e)) => f_apx32(f32::encode(m, e)),
                    Err(c) => format!("err:{:?}", c),
                })
            }
            "f64.roundtrip" => {
                let f = p_f64(arg(args, 0)?)?;
                Ok(match f.decode() {
                    Ok((m, e)) => f_apx64(f64::encode(m, e)),
                    Err(c) => format!("err:{:?}", c),
                })
            }
            // ------------------------------------------------ primitive -> big
            "u.from" | "i.from" | "r.from" => {
                let k = &op[..1];
                if let Some(r) = from_unsigned_ops!(args, k, u8 u16 u32 u64 u128 usize) {
                    return r;
                }
                if let Some(r) = from_signed_ops!(args, k, i8 i16 i32 i64 i128 isize) {
                    return r;
                }
                if arg(args, 0)?.starts_with("p:bool:") {
                    let b = arg(args, 0)? == "p:bool:1";
                    return Ok(if k == "u" { f_ubig(&UBig::from(b)) } else { f_ibig(&IBig::from(b)) });
                }
                Err(format!("bad-arg type {}", arg(args, 0)?))
            }
            // ------------------------------------------------ big -> primitive
            "u.to" => {
                let ty = arg(args, 0)?;
                let x = p_ubig(arg(args, 1)?)?;
                if let Some(r) = to_prim_u!(x.clone(), ty, f_u, u8 u16 u32 u64 u128 usize) {
                    return r;
                }
                if let Some(r) = to_prim_u!(x, ty, f_i, i8 i16 i32 i64 i128 isize) {
                    return r;
                }
                Err(format!("bad-arg type {}", ty))
            }
            "i.to" => {
                let ty = arg(args, 0)?;
                let x = p_ibig(arg(args, 1)?)?;
                if let Some(r) = to_prim_u!(x.clone(), ty, f_u, u8 u16 u32 u64 u128 usize) {
                    return r;
                }
                if let Some(r) = to_prim_u!(x, ty, f_i, i8 i16 i32 i64 i128 isize) {
                    return r;
                }
                Err(format!("bad-arg type {}", ty))
            }
            "r.to" => {
                let ty = arg(args, 0)?;
                let x = rbig(args, 1)?;
                let y = relaxed(args, 1)?;
                let a = {
                    let r = to_prim_owned!(x.clone(), ty, f_u, u8 u16 u32 u64 u128 usize);
                    match r {
                        Some(r) => r,
                        None => to_prim_owned!(x, ty, f_i, i8 i16 i32 i64 i128 isize)
                            .unwrap_or_else(|| Err(format!("bad-arg type {}", ty))),
                    }
                }?;
                let b = {
                    let r = to_prim_owned!(y.clone(), ty, f_u, u8 u16 u32 u64 u128 usize);
                    match r {
                        Some(r) => r,
                        None => to_prim_owned!(y, ty, f_i, i8 i16 i32 i64 i128 isize)
                            .unwrap_or_else(|| Err(format!("bad-arg type {}", ty))),
                    }
                }?;
                merge(&["rbig", "relaxed"], vec![format!("ok {}", a), format!("ok {}", b)])
            }
            "i.to.ubig" => {
                let x = p_ibig(arg(args, 0)?)?;
                Ok(match UBig::try_from(x) {
                    Ok(v) => f_ubig(&v),
                    Err(e) => f_err(e),
                })
            }
            "u.to.ibig" => Ok(f_ibig(&IBig::from(p_ubig(arg(args, 0)?)?))),
            // ------------------------------------------------ big integer -> float
            "u.to_f32" | "u.to_f32.asis" => Ok(f_apx32(p_ubig(arg(args, 0)?)?.to_f32())),
            "u.to_f64" | "u.to_f64.asis" => Ok(f_apx64(p_ubig(arg(args, 0)?)?.to_f64())),
            "i.to_f32" | "i.to_f32.asis" => Ok(f_apx32(p_ibig(arg(args, 0)?)?.to_f32())),
            "i.to_f64" | "i.to_f64.asis" => Ok(f_apx64(p_ibig(arg(args, 0)?)?.to_f64())),
            "u.tryto_f32" => Ok(match f32::try_from(p_ubig(arg(args, 0)?)?) {
                Ok(v) => f_f32(v),
                Err(e) => f_err(e),
            }),
            "u.tryto_f64" => Ok(match f64::try_from(p_ubig(arg(args, 0)?)?) {
                Ok(v) => f_f64(v),
                Err(e) => f_err(e),
            }),
            "i.tryto_f32" => Ok(match f32::try_from(p_ibig(arg(args, 0)?)?) {
                Ok(v) => f_f32(v),
                Err(e) => f_err(e),
            }),
            "i.tryto_f64" => Ok(match f64::try_from(p_ibig(arg(args, 0)?)?) {
                Ok(v) => f_f64(v),
                Err(e) => f_err(e),
            }),
            // ------------------------------------------------ float -> big integer
            "u.from_f32" | "u.from_f32.asis" => Ok(match UBig::try_from(p_f32(arg(args, 0)?)?) {
                Ok(v) => f_ubig(&v),
                Err(e) => f_err(e),
            }),
            "u.from_f64" | "u.from_f64.asis" => Ok(match UBig::try_from(p_f64(arg(args, 0)?)?) {
                Ok(v) => f_ubig(&v),
                Err(e) => f_err(e),
            }),
            "i.from_f32" | "i.from_f32.asis" => Ok(match IBig::try_from(p_f32(arg(args, 0)?)?) {
                Ok(v) => f_ibig(&v),
                Err(e) => f_err(e),
            }),
            "i.from_f64" | "i.from_f64.asis" => Ok(match IBig::try_from(p_f64(arg(args, 0)?)?) {
                Ok(v) => f_ibig(&v),
                Err(e) => f_err(e),
            }),
            // ------------------------------------------------ rationals
            "r.to_f32.asis" => Ok(f_apx32(rbig(args, 0)?.to_f32())),
            "r.to_f64.asis" => Ok(f_apx64(rbig(args, 0)?.to_f64())),
            "r.to_f32" => {
                let (x, y) = (rbig(args, 0)?, relaxed(args, 0)?);
                merge(&["rbig", "relaxed"], vec![run1(|| f_apx32(x.to_f32())), run1(|| f_apx32(y.to_f32()))])
            }
            "r.to_f64" => {
                let (x, y) = (rbig(args, 0)?, relaxed(args, 0)?);
                merge(&["rbig", "relaxed"], vec![run1(|| f_apx64(x.to_f64())), run1(|| f_apx64(y.to_f64()))])
            }
            "r.to_f32_fast" => Ok(f_f32(rbig(args, 0)?.to_f32_fast())),
            "r.to_f64_fast" => Ok(f_f64(rbig(args, 0)?.to_f64_fast())),
            "r.tryto_f32" => {
                let (x, y) = (rbig(args, 0)?, relaxed(args, 0)?);
                let f = |r: Result<f32, ConversionError>| match r {
                    Ok(v) => f_f32(v),
                    Err(e) => f_err(e),
                };
                merge(&["rbig", "relaxed"], vec![run1(|| f(f32::try_from(x.clone()))), run1(|| f(f32::try_from(y.clone())))])
            }
            "r.tryto_f64" => {
                let (x, y) = (rbig(args, 0)?, relaxed(args, 0)?);
                let f = |r: Result<f64, ConversionError>| match r {
                    Ok(v) => f_f64(v),
                    Err(e) => f_err(e),
                };
                merge(&["rbig", "relaxed"], vec![run1(|| f(f64::try_from(x.clone()))), run1(|| f(f64::try_from(y.clone())))])
            }
            "r.from_f32" => {
                let v = p_f32(arg(args, 0)?)?;
                let f = |r: Result<(IBig, UBig), ConversionError>| match r {
                    Ok((n, d)) => format!("{} {}", f_ibig(&n), f_ubig(&d)),
                    Err(e) => f_err(e),
                };
                merge(
                    &["rbig", "relaxed"],
                    vec![
                        run1(|| f(RBig::try_from(v).map(|r| r.into_parts()))),
                        run1(|| f(Relaxed::try_from(v).map(|r| r.canonicalize().into_parts()))),
                    ],
                )
            }
            "r.from_f64" => {
                let v = p_f64(arg(args, 0)?)?;
                let f = |r: Result<(IBig, UBig), ConversionError>| match r {
                    Ok((n, d)) => format!("{} {}", f_ibig(&n), f_ubig(&d)),
                    Err(e) => f_err(e),
                };
                merge(
                    &["rbig", "relaxed"],
                    vec![
                        run1(|| f(RBig::try_from(v).map(|r| r.into_parts()))),
                        run1(|| f(Relaxed::try_from(v).map(|r| r.canonicalize().into_parts()))),
                    ],
                )
            }
            "r.to_int" => {
                let (x, y) = (rbig(args, 0)?, relaxed(args, 0)?);
                let a = run1(|| match x.to_int() {
                    Approximation::Exact(v) => format!("{} Exact", f_ibig(&v)),
                    Approximation::Inexact(v, fr) => {
                        format!("{} Inexact {} {}", f_ibig(&v), f_ibig(fr.numerator()), f_ubig(fr.denominator()))
                    }
                });
                let b = run1(|| match y.to_int() {
                    Approximation::Exact(v) => format!("{} Exact", f_ibig(&v)),
                    Approximation::Inexact(v, fr) => {
                        let fr = fr.canonicalize();
                        format!("{} Inexact {} {}", f_ibig(&v), f_ibig(fr.numerator()), f_ubig(fr.denominator()))
                    }
                });
                merge(&["rbig", "relaxed"], vec![a, b])
            }
            "r.to.ibig" => {
                let (x, y) = (rbig(args, 0)?, relaxed(args, 0)?);
                let f = |r: Result<IBig, ConversionError>| match r {
                    Ok(v) => f_ibig(&v),
                    Err(e) => f_err(e),
                };
                merge(&["rbig", "relaxed"], vec![run1(|| f(IBig::try_from(x.clone()))), run1(|| f(IBig::try_from(y.clone())))])
            }
            "r.to.ubig" => {
                let x = rbig(args, 0)?;
                Ok(match UBig::try_from(x) {
                    Ok(v) => f_ubig(&v),
                    Err(e) => f_err(e),
                })
            }
            "r.from.ibig" => {
                let x = RBig::from(p_ibig(arg(args, 0)?)?);
                Ok(format!("{} {}", f_ibig(x.numerator()), f_ubig(x.denominator())))
            }
            "r.to_float" => {
                // r.to_float <base> <mode> <num> <den> d:<precision>
                let b = p_usize(arg(args, 0)?)?;
                let m = arg(args, 1)?;
                let (x, y) = (rbig(args, 2)?, relaxed(args, 2)?);
                let prec = p_usize(arg(args, 4)?)?;
                with_base!(b, r_to_float_mode, m, &x, &y, prec)
            }
            "r.to_float.code" | "rx.to_float.code" => {
                // <base> <mode> <num> <den> d:<precision>; `r.` = RBig (lowest terms), `rx.` = Relaxed
                let b = p_usize(arg(args, 0)?)?;
                let m = arg(args, 1)?;
                let prec = p_usize(arg(args, 4)?)?;
                if op.starts_with("rx.") {
                    let y = relaxed(args, 2)?;
                    with_base!(b, r_to_float_code_mode, m, None, Some(&y), prec)
                } else {
                    let x = rbig(args, 2)?;
                    with_base!(b, r_to_float_code_mode, m, Some(&x), None, prec)
                }
            }
            "f.from.rbig.code" | "f.from.relaxed.code" => {
                // <base> <mode> <num> <den>
                let b = p_usize(arg(args, 0)?)?;
                let m = arg(args, 1)?;
                if op == "f.from.relaxed.code" {
                    let y = relaxed(args, 2)?;
                    with_base!(b, f_from_rat_code_mode, m, None, Some(y))
                } else {
                    let x = rbig(args, 2)?;
                    with_base!(b, f_from_rat_code_mode, m, Some(x), None)
                }
            }
            "f.from.rbig" => {
                let b = p_usize(arg(args, 0)?)?;
                let x = rbig(args, 1)?;
                with_base!(b, f_from_rbig, x)
            }
            // ------------------------------------------------ floats: f.<op> d:<base> <mode> <signif> d:<exp>
            "f.to_f32" | "f.to_f32.code" => {
                let b = p_usize(arg(args, 0)?)?;
                let m = arg(args, 1)?;
                let (s, e) = (p_ibig(arg(args, 2)?)?, p_isize(arg(args, 3)?)?);
                with_base!(b, fb_mode_f32, m, s, e)
            }
            "f.to_f64" | "f.to_f64.code" => {
                let b = p_usize(arg(args, 0)?)?;
                let m = arg(args, 1)?;
                let (s, e) = (p_ibig(arg(args, 2)?)?, p_isize(arg(args, 3)?)?);
                with_base!(b, fb_mode_f64, m, s, e)
            }
            "f.to_int" => {
                let b = p_usize(arg(args, 0)?)?;
                let m = arg(args, 1)?;
                let (s, e) = (p_ibig(arg(args, 2)?)?, p_isize(arg(args, 3)?)?);
                with_base!(b, fb_mode_int, m, s, e)
            }
            "fr.to_f32" | "fr.to_f32.code" => {
                let b = p_usize(arg(args, 0)?)?;
                let (s, e) = (p_ibig(arg(args, 1)?)?, p_isize(arg(args, 2)?)?);
                with_base!(b, fr_to_f32, s, e)
            }
            "fr.to_int" => {
                let b = p_usize(arg(args, 0)?)?;
                let (s, e) = (p_ibig(arg(args, 1)?)?, p_isize(arg(args, 2)?)?);
                with_base!(b, fr_to_int, s, e)
            }
            "f.try.ibig" => {
                let b = p_usize(arg(args, 0)?)?;
                let (s, e) = (p_ibig(arg(args, 1)?)?, p_isize(arg(args, 2)?)?);
                with_base!(b, fb_try_ibig, s, e)
            }
            "f.try.ubig" => {
                let b = p_usize(arg(args, 0)?)?;
                let (s, e) = (p_ibig(arg(args, 1)?)?, p_isize(arg(args, 2)?)?);
                with_base!(b, fb_try_ubig, s, e)
            }
            "f.try" => {
                // f.try <type> d:<base> <signif> d:<exp>
                let ty = arg(args, 0)?;
                let b = p_usize(arg(args, 1)?)?;
                let (s, e) = (p_ibig(arg(args, 2)?)?, p_isize(arg(args, 3)?)?);
                with_base!(b, fb_try_prim, ty, s, e)
            }
            "f.to.rbig" => {
                let b = p_usize(arg(args, 0)?)?;
                let (s, e) = (p_ibig(arg(args, 1)?)?, p_isize(arg(args, 2)?)?);
                with_base!(b, fb_to_rbig, s, e)
            }
            "f.from.ibig" => {
                let b = p_usize(arg(args, 0)?)?;
                let v = p_ibig(arg(args, 1)?)?;
                with_base!(b, fb_from_int, v)
            }
            "f.from_f32" => {
                let v = p_f32(arg(args, 0)?)?;
                Ok(match FBig::<Zero, 2>::try_from(v) {
                    Ok(x) => format!("{} {}", f_frepr(x.repr()), f_dec(x.precision())),
                    Err(e) => f_err(e),
                })
            }
            "f.from_f64" => {
                let v = p_f64(arg(args, 0)?)?;
                Ok(match FBig::<Zero, 2>::try_from(v) {
                    Ok(x) => format!("{} {}", f_frepr(x.repr()), f_dec(x.precision())),
                    Err(e) => f_err(e),
                })
            }
            "f.inf" => {
                // f.inf <which> <+|-> : conversions of the infinities (base 10 / base 2 where required)
                let neg = arg(args, 1)? == "-";
                let x10 = if neg { FBig::<HalfAway, 10>::NEG_INFINITY } else { FBig::<HalfAway, 10>::INFINITY };
                let x2 = if neg { FBig::<HalfEven, 2>::NEG_INFINITY } else { FBig::<HalfEven, 2>::INFINITY };
                let ec = |r: Result<String, ConversionError>| match r {
                    Ok(v) => v,
                    Err(e) => f_err(e),
                };
                match arg(args, 0)? {
                    "to_f32" => Ok(f_rnd32(x10.to_f32())),
                    "to_f64" => Ok(f_rnd64(x10.to_f64())),
                    "repr.to_f64" => Ok(f_rnd64(x10.repr().to_f64())),
                    "to_int" => Ok(f_rndint(x10.to_int())),
                    "try.ibig" => Ok(ec(IBig::try_from(x10).map(|v| f_ibig(&v)))),
                    "try.ubig" => Ok(ec(UBig::try_from(x10).map(|v| f_ubig(&v)))),
                    "try.u8" => Ok(ec(u8::try_from(x10).map(|v| f_u("u8", v as u128)))),
                    "try.i64" => Ok(ec(i64::try_from(x10).map(|v| f_i("i64", v as i128)))),
                    "to.rbig" => Ok(ec(RBig::try_from(x10).map(|r| format!("{} {}", f_ibig(r.numerator()), f_ubig(r.denominator()))))),
                    "tryto_f32" => Ok(ec(f32::try_from(x2).map(f_f32))),
                    "tryto_f64" => Ok(ec(f64::try_from(x2).map(f_f64))),
                    w => Err(format!("bad-arg which {}", w)),
                }
            }
            "f.tryto_f32" => {
                // TryFrom<FBig<_,2>> for f32: exact or refused
                let (s, e) = (p_ibig(arg(args, 0)?)?, p_isize(arg(args, 1)?)?);
                let x = FBig::<HalfEven, 2>::from_parts(s.clone(), e);
                let r = FRepr::<2>::new(s, e);
                let f = |r: Result<f32, ConversionError>| match r {
                    Ok(v) => f_f32(v),
                    Err(e) => f_err(e),
                };
                merge(&["fbig", "repr"], vec![run1(|| f(f32::try_from(x.clone()))), run1(|| f(f32::try_from(r.clone())))])
            }
            "f.tryto_f64" => {
                let (s, e) = (p_ibig(arg(args, 0)?)?, p_isize(arg(args, 1)?)?);
                let x = FBig::<Zero, 2>::from_parts(s.clone(), e);
                let r = FRepr::<2>::new(s, e);
                let f = |r: Result<f64, ConversionError>| match r {
                    Ok(v) => f_f64(v),
                    Err(e) => f_err(e),
                };
                merge(&["fbig", "repr"], vec![run1(|| f(f64::try_from(x.clone()))), run1(|| f(f64::try_from(r.clone())))])
            }
            _ => return Err(format!("bad-op {}", op)),
        }
    })())
    .and_then(|r| match r {
        Err(ref e) if e.starts_with("bad-op ") => None,
        r => Some(r),
    })
}
