//! group `panic`: C16 (operations terminate and panic only where documented).
//!
//! `exec_panic <casefile>` is a SUPERVISOR: it feeds the case lines one by one to a worker process
//! (`exec_panic --worker`, the same binary) and watches it:
//!   * the worker has burnt more than `VERIF_PANIC_CPU_MS` (default 20000 ms) of CPU time (utime + stime of
//!     /proc/<pid>/stat) on the case                                                    -> `<id> hang`
//!     (CPU time, not wall time: a loaded machine must not turn a slow case into a hang; a wall backstop of 10x the
//!     CPU limit applies only while the CPU time is NOT advancing, i.e. the worker is blocked)
//!   * the worker died (abort on allocation failure, stack overflow, signal)           -> `<id> crash <why>`
//! and restarts the worker for the next case.  The worker caps its own address space
//! (`VERIF_PANIC_MEM_MB`, default 4096) so that "exhausts memory" is observed promptly as a panic /
//! abort kind instead of taking the machine down.
//! A case whose op carries the prefix `L/` (after an optional `R/`) belongs to the termination stream: it may take
//! long and gets the CPU limit `VERIF_PANIC_LONG_MS` (default 6x the normal one).  Every answer that took more than 10 s
//! of wall time is annotated ` #slow=<seconds>`, every answer that cost more than 1 s of CPU ` #cpu=<ms>` (annotations are
//! not compared), so slow-but-terminating is distinguishable from a hang and growth rates can be read off the output.
//! While waiting the supervisor prints `# alive` lines so that the caller sees its output grow.
//! A case whose op is prefixed with `R/` is routed to the worker of the RELEASE build
//! (`VERIF_PANIC_RELEASE_EXE`, default `<dir>/../release/exec_panic`); all others run in this build.
#[path = "../ops_panic.rs"]
mod ops_panic;

use std::io::{BufRead, BufReader, Read, Write};
use std::process::{Child, ChildStdin, Command, Stdio};
use std::sync::mpsc::{channel, Receiver, RecvTimeoutError};
use std::time::Duration;
use verif_harness::util::*;

#[repr(C)]
struct RLimit {
    cur: u64,
    max: u64,
}
extern "C" {
    fn setrlimit(resource: i32, rlim: *const RLimit) -> i32;
}
const RLIMIT_AS: i32 = 9; // Linux
extern "C" {
    fn sysconf(name: i32) -> i64;
}
const SC_CLK_TCK: i32 = 2; // Linux

/// CPU time (user + system) of a process in milliseconds, from /proc/<pid>/stat
fn cpu_ms(pid: u32) -> Option<u64> {
    let s = std::fs::read_to_string(format!("/proc/{}/stat", pid)).ok()?;
    let rest = &s[s.rfind(')')? + 1..];
    let f: Vec<&str> = rest.split_whitespace().collect();
    // after the command: state(0) ppid pgrp session tty tpgid flags minflt cminflt majflt cmajflt utime(11) stime(12)
    let ut: u64 = f.get(11)?.parse().ok()?;
    let st: u64 = f.get(12)?.parse().ok()?;
    let tck = unsafe { sysconf(SC_CLK_TCK) }.max(1) as u64;
    Some((ut + st) * 1000 / tck)
}

fn worker() {
    let mb: u64 = std::env::var("VERIF_PANIC_MEM_MB").ok().and_then(|s| s.parse().ok()).unwrap_or(4096);
    let lim = RLimit { cur: mb << 20, max: mb << 20 };
    unsafe {
        setrlimit(RLIMIT_AS, &lim);
    }
    install_panic_hook();
    let stdin = std::io::stdin();
    let out = std::io::stdout();
    let mut out = out.lock();
    for line in stdin.lock().lines() {
        let line = match line {
            Ok(l) => l,
            Err(_) => break,
        };
        let toks: Vec<&str> = line.trim().split(' ').collect();
        if toks.len() < 2 {
            continue;
        }
        let id = toks[0];
        let op = toks[1];
        let args: Vec<&str> = toks[2..].to_vec();
        let res = std::panic::catch_unwind(|| match ops_panic::dispatch(op, &args) {
            Some(r) => r,
            None => Err(format!("bad-op {}", op)),
        });
        match res {
            Ok(Ok(s)) => writeln!(out, "{} ok {}", id, s).unwrap(),
            Ok(Err(e)) => writeln!(out, "{} {}", id, e).unwrap(),
            Err(_) => {
                let (msg, loc) = LAST_PANIC
                    .with(|p| p.borrow_mut().take())
                    .unwrap_or_else(|| ("?".into(), "?".into()));
                let k: String = classify_panic(&msg, &loc).split_whitespace().collect::<Vec<_>>().join("_");
                writeln!(out, "{} panic {}", id, k).unwrap()
            }
        }
        out.flush().unwrap();
    }
}

struct Worker {
    child: Child,
    stdin: ChildStdin,
    rx: Receiver<String>,
    err: Receiver<String>,
}

fn spawn(exe: &std::path::Path) -> Worker {
    let mut child = Command::new(exe)
        .arg("--worker")
        .stdin(Stdio::piped())
        .stdout(Stdio::piped())
        .stderr(Stdio::piped())
        .spawn()
        .expect("cannot spawn worker");
    let stdin = child.stdin.take().unwrap();
    let stdout = child.stdout.take().unwrap();
    let mut stderr = child.stderr.take().unwrap();
    let (tx, rx) = channel();
    std::thread::spawn(move || {
        for l in BufReader::new(stdout).lines() {
            match l {
                Ok(l) => {
                    if tx.send(l).is_err() {
                        break;
                    }
                }
                Err(_) => break,
            }
        }
    });
    let (etx, erx) = channel();
    std::thread::spawn(move || {
        let mut s = String::new();
        let _ = stderr.read_to_string(&mut s);
        let _ = etx.send(s);
    });
    Worker { child, stdin, rx, err: erx }
}

fn why_dead(w: &mut Worker) -> String {
    let status = w.child.wait().ok();
    let err = w.err.recv_timeout(Duration::from_millis(500)).unwrap_or_default();
    let why = if err.contains("memory allocation of") {
        "oom".to_string()
    } else if err.contains("has overflowed its stack") {
        "stack-overflow".to_string()
    } else {
        let last = err.lines().last().unwrap_or("").replace(' ', "_");
        format!("{}", last.chars().take(80).collect::<String>())
    };
    #[cfg(unix)]
    let sig = {
        use std::os::unix::process::ExitStatusExt;
        status.and_then(|s| s.signal()).map(|s| format!(" signal={}", s)).unwrap_or_default()
    };
    format!("{}{}", why, sig)
}

fn supervisor(path: &str) {
    let me = std::env::current_exe().expect("current_exe");
    let rel = std::env::var("VERIF_PANIC_RELEASE_EXE").map(std::path::PathBuf::from).unwrap_or_else(|_| {
        me.parent().unwrap().parent().unwrap().join("release").join("exec_panic")
    });
    let ms: u64 = std::env::var("VERIF_PANIC_CPU_MS").ok().and_then(|s| s.parse().ok()).unwrap_or(20_000);
    let long_ms: u64 = std::env::var("VERIF_PANIC_LONG_MS").ok().and_then(|s| s.parse().ok()).unwrap_or(6 * ms);
    let f = std::fs::File::open(path).expect("cannot open case file");
    let out = std::io::stdout();
    let mut out = out.lock();
    let mut workers: [Option<Worker>; 2] = [None, None];
    for line in BufReader::new(f).lines() {
        let line = line.unwrap();
        let line = line.trim();
        if line.is_empty() {
            continue;
        }
        if line.starts_with('#') {
            let toks: Vec<&str> = line.split(' ').collect();
            if toks[0] == "#W" && toks[1].parse::<usize>().ok() != Some(WBITS) {
                writeln!(out, "! word size mismatch: case file {} build {}", toks[1], WBITS).unwrap();
                std::process::exit(3);
            }
            continue;
        }
        let mut toks: Vec<&str> = line.split(' ').collect();
        if toks.len() < 2 {
            continue;
        }
        let id = toks[0].to_string();
        let (slot, exe) = match toks[1].strip_prefix("R/") {
            Some(op) => {
                toks[1] = op;
                (1usize, rel.clone())
            }
            None => (0usize, me.clone()),
        };
        let mut limit = ms;
        let stripped;
        if let Some(op) = toks[1].strip_prefix("L/") {
            stripped = op.to_string();
            toks[1] = &stripped;
            limit = long_ms;
        }
        let t0 = std::time::Instant::now();
        if slot == 1 && !exe.exists() {
            writeln!(out, "{} bad-op release-worker-missing", id).unwrap();
            continue;
        }
        if workers[slot].is_none() {
            workers[slot] = Some(spawn(&exe));
        }
        let sent = {
            let w = workers[slot].as_mut().unwrap();
            writeln!(w.stdin, "{}", toks.join(" ")).and_then(|_| w.stdin.flush()).is_ok()
        };
        let w = workers[slot].as_mut().unwrap();
        let pid = w.child.id();
        let cpu0 = cpu_ms(pid).unwrap_or(0);
        let mut cpu_used: u64 = 0;
        let verdict = if !sent {
            Err(true)
        } else {
            let mut last_cpu = cpu0;
            let mut last_progress = std::time::Instant::now();
            let mut last_beat = std::time::Instant::now();
            loop {
                match w.rx.recv_timeout(Duration::from_millis(200)) {
                    Ok(l) => {
                        cpu_used = cpu_ms(pid).unwrap_or(last_cpu).saturating_sub(cpu0);
                        break Ok(l);
                    }
                    Err(RecvTimeoutError::Disconnected) => break Err(true),
                    Err(RecvTimeoutError::Timeout) => {
                        let c = cpu_ms(pid).unwrap_or(last_cpu);
                        if c > last_cpu {
                            last_cpu = c;
                            last_progress = std::time::Instant::now();
                        }
                        cpu_used = c.saturating_sub(cpu0);
                        if cpu_used >= limit {
                            break Err(false);
                        }
                        // blocked (no CPU progress) for 10x the limit
                        if last_progress.elapsed() >= Duration::from_millis(10 * limit) {
                            break Err(false);
                        }
                        if last_beat.elapsed() >= Duration::from_secs(15) {
                            writeln!(out, "# alive {} cpu_ms={}", id, cpu_used).unwrap();
                            out.flush().unwrap();
                            last_beat = std::time::Instant::now();
                        }
                    }
                }
            }
        };
        match verdict {
            Ok(l) => {
                let secs = t0.elapsed().as_secs();
                let mut l = l;
                if cpu_used >= 1000 {
                    l.push_str(&format!(" #cpu={}", cpu_used));
                }
                if secs >= 10 {
                    l.push_str(&format!(" #slow={}", secs));
                }
                writeln!(out, "{}", l).unwrap()
            }
            Err(false) => {
                let _ = w.child.kill();
                let _ = w.child.wait();
                workers[slot] = None;
                writeln!(out, "{} hang #cpu={}", id, cpu_used).unwrap();
            }
            Err(true) => {
                let why = why_dead(w);
                workers[slot] = None;
                writeln!(out, "{} crash {}", id, why).unwrap();
            }
        }
        out.flush().unwrap();
    }
    for w in workers.iter_mut().flatten() {
        let _ = w.child.kill();
        let _ = w.child.wait();
    }
}

fn main() {
    let a: Vec<String> = std::env::args().collect();
    if a.get(1).map(|s| s.as_str()) == Some("--worker") {
        worker();
    } else {
        supervisor(a.get(1).expect("usage: exec_panic <casefile>"));
    }
}
