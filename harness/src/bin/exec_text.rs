//! group `text`: C07 (integer text and byte encodings), C08 (float text I/O)
#[path = "../ops_text.rs"]
mod ops_text;

fn main() {
    verif_harness::run_main(&[ops_text::dispatch, ops_text::dispatch_float]);
}
