//! group `mem`: C17 (memory safety of the hand-managed storage: buffer.rs / repr.rs)
#[path = "../ops_mem.rs"]
mod ops_mem;

#[global_allocator]
static A: ops_mem::Counting = ops_mem::Counting;

fn main() {
    verif_harness::run_main(&[ops_mem::dispatch]);
}
