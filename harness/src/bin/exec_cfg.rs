//! group `cfg`: C19 (independence from word size / features / profile / serialization medium).
//!
//! One source, two roles:
//!  * **worker** (`DASHU_CFG_WORKER` set): the ordinary case-file loop over the integer, division,
//!    bit, text ops of the other groups plus the serde and log2-bound ops of C19.  The same source is
//!    built once per configuration {force_bits 64|32} x {std|no_std} x {dev|release}
//!    (`vlib/cfgbuild.py`).
//!  * **front** (default): every case is `cfg <conf> <op> <args…>` or `cfgall <op> <args…>`; the
//!    front forwards `<op> <args…>` to the worker built in configuration `<conf>` (resp. to every
//!    configuration listed in the manifest `DASHU_CFG_MANIFEST`: lines `<conf> <path to worker>`),
//!    prints the worker's answer verbatim, and for `cfgall` prints the common answer or
//!    `config-disagree <conf>=<answer> || …` when the builds do not agree byte for byte.
#[cfg(cfg_worker)]
#[path = "../ops_bits.rs"]
mod ops_bits;
#[cfg(cfg_worker)]
#[path = "../ops_cmp.rs"]
mod ops_cmp;
#[cfg(cfg_worker)]
#[path = "../ops_conv.rs"]
mod ops_conv;
#[cfg(cfg_worker)]
#[path = "../ops_cross.rs"]
mod ops_cross;
#[cfg(cfg_worker)]
#[path = "../ops_float.rs"]
mod ops_float;
#[cfg(cfg_worker)]
#[path = "../ops_nt.rs"]
mod ops_nt;
#[cfg(cfg_worker)]
#[path = "../ops_ratio.rs"]
mod ops_ratio;
#[cfg(cfg_worker)]
#[path = "../ops_div.rs"]
mod ops_div;
#[cfg(cfg_worker)]
#[path = "../ops_int.rs"]
mod ops_int;
#[cfg(all(cfg_worker, feature = "serde"))]
#[path = "../ops_serde.rs"]
mod ops_serde;
// (round 6: ops_text.rs names bases near the top of the 64-bit `Word` range as const generics; with 32-bit words those literals are
// out of range - lint allowed, the wrapped instantiations are never selected: `grouped` refuses a base above `Word::MAX`)
#[cfg(cfg_worker)]
#[allow(overflowing_literals)]
#[path = "../ops_text.rs"]
mod ops_text;
// ops modules the other groups gained in rounds 4/5 (same chains as `exec_<group>`)
#[cfg(cfg_worker)]
#[path = "../ops_int_prim.rs"]
mod ops_int_prim;
// ops_norm.rs of the bits group (C05: `c.ext`, `f.norm`) names bases above 2^32 as `Word` const generics.  With 32-bit words those
// literals are out of range (lint `overflowing_literals`, allowed here: the wrapped instantiations are never selected, see `grouped`)
#[cfg(cfg_worker)]
#[allow(overflowing_literals)]
#[path = "../ops_norm.rs"]
mod ops_norm;
#[cfg(cfg_worker)]
#[path = "../ops_simplify2.rs"]
mod ops_simplify2;
#[cfg(cfg_worker)]
#[path = "../ops_ratio_pred.rs"]
mod ops_ratio_pred;

use std::collections::BTreeMap;
use std::io::{BufRead, BufReader, Write};
use std::process::{Child, ChildStdin, ChildStdout, Command, Stdio};

#[cfg(all(cfg_worker, not(feature = "serde")))]
mod ops_serde {
    pub fn dispatch(_op: &str, _args: &[&str]) -> Option<verif_harness::util::Res> {
        None
    }
}

/// C19 clause (2): `EstimatedLog2::log2_bounds` in this build (std: f32::log2, no_std: table)
#[cfg(cfg_worker)]
mod ops_log {
    use dashu_base::EstimatedLog2;
    use verif_harness::util::*;

    fn bits(b: (f32, f32)) -> String {
        format!("{:x} {:x}", b.0.to_bits(), b.1.to_bits())
    }

    pub fn dispatch(op: &str, args: &[&str]) -> Option<Res> {
        if !op.starts_with("lg.") {
            return None;
        }
        Some((|| -> Res {
            match op {
                "lg.p" => {
                    let ty = arg(args, 0)?;
                    let x = p_ubig(arg(args, 1)?)?;
                    let v = u128::try_from(&x).map_err(|_| "bad-arg prim".to_string())?;
                    Ok(match ty {
                        "u8" => bits(u8::try_from(v).map_err(|_| "bad-arg u8".to_string())?.log2_bounds()),
                        "u16" => bits(u16::try_from(v).map_err(|_| "bad-arg u16".to_string())?.log2_bounds()),
                        "u32" => bits(u32::try_from(v).map_err(|_| "bad-arg u32".to_string())?.log2_bounds()),
                        "u64" => bits(u64::try_from(v).map_err(|_| "bad-arg u64".to_string())?.log2_bounds()),
                        "u128" => bits(v.log2_bounds()),
                        _ => return Err(format!("bad-arg type {}", ty)),
                    })
                }
                "lg.u" => Ok(bits(p_ubig(arg(args, 0)?)?.log2_bounds())),
                "lg.i" => Ok(bits(p_ibig(arg(args, 0)?)?.log2_bounds())),
                "lg.range" => {
                    // the bounds of every u16 value in [lo, hi) as `lb:ub` bit patterns (through u16, u32 and
                    // u128, whose impls must agree on such values)
                    let lo = p_usize(arg(args, 0)?)?;
                    let hi = p_usize(arg(args, 1)?)?;
                    let mut out: Vec<String> = Vec::with_capacity(hi.saturating_sub(lo));
                    for x in lo..hi {
                        let b = (x as u16).log2_bounds();
                        let b32 = (x as u32).log2_bounds();
                        let b128 = (x as u128).log2_bounds();
                        if b.0.to_bits() != b32.0.to_bits() || b.1.to_bits() != b32.1.to_bits()
                            || b.0.to_bits() != b128.0.to_bits() || b.1.to_bits() != b128.1.to_bits() {
                            return Ok(format!("types-disagree-at-{}", x));
                        }
                        out.push(format!("{:x}:{:x}", b.0.to_bits(), b.1.to_bits()));
                    }
                    Ok(out.join(","))
                }
                _ => Err(format!("bad-op {}", op)),
            }
        })())
    }
}

#[cfg(cfg_worker)]
/// `<group>/<op>`: the op as the binary `exec_<group>` dispatches it (same modules, same order), so
/// that every property's case generator can be replayed in every configuration without op-name clashes
fn grouped(op: &str, args: &[&str]) -> Option<verif_harness::util::Res> {
    let (group, inner) = op.split_once('/')?;
    let chain: &[verif_harness::Dispatch] = match group {
        "int" => &[ops_int::dispatch, ops_bits::dispatch, ops_int_prim::dispatch],
        "div" => &[ops_div::dispatch, ops_int::dispatch],
        "bits" => {
            // `f.norm d:<B> …`: the base is a `Word` const generic; a base that is not a `Word` of this build does not exist here
            if inner == "f.norm" {
                if let Some(b) = args.first().and_then(|a| a.strip_prefix("d:")).and_then(|a| a.parse::<u128>().ok()) {
                    if b > dashu_int::Word::MAX as u128 {
                        return Some(Err(format!("bad-arg base-exceeds-word {}", b)));
                    }
                }
            }
            &[ops_bits::dispatch, ops_cmp::dispatch, ops_norm::dispatch]
        }
        "text" => {
            // a base that is not a `Word` of this build: the base field of an `f:<B>:…` float argument, or the target base (first
            // argument) of `f.with_base…` (any other `d:` argument is a precision / width and may be any usize)
            let mut bases: Vec<u128> = args
                .iter()
                .filter_map(|a| a.strip_prefix("f:"))
                .filter_map(|f| f.split(':').next().and_then(|x| x.parse::<u128>().ok()))
                .collect();
            if inner.starts_with("f.with_base") {
                if let Some(b) = args.first().and_then(|a| a.strip_prefix("d:")).and_then(|d| d.parse::<u128>().ok()) {
                    bases.push(b);
                }
            }
            if let Some(b) = bases.into_iter().find(|b| *b > dashu_int::Word::MAX as u128) {
                return Some(Err(format!("bad-arg base-exceeds-word {}", b)));
            }
            &[ops_text::dispatch, ops_text::dispatch_float]
        }
        "conv" => &[ops_conv::dispatch],
        "nt" => &[ops_nt::dispatch],
        "float" => &[ops_float::dispatch],
        "ratio" => &[ops_simplify2::dispatch, ops_ratio::dispatch, ops_ratio_pred::dispatch],
        "cross" => &[ops_cross::dispatch],
        _ => return Some(Err(format!("bad-op unknown-group:{}", group))),
    };
    for d in chain {
        if let Some(r) = d(inner, args) {
            return Some(r);
        }
    }
    Some(Err(format!("bad-op {}", op)))
}

/// which configuration this binary was compiled in (worker op `cfg.self`)
#[cfg(cfg_worker)]
fn self_config(op: &str, _args: &[&str]) -> Option<verif_harness::util::Res> {
    if op != "cfg.self" {
        return None;
    }
    Some(Ok(format!(
        "w{} {} {}",
        verif_harness::util::WBITS,
        if cfg!(feature = "std") { "std" } else { "nostd" },
        if cfg!(debug_assertions) { "dev" } else { "rel" }
    )))
}

struct Worker {
    child: Child,
    stdin: ChildStdin,
    stdout: BufReader<ChildStdout>,
}

fn conf_word_bits(conf: &str) -> &str {
    if conf.starts_with("w32") {
        "32"
    } else if conf.starts_with("w16") {
        "16"
    } else {
        "64"
    }
}

fn spawn(conf: &str, path: &str) -> Option<Worker> {
    let mut child = Command::new(path)
        .arg("/dev/stdin")
        .env("DASHU_CFG_WORKER", "1")
        .stdin(Stdio::piped())
        .stdout(Stdio::piped())
        .stderr(Stdio::null())
        .spawn()
        .ok()?;
    let mut stdin = child.stdin.take()?;
    let stdout = BufReader::new(child.stdout.take()?);
    writeln!(stdin, "#W {}", conf_word_bits(conf)).ok()?;
    Some(Worker { child, stdin, stdout })
}

/// send one case to a worker and read its one-line answer (payload without the id)
fn ask(workers: &mut BTreeMap<String, Worker>, manifest: &BTreeMap<String, String>, conf: &str, body: &str) -> String {
    let path = match manifest.get(conf) {
        Some(p) => p,
        None => return format!("bad-op no-such-config:{}", conf),
    };
    if let Some(reason) = path.strip_prefix('!') {
        // the configuration does not compile: every case of it reports that
        return format!("build-failed {}", reason);
    }
    if !workers.contains_key(conf) {
        match spawn(conf, path) {
            Some(w) => {
                workers.insert(conf.to_string(), w);
            }
            None => return format!("bad-op cannot-start-worker:{}", conf),
        }
    }
    let w = workers.get_mut(conf).unwrap();
    let sent = writeln!(w.stdin, "0 {}", body).and_then(|_| w.stdin.flush());
    let mut line = String::new();
    let got = if sent.is_ok() { w.stdout.read_line(&mut line).unwrap_or(0) } else { 0 };
    if got == 0 || !line.starts_with("0 ") {
        // the worker died (abort, stack overflow, word-size mismatch): report and restart next time
        let mut w = workers.remove(conf).unwrap();
        let _ = w.child.kill();
        let st = w.child.wait().map(|s| s.to_string()).unwrap_or_default();
        return format!("crash {} {}", st.replace(' ', "_"), line.trim().replace(' ', "_"));
    }
    // a trailing ` #key=value…` annotation (which call path was taken, how many forms ran) is not part of
    // the answer: the paths legitimately differ between configurations (vlib/core.py drops it as well)
    let ans = line[2..].trim_end();
    ans.split(" #").next().unwrap_or(ans).trim_end().to_string()
}

fn front() {
    let path = std::env::args().nth(1).expect("usage: exec_cfg <casefile>");
    let mut manifest: BTreeMap<String, String> = BTreeMap::new();
    if let Ok(m) = std::env::var("DASHU_CFG_MANIFEST") {
        if let Ok(txt) = std::fs::read_to_string(&m) {
            for l in txt.lines() {
                let t: Vec<&str> = l.split(' ').collect();
                if t.len() == 2 {
                    manifest.insert(t[0].to_string(), t[1].to_string());
                }
            }
        }
    }
    let mut workers: BTreeMap<String, Worker> = BTreeMap::new();
    let f = std::fs::File::open(&path).expect("cannot open case file");
    let out = std::io::stdout();
    let mut out = std::io::BufWriter::new(out.lock());
    for line in BufReader::new(f).lines() {
        let line = line.unwrap();
        let line = line.trim();
        if line.is_empty() || line.starts_with('#') {
            continue;
        }
        let toks: Vec<&str> = line.splitn(3, ' ').collect();
        let id = toks[0];
        let op = toks.get(1).copied().unwrap_or("");
        let rest = toks.get(2).copied().unwrap_or("");
        let payload = match op {
            "cfg" => {
                let mut it = rest.splitn(2, ' ');
                let conf = it.next().unwrap_or("");
                let body = it.next().unwrap_or("");
                ask(&mut workers, &manifest, conf, body)
            }
            "cfgall" => {
                // every configuration of this run except the 16-bit one (recorded separately: it does not compile)
                let confs: Vec<String> = manifest.keys().filter(|c| !c.starts_with("w16")).cloned().collect();
                let answers: Vec<(String, String)> =
                    confs.iter().map(|c| (c.clone(), ask(&mut workers, &manifest, c, rest))).collect();
                if answers.is_empty() {
                    "bad-op no-configurations".to_string()
                } else if answers.iter().all(|(_, a)| *a == answers[0].1) {
                    answers[0].1.clone()
                } else {
                    let v: Vec<String> = answers.iter().map(|(c, a)| format!("{}={}", c, a)).collect();
                    format!("config-disagree {}", v.join(" || "))
                }
            }
            _ => format!("bad-op {}", op),
        };
        writeln!(out, "{} {}", id, payload).unwrap();
        out.flush().unwrap();
    }
    for (_, mut w) in workers {
        drop(w.stdin);
        let _ = w.child.wait();
    }
}

#[cfg(cfg_worker)]
fn worker() {
    verif_harness::run_main(&[
        self_config,
        grouped,
        ops_serde::dispatch,
        ops_log::dispatch,
        ops_int::dispatch,
        ops_div::dispatch,
        ops_bits::dispatch,
        ops_text::dispatch,
        ops_text::dispatch_float,
    ]);
}

/// the front (built by `./check` without `--cfg cfg_worker`) carries none of the ops modules: it only forwards
#[cfg(not(cfg_worker))]
fn worker() {
    eprintln!("this exec_cfg was built without --cfg cfg_worker (vlib/cfgbuild.py builds the workers)");
    std::process::exit(4);
}

fn main() {
    if std::env::var_os("DASHU_CFG_WORKER").is_some() {
        worker();
    } else {
        front();
    }
}
