//! group `float`: C10 C03 (float rounding primitives, rounding to integers, float arithmetic contract)
#[path = "../ops_float.rs"]
mod ops_float;

fn main() {
    verif_harness::run_main(&[ops_float::dispatch]);
}
