//! group `float`: C10 C03 (float rounding primitives, rounding to integers, float arithmetic contract)
#[path = "../ops_float.rs"]
mod ops_float;
#[path = "../ops_f32.rs"]
mod ops_f32;

fn main() {
    verif_harness::run_main(&[ops_f32::dispatch, ops_float::dispatch]);
}
