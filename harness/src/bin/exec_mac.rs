//! group `mac`: C20 (literal macros).  `/repo/macros/src/parse/` — the whole expansion logic of the
//! proc-macro crate except the thin `#[proc_macro]` wrappers of `macros/src/lib.rs` — is compiled
//! into this binary by path, so the expansion functions can be called at run time.
#[allow(dead_code, unused_imports)]
#[path = "/repo/macros/src/parse/mod.rs"]
mod parse;
#[path = "../ops_mac.rs"]
mod ops_mac;

fn main() {
    verif_harness::run_main(&[ops_mac::dispatch]);
}
