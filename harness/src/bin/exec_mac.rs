//! group `mac`: C20 (literal macros).  `/repo/macros/src/parse/` — the whole expansion logic of the
//! proc-macro crate except the thin `#[proc_macro]` wrappers of `macros/src/lib.rs` — is compiled
//! into this binary by path, so the expansion functions can be called at run time.
// the location of the repository is written into src/gen/mac_parse.rs by the check (`pre_build`), so
// that a trial against a scratch copy of the repository compiles *that* copy's macro sources
#[path = "../gen/mac_parse.rs"]
mod mac_parse;
use mac_parse::parse;
#[path = "../ops_mac.rs"]
mod ops_mac;

fn main() {
    verif_harness::run_main(&[ops_mac::dispatch]);
}
