//! group `cross`: C14 (cross-type comparison and hashing)
#[path = "../ops_cross.rs"]
mod ops_cross;

fn main() {
    verif_harness::run_main(&[ops_cross::dispatch]);
}
