//! group `trans`: C11 (exp, exp_m1, ln, ln_1p, powi, powf)
#[path = "../ops_trans.rs"]
mod ops_trans;

#[repr(C)]
struct RLimit {
    cur: u64,
    max: u64,
}
extern "C" {
    fn setrlimit(resource: i32, rlim: *const RLimit) -> i32;
}
const RLIMIT_AS: i32 = 9;

fn main() {
    // `ln(0)` and friends try to allocate without bound; keep a runaway case from taking the machine
    // down with it (the process then aborts on the failed allocation and the runner reports `crash`).
    let lim = RLimit { cur: 6 << 30, max: 6 << 30 };
    unsafe {
        setrlimit(RLIMIT_AS, &lim);
    }
    verif_harness::run_main(&[ops_trans::dispatch]);
}
