//! group `int`: C01 C02 C09 (integer arithmetic, division, bits)
#[path = "../ops_bits.rs"]
mod ops_bits;
#[path = "../ops_int.rs"]
mod ops_int;
#[path = "../ops_int_prim.rs"]
mod ops_int_prim;

fn main() {
    verif_harness::run_main(&[ops_int::dispatch, ops_bits::dispatch, ops_int_prim::dispatch]);
}
