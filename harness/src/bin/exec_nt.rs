//! group `nt`: C12 C13 (gcd, roots, logs, remove; reduced-ring arithmetic)
#[path = "../ops_nt.rs"]
mod ops_nt;

fn main() {
    verif_harness::run_main(&[ops_nt::dispatch]);
}
