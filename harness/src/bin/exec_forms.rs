//! group `forms`: C15 (all call forms of an operator agree) and C16 (panic kinds)
#[path = "../gen/forms_rt.rs"]
mod forms_rt;
#[path = "../gen/forms_int.rs"]
mod forms_int;
#[path = "../ops_forms.rs"]
mod ops_forms;

fn main() {
    verif_harness::run_main(&[ops_forms::dispatch]);
}
