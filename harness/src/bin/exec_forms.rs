//! group `forms`: C15 (all call forms of an operator agree) and C16 (panic kinds)
#[path = "../gen/forms_rt.rs"]
mod forms_rt;
#[path = "../gen/forms_int.rs"]
mod forms_int;
#[path = "../ops_forms.rs"]
mod ops_forms;
#[path = "../gen/forms_rt2.rs"]
mod forms_rt2;
#[path = "../gen/forms_ratio.rs"]
mod forms_ratio;
#[path = "../gen/forms_float.rs"]
mod forms_float;
#[path = "../ops_forms2.rs"]
mod ops_forms2;
#[path = "../ops_forms3.rs"]
mod ops_forms3;

fn main() {
    verif_harness::run_main(&[ops_forms::dispatch, ops_forms2::dispatch, ops_forms3::dispatch]);
}
