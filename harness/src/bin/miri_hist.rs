//! C17 under Miri: the same history interpreter as `exec_mem` (mem.buf / mem.val), without the
//! counting allocator (Miri itself is the checker).  Histories are command-line arguments, one per
//! argument: `buf;tok;tok;…`, `val;tok;tok;…` or `arith;<op>;<form>;<a>;<b>`.  No file or environment access (Miri isolation).
#[path = "../ops_mem.rs"]
mod ops_mem;

fn main() {
    verif_harness::util::install_panic_hook();
    for (i, a) in std::env::args().skip(1).enumerate() {
        let mut it = a.split(';');
        let kind = it.next().unwrap_or("");
        let toks: Vec<&str> = it.filter(|t| !t.is_empty()).collect();
        let r = match kind {
            "buf" => ops_mem::buf_history(&toks),
            "val" => ops_mem::val_history(&toks),
            "arith" => ops_mem::arith_case(&toks),
            _ => Err(format!("bad-kind {}", kind)),
        };
        match r {
            Ok(s) => println!("{} ok {}", i, s),
            Err(e) => println!("{} {}", i, e),
        }
    }
}
