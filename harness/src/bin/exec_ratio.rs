//! group `ratio`: C04 (rational arithmetic), C18 (rational approximation)
#[path = "../ops_ratio.rs"]
mod ops_ratio;

fn main() {
    verif_harness::run_main(&[ops_ratio::dispatch]);
}
