//! group `ratio`: C04 (rational arithmetic), C18 (rational approximation)
#[path = "../ops_ratio.rs"]
mod ops_ratio;
#[path = "../ops_simplify2.rs"]
mod ops_simplify2; // C18: simplest_from_float over more bases / infinities with a context
#[path = "../ops_ratio_pred.rs"]
mod ops_ratio_pred; // C04: predicates / accessors / constants of rbig.rs, sign.rs

fn main() {
    verif_harness::run_main(&[ops_simplify2::dispatch, ops_ratio::dispatch, ops_ratio_pred::dispatch]);
}
