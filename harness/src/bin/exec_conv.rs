//! group `conv`: C06 (conversions)
#[path = "../ops_conv.rs"]
mod ops_conv;

fn main() {
    verif_harness::run_main(&[ops_conv::dispatch]);
}
