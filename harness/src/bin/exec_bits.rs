//! group `bits`: C09 (bit operations) and C05 (equality / ordering / hashing)
#[path = "../ops_bits.rs"]
mod ops_bits;
#[path = "../ops_cmp.rs"]
mod ops_cmp;
#[path = "../ops_norm.rs"]
mod ops_norm;
#[path = "../ops_fromf.rs"]
mod ops_fromf;

fn main() {
    verif_harness::run_main(&[ops_bits::dispatch, ops_cmp::dispatch, ops_norm::dispatch, ops_fromf::dispatch]);
}
