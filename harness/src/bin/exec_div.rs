//! group `div`: C02 (integer division, ConstDivisor).  The plain division ops live in ops_int.rs
//! (shared source, included by path); ops_div.rs adds the C02-only ones.
#[path = "../ops_div.rs"]
mod ops_div;
#[path = "../ops_int.rs"]
mod ops_int;

fn main() {
    verif_harness::run_main(&[ops_div::dispatch, ops_int::dispatch]);
}
