//! C19 clause (3): serde round trips and decoding of arbitrary streams, through a human-readable
//! medium (`serde_json`) and a binary one (`postcard`).  Only compiled with the harness feature
//! `serde`.
//!
//! Encoding ops (`sd.*`): build the value with the public constructors, serialize, print the stream
//! (`s:<hex bytes>`), deserialize it again and print what came back *as stored* (sign of zero,
//! unreduced denominators and float precision stay visible).
//! Decoding ops (`de.*`): deserialize an arbitrary byte string; `ok <fields…> rest=<unconsumed>` or
//! `err`.  A panic inside a deserializer is reported by the runtime as `panic …`.
//!
//! media: `json` | `pc`.   float bases: 2 (mode Zero), 10 (mode HalfAway), 16, 7 (mode Zero).
use dashu_float::{round::mode, Context, FBig, Repr};
use dashu_int::{IBig, UBig};
use dashu_ratio::{RBig, Relaxed};
use serde::{de::DeserializeOwned, Serialize};
use verif_harness::util::*;

fn enc<T: Serialize>(medium: &str, v: &T) -> Result<Vec<u8>, String> {
    match medium {
        "json" => serde_json::to_vec(v).map_err(|e| format!("ok ser-err {}", e.to_string().replace(' ', "_"))),
        "pc" => postcard::to_allocvec(v).map_err(|e| format!("ok ser-err {}", e.to_string().replace(' ', "_"))),
        _ => Err(format!("bad-arg medium {}", medium)),
    }
}

/// `Ok(Some((value, unconsumed)))`, `Ok(None)` = the deserializer returned an error
fn dec<T: DeserializeOwned>(medium: &str, bytes: &[u8]) -> Result<Option<(T, usize)>, String> {
    match medium {
        "json" => Ok(serde_json::from_slice::<T>(bytes).ok().map(|v| (v, 0))),
        "pc" => Ok(postcard::take_from_bytes::<T>(bytes).ok().map(|(v, rest)| (v, rest.len()))),
        _ => Err(format!("bad-arg medium {}", medium)),
    }
}

trait Show {
    fn show(&self) -> String;
}
impl Show for UBig {
    fn show(&self) -> String {
        f_ubig(self)
    }
}
impl Show for IBig {
    fn show(&self) -> String {
        f_ibig(self)
    }
}
impl<const B: dashu_int::Word> Show for Repr<B> {
    fn show(&self) -> String {
        format!("{} {}", f_ibig(self.significand()), f_dec(self.exponent()))
    }
}
impl<R: dashu_float::round::Round, const B: dashu_int::Word> Show for FBig<R, B> {
    fn show(&self) -> String {
        format!("{} {}", self.repr().show(), f_dec(self.precision()))
    }
}
impl Show for RBig {
    fn show(&self) -> String {
        format!("{} {}", f_ibig(self.numerator()), f_ubig(self.denominator()))
    }
}
impl Show for Relaxed {
    fn show(&self) -> String {
        format!("{} {}", f_ibig(self.numerator()), f_ubig(self.denominator()))
    }
}

fn round_trip<T: Serialize + DeserializeOwned + Show>(medium: &str, v: &T) -> Res {
    let bytes = match enc(medium, v) {
        Ok(b) => b,
        Err(e) if e.starts_with("ok ") => return Ok(e[3..].to_string()),
        Err(e) => return Err(e),
    };
    match dec::<T>(medium, &bytes)? {
        Some((back, rest)) => Ok(format!("{} {} rest={}", f_bytes(&bytes), back.show(), rest)),
        None => Ok(format!("{} err", f_bytes(&bytes))),
    }
}

fn decode<T: DeserializeOwned + Show>(medium: &str, bytes: &[u8]) -> Res {
    match dec::<T>(medium, bytes)? {
        Some((v, rest)) => Ok(format!("{} rest={}", v.show(), rest)),
        None => Ok("err".to_string()),
    }
}

fn p_isize(s: &str) -> Result<isize, String> {
    isize::try_from(p_dec(s)?).map_err(|_| format!("bad-arg isize {}", s))
}

macro_rules! float_ops {
    ($b:literal, $mode:ty, $kind:expr, $medium:expr, $rest:expr) => {{
        let rest: &[&str] = $rest;
        match $kind {
            // Repr<B>: significand exponent
            "sd.r" => {
                let r = Repr::<$b>::new(p_ibig(arg(rest, 0)?)?, p_isize(arg(rest, 1)?)?);
                round_trip($medium, &r)
            }
            // FBig<R,B>: significand exponent precision  (precision 0 = unlimited)
            "sd.f" => {
                let r = Repr::<$b>::new(p_ibig(arg(rest, 0)?)?, p_isize(arg(rest, 1)?)?);
                let f = FBig::<$mode, $b>::from_repr(r, Context::<$mode>::new(p_usize(arg(rest, 2)?)?));
                round_trip($medium, &f)
            }
            // infinities: `+` | `-`
            "sd.rinf" => {
                let r = if arg(rest, 0)? == "-" { Repr::<$b>::neg_infinity() } else { Repr::<$b>::infinity() };
                round_trip($medium, &r)
            }
            "sd.finf" => {
                let f = if arg(rest, 0)? == "-" { FBig::<$mode, $b>::NEG_INFINITY } else { FBig::<$mode, $b>::INFINITY };
                round_trip($medium, &f)
            }
            "de.r" => decode::<Repr<$b>>($medium, &p_bytes(arg(rest, 0)?)?),
            "de.f" => decode::<FBig<$mode, $b>>($medium, &p_bytes(arg(rest, 0)?)?),
            _ => Err(format!("bad-op {}", $kind)),
        }
    }};
}

pub fn dispatch(op: &str, args: &[&str]) -> Option<Res> {
    if !(op.starts_with("sd.") || op.starts_with("de.")) {
        return None;
    }
    Some((|| -> Res {
        let medium = arg(args, 0)?;
        let rest = &args[1..];
        match op {
            "sd.u" => round_trip(medium, &p_ubig(arg(rest, 0)?)?),
            "sd.i" => round_trip(medium, &p_ibig(arg(rest, 0)?)?),
            "sd.q" => round_trip(medium, &RBig::from_parts(p_ibig(arg(rest, 0)?)?, p_ubig(arg(rest, 1)?)?)),
            "sd.x" => round_trip(medium, &Relaxed::from_parts(p_ibig(arg(rest, 0)?)?, p_ubig(arg(rest, 1)?)?)),
            "de.u" => decode::<UBig>(medium, &p_bytes(arg(rest, 0)?)?),
            "de.i" => decode::<IBig>(medium, &p_bytes(arg(rest, 0)?)?),
            "de.q" => decode::<RBig>(medium, &p_bytes(arg(rest, 0)?)?),
            "de.x" => decode::<Relaxed>(medium, &p_bytes(arg(rest, 0)?)?),
            _ => {
                // float ops carry the base as the second argument: `sd.f json d:10 …`
                let base = p_dec(arg(rest, 0)?)?;
                let rest = &rest[1..];
                match base {
                    2 => float_ops!(2, mode::Zero, op, medium, rest),
                    10 => float_ops!(10, mode::HalfAway, op, medium, rest),
                    16 => float_ops!(16, mode::Zero, op, medium, rest),
                    7 => float_ops!(7, mode::Zero, op, medium, rest),
                    _ => Err(format!("bad-arg base {}", base)),
                }
            }
        }
    })())
}
