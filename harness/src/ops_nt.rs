//! Number-theoretic operations (C12) and reduced-ring arithmetic (C13) — every op runs all of its
//! call forms (C15).  Model side: lean/Dashu/Driver/NT.lean.
//!
//! C13 (ring element = `ConstDivisor::new(m).reduce(a)`; every result is printed as its residue):
//!   m.reduce m a            a any sign; UBig / IBig / primitive forms        -> residue modulus
//!   m.add|sub|mul|div m a b 4 ownership forms + 2 assign forms               -> residue
//!   m.neg|dbl|sqr m a                                                        -> residue
//!   m.pow m a e             e >= 0 (UBig)                                     -> residue
//!   m.inv m a                                                                -> none | some x
//!   m.eq m a b                                                               -> true|false
//!   m.mix op m1 m2 a b      a in ring(m1), b in *another instance* ring(m2)   -> panic DifferentRings
//!   r.<op> m a [b]          the `num_modular::Reducer<UBig>` impl: op in transform add sub mul neg dbl sqr
//!                           inv pow; result printed as `residue check(result)`
//! C12:
//!   u.gcd i.gcd ui.gcd iu.gcd a b            -> g            (4 ownership forms)
//!   u.gcdext i.gcdext ui.gcdext iu.gcdext a b -> g ok | g bad:s:t   (Bezout identity checked with
//!                                               independent schoolbook arithmetic; coefficients are not unique)
//!   u.sqrt u.sqrtrem u.cbrt u.cbrtrem a ; i.sqrt i.cbrt a ; u.nthroot i.nthroot a d:n
//!   u.ilog i.ilog a base                     -> d:e
//!   u.remove a f                             -> none | some d:e rest
//!   u.log2b i.log2b a                        -> lb ub   (f32 bit patterns, hex)
//!   f2.log2b f10.log2b signif d:exp ; q.log2b num den    (FBig<_,2>, DBig, RBig)
//!   p.gcd ty a b ; p.gcdext ty a b ; p.sqrtrem ty a ; p.cbrtrem ty a ; p.log2b ty a   ty in u8..u128
//!   p.sqrtrange ty d:lo d:hi ; p.cbrtrange ty d:lo d:hi ; p.gcdrow ty d:a d:lo d:hi   exhaustive sweeps
use dashu_base::{
    CubicRoot, CubicRootRem, EstimatedLog2, ExtendedGcd, Gcd, Sign, SquareRoot, SquareRootRem,
};
use dashu_int::{fast_div::ConstDivisor, modular::Reduced, IBig, UBig};
use num_modular::Reducer;
use verif_harness::forms::{merge, run1};
use verif_harness::util::*;
use verif_harness::{forms_bin6, forms_meth4};

fn fu(x: &UBig) -> String {
    f_ubig(x)
}
fn fi(x: &IBig) -> String {
    f_ibig(x)
}
// ---- independent (schoolbook, u64-limb) arithmetic used only to check Bezout identities: the
// coefficients of gcd_ext are not unique, so the harness reports `g ok` when s*a + t*b = g holds and
// `g bad:<s>:<t>` otherwise; nothing of dashu's arithmetic is used for that check.
fn mb_trim(mut v: Vec<u64>) -> Vec<u64> {
    while v.last() == Some(&0) {
        v.pop();
    }
    v
}
fn mb_words(ws: &[dashu_int::Word]) -> Vec<u64> {
    // WBITS = 64 in the registered build; for narrower words re-pack
    let mut out = vec![0u64; (ws.len() * WBITS + 63) / 64];
    for (i, w) in ws.iter().enumerate() {
        let bit = i * WBITS;
        out[bit / 64] |= (*w as u64) << (bit % 64);
    }
    mb_trim(out)
}
fn mb_mul(a: &[u64], b: &[u64]) -> Vec<u64> {
    let mut out = vec![0u64; a.len() + b.len()];
    for (i, x) in a.iter().enumerate() {
        let mut carry: u128 = 0;
        for (j, y) in b.iter().enumerate() {
            let t = (*x as u128) * (*y as u128) + out[i + j] as u128 + carry;
            out[i + j] = t as u64;
            carry = t >> 64;
        }
        out[i + b.len()] = carry as u64;
    }
    mb_trim(out)
}
fn mb_add(a: &[u64], b: &[u64]) -> Vec<u64> {
    let n = a.len().max(b.len());
    let mut out = Vec::with_capacity(n + 1);
    let mut carry = 0u128;
    for i in 0..n {
        let t = *a.get(i).unwrap_or(&0) as u128 + *b.get(i).unwrap_or(&0) as u128 + carry;
        out.push(t as u64);
        carry = t >> 64;
    }
    out.push(carry as u64);
    mb_trim(out)
}
/// s*a + t*b == g  with a, b signed (sign, magnitude)
fn bezout_holds(a: &IBig, b: &IBig, g: &UBig, s: &IBig, t: &IBig) -> bool {
    let (sa, wa) = a.as_sign_words();
    let (sb, wb) = b.as_sign_words();
    let (ss, ws) = s.as_sign_words();
    let (st, wt) = t.as_sign_words();
    let p1 = mb_mul(&mb_words(ws), &mb_words(wa));
    let p2 = mb_mul(&mb_words(wt), &mb_words(wb));
    let n1 = (sa == Sign::Negative) != (ss == Sign::Negative) && !p1.is_empty();
    let n2 = (sb == Sign::Negative) != (st == Sign::Negative) && !p2.is_empty();
    let g = mb_words(g.as_words());
    // p1' + p2' = g with signs: move negatives to the right-hand side
    let mut lhs: Vec<u64> = vec![];
    let mut rhs: Vec<u64> = g;
    if n1 { rhs = mb_add(&rhs, &p1) } else { lhs = mb_add(&lhs, &p1) }
    if n2 { rhs = mb_add(&rhs, &p2) } else { lhs = mb_add(&lhs, &p2) }
    lhs == rhs
}
fn f_gcdext(a: &IBig, b: &IBig, r: &(UBig, IBig, IBig)) -> String {
    if bezout_holds(a, b, &r.0, &r.1, &r.2) {
        format!("{} ok", f_ubig(&r.0))
    } else {
        format!("{} bad:{}:{}", f_ubig(&r.0), f_ibig(&r.1), f_ibig(&r.2))
    }
}
fn fuu(x: &(UBig, UBig)) -> String {
    format!("{} {}", f_ubig(&x.0), f_ubig(&x.1))
}
fn fres(x: &Reduced) -> String {
    f_ubig(&x.residue())
}
fn fbits(x: (f32, f32)) -> String {
    format!("{:x} {:x}", x.0.to_bits(), x.1.to_bits())
}

/// every way of building `ring.reduce(a)`; all must agree
fn reduce_forms(ring: &ConstDivisor, a: &IBig) -> Res {
    let mut names: Vec<&str> = vec!["ibig"];
    let mut rs = vec![run1(|| {
        let r = ring.reduce(a.clone());
        format!("{} {}", fres(&r), fu(&r.modulus()))
    })];
    let f = |r: Reduced| format!("{} {}", fres(&r), fu(&r.modulus()));
    if *a >= IBig::ZERO {
        let u: UBig = a.clone().try_into().unwrap();
        names.push("ubig");
        rs.push(run1(|| f(ring.reduce(u.clone()))));
        macro_rules! up {
            ($t:ty, $n:expr) => {
                if let Ok(v) = <$t>::try_from(&u) {
                    names.push($n);
                    rs.push(run1(|| f(ring.reduce(v))));
                }
            };
        }
        up!(u8, "u8");
        up!(u16, "u16");
        up!(u32, "u32");
        up!(u64, "u64");
        up!(u128, "u128");
        up!(usize, "usize");
        if u <= UBig::ONE {
            names.push("bool");
            rs.push(run1(|| f(ring.reduce(u == UBig::ONE))));
        }
    }
    macro_rules! ip {
        ($t:ty, $n:expr) => {
            if let Ok(v) = <$t>::try_from(a) {
                names.push($n);
                rs.push(run1(|| f(ring.reduce(v))));
            }
        };
    }
    ip!(i8, "i8");
    ip!(i16, "i16");
    ip!(i32, "i32");
    ip!(i64, "i64");
    ip!(i128, "i128");
    ip!(isize, "isize");
    merge(&names, rs)
}

/// parse "u8".."u128" value (hex) into u128 + bit width
fn prim_width(ty: &str) -> Result<u32, String> {
    match ty {
        "u8" => Ok(8),
        "u16" => Ok(16),
        "u32" => Ok(32),
        "u64" => Ok(64),
        "u128" => Ok(128),
        _ => Err(format!("bad-arg type {}", ty)),
    }
}
fn p_prim(s: &str, bits: u32) -> Result<u128, String> {
    let v = u128::from_str_radix(s, 16).map_err(|_| format!("bad-arg prim {}", s))?;
    if bits < 128 && v >> bits != 0 {
        return Err("bad-arg prim-range".into());
    }
    Ok(v)
}
fn hexi(v: i128) -> String {
    if v < 0 {
        format!("-{:x}", v.unsigned_abs())
    } else {
        format!("{:x}", v)
    }
}

macro_rules! with_prim {
    ($ty:expr, $t:ident, $body:block) => {
        match $ty {
            "u8" => { type $t = u8; $body }
            "u16" => { type $t = u16; $body }
            "u32" => { type $t = u32; $body }
            "u64" => { type $t = u64; $body }
            "u128" => { type $t = u128; $body }
            _ => Err(format!("bad-arg type {}", $ty)),
        }
    };
}

fn reducer_op(op: &str, args: &[&str]) -> Res {
    let m = p_ubig(arg(args, 0)?)?;
    let a = p_ubig(arg(args, 1)?)?;
    let out = |ring: &ConstDivisor, v: UBig| {
        let chk = ring.check(&v);
        format!("{} {}", fu(&Reducer::residue(ring, v)), chk)
    };
    let r = match op {
        "r.transform" => run1(|| {
            let ring = <ConstDivisor as Reducer<UBig>>::new(&m);
            let t = ring.transform(a.clone());
            format!("{} {}", out(&ring, t), fu(&Reducer::modulus(&ring)))
        }),
        "r.add" | "r.sub" | "r.mul" => {
            let b = p_ubig(arg(args, 2)?)?;
            run1(|| {
                let ring = <ConstDivisor as Reducer<UBig>>::new(&m);
                let (x, y) = (ring.transform(a.clone()), ring.transform(b.clone()));
                let v = match op {
                    "r.add" => Reducer::add(&ring, &x, &y),
                    "r.sub" => Reducer::sub(&ring, &x, &y),
                    _ => Reducer::mul(&ring, &x, &y),
                };
                out(&ring, v)
            })
        }
        "r.neg" | "r.dbl" | "r.sqr" => run1(|| {
            let ring = <ConstDivisor as Reducer<UBig>>::new(&m);
            let x = ring.transform(a.clone());
            let v = match op {
                "r.neg" => Reducer::neg(&ring, x),
                "r.dbl" => Reducer::dbl(&ring, x),
                _ => Reducer::sqr(&ring, x),
            };
            out(&ring, v)
        }),
        "r.inv" => run1(|| {
            let ring = <ConstDivisor as Reducer<UBig>>::new(&m);
            let x = ring.transform(a.clone());
            match Reducer::inv(&ring, x) {
                None => "none".to_string(),
                Some(v) => format!("some {}", out(&ring, v)),
            }
        }),
        "r.pow" => {
            let e = p_ubig(arg(args, 2)?)?;
            run1(|| {
                let ring = <ConstDivisor as Reducer<UBig>>::new(&m);
                let x = ring.transform(a.clone());
                out(&ring, Reducer::pow(&ring, x, &e))
            })
        }
        "r.iszero" => run1(|| {
            let ring = <ConstDivisor as Reducer<UBig>>::new(&m);
            let x = ring.transform(a.clone());
            Reducer::is_zero(&ring, &x).to_string()
        }),
        _ => return Err("__none__".into()),
    };
    merge(&["reducer"], vec![r])
}

pub fn dispatch(op: &str, args: &[&str]) -> Option<Res> {
    Some((|| -> Res {
        match op {
            // ================================================================ C13
            "m.reduce" => {
                let m = p_ubig(arg(args, 0)?)?;
                let a = p_ibig(arg(args, 1)?)?;
                let r = run1(|| {
                    let ring = ConstDivisor::new(m.clone());
                    match reduce_forms(&ring, &a) {
                        Ok(s) => s,
                        Err(e) => format!("!{}", e),
                    }
                });
                // `run1` wraps with "ok "; unwrap the inner error form
                if let Some(e) = r.strip_prefix("ok !") {
                    Err(e.to_string())
                } else {
                    merge(&["new"], vec![r])
                }
            }
            "m.add" | "m.sub" | "m.mul" | "m.div" => {
                let m = p_ubig(arg(args, 0)?)?;
                let a = p_ibig(arg(args, 1)?)?;
                let b = p_ibig(arg(args, 2)?)?;
                let ring = ConstDivisor::new(m);
                let x = ring.reduce(a);
                let y = ring.reduce(b);
                match op {
                    "m.add" => forms_bin6!(x, y, +, +=, fres),
                    "m.sub" => forms_bin6!(x, y, -, -=, fres),
                    "m.mul" => forms_bin6!(x, y, *, *=, fres),
                    _ => forms_bin6!(x, y, /, /=, fres),
                }
            }
            "m.neg" => {
                let ring = ConstDivisor::new(p_ubig(arg(args, 0)?)?);
                let x = ring.reduce(p_ibig(arg(args, 1)?)?);
                let rs = vec![run1(|| fres(&(-x.clone()))), run1(|| fres(&(-&x)))];
                merge(&["v", "r"], rs)
            }
            "m.dbl" => {
                let ring = ConstDivisor::new(p_ubig(arg(args, 0)?)?);
                let x = ring.reduce(p_ibig(arg(args, 1)?)?);
                let rs = vec![
                    run1(|| fres(&x.clone().dbl())),
                    run1(|| fres(&(&x + &x))),
                    run1(|| fres(&(x.clone() + x.clone()))),
                ];
                merge(&["dbl", "add_rr", "add_vv"], rs)
            }
            "m.sqr" => {
                let ring = ConstDivisor::new(p_ubig(arg(args, 0)?)?);
                let x = ring.reduce(p_ibig(arg(args, 1)?)?);
                let rs = vec![
                    run1(|| fres(&x.sqr())),
                    run1(|| fres(&(&x * &x))),
                    run1(|| fres(&(x.clone() * x.clone()))),
                ];
                merge(&["sqr", "mul_rr", "mul_vv"], rs)
            }
            "m.pow" => {
                let ring = ConstDivisor::new(p_ubig(arg(args, 0)?)?);
                let x = ring.reduce(p_ibig(arg(args, 1)?)?);
                let e = p_ubig(arg(args, 2)?)?;
                merge(&["pow"], vec![run1(|| fres(&x.pow(&e)))])
            }
            "m.inv" => {
                let ring = ConstDivisor::new(p_ubig(arg(args, 0)?)?);
                let x = ring.reduce(p_ibig(arg(args, 1)?)?);
                merge(
                    &["inv"],
                    vec![run1(|| match x.inv() {
                        None => "none".to_string(),
                        Some(v) => format!("some {}", fres(&v)),
                    })],
                )
            }
            "m.eq" => {
                let ring = ConstDivisor::new(p_ubig(arg(args, 0)?)?);
                let x = ring.reduce(p_ibig(arg(args, 1)?)?);
                let y = ring.reduce(p_ibig(arg(args, 2)?)?);
                merge(&["eq", "ne"], vec![run1(|| (x == y).to_string()), run1(|| (!(x != y)).to_string())])
            }
            "m.mix" => {
                let o = arg(args, 0)?;
                let r1 = ConstDivisor::new(p_ubig(arg(args, 1)?)?);
                let r2 = ConstDivisor::new(p_ubig(arg(args, 2)?)?);
                let x = r1.reduce(p_ibig(arg(args, 3)?)?);
                let y = r2.reduce(p_ibig(arg(args, 4)?)?);
                match o {
                    "add" => forms_bin6!(x, y, +, +=, fres),
                    "sub" => forms_bin6!(x, y, -, -=, fres),
                    "mul" => forms_bin6!(x, y, *, *=, fres),
                    "div" => forms_bin6!(x, y, /, /=, fres),
                    "eq" => merge(&["eq"], vec![run1(|| (x == y).to_string())]),
                    _ => Err(format!("bad-arg mixop {}", o)),
                }
            }
            o if o.starts_with("r.") => reducer_op(o, args),
            // ================================================================ C12: gcd
            "u.gcd" => forms_meth4!(p_ubig(arg(args, 0)?)?, p_ubig(arg(args, 1)?)?, gcd, fu),
            "i.gcd" => forms_meth4!(p_ibig(arg(args, 0)?)?, p_ibig(arg(args, 1)?)?, gcd, fu),
            "ui.gcd" => forms_meth4!(p_ubig(arg(args, 0)?)?, p_ibig(arg(args, 1)?)?, gcd, fu),
            "iu.gcd" => forms_meth4!(p_ibig(arg(args, 0)?)?, p_ubig(arg(args, 1)?)?, gcd, fu),
            "u.gcdext" => {
                let (a, b) = (p_ubig(arg(args, 0)?)?, p_ubig(arg(args, 1)?)?);
                let (ia, ib) = (IBig::from(a.clone()), IBig::from(b.clone()));
                forms_meth4!(a, b, gcd_ext, |r: &(UBig, IBig, IBig)| f_gcdext(&ia, &ib, r))
            }
            "i.gcdext" => {
                let (a, b) = (p_ibig(arg(args, 0)?)?, p_ibig(arg(args, 1)?)?);
                let (ia, ib) = (a.clone(), b.clone());
                forms_meth4!(a, b, gcd_ext, |r: &(UBig, IBig, IBig)| f_gcdext(&ia, &ib, r))
            }
            "ui.gcdext" => {
                let (a, b) = (p_ubig(arg(args, 0)?)?, p_ibig(arg(args, 1)?)?);
                let (ia, ib) = (IBig::from(a.clone()), b.clone());
                forms_meth4!(a, b, gcd_ext, |r: &(UBig, IBig, IBig)| f_gcdext(&ia, &ib, r))
            }
            "iu.gcdext" => {
                let (a, b) = (p_ibig(arg(args, 0)?)?, p_ubig(arg(args, 1)?)?);
                let (ia, ib) = (a.clone(), IBig::from(b.clone()));
                forms_meth4!(a, b, gcd_ext, |r: &(UBig, IBig, IBig)| f_gcdext(&ia, &ib, r))
            }
            // ================================================================ C12: roots
            "u.sqrt" => {
                let a = p_ubig(arg(args, 0)?)?;
                let rs = vec![run1(|| fu(&a.sqrt())), run1(|| fu(&a.nth_root(2))), run1(|| fu(&a.sqrt_rem().0))];
                merge(&["sqrt", "nth_root2", "sqrt_rem.0"], rs)
            }
            "u.sqrtrem" => merge(&["sqrt_rem"], vec![run1(|| fuu(&p_ubig(args[0]).unwrap().sqrt_rem()))]),
            "u.cbrt" => {
                let a = p_ubig(arg(args, 0)?)?;
                let rs = vec![run1(|| fu(&a.cbrt())), run1(|| fu(&a.nth_root(3))), run1(|| fu(&a.cbrt_rem().0))];
                merge(&["cbrt", "nth_root3", "cbrt_rem.0"], rs)
            }
            "u.cbrtrem" => {
                let a = p_ubig(arg(args, 0)?)?;
                merge(&["cbrt_rem"], vec![run1(|| fuu(&a.cbrt_rem()))])
            }
            "u.nthroot" => {
                let a = p_ubig(arg(args, 0)?)?;
                let n = p_usize(arg(args, 1)?)?;
                merge(&["nth_root"], vec![run1(|| fu(&a.nth_root(n)))])
            }
            "i.sqrt" => {
                let a = p_ibig(arg(args, 0)?)?;
                let rs = vec![run1(|| fu(&a.sqrt())), run1(|| fi(&a.nth_root(2)))];
                merge(&["sqrt", "nth_root2"], rs)
            }
            "i.cbrt" => {
                let a = p_ibig(arg(args, 0)?)?;
                let rs = vec![run1(|| fi(&a.cbrt())), run1(|| fi(&a.nth_root(3)))];
                merge(&["cbrt", "nth_root3"], rs)
            }
            "i.nthroot" => {
                let a = p_ibig(arg(args, 0)?)?;
                let n = p_usize(arg(args, 1)?)?;
                merge(&["nth_root"], vec![run1(|| fi(&a.nth_root(n)))])
            }
            // ================================================================ C12: ilog / remove / log2 bounds
            "u.ilog" => {
                let a = p_ubig(arg(args, 0)?)?;
                let b = p_ubig(arg(args, 1)?)?;
                merge(&["ilog"], vec![run1(|| f_dec(a.ilog(&b)))])
            }
            "i.ilog" => {
                let a = p_ibig(arg(args, 0)?)?;
                let b = p_ubig(arg(args, 1)?)?;
                merge(&["ilog"], vec![run1(|| f_dec(a.ilog(&b)))])
            }
            "u.remove" => {
                let a = p_ubig(arg(args, 0)?)?;
                let f = p_ubig(arg(args, 1)?)?;
                merge(
                    &["remove"],
                    vec![run1(|| {
                        let mut x = a.clone();
                        match x.remove(&f) {
                            None => format!("none {}", fu(&x)),
                            Some(e) => format!("some {} {}", f_dec(e), fu(&x)),
                        }
                    })],
                )
            }
            "u.log2b" => {
                let a = p_ubig(arg(args, 0)?)?;
                merge(&["log2_bounds"], vec![run1(|| fbits(a.log2_bounds()))])
            }
            "i.log2b" => {
                let a = p_ibig(arg(args, 0)?)?;
                merge(&["log2_bounds"], vec![run1(|| fbits(a.log2_bounds()))])
            }
            "f2.log2b" | "f10.log2b" => {
                let s = p_ibig(arg(args, 0)?)?;
                let e = p_dec(arg(args, 1)?)? as isize;
                if op == "f2.log2b" {
                    merge(
                        &["log2_bounds"],
                        vec![run1(|| fbits(dashu_float::FBig::<dashu_float::round::mode::Zero, 2>::from_parts(s.clone(), e).log2_bounds()))],
                    )
                } else {
                    merge(
                        &["log2_bounds"],
                        vec![run1(|| fbits(dashu_float::DBig::from_parts(s.clone(), e).log2_bounds()))],
                    )
                }
            }
            "q.log2b" => {
                let n = p_ibig(arg(args, 0)?)?;
                let d = p_ubig(arg(args, 1)?)?;
                let rs = vec![
                    run1(|| fbits(dashu_ratio::RBig::from_parts(n.clone(), d.clone()).log2_bounds())),
                    run1(|| fbits(dashu_ratio::Relaxed::from_parts(n.clone(), d.clone()).log2_bounds())),
                ];
                // RBig reduces the fraction first, Relaxed does not: the bounds may differ, both must enclose
                Ok(format!(
                    "{} {}",
                    rs[0].strip_prefix("ok ").unwrap_or(&rs[0]).replace(' ', ","),
                    rs[1].strip_prefix("ok ").unwrap_or(&rs[1]).replace(' ', ",")
                ))
            }
            // ================================================================ C12: primitives (dashu_base)
            "p.gcd" => {
                let ty = arg(args, 0)?;
                let w = prim_width(ty)?;
                let (a, b) = (p_prim(arg(args, 1)?, w)?, p_prim(arg(args, 2)?, w)?);
                with_prim!(ty, T, {
                    merge(&["gcd"], vec![run1(|| format!("{:x}", (a as T).gcd(b as T)))])
                })
            }
            "p.gcdext" => {
                let ty = arg(args, 0)?;
                let w = prim_width(ty)?;
                let (a, b) = (p_prim(arg(args, 1)?, w)?, p_prim(arg(args, 2)?, w)?);
                with_prim!(ty, T, {
                    merge(
                        &["gcd_ext"],
                        vec![run1(|| {
                            let (g, s, t) = (a as T).gcd_ext(b as T);
                            let (s, t) = (s as i128, t as i128);
                            let w = |v: u128| mb_trim(vec![v as u64, (v >> 64) as u64]);
                            let p1 = mb_mul(&w(s.unsigned_abs()), &w(a));
                            let p2 = mb_mul(&w(t.unsigned_abs()), &w(b));
                            let (mut lhs, mut rhs) = (vec![], w(g as u128));
                            if s < 0 { rhs = mb_add(&rhs, &p1) } else { lhs = mb_add(&lhs, &p1) }
                            if t < 0 { rhs = mb_add(&rhs, &p2) } else { lhs = mb_add(&lhs, &p2) }
                            if lhs == rhs {
                                format!("{:x} ok", g)
                            } else {
                                format!("{:x} bad:{}:{}", g, hexi(s), hexi(t))
                            }
                        })],
                    )
                })
            }
            "p.sqrtrem" => {
                let ty = arg(args, 0)?;
                let w = prim_width(ty)?;
                let a = p_prim(arg(args, 1)?, w)?;
                with_prim!(ty, T, {
                    let rs = vec![
                        run1(|| {
                            let (s, r) = (a as T).sqrt_rem();
                            format!("{:x} {:x}", s, r)
                        }),
                        run1(|| {
                            let s = (a as T).sqrt();
                            format!("{:x} {:x}", s, (a as T) - (s as T) * (s as T))
                        }),
                    ];
                    merge(&["sqrt_rem", "sqrt"], rs)
                })
            }
            "p.cbrtrem" => {
                let ty = arg(args, 0)?;
                let w = prim_width(ty)?;
                let a = p_prim(arg(args, 1)?, w)?;
                with_prim!(ty, T, {
                    let rs = vec![
                        run1(|| {
                            let (s, r) = (a as T).cbrt_rem();
                            format!("{:x} {:x}", s, r)
                        }),
                        run1(|| {
                            let s = (a as T).cbrt();
                            format!("{:x} {:x}", s, (a as T) - (s as T) * (s as T) * (s as T))
                        }),
                    ];
                    merge(&["cbrt_rem", "cbrt"], rs)
                })
            }
            "p.log2b" => {
                let ty = arg(args, 0)?;
                let w = prim_width(ty)?;
                let a = p_prim(arg(args, 1)?, w)?;
                with_prim!(ty, T, { merge(&["log2_bounds"], vec![run1(|| fbits((a as T).log2_bounds()))]) })
            }
            // log2 bounds of primitive floats, given by bit pattern: `p.flog2b f32 <hex bits>` / `f64`
            "p.flog2b" => {
                let ty = arg(args, 0)?;
                let bits = u64::from_str_radix(arg(args, 1)?, 16).map_err(|_| "bad-arg bits".to_string())?;
                match ty {
                    "f32" => merge(&["log2_bounds"], vec![run1(|| fbits(f32::from_bits(bits as u32).log2_bounds()))]),
                    "f64" => merge(&["log2_bounds"], vec![run1(|| fbits(f64::from_bits(bits).log2_bounds()))]),
                    _ => Err(format!("bad-arg type {}", ty)),
                }
            }
            "p.sqrtrange" | "p.cbrtrange" | "p.log2brange" => {
                let ty = arg(args, 0)?;
                prim_width(ty)?;
                let (lo, hi) = (p_dec(arg(args, 1)?)? as u128, p_dec(arg(args, 2)?)? as u128);
                with_prim!(ty, T, {
                    merge(
                        &["range"],
                        vec![run1(|| {
                            let mut out = Vec::new();
                            for v in lo..hi {
                                let x = v as T;
                                out.push(match op {
                                    "p.sqrtrange" => {
                                        let (s, r) = x.sqrt_rem();
                                        assert!(s == x.sqrt(), "sqrt != sqrt_rem.0");
                                        format!("{:x}:{:x}", s, r)
                                    }
                                    "p.cbrtrange" => {
                                        let (s, r) = x.cbrt_rem();
                                        assert!(s == x.cbrt(), "cbrt != cbrt_rem.0");
                                        format!("{:x}:{:x}", s, r)
                                    }
                                    _ => {
                                        let (l, u) = x.log2_bounds();
                                        format!("{:x}:{:x}", l.to_bits(), u.to_bits())
                                    }
                                });
                            }
                            out.join(",")
                        })],
                    )
                })
            }
            // the generator reads LOG2_TAB from base/src/math/log.rs and passes it packed; the model answers
            // with the constant its table theorem is about (the table is private and cfg(not(std)))
            "tab.log2" => Ok(arg(args, 0)?.to_string()),
            // same for RSQRT_TAB / RCBRT_TAB of base/src/ring/root.rs (private): the generator passes the source
            // table packed, the model answers with the table its mirrored routines use
            "tab.rsqrt" | "tab.rcbrt" => Ok(arg(args, 0)?.to_string()),
            // answers of the harness built WITHOUT the `std` feature (obtained by the case generator), echoed
            // so that the differ compares them with the model of the no_std estimator; `~` stands for a space
            // `lb`: the same echo for the registered (std) build: only the enclosure of the true logarithm is
            // promised by log2_bounds, not the bit patterns, so the model checks the implementation's own answer
            "ns" | "lb" => {
                let p = arg(args, 0)?.replace('~', " ");
                if let Some(v) = p.strip_prefix("ok ") {
                    Ok(v.to_string())
                } else {
                    Err(p)
                }
            }
            "p.gcdrow" => {
                let ty = arg(args, 0)?;
                prim_width(ty)?;
                let a = p_dec(arg(args, 1)?)? as u128;
                let (lo, hi) = (p_dec(arg(args, 2)?)? as u128, p_dec(arg(args, 3)?)? as u128);
                with_prim!(ty, T, {
                    merge(
                        &["row"],
                        vec![run1(|| {
                            let mut out = Vec::new();
                            for v in lo..hi {
                                let (x, y) = (a as T, v as T);
                                if x == 0 && y == 0 {
                                    out.push("z".to_string());
                                    continue;
                                }
                                let g = x.gcd(y);
                                let (g2, s, t) = x.gcd_ext(y);
                                assert!(g == g2, "gcd != gcd_ext.0");
                                // u8/u16/u32 rows only: exact in i128
                                let ok = (s as i128) * (x as i128) + (t as i128) * (y as i128) == g as i128;
                                if ok {
                                    out.push(format!("{:x}", g));
                                } else {
                                    out.push(format!("{:x}:bad:{}:{}", g, hexi(s as i128), hexi(t as i128)));
                                }
                            }
                            out.join(",")
                        })],
                    )
                })
            }
            _ => Err("__none__".into()),
        }
    })())
    .and_then(|r| match r {
        Err(e) if e == "__none__" => None,
        other => Some(other),
    })
}

#[allow(dead_code)]
fn _unused(_: Sign) {}
