//! Bit operations (C09) — every op runs all of its call forms (C15).
//!
//! Ops (see lean/Dashu/Driver/Bits.lean for the model side):
//!   u.and/or/xor a b        UBig op UBig                      -> hex
//!   i.and/or/xor a b        IBig op IBig                      -> hex
//!   ui.and a b              UBig & IBig -> UBig ;  ui.or / ui.xor -> IBig
//!   iu.and a b              IBig & UBig -> UBig ;  iu.or / iu.xor -> IBig
//!   i.not a                 !IBig
//!   up.and/or/xor a ty v    UBig op primitive (ty in u8..u128,usize)   (and -> primitive)
//!   ip.and/or/xor a ty v    IBig op primitive (ty in u8..usize, i8..isize)
//!   u.shl/u.shr/i.shl/i.shr a d:n
//!   u.bit/i.bit a d:n ; u.bitlen/i.bitlen a ; u.setbit/u.clearbit a d:n
//!   u.tz/u.to/i.tz/i.to a   trailing zeros / ones -> d:k | none
//!   u.countones a ; u.countzeros a -> d:k | none
//!   u.splitbits a d:n -> lo hi ; u.clearhigh a d:n ; u.ispow2 a ; u.nextpow2 a ; u.ones d:n
use dashu_base::{BitTest, PowerOfTwo};
use dashu_int::{IBig, UBig};
use verif_harness::forms::{merge, run1};
use verif_harness::util::*;
use verif_harness::{forms_bin4, forms_bin6};

fn fu(x: &UBig) -> String {
    f_ubig(x)
}
fn fi(x: &IBig) -> String {
    f_ibig(x)
}
fn fopt(x: Option<usize>) -> String {
    match x {
        Some(k) => f_dec(k),
        None => "none".to_string(),
    }
}

/// shifts: 4 operator forms (value/ref × usize/&usize) + 2 assign forms
macro_rules! forms_shift {
    ($a:expr, $n:expr, $op:tt, $opa:tt, $fmt:expr) => {{
        let a = $a;
        let n: usize = $n;
        let rs = vec![
            run1(|| $fmt(&(a.clone() $op n))),
            run1(|| $fmt(&(&a $op n))),
            run1(|| $fmt(&(a.clone() $op &n))),
            run1(|| $fmt(&(&a $op &n))),
            run1(|| { let mut x = a.clone(); x $opa n; $fmt(&x) }),
            run1(|| { let mut x = a.clone(); x $opa &n; $fmt(&x) }),
        ];
        merge(&["v", "r", "v&", "r&", "as", "as&"], rs)
    }};
}

/// `big op prim` in all 8 operator forms (+ 2 assign forms), formatted with Display-to-hex closures
macro_rules! prim_forms {
    ($a:expr, $v:expr, $op:tt, $opa:tt, $fmt:expr, $fmta:expr) => {{
        let a = $a;
        let v = $v;
        let rs = vec![
            run1(|| $fmt(a.clone() $op v)),
            run1(|| $fmt(&a $op v)),
            run1(|| $fmt(a.clone() $op &v)),
            run1(|| $fmt(&a $op &v)),
            run1(|| $fmt(v $op a.clone())),
            run1(|| $fmt(&v $op a.clone())),
            run1(|| $fmt(v $op &a)),
            run1(|| $fmt(&v $op &a)),
            run1(|| { let mut x = a.clone(); x $opa v; $fmta(&x) }),
            run1(|| { let mut x = a.clone(); x $opa &v; $fmta(&x) }),
        ];
        merge(&["bv_p", "br_p", "bv_pr", "br_pr", "p_bv", "pr_bv", "p_br", "pr_br", "as", "asr"], rs)
    }};
}

/// hex integer with optional sign -> (negative?, magnitude)
fn parse_prim(s: &str) -> Result<(bool, u128), String> {
    let (neg, body) = match s.strip_prefix('-') {
        Some(r) => (true, r),
        None => (false, s),
    };
    let m = u128::from_str_radix(body, 16).map_err(|_| format!("bad-arg prim {}", s))?;
    Ok((neg, m))
}

fn to_u<T: TryFrom<u128>>(v: (bool, u128)) -> Result<T, String> {
    if v.0 && v.1 != 0 {
        return Err("bad-arg prim-range".to_string());
    }
    T::try_from(v.1).map_err(|_| "bad-arg prim-range".to_string())
}

fn to_i<T: TryFrom<i128>>(v: (bool, u128)) -> Result<T, String> {
    let x: i128 = if v.0 {
        if v.1 > (1u128 << 127) {
            return Err("bad-arg prim-range".to_string());
        }
        (v.1 as i128).wrapping_neg()
    } else {
        i128::try_from(v.1).map_err(|_| "bad-arg prim-range".to_string())?
    };
    T::try_from(x).map_err(|_| "bad-arg prim-range".to_string())
}

/// UBig op unsigned primitive
macro_rules! ubig_prim {
    ($opname:expr, $a:expr, $ty:ty, $v:expr) => {{
        let v: $ty = $v?;
        match $opname {
            "and" => prim_forms!($a, v, &, &=, |r: $ty| format!("{:x}", r), fu),
            "or" => prim_forms!($a, v, |, |=, |r: UBig| fu(&r), fu),
            "xor" => prim_forms!($a, v, ^, ^=, |r: UBig| fu(&r), fu),
            _ => Err("__none__".into()),
        }
    }};
}

/// IBig op unsigned primitive (and -> primitive)
macro_rules! ibig_uprim {
    ($opname:expr, $a:expr, $ty:ty, $v:expr) => {{
        let v: $ty = $v?;
        match $opname {
            "and" => prim_forms!($a, v, &, &=, |r: $ty| format!("{:x}", r), fi),
            "or" => prim_forms!($a, v, |, |=, |r: IBig| fi(&r), fi),
            "xor" => prim_forms!($a, v, ^, ^=, |r: IBig| fi(&r), fi),
            _ => Err("__none__".into()),
        }
    }};
}

/// IBig op signed primitive (all -> IBig)
macro_rules! ibig_iprim {
    ($opname:expr, $a:expr, $ty:ty, $v:expr) => {{
        let v: $ty = $v?;
        match $opname {
            "and" => prim_forms!($a, v, &, &=, |r: IBig| fi(&r), fi),
            "or" => prim_forms!($a, v, |, |=, |r: IBig| fi(&r), fi),
            "xor" => prim_forms!($a, v, ^, ^=, |r: IBig| fi(&r), fi),
            _ => Err("__none__".into()),
        }
    }};
}

pub fn dispatch(op: &str, args: &[&str]) -> Option<Res> {
    Some((|| -> Res {
        match op {
            // ---------------------------------------------------------------- UBig / IBig bitwise
            "u.and" => forms_bin6!(p_ubig(arg(args, 0)?)?, p_ubig(arg(args, 1)?)?, &, &=, fu),
            "u.or" => forms_bin6!(p_ubig(arg(args, 0)?)?, p_ubig(arg(args, 1)?)?, |, |=, fu),
            "u.xor" => forms_bin6!(p_ubig(arg(args, 0)?)?, p_ubig(arg(args, 1)?)?, ^, ^=, fu),
            "i.and" => forms_bin6!(p_ibig(arg(args, 0)?)?, p_ibig(arg(args, 1)?)?, &, &=, fi),
            "i.or" => forms_bin6!(p_ibig(arg(args, 0)?)?, p_ibig(arg(args, 1)?)?, |, |=, fi),
            "i.xor" => forms_bin6!(p_ibig(arg(args, 0)?)?, p_ibig(arg(args, 1)?)?, ^, ^=, fi),
            "ui.and" => forms_bin6!(p_ubig(arg(args, 0)?)?, p_ibig(arg(args, 1)?)?, &, &=, fu),
            "ui.or" => forms_bin4!(p_ubig(arg(args, 0)?)?, p_ibig(arg(args, 1)?)?, |, fi),
            "ui.xor" => forms_bin4!(p_ubig(arg(args, 0)?)?, p_ibig(arg(args, 1)?)?, ^, fi),
            "iu.and" => {
                // IBig & UBig -> UBig ; IBig &= UBig stays IBig (same value)
                let a = p_ibig(arg(args, 0)?)?;
                let b = p_ubig(arg(args, 1)?)?;
                let rs = vec![
                    run1(|| fu(&(a.clone() & b.clone()))),
                    run1(|| fu(&(a.clone() & &b))),
                    run1(|| fu(&(&a & b.clone()))),
                    run1(|| fu(&(&a & &b))),
                    run1(|| {
                        let mut x = a.clone();
                        x &= b.clone();
                        fi(&x)
                    }),
                    run1(|| {
                        let mut x = a.clone();
                        x &= &b;
                        fi(&x)
                    }),
                ];
                merge(&["vv", "vr", "rv", "rr", "as", "asr"], rs)
            }
            "iu.or" => forms_bin6!(p_ibig(arg(args, 0)?)?, p_ubig(arg(args, 1)?)?, |, |=, fi),
            "iu.xor" => forms_bin6!(p_ibig(arg(args, 0)?)?, p_ubig(arg(args, 1)?)?, ^, ^=, fi),
            "i.not" => {
                let a = p_ibig(arg(args, 0)?)?;
                let rs = vec![run1(|| fi(&(!a.clone()))), run1(|| fi(&(!&a)))];
                merge(&["v", "r"], rs)
            }
            // ---------------------------------------------------------------- primitives
            "up.and" | "up.or" | "up.xor" => {
                let a = p_ubig(arg(args, 0)?)?;
                let ty = arg(args, 1)?;
                let v = parse_prim(arg(args, 2)?)?;
                let o = &op[3..];
                match ty {
                    "u8" => ubig_prim!(o, a, u8, to_u::<u8>(v)),
                    "u16" => ubig_prim!(o, a, u16, to_u::<u16>(v)),
                    "u32" => ubig_prim!(o, a, u32, to_u::<u32>(v)),
                    "u64" => ubig_prim!(o, a, u64, to_u::<u64>(v)),
                    "u128" => ubig_prim!(o, a, u128, to_u::<u128>(v)),
                    "usize" => ubig_prim!(o, a, usize, to_u::<usize>(v)),
                    _ => Err(format!("bad-arg type {}", ty)),
                }
            }
            "ip.and" | "ip.or" | "ip.xor" => {
                let a = p_ibig(arg(args, 0)?)?;
                let ty = arg(args, 1)?;
                let v = parse_prim(arg(args, 2)?)?;
                let o = &op[3..];
                match ty {
                    "u8" => ibig_uprim!(o, a, u8, to_u::<u8>(v)),
                    "u16" => ibig_uprim!(o, a, u16, to_u::<u16>(v)),
                    "u32" => ibig_uprim!(o, a, u32, to_u::<u32>(v)),
                    "u64" => ibig_uprim!(o, a, u64, to_u::<u64>(v)),
                    "u128" => ibig_uprim!(o, a, u128, to_u::<u128>(v)),
                    "usize" => ibig_uprim!(o, a, usize, to_u::<usize>(v)),
                    "i8" => ibig_iprim!(o, a, i8, to_i::<i8>(v)),
                    "i16" => ibig_iprim!(o, a, i16, to_i::<i16>(v)),
                    "i32" => ibig_iprim!(o, a, i32, to_i::<i32>(v)),
                    "i64" => ibig_iprim!(o, a, i64, to_i::<i64>(v)),
                    "i128" => ibig_iprim!(o, a, i128, to_i::<i128>(v)),
                    "isize" => ibig_iprim!(o, a, isize, to_i::<isize>(v)),
                    _ => Err(format!("bad-arg type {}", ty)),
                }
            }
            // ---------------------------------------------------------------- shifts
            "u.shl" => forms_shift!(p_ubig(arg(args, 0)?)?, p_usize(arg(args, 1)?)?, <<, <<=, fu),
            "u.shr" => forms_shift!(p_ubig(arg(args, 0)?)?, p_usize(arg(args, 1)?)?, >>, >>=, fu),
            "i.shl" => forms_shift!(p_ibig(arg(args, 0)?)?, p_usize(arg(args, 1)?)?, <<, <<=, fi),
            "i.shr" => forms_shift!(p_ibig(arg(args, 0)?)?, p_usize(arg(args, 1)?)?, >>, >>=, fi),
            // ---------------------------------------------------------------- bit queries
            "u.bit" => Ok(p_ubig(arg(args, 0)?)?.bit(p_usize(arg(args, 1)?)?).to_string()),
            "i.bit" => Ok(p_ibig(arg(args, 0)?)?.bit(p_usize(arg(args, 1)?)?).to_string()),
            "u.bitlen" => Ok(f_dec(p_ubig(arg(args, 0)?)?.bit_len())),
            "i.bitlen" => Ok(f_dec(p_ibig(arg(args, 0)?)?.bit_len())),
            "u.setbit" => {
                let mut a = p_ubig(arg(args, 0)?)?;
                a.set_bit(p_usize(arg(args, 1)?)?);
                Ok(fu(&a))
            }
            "u.clearbit" => {
                let mut a = p_ubig(arg(args, 0)?)?;
                a.clear_bit(p_usize(arg(args, 1)?)?);
                Ok(fu(&a))
            }
            "u.tz" => Ok(fopt(p_ubig(arg(args, 0)?)?.trailing_zeros())),
            "u.to" => Ok(fopt(p_ubig(arg(args, 0)?)?.trailing_ones())),
            "i.tz" => Ok(fopt(p_ibig(arg(args, 0)?)?.trailing_zeros())),
            "i.to" => Ok(fopt(p_ibig(arg(args, 0)?)?.trailing_ones())),
            "u.countones" => Ok(f_dec(p_ubig(arg(args, 0)?)?.count_ones())),
            "u.countzeros" => Ok(fopt(p_ubig(arg(args, 0)?)?.count_zeros())),
            "u.splitbits" => {
                let a = p_ubig(arg(args, 0)?)?;
                let (lo, hi) = a.split_bits(p_usize(arg(args, 1)?)?);
                Ok(format!("{} {}", fu(&lo), fu(&hi)))
            }
            "u.clearhigh" => {
                let mut a = p_ubig(arg(args, 0)?)?;
                a.clear_high_bits(p_usize(arg(args, 1)?)?);
                Ok(fu(&a))
            }
            "u.ispow2" => Ok(p_ubig(arg(args, 0)?)?.is_power_of_two().to_string()),
            "u.nextpow2" => Ok(fu(&p_ubig(arg(args, 0)?)?.next_power_of_two())),
            "u.ones" => Ok(fu(&UBig::ones(p_usize(arg(args, 0)?)?))),
            _ => Err("__none__".into()),
        }
    })())
    .and_then(|r| match r {
        Err(e) if e == "__none__" => None,
        other => Some(other),
    })
}
