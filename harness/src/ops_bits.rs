//! Bit operations (C09).
use verif_harness::util::*;

pub fn dispatch(_op: &str, _args: &[&str]) -> Option<Res> {
    None
}
