//! Lexical layer of the line protocol (see lean/Dashu/Driver/IO.lean) and panic capture.
#![allow(dead_code)]

use dashu_base::Sign;
use dashu_int::{IBig, UBig, Word};
use std::cell::RefCell;

pub type Res = Result<String, String>; // Err = protocol error ("bad-op"/"bad-arg")

pub const WBITS: usize = Word::BITS as usize;

fn hexval(c: u8) -> Option<u8> {
    match c {
        b'0'..=b'9' => Some(c - b'0'),
        b'a'..=b'f' => Some(c - b'a' + 10),
        b'A'..=b'F' => Some(c - b'A' + 10),
        _ => None,
    }
}

/// hex string -> little-endian machine words, independent of dashu's parsers
pub fn hex_to_words(s: &str) -> Option<Vec<Word>> {
    let b = s.as_bytes();
    if b.is_empty() {
        return None;
    }
    let per = WBITS / 4;
    let mut words = Vec::with_capacity(b.len() / per + 1);
    let mut end = b.len();
    while end > 0 {
        let start = end.saturating_sub(per);
        let mut w: Word = 0;
        for &c in &b[start..end] {
            w = (w << 4) | hexval(c)? as Word;
        }
        words.push(w);
        end = start;
    }
    Some(words)
}

pub fn words_to_hex(ws: &[Word]) -> String {
    let mut n = ws.len();
    while n > 0 && ws[n - 1] == 0 {
        n -= 1;
    }
    if n == 0 {
        return "0".to_string();
    }
    let mut s = format!("{:x}", ws[n - 1]);
    for w in ws[..n - 1].iter().rev() {
        s.push_str(&format!("{:0width$x}", w, width = WBITS / 4));
    }
    s
}

pub fn p_ubig(s: &str) -> Result<UBig, String> {
    let ws = hex_to_words(s).ok_or_else(|| format!("bad-arg ubig {}", s))?;
    Ok(UBig::from_words(&ws))
}

pub fn p_ibig(s: &str) -> Result<IBig, String> {
    if let Some(rest) = s.strip_prefix('-') {
        Ok(IBig::from_parts(Sign::Negative, p_ubig(rest)?))
    } else {
        Ok(IBig::from_parts(Sign::Positive, p_ubig(s)?))
    }
}

/// Layout check applied to EVERY big integer the harness prints (C05/C17 canonical form): no
/// leading zero word; at most two words <=> stored inline (needs the `dashu_verif` hook).
/// A violation is appended to the printed value so that it can never agree with the model.
fn layout_flag(ws: &[Word], info: Option<(isize, usize)>) -> &'static str {
    if let Some(&top) = ws.last() {
        if top == 0 {
            return "!noncanonical(leading-zero-word)";
        }
    }
    if let Some((cap, len)) = info {
        let cap = cap.unsigned_abs();
        if len != ws.len() {
            return "!noncanonical(len-mismatch)";
        }
        if (len <= 2) != (cap <= 2) {
            return "!noncanonical(inline-heap)";
        }
    }
    ""
}

#[cfg(dashu_verif)]
fn uinfo(x: &UBig) -> Option<(isize, usize)> {
    Some(dashu_int::verif::ubig_repr_info(x))
}
#[cfg(not(dashu_verif))]
fn uinfo(_x: &UBig) -> Option<(isize, usize)> {
    None
}
#[cfg(dashu_verif)]
fn iinfo(x: &IBig) -> Option<(isize, usize)> {
    Some(dashu_int::verif::ibig_repr_info(x))
}
#[cfg(not(dashu_verif))]
fn iinfo(_x: &IBig) -> Option<(isize, usize)> {
    None
}

pub fn f_ubig(x: &UBig) -> String {
    let ws = x.as_words();
    format!("{}{}", words_to_hex(ws), layout_flag(ws, uinfo(x)))
}

pub fn f_ibig(x: &IBig) -> String {
    let (sign, ws) = x.as_sign_words();
    let h = words_to_hex(ws);
    let flag = layout_flag(ws, iinfo(x));
    if sign == Sign::Negative && h != "0" {
        format!("-{}{}", h, flag)
    } else if sign == Sign::Negative {
        // negative zero would be a canonical-form violation; make it visible
        "-0".to_string()
    } else {
        format!("{}{}", h, flag)
    }
}

/// `w:a,b,c` word list in protocol word size (the protocol always uses 64-bit words in `w:` lists
/// only when WBITS = 64; kernels are driven with the native word size of the build)
pub fn p_words(s: &str) -> Result<Vec<Word>, String> {
    let body = s.strip_prefix("w:").ok_or_else(|| format!("bad-arg words {}", s))?;
    if body.is_empty() {
        return Ok(vec![]);
    }
    body.split(',')
        .map(|t| Word::from_str_radix(t, 16).map_err(|_| format!("bad-arg word {}", t)))
        .collect()
}

pub fn f_words(ws: &[Word]) -> String {
    let v: Vec<String> = ws.iter().map(|w| format!("{:x}", w)).collect();
    format!("w:{}", v.join(","))
}

pub fn p_bytes(s: &str) -> Result<Vec<u8>, String> {
    let body = s.strip_prefix("s:").ok_or_else(|| format!("bad-arg bytes {}", s))?;
    let b = body.as_bytes();
    if b.len() % 2 != 0 {
        return Err(format!("bad-arg bytes {}", s));
    }
    let mut out = Vec::with_capacity(b.len() / 2);
    for ch in b.chunks(2) {
        let x = hexval(ch[0]).ok_or("bad-arg bytes")?;
        let y = hexval(ch[1]).ok_or("bad-arg bytes")?;
        out.push(x * 16 + y);
    }
    Ok(out)
}

pub fn f_bytes(bs: &[u8]) -> String {
    let mut s = String::with_capacity(2 + bs.len() * 2);
    s.push_str("s:");
    for b in bs {
        s.push_str(&format!("{:02x}", b));
    }
    s
}

pub fn p_dec(s: &str) -> Result<i128, String> {
    let body = s.strip_prefix("d:").ok_or_else(|| format!("bad-arg dec {}", s))?;
    body.parse::<i128>().map_err(|_| format!("bad-arg dec {}", s))
}

pub fn p_usize(s: &str) -> Result<usize, String> {
    let v = p_dec(s)?;
    usize::try_from(v).map_err(|_| format!("bad-arg usize {}", s))
}

pub fn f_dec<T: std::fmt::Display>(v: T) -> String {
    format!("d:{}", v)
}

pub fn f_ord(o: std::cmp::Ordering) -> &'static str {
    match o {
        std::cmp::Ordering::Less => "lt",
        std::cmp::Ordering::Equal => "eq",
        std::cmp::Ordering::Greater => "gt",
    }
}

pub fn f_sign(s: Sign) -> &'static str {
    match s {
        Sign::Positive => "+",
        Sign::Negative => "-",
    }
}

pub fn arg<'a>(args: &'a [&'a str], i: usize) -> Result<&'a str, String> {
    args.get(i).copied().ok_or_else(|| format!("bad-arg missing {}", i))
}

// ---------------------------------------------------------------- panic capture

thread_local! {
    pub static LAST_PANIC: RefCell<Option<(String, String)>> = RefCell::new(None);
}

pub fn install_panic_hook() {
    std::panic::set_hook(Box::new(|info| {
        let msg = if let Some(s) = info.payload().downcast_ref::<&str>() {
            s.to_string()
        } else if let Some(s) = info.payload().downcast_ref::<String>() {
            s.clone()
        } else {
            "<non-string panic>".to_string()
        };
        let loc = info
            .location()
            .map(|l| format!("{}:{}", l.file(), l.line()))
            .unwrap_or_default();
        LAST_PANIC.with(|p| *p.borrow_mut() = Some((msg, loc)));
    }));
}

/// Map a panic message to the documented panic kinds (DESIGN §3); everything else is
/// `Undocumented(<location>)`.
pub fn classify_panic(msg: &str, loc: &str) -> String {
    let table: &[(&str, &str)] = &[
        ("divisor must not be 0", "DivideByZero"),
        ("Divisor or denominator must not be zero", "DivideByZero"),
        ("UBig result must not be negative", "NegativeUBig"),
        ("try to allocate too much memory", "AllocTooMuch"),
        ("Modulo values from different rings", "DifferentRings"),
        ("invalid radix", "InvalidRadix"),
        ("logarithm is not defined", "LogInvalid"),
        ("finding 0th root is not allowed", "RootZeroth"),
        ("the root is a complex number", "RootNegative"),
        ("Division by a non-invertible Modulo", "NonInvertible"),
        ("arithmetic operations with the infinity are not allowed", "Infinite"),
        ("precision cannot be 0 (unlimited)", "UnlimitedPrecision"),
        ("powering on negative bases", "PowNegativeBase"),
        ("the greatest common divisor is not defined between zeros", "GcdZeroZero"),
        // rows added for C16 (group `panic`); names = Dashu.Spec.Panics.Kind.name
        ("out of memory", "OutOfMemory"),
        ("exponent is too large", "ExponentOverflow"),
        ("chunk_bits > 0", "ZeroChunkBits"),
        ("repr.digits() <= context.precision", "PrecisionExceeded"),
    ];
    for (pat, kind) in table {
        if msg.contains(pat) {
            return (*kind).to_string();
        }
    }
    let short = loc.rsplit("/repo/").next().unwrap_or(loc);
    format!("Undocumented({}|{})", short, msg.replace(' ', "_").chars().take(80).collect::<String>())
}
