//! Equality / ordering / hashing follow the value (C05).
//!
//! Integer ops
//!   c.routes x            UBig x built by ~30 routes (constructors, parsing, arithmetic round trips,
//!                         shifts across the inline/heap boundary, clones, bytes, bit ops …): every
//!                         result must be canonical (hook `ubig_repr_info`: inline iff <= 2 words, no
//!                         leading zero word) and all results pairwise `==`, `cmp == Equal`, same
//!                         hash feed.   -> `<inline> d:<len> routes-agree` | `… BAD <route>:<what>`
//!   ci.routes x           the same for IBig (plus: every zero produced from negative operands is +0)
//!   c.cmp a b d:ra d:rb   IBig a, b built by routes ra, rb -> `<==> <cmp> <cmp reversed> <same hash feed>`
//!   cu.cmp a b d:ra d:rb  the same on UBig
//!   c.ones d:n            UBig::ones(n): layout, and ==/cmp/hash against (1 << n) - 1
//!   c.hashfeed x          the byte sequence `Hash for IBig` feeds to a Hasher
//! Float / rational ops are in the second half of the file.
use dashu_base::{Abs, BitTest, Sign, UnsignedAbs};
use dashu_int::verif::{ibig_repr_info, ubig_repr_info};
use dashu_int::{IBig, UBig, Word};
use std::cmp::Ordering;
use std::hash::{Hash, Hasher};
use verif_harness::util::*;

/// a Hasher that records everything it is fed
#[derive(Default)]
pub struct Rec(pub Vec<u8>);
impl Hasher for Rec {
    fn finish(&self) -> u64 {
        0
    }
    fn write(&mut self, bytes: &[u8]) {
        self.0.extend_from_slice(bytes);
    }
}
pub fn feed<T: Hash>(x: &T) -> Vec<u8> {
    let mut h = Rec::default();
    x.hash(&mut h);
    h.0
}

fn wlen(ws: &[Word]) -> usize {
    ws.len()
}

/// canonical-form check of a UBig through the hook; returns None if fine
pub fn canon_u(x: &UBig) -> Option<String> {
    let (cap, len) = ubig_repr_info(x);
    let ws = x.as_words();
    if cap <= 0 {
        return Some(format!("cap={}", cap));
    }
    if len != ws.len() {
        return Some(format!("len{}!=words{}", len, ws.len()));
    }
    if let Some(&top) = ws.last() {
        if top == 0 {
            return Some("leading-zero-word".into());
        }
    }
    let inline = cap <= 2;
    if inline != (ws.len() <= 2) {
        return Some(format!("inline={}_with_{}_words", inline, ws.len()));
    }
    if inline && ((cap == 1) != (ws.len() <= 1)) {
        return Some(format!("cap={}_with_{}_words", cap, ws.len()));
    }
    None
}

pub fn canon_i(x: &IBig) -> Option<String> {
    let (cap, len) = ibig_repr_info(x);
    let (sign, ws) = x.as_sign_words();
    if cap == 0 {
        return Some("cap=0".into());
    }
    if (cap < 0) != (sign == Sign::Negative) {
        return Some("sign-mismatch".into());
    }
    if ws.is_empty() && sign == Sign::Negative {
        return Some("negative-zero".into());
    }
    if len != ws.len() {
        return Some(format!("len{}!=words{}", len, ws.len()));
    }
    if let Some(&top) = ws.last() {
        if top == 0 {
            return Some("leading-zero-word".into());
        }
    }
    let a = cap.unsigned_abs();
    let inline = a <= 2;
    if inline != (ws.len() <= 2) {
        return Some(format!("inline={}_with_{}_words", inline, ws.len()));
    }
    if inline && ((a == 1) != (ws.len() <= 1)) {
        return Some(format!("cap={}_with_{}_words", cap, ws.len()));
    }
    None
}

pub const N_UROUTES: usize = 40;

/// build the UBig `x` by route `r` (the result must have the same value as `x`)
pub fn route_u(x: &UBig, r: usize) -> Option<UBig> {
    let ws = x.as_words().to_vec();
    let bits = x.bit_len();
    let big = (UBig::ONE << 300) + UBig::from(12345u32);
    Some(match r {
        0 => UBig::from_words(&ws),
        1 => {
            // from_words with leading zero words appended
            let mut w = ws.clone();
            w.extend_from_slice(&[0, 0, 0]);
            UBig::from_words(&w)
        }
        2 => UBig::from_str_radix(&format!("{:x}", x), 16).ok()?,
        3 => x.to_string().parse::<UBig>().ok()?,
        4 => UBig::from_str_radix(&x.in_radix(36).to_string(), 36).ok()?,
        5 => x.clone(),
        6 => {
            let mut t = big.clone();
            t.clone_from(x);
            t
        }
        7 => {
            let mut t = UBig::from(7u8);
            t.clone_from(x);
            t
        }
        8 => x + UBig::ONE - UBig::ONE,
        9 => x + &big - &big,
        10 => (x + x) - x,
        11 => (x + UBig::from(u128::MAX)) - UBig::from(u128::MAX),
        12 => (x << 1usize) >> 1usize,
        13 => (x << 64usize) >> 64usize,
        14 => (x << 65usize) >> 65usize,
        15 => (x << 128usize) >> 128usize,
        16 => (x * UBig::from(3u8)) / UBig::from(3u8),
        17 => (x * &big) / &big,
        18 => UBig::from_le_bytes(&x.to_le_bytes()),
        19 => UBig::from_be_bytes(&x.to_be_bytes()),
        20 => x | UBig::ZERO,
        21 => (x ^ &big) ^ &big,
        22 => x & UBig::ones(bits + 70),
        23 => {
            let (lo, hi) = x.clone().split_bits(64);
            (hi << 64usize) | lo
        }
        24 => {
            let (lo, hi) = x.clone().split_bits(128);
            (hi << 128usize) + lo
        }
        25 => {
            let mut t = x.clone();
            let k = bits + 200;
            t.set_bit(k);
            t.clear_bit(k);
            t
        }
        26 => {
            let mut t = x.clone();
            t.clear_high_bits(bits + 1);
            t
        }
        27 => UBig::try_from(-(-IBig::from(x.clone()))).ok()?,
        28 => IBig::from(x.clone()).unsigned_abs(),
        29 => {
            if bits <= 128 {
                UBig::from(u128::try_from(x).ok()?)
            } else {
                return None;
            }
        }
        30 => {
            // ones(n) when x = 2^n - 1
            if x.count_ones() == bits && bits > 0 {
                UBig::ones(bits)
            } else {
                return None;
            }
        }
        31 => x.pow(1),
        32 => {
            // a sum that carries into a new top word and back
            let t = x + (UBig::ONE << (wlen(&ws).max(1) * 64));
            t - (UBig::ONE << (wlen(&ws).max(1) * 64))
        }
        33 => {
            if x.is_zero() {
                return None;
            }
            dashu_base::Gcd::gcd(x, x)
        }
        34 => {
            // clone_from onto a much larger heap target (capacity above max_compact_capacity: reallocation)
            let mut t = UBig::ONE << 6400;
            t.clone_from(x);
            t
        }
        35 => {
            // clone_from onto a heap target of the same length (buffer reused in place)
            let mut t = x ^ (UBig::ONE << (bits.max(1) - 1)) | UBig::ONE << bits.max(1) - 1;
            t.clone_from(x);
            t
        }
        36 => dashu_base::SquareRoot::sqrt(&(x * x)),
        37 => {
            if bits > 3000 {
                return None;
            }
            x.pow(3).nth_root(3)
        }
        38 => UBig::from_str_radix(&x.in_radix(7).to_string(), 7).ok()?,
        39 => {
            if x.is_zero() {
                return None;
            }
            dashu_base::Gcd::gcd(x * UBig::from(3u8), &(x * UBig::from(5u8)))
        }
        _ => return None,
    })
}

pub const N_IROUTES: usize = 26;

pub fn route_i(x: &IBig, r: usize) -> Option<IBig> {
    let (sign, mag) = x.clone().into_parts();
    let big = (IBig::ONE << 300) + IBig::from(12345u32);
    Some(match r {
        0 => IBig::from_parts(sign, mag.clone()),
        1 => x.to_string().parse::<IBig>().ok()?,
        2 => IBig::from_str_radix(&format!("{:x}", x), 16).ok()?,
        3 => x.clone(),
        4 => {
            let mut t = -big.clone();
            t.clone_from(x);
            t
        }
        5 => -(-x),
        6 => x + &big - &big,
        7 => x - &big + &big,
        8 => (x << 1usize) >> 1usize,
        9 => (x << 129usize) >> 129usize,
        10 => (x * IBig::NEG_ONE) * IBig::NEG_ONE,
        11 => (x * &big) / &big,
        12 => !(!x),
        13 => (x ^ &big) ^ &big,
        14 => (x ^ -&big) ^ -&big,
        15 => x | IBig::ZERO,
        16 => x & IBig::NEG_ONE,
        17 => IBig::from_le_bytes(&x.to_le_bytes()),
        18 => {
            if x.bit_len() < 127 {
                IBig::from(i128::try_from(x).ok()?)
            } else {
                return None;
            }
        }
        19 => x.signum() * x.clone().abs(),
        20 => IBig::from_parts(sign, route_u(&mag, 9)?),
        21 => {
            if x.is_zero() {
                // zeros produced from negative operands
                let y = IBig::from(-5);
                let zs = [
                    &y + IBig::from(5),
                    &y * IBig::ZERO,
                    &y / IBig::from(7),
                    &y % IBig::from(5),
                    &y & IBig::ZERO,
                    &y ^ &y,
                    -IBig::ZERO,
                    IBig::from_parts(Sign::Negative, UBig::ZERO),
                    (-&big) - (-&big),
                    (-&big) >> 0usize ^ (-&big),
                ];
                for z in zs.iter() {
                    if canon_i(z).is_some() || *z != IBig::ZERO || feed(z) != feed(&IBig::ZERO) {
                        return Some(IBig::from(-1)); // make the failure visible as a value mismatch
                    }
                }
                IBig::ZERO
            } else {
                return None;
            }
        }
        22 => {
            let mut t = -(IBig::ONE << 6400);
            t.clone_from(x);
            t
        }
        23 => IBig::from_be_bytes(&x.to_be_bytes()),
        24 => {
            if x.bit_len() > 3000 {
                return None;
            }
            x.pow(3).nth_root(3)
        }
        25 => IBig::from_str_radix(&x.in_radix(36).to_string(), 36).ok()?,
        _ => return None,
    })
}

fn routes_report<T: Eq + Ord + Hash>(
    vals: &[(usize, T)],
    canon: impl Fn(&T) -> Option<String>,
) -> Option<String> {
    for (r, v) in vals {
        if let Some(e) = canon(v) {
            return Some(format!("route{}:noncanonical({})", r, e));
        }
    }
    for (r0, a) in vals {
        for (r1, b) in vals {
            if a != b {
                return Some(format!("route{}!=route{}", r0, r1));
            }
            if a.cmp(b) != Ordering::Equal {
                return Some(format!("cmp(route{},route{})={}", r0, r1, f_ord(a.cmp(b))));
            }
            if a.partial_cmp(b) != Some(Ordering::Equal) {
                return Some(format!("partial_cmp(route{},route{})", r0, r1));
            }
            if feed(a) != feed(b) {
                return Some(format!("hash(route{})!=hash(route{})", r0, r1));
            }
        }
    }
    None
}

fn hexbytes(b: &[u8]) -> String {
    f_bytes(b)
}

pub fn dispatch(op: &str, args: &[&str]) -> Option<Res> {
    if let Some(r) = dispatch_int(op, args) {
        return Some(r);
    }
    crate::ops_cmp::fr::dispatch(op, args)
}

fn dispatch_int(op: &str, args: &[&str]) -> Option<Res> {
    Some((|| -> Res {
        match op {
            "c.routes" => {
                let x = p_ubig(arg(args, 0)?)?;
                let mut vals = vec![];
                for r in 0..N_UROUTES {
                    if let Some(v) = route_u(&x, r) {
                        vals.push((r, v));
                    }
                }
                let (cap, len) = ubig_repr_info(&x);
                let head = format!("{} {}", cap <= 2, f_dec(len));
                Ok(match routes_report(&vals, canon_u) {
                    None => format!("{} routes-agree", head),
                    Some(e) => format!("{} BAD {}", head, e),
                })
            }
            "ci.routes" => {
                let x = p_ibig(arg(args, 0)?)?;
                let mut vals = vec![];
                for r in 0..N_IROUTES {
                    if let Some(v) = route_i(&x, r) {
                        vals.push((r, v));
                    }
                }
                let (cap, len) = ibig_repr_info(&x);
                let head = format!("{} {} {}", f_sign(x.sign()), cap.unsigned_abs() <= 2, f_dec(len));
                Ok(match routes_report(&vals, canon_i) {
                    None => format!("{} routes-agree", head),
                    Some(e) => format!("{} BAD {}", head, e),
                })
            }
            "c.cmp" => {
                let a0 = p_ibig(arg(args, 0)?)?;
                let b0 = p_ibig(arg(args, 1)?)?;
                let ra = p_usize(arg(args, 2)?)? % N_IROUTES;
                let rb = p_usize(arg(args, 3)?)? % N_IROUTES;
                let a = route_i(&a0, ra).unwrap_or(a0);
                let b = route_i(&b0, rb).unwrap_or(b0);
                let pc = a.partial_cmp(&b) == Some(a.cmp(&b)) && (a < b) == (a.cmp(&b) == Ordering::Less);
                Ok(format!(
                    "{} {} {} {}{}",
                    a == b,
                    f_ord(a.cmp(&b)),
                    f_ord(b.cmp(&a)),
                    feed(&a) == feed(&b),
                    if pc { "" } else { " BAD partial_cmp" }
                ))
            }
            "cu.cmp" => {
                let a0 = p_ubig(arg(args, 0)?)?;
                let b0 = p_ubig(arg(args, 1)?)?;
                let ra = p_usize(arg(args, 2)?)? % N_UROUTES;
                let rb = p_usize(arg(args, 3)?)? % N_UROUTES;
                let a = route_u(&a0, ra).unwrap_or(a0);
                let b = route_u(&b0, rb).unwrap_or(b0);
                Ok(format!(
                    "{} {} {} {}",
                    a == b,
                    f_ord(a.cmp(&b)),
                    f_ord(b.cmp(&a)),
                    feed(&a) == feed(&b)
                ))
            }
            // c.hist <prog> : run a history (program over a register file of IBig) — the instruction set of
            // the model's `hrun` (lean/Dashu/Proofs/Int/Hist.lean); instructions are separated by `,`, fields
            // by `:`.  Prints every register, how the program ended, and whether ==/cmp/hash of ALL pairs of
            // registers follow the printed values.
            "c.hist" => {
                use dashu_base::{DivEuclid, RemEuclid};
                use dashu_base::PowerOfTwo;
                let prog = arg(args, 0)?;
                let mut regs: Vec<IBig> = vec![];
                let mut status = "done".to_string();
                for ins in prog.split(',') {
                    let f: Vec<&str> = ins.split(':').collect();
                    let reg = |k: usize| -> Result<&IBig, String> {
                        let i: usize = f.get(k).ok_or("bad-arg hist")?.parse().map_err(|_| "bad-arg hist idx")?;
                        regs.get(i).ok_or_else(|| "__bad__".to_string())
                    };
                    let num = |k: usize| -> Result<usize, String> {
                        f.get(k).ok_or("bad-arg hist")?.parse().map_err(|_| "bad-arg hist num".to_string())
                    };
                    let ubig = |x: &IBig| -> Result<UBig, String> {
                        UBig::try_from(x.clone()).map_err(|_| "__bad__".to_string())
                    };
                    let step = || -> Result<IBig, String> {
                        Ok(match f[0] {
                            "const" => p_ibig(f[1])?,
                            "words" => {
                                let ws: Vec<Word> = if f[2].is_empty() {
                                    vec![]
                                } else {
                                    f[2].split('.')
                                        .map(|t| Word::from_str_radix(t, 16).map_err(|_| "bad-arg word".to_string()))
                                        .collect::<Result<_, _>>()?
                                };
                                let sign = if f[1] == "1" { Sign::Negative } else { Sign::Positive };
                                IBig::from_parts(sign, UBig::from_words(&ws))
                            }
                            "fu" => IBig::from(u128::from_str_radix(f[1], 16).map_err(|_| "bad-arg fu")?),
                            "fs" => {
                                let v = p_ibig(f[2])?;
                                match f[1] {
                                    "8" => IBig::from(i8::try_from(&v).map_err(|_| "bad-arg fs")?),
                                    "16" => IBig::from(i16::try_from(&v).map_err(|_| "bad-arg fs")?),
                                    "32" => IBig::from(i32::try_from(&v).map_err(|_| "bad-arg fs")?),
                                    "64" => IBig::from(i64::try_from(&v).map_err(|_| "bad-arg fs")?),
                                    "128" => IBig::from(i128::try_from(&v).map_err(|_| "bad-arg fs")?),
                                    _ => return Err("bad-arg fs bits".into()),
                                }
                            }
                            "ones" => IBig::from(UBig::ones(num(1)?)),
                            "clone" => reg(1)?.clone(),
                            "neg" => -(reg(1)?.clone()),
                            "abs" => reg(1)?.clone().abs(),
                            "not" => !(reg(1)?.clone()),
                            "sqr" => IBig::from(reg(1)?.sqr()),
                            "pow" => reg(1)?.pow(num(2)?),
                            "shl" => reg(1)? << num(2)?,
                            "shr" => {
                                if f.get(3) == Some(&"1") {
                                    reg(1)? >> num(2)?
                                } else {
                                    reg(1)?.clone() >> num(2)?
                                }
                            }
                            "add" => match f.get(3).copied() {
                                Some("1") => reg(1)? + reg(2)?.clone(),
                                Some("2") => reg(1)?.clone() + reg(2)?,
                                _ => reg(1)? + reg(2)?,
                            },
                            "sub" => match f.get(3).copied() {
                                Some("1") => reg(1)? - reg(2)?.clone(),
                                Some("2") => reg(1)?.clone() - reg(2)?,
                                _ => reg(1)? - reg(2)?,
                            },
                            "mul" => reg(1)? * reg(2)?,
                            "div" => reg(1)? / reg(2)?,
                            "rem" => reg(1)? % reg(2)?,
                            "dive" => reg(1)?.div_euclid(reg(2)?),
                            "reme" => IBig::from(reg(1)?.rem_euclid(reg(2)?)),
                            "and" => reg(1)? & reg(2)?,
                            "or" => reg(1)? | reg(2)?,
                            "xor" => reg(1)? ^ reg(2)?,
                            "setbit" => {
                                let mut u = ubig(reg(1)?)?;
                                u.set_bit(num(2)?);
                                IBig::from(u)
                            }
                            "clearbit" => {
                                let mut u = ubig(reg(1)?)?;
                                u.clear_bit(num(2)?);
                                IBig::from(u)
                            }
                            "clearhigh" => {
                                let mut u = ubig(reg(1)?)?;
                                u.clear_high_bits(num(2)?);
                                IBig::from(u)
                            }
                            "splitlo" => IBig::from(ubig(reg(1)?)?.split_bits(num(2)?).0),
                            "splithi" => IBig::from(ubig(reg(1)?)?.split_bits(num(2)?).1),
                            "nextpow2" => IBig::from(ubig(reg(1)?)?.next_power_of_two()),
                            // ---- extended instruction set (HOpX): gcd, roots, parser, byte codecs
                            "gcd" => {
                                let (a, b) = (reg(1)?, reg(2)?);
                                let both_nonneg = a.sign() == Sign::Positive && b.sign() == Sign::Positive;
                                if both_nonneg && (num(1)? + num(2)?) % 2 == 0 {
                                    // the UBig forms (by value / by reference)
                                    IBig::from(dashu_base::Gcd::gcd(ubig(a)?, &ubig(b)?))
                                } else if num(1)? % 2 == 0 {
                                    IBig::from(dashu_base::Gcd::gcd(a, b))
                                } else {
                                    IBig::from(dashu_base::Gcd::gcd(a.clone(), b.clone()))
                                }
                            }
                            "sqrt" => {
                                let a = reg(1)?;
                                if a.sign() == Sign::Positive && num(1)? % 2 == 0 {
                                    IBig::from(dashu_base::SquareRoot::sqrt(&ubig(a)?))
                                } else {
                                    IBig::from(dashu_base::SquareRoot::sqrt(a))
                                }
                            }
                            "root" => {
                                let a = reg(1)?;
                                if a.sign() == Sign::Positive && num(1)? % 2 == 0 {
                                    IBig::from(ubig(a)?.nth_root(num(2)?))
                                } else {
                                    a.nth_root(num(2)?)
                                }
                            }
                            "str" => {
                                let bytes = p_bytes(&format!("s:{}", f.get(3).ok_or("bad-arg hist")?))?;
                                let text = String::from_utf8(bytes).map_err(|_| "__bad__".to_string())?;
                                let radix = num(2)? as u32;
                                if f[1] == "1" {
                                    IBig::from_str_radix(&text, radix).map_err(|_| "__bad__".to_string())?
                                } else {
                                    IBig::from(UBig::from_str_radix(&text, radix).map_err(|_| "__bad__".to_string())?)
                                }
                            }
                            "leb" => IBig::from(UBig::from_le_bytes(&p_bytes(&format!("s:{}", f.get(1).ok_or("bad-arg hist")?))?)),
                            "beb" => IBig::from(UBig::from_be_bytes(&p_bytes(&format!("s:{}", f.get(1).ok_or("bad-arg hist")?))?)),
                            "sleb" => IBig::from_le_bytes(&p_bytes(&format!("s:{}", f.get(1).ok_or("bad-arg hist")?))?),
                            "sbeb" => IBig::from_be_bytes(&p_bytes(&format!("s:{}", f.get(1).ok_or("bad-arg hist")?))?),
                            "vle" => {
                                let a = reg(1)?;
                                if a.sign() == Sign::Positive && num(1)? % 2 == 0 {
                                    IBig::from(UBig::from_le_bytes(&ubig(a)?.to_le_bytes()))
                                } else {
                                    IBig::from_le_bytes(&a.to_le_bytes())
                                }
                            }
                            "vbe" => {
                                let a = reg(1)?;
                                if a.sign() == Sign::Positive && num(1)? % 2 == 0 {
                                    IBig::from(UBig::from_be_bytes(&ubig(a)?.to_be_bytes()))
                                } else {
                                    IBig::from_be_bytes(&a.to_be_bytes())
                                }
                            }
                            o => return Err(format!("bad-arg hist op {}", o)),
                        })
                    };
                    let r = match std::panic::catch_unwind(std::panic::AssertUnwindSafe(step)) {
                        Ok(x) => x,
                        Err(_) => {
                            let (msg, loc) = LAST_PANIC
                                .with(|p| p.borrow_mut().take())
                                .unwrap_or_else(|| ("?".into(), "?".into()));
                            Err(format!("__panic__{}", classify_panic(&msg, &loc)))
                        }
                    };
                    match r {
                        Ok(v) => regs.push(v),
                        Err(e) if e == "__bad__" => {
                            status = "bad".into();
                            break;
                        }
                        Err(e) if e.starts_with("__panic__") => {
                            status = format!("panic:{}", &e[9..]);
                            break;
                        }
                        Err(e) => return Err(e),
                    }
                }
                let _ = &mut status;
                let vals: Vec<String> = regs.iter().map(f_ibig).collect();
                let mut verdict = "consistent".to_string();
                'outer: for i in 0..regs.len() {
                    for j in 0..regs.len() {
                        let same = vals[i] == vals[j];
                        let (a, b) = (&regs[i], &regs[j]);
                        if (a == b) != same || (a.cmp(b) == Ordering::Equal) != same || (feed(a) == feed(b)) != same
                            || a.cmp(b) != b.cmp(a).reverse()
                        {
                            verdict = format!("BAD pair {} {}", i, j);
                            break 'outer;
                        }
                    }
                }
                Ok(format!("{} {} {}", vals.join(" "), status, verdict))
            }
            "c.ones" => {
                let n = p_usize(arg(args, 0)?)?;
                let o = UBig::ones(n);
                let r = (UBig::ONE << n) - UBig::ONE;
                let (cap, len) = ubig_repr_info(&o);
                Ok(format!(
                    "{} {} {} {} {}",
                    cap <= 2,
                    f_dec(len),
                    o == r,
                    f_ord(o.cmp(&r)),
                    feed(&o) == feed(&r)
                ))
            }
            "c.hashfeed" => {
                let x = p_ibig(arg(args, 0)?)?;
                let fi = feed(&x);
                // a UBig of the same value must feed the same bytes as the non-negative IBig
                if x.sign() == Sign::Positive {
                    let u = UBig::try_from(x.clone()).map_err(|_| "bad-arg".to_string())?;
                    if feed(&u) != fi {
                        return Ok(format!("{} BAD ubig-feed-differs", hexbytes(&fi)));
                    }
                }
                Ok(hexbytes(&fi))
            }
            _ => Err("__none__".into()),
        }
    })())
    .and_then(|r| match r {
        Err(e) if e == "__none__" => None,
        other => Some(other),
    })
}

// ====================================================================== floats and rationals
pub mod fr {
    use super::*;
    use dashu_float::{round::mode, FBig};
    use dashu_ratio::{RBig, Relaxed};

    type F2 = FBig<mode::Zero, 2>;
    type F10 = FBig<mode::HalfAway, 10>;
    type F16 = FBig<mode::Zero, 16>;

    /// `!unnormalized` marker: every FBig the harness gets back must have a significand that is not
    /// divisible by the base (zero: exponent 0; infinities: exponent +-1)
    fn norm_mark<R: dashu_float::round::Round, const B: Word>(x: &FBig<R, B>) -> &'static str {
        let r = x.repr();
        let s = r.significand();
        let bad = if s.is_zero() {
            !(r.exponent() == 0 || r.exponent() == 1 || r.exponent() == -1)
        } else {
            (s % IBig::from(B)).is_zero()
        };
        if bad {
            " !unnormalized"
        } else {
            ""
        }
    }

    fn p_isize(s: &str) -> Result<isize, String> {
        let v = p_dec(s)?;
        isize::try_from(v).map_err(|_| format!("bad-arg isize {}", s))
    }

    /// `inf` / `-inf` / `<signif hex> d:<exp> d:<precision>` (precision 0 = as given by from_parts)
    macro_rules! mkf {
        ($T:ty, $s:expr, $e:expr, $p:expr) => {{
            let s: &str = $s;
            if s == "inf" {
                <$T>::INFINITY
            } else if s == "-inf" {
                <$T>::NEG_INFINITY
            } else {
                let f = <$T>::from_parts(p_ibig(s)?, $e);
                if $p == 0 {
                    f
                } else if $p >= f.precision() {
                    // raising the precision never changes the representation
                    f.with_precision($p).value()
                } else {
                    return Err(format!("bad-arg precision {} < digits", $p));
                }
            }
        }};
    }

    macro_rules! fcmp {
        ($TA:ty, $TB:ty, $args:expr) => {{
            let a = mkf!($TA, arg($args, 1)?, p_isize(arg($args, 2)?)?, p_usize(arg($args, 3)?)?);
            let b = mkf!($TB, arg($args, 4)?, p_isize(arg($args, 5)?)?, p_usize(arg($args, 6)?)?);
            let c = a.partial_cmp(&b).map(f_ord).unwrap_or("none");
            let d = b.partial_cmp(&a).map(f_ord).unwrap_or("none");
            // `Ord / PartialOrd / PartialEq for Repr<B>` (no precisions: the precision shortcut is skipped)
            let rc = a.repr().cmp(b.repr());
            let rbad = if a.repr().partial_cmp(b.repr()) != Some(rc) || (a.repr() == b.repr()) != (a == b) || b.repr().cmp(a.repr()) != rc.reverse() {
                " BAD repr-level"
            } else {
                ""
            };
            Ok(format!("{} {} {} {}{}{}{}", a == b, c, d, f_ord(rc), rbad, norm_mark(&a), norm_mark(&b)))
        }};
    }

    #[cfg(feature = "num-order")]
    fn numfeed<T: num_order::NumHash>(x: &T) -> Vec<u8> {
        let mut h = Rec::default();
        x.num_hash(&mut h);
        h.0
    }
    #[cfg(not(feature = "num-order"))]
    fn numfeed<T>(_: &T) -> Vec<u8> {
        vec![]
    }

    /// what is wrong with a float that must be the exact zero (None = fine): the representation must be
    /// significand 0 with exponent 0 (exponent != 0 is the encoding of an infinity), `==`/`cmp` with ZERO in
    /// both orders, ordered strictly between -1 and 1, same numeric hash feed as ZERO
    fn zero_defect<R: dashu_float::round::Round, const B: Word>(v: &FBig<R, B>) -> Option<String> {
        let z = FBig::<R, B>::ZERO;
        let r = v.repr();
        if !r.significand().is_zero() {
            return Some(format!("signif={}", f_ibig(r.significand())));
        }
        if r.exponent() != 0 {
            return Some(format!("unnormalized:repr=0e{}", r.exponent()));
        }
        if !(v == &z) || !(&z == v) {
            return Some("ne-zero".into());
        }
        if v.partial_cmp(&z) != Some(Ordering::Equal) || z.partial_cmp(v) != Some(Ordering::Equal) || v.cmp(&z) != Ordering::Equal {
            return Some("cmp-zero".into());
        }
        if v.partial_cmp(&FBig::<R, B>::ONE) != Some(Ordering::Less)
            || v.partial_cmp(&FBig::<R, B>::NEG_ONE) != Some(Ordering::Greater)
            || FBig::<R, B>::ONE.partial_cmp(v) != Some(Ordering::Greater)
        {
            return Some("not-between-units".into());
        }
        if numfeed(v) != numfeed(&z) {
            return Some("numhash".into());
        }
        None
    }

    /// f.zero: exact zeros of several origins, every FBig producer in its by-value / by-reference /
    /// compound-assignment forms applied to each of them
    fn zero_routes<R: dashu_float::round::Round, const B: Word, const NB: Word>(p: usize, x: IBig, k: isize) -> Res {
        use core::str::FromStr;
        use dashu_base::SquareRoot;
        type T<R, const B: Word> = FBig<R, B>;
        let x = if x.is_zero() { IBig::ONE } else { x };
        let a0 = T::<R, B>::from_parts(x.clone(), k);
        // the non-zero operand at the requested precision (0 = unlimited)
        let a = a0.clone().with_precision(p).value();
        let zp = T::<R, B>::ZERO.with_precision(p).value();
        let mut zeros: Vec<(&str, T<R, B>)> = vec![
            ("lit", T::<R, B>::ZERO),
            ("default", T::<R, B>::default()),
            ("parts", T::<R, B>::from_parts(IBig::ZERO, k)),
            ("fromint", T::<R, B>::from(IBig::ZERO)),
            ("wp", zp.clone()),
            ("sub", &a - &a),
            ("subv", a.clone() - a.clone()),
            ("addneg", &a + &(-a.clone())),
            ("mul", &zp * &a),
            ("mulrev", &a * &zp),
            ("mullit", T::<R, B>::ZERO * a.clone()),
            ("neglit", -T::<R, B>::ZERO),
        ];
        if let Ok(v) = T::<R, B>::from_str("0") {
            zeros.push(("str", v));
        }
        {
            let mut t = a.clone();
            t -= &a;
            zeros.push(("subasg", t));
        }
        let ks: [isize; 4] = [k, -k, 1, -3];
        for (zn, z) in &zeros {
            if let Some(d) = zero_defect(z) {
                return Ok(format!("BAD {}:{}", zn, d));
            }
            let mut outs: Vec<(String, T<R, B>)> = vec![];
            for s in ks {
                outs.push((format!("shl.val{}", s), z.clone() << s));
                outs.push((format!("shr.val{}", s), z.clone() >> s));
                let mut t = z.clone();
                t <<= s;
                outs.push((format!("shl.asg{}", s), t));
                let mut t = z.clone();
                t >>= s;
                outs.push((format!("shr.asg{}", s), t));
                // chain (only from a sound intermediate: a broken one is reported by the entry above)
                let mut t = z.clone();
                t <<= s;
                if zero_defect(&t).is_none() {
                    t >>= s;
                    outs.push((format!("shl.shr.asg{}", s), t));
                }
            }
            outs.push(("mul.val".into(), z.clone() * a.clone()));
            outs.push(("mul.ref".into(), z * &a));
            outs.push(("mul.valref".into(), z.clone() * &a));
            outs.push(("mul.refval".into(), z * a.clone()));
            outs.push(("mul.rev".into(), &a * z));
            {
                let mut t = z.clone();
                t *= a.clone();
                outs.push(("mul.asg".into(), t));
                let mut t = z.clone();
                t *= &a;
                outs.push(("mul.asgref".into(), t));
                let mut t = a.clone();
                t *= z;
                outs.push(("mul.asgrev".into(), t));
                let mut t = z.clone();
                t *= 7i32;
                outs.push(("mul.asgprim".into(), t));
                let mut t = z.clone();
                t *= Sign::Negative;
                outs.push(("mul.asgsign".into(), t));
            }
            outs.push(("add0.val".into(), z.clone() + T::<R, B>::ZERO));
            outs.push(("add0.ref".into(), z + &T::<R, B>::ZERO));
            outs.push(("add0.rev".into(), T::<R, B>::ZERO + z));
            outs.push(("addz.ref".into(), z + z));
            outs.push(("sub0.val".into(), z.clone() - T::<R, B>::ZERO));
            outs.push(("sub0.ref".into(), z - &T::<R, B>::ZERO));
            outs.push(("subz.ref".into(), z - z));
            {
                let mut t = z.clone();
                t += T::<R, B>::ZERO;
                outs.push(("add0.asg".into(), t));
                let mut t = z.clone();
                t += &T::<R, B>::ZERO;
                outs.push(("add0.asgref".into(), t));
                let mut t = z.clone();
                t += 0i32;
                outs.push(("add0.asgprim".into(), t));
                let mut t = z.clone();
                t -= T::<R, B>::ZERO;
                outs.push(("sub0.asg".into(), t));
                let mut t = z.clone();
                t -= z;
                outs.push(("subz.asgref".into(), t));
            }
            outs.push(("neg.val".into(), -z.clone()));
            outs.push(("neg.ref".into(), -z));
            outs.push(("abs".into(), z.clone().abs()));
            // inexact operations need a limited precision
            if z.precision() > 0 || a.precision() > 0 {
                outs.push(("div.ref".into(), z / &a));
                outs.push(("div.val".into(), z.clone() / a.clone()));
                let mut t = z.clone();
                t /= &a;
                outs.push(("div.asgref".into(), t));
            }
            outs.push(("sqr".into(), z.sqr()));
            outs.push(("cubic".into(), z.cubic()));
            if z.precision() > 0 {
                outs.push(("sqrt".into(), z.sqrt()));
                outs.push(("powi".into(), z.powi(IBig::from(3))));
            }
            outs.push(("trunc".into(), z.trunc()));
            outs.push(("fract".into(), z.fract()));
            outs.push(("floor".into(), z.floor()));
            outs.push(("ceil".into(), z.ceil()));
            outs.push(("round".into(), z.round()));
            outs.push(("clone".into(), z.clone()));
            {
                let mut t = a.clone();
                t.clone_from(z);
                outs.push(("clone_from".into(), t));
            }
            for q in [0usize, 1, p + 3] {
                outs.push((format!("with_precision{}", q), z.clone().with_precision(q).value()));
            }
            for (on, v) in &outs {
                if let Some(d) = zero_defect(v) {
                    return Ok(format!("BAD {}/{}:{}", zn, on, d));
                }
                if !(v == z) || v.partial_cmp(z) != Some(Ordering::Equal) {
                    return Ok(format!("BAD {}/{}:ne-source", zn, on));
                }
            }
            // other rounding mode / other base: the result has another type
            if let Some(d) = zero_defect(&z.clone().with_rounding::<mode::Up>()) {
                return Ok(format!("BAD {}/with_rounding:{}", zn, d));
            }
            // a zero of unlimited precision converts only between bases that are powers of one another
            let related = {
                let (lo, hi) = if B < NB { (B, NB) } else { (NB, B) };
                let mut t = lo;
                while t < hi {
                    t *= lo;
                }
                t == hi
            };
            // (and with_base of a tiny precision asks for precision 0 = unlimited in the new base: the known
            // tiny-precision panic, not this property's business)
            if z.precision() >= 4 || related {
                if let Some(d) = zero_defect(&z.clone().with_base::<NB>().value()) {
                    return Ok(format!("BAD {}/with_base:{}", zn, d));
                }
                {
                    let mut t = z.clone();
                    t >>= 2isize;
                    if let Some(d) = zero_defect(&t) {
                        return Ok(format!("BAD {}/shr.asg2:{}", zn, d));
                    }
                    if let Some(d) = zero_defect(&t.with_base::<NB>().value()) {
                        return Ok(format!("BAD {}/shr.asg.with_base:{}", zn, d));
                    }
                }
                if let Some(d) = zero_defect(&z.clone().with_base_and_precision::<NB>(p + 2).value()) {
                    return Ok(format!("BAD {}/with_base_and_precision:{}", zn, d));
                }
            }
        }
        let z = T::<R, B>::ZERO;
        Ok(format!("{} {} zero-routes-agree", f_ibig(z.repr().significand()), f_dec(z.repr().exponent())))
    }


    /// f.ctx: the value `x = s*B^e` (any number of digits) rounded to `p` digits through every route that
    /// rounds exactly once — the owning `repr_round` (with_precision, sub(0, -x), convert_int) and the BORROWING
    /// `repr_round_ref` (Context::add(&0,&x), add(&x,&0), sub(&x,&0), powi(x,1), powf(x,1)); all results must be
    /// the same normalised representation, pairwise ==, cmp Equal, same numeric hash.  Then the producers that
    /// round an operand by reference before computing (mul/sqr/cubic/div/sqrt/powi/exp/ln pre-shrink): each
    /// result must be normalised, carry at most p+1 digits and be ==/cmp Equal to its own rebuilt copy.
    fn ctx_routes<R: dashu_float::round::Round, const B: Word>(s: IBig, e: isize, p: usize, sy: IBig, ey: isize) -> Res {
        use dashu_float::{Context, Repr};
        type T<R, const B: Word> = FBig<R, B>;
        let ctx = Context::<R>::new(p);
        let x = Repr::<B>::new(s.clone(), e);
        let y = Repr::<B>::new(sy.clone(), ey);
        let zero = Repr::<B>::zero();
        let negx = Repr::<B>::new(-s.clone(), e);
        let mut vals: Vec<(&str, T<R, B>)> = vec![];
        vals.push(("with_precision", T::<R, B>::from_parts(s.clone(), e).with_precision(p).value()));
        vals.push(("add0x", ctx.add(&zero, &x).value()));
        vals.push(("addx0", ctx.add(&x, &zero).value()));
        vals.push(("subx0", ctx.sub(&x, &zero).value()));
        vals.push(("sub0negx", ctx.sub(&zero, &negx).value()));
        vals.push(("powi1", ctx.powi(&x, IBig::ONE).value()));
        if p > 0 {
            vals.push(("powf1", ctx.powf(&x, &Repr::<B>::one()).value()));
        }
        if (0..40).contains(&e) {
            vals.push(("convert_int", ctx.convert_int::<B>(&s * IBig::from(B).pow(e as usize)).value()));
        }
        {
            // a zero of the context's precision plus x through the FBig operators of both ownerships after
            // the borrowed rounding (no further rounding: the operand already fits)
            let r = ctx.add(&x, &zero).value();
            let z = T::<R, B>::ZERO.with_precision(p).value();
            vals.push(("addx0+0", &r + &z));
            vals.push(("0+addx0", z.clone() + r.clone()));
            vals.push(("addx0-0", r - z));
        }
        let r0 = vals[0].1.repr().clone();
        let head = format!("{} {}", f_ibig(r0.significand()), f_dec(r0.exponent()));
        for (n, v) in &vals {
            let rp = v.repr();
            if !norm_mark(v).is_empty() {
                return Ok(format!("{} BAD {}:unnormalized:repr={}e{}", head, n, f_ibig(rp.significand()), rp.exponent()));
            }
            if rp.significand() != r0.significand() || rp.exponent() != r0.exponent() {
                return Ok(format!("{} BAD {}:repr={}e{}", head, n, f_ibig(rp.significand()), rp.exponent()));
            }
            if v.precision() != p {
                return Ok(format!("{} BAD {}:precision={}", head, n, v.precision()));
            }
            for (n1, w) in &vals {
                if v != w || v.partial_cmp(w) != Some(Ordering::Equal) || v.cmp(w) != Ordering::Equal || numfeed(v) != numfeed(w) {
                    return Ok(format!("{} BAD {}-vs-{}", head, n, n1));
                }
            }
        }
        // producers that shrink an over-long operand by reference first
        let mut prods: Vec<(&str, T<R, B>)> = vec![];
        prods.push(("mul", ctx.mul(&x, &y).value()));
        prods.push(("mulrev", ctx.mul(&y, &x).value()));
        prods.push(("sqr", ctx.sqr(&x).value()));
        prods.push(("cubic", ctx.cubic(&x).value()));
        prods.push(("add", ctx.add(&x, &y).value()));
        prods.push(("sub", ctx.sub(&x, &y).value()));
        prods.push(("powi2", ctx.powi(&x, IBig::from(2)).value()));
        prods.push(("powi5", ctx.powi(&x, IBig::from(5)).value()));
        if p > 0 {
            if !y.is_zero() {
                prods.push(("div", ctx.div(&x, &y).value()));
            }
            if !x.is_zero() {
                prods.push(("divrev", ctx.div(&y, &x).value()));
                prods.push(("inv", ctx.inv(&x).value()));
                prods.push(("powi-3", ctx.powi(&x, IBig::from(-3)).value()));
            }
            if x.sign() == Sign::Positive {
                prods.push(("sqrt", ctx.sqrt(&x).value()));
            }
            // exp / ln only where the result stays small (|x| < B^3)
            let small = (x.digits() as isize + x.exponent()) <= 3 && p <= 40 && x.digits() <= 60;
            if small {
                prods.push(("exp", ctx.exp(&x).value()));
                if x.sign() == Sign::Positive && !x.is_zero() && (x.digits() as isize + x.exponent()) >= -3 {
                    prods.push(("ln", ctx.ln(&x).value()));
                }
            }
        }
        for (n, v) in &prods {
            let rp = v.repr();
            if rp.is_infinite() {
                continue;
            }
            if !norm_mark(v).is_empty() {
                return Ok(format!("{} BAD {}:unnormalized:repr={}e{}", head, n, f_ibig(rp.significand()), rp.exponent()));
            }
            if p > 0 && rp.digits() > p + 1 {
                return Ok(format!("{} BAD {}:digits={}", head, n, rp.digits()));
            }
            let w = T::<R, B>::from_parts(rp.significand().clone(), rp.exponent());
            if v != &w || &w != v || v.partial_cmp(&w) != Some(Ordering::Equal) || w.cmp(v) != Ordering::Equal || numfeed(v) != numfeed(&w) {
                return Ok(format!("{} BAD {}:ne-rebuilt", head, n));
            }
        }
        Ok(format!("{} routes-agree", head))
    }

    pub fn dispatch(op: &str, args: &[&str]) -> Option<Res> {
        Some((|| -> Res {
            match op {
                // f.ctx <base><mode> s d:e d:p sy d:ey : see `ctx_routes` -> `<signif> <exp> routes-agree` | `… BAD <route>:<what>`
                "f.ctx" => {
                    let s = p_ibig(arg(args, 1)?)?;
                    let e = p_isize(arg(args, 2)?)?;
                    let p = p_usize(arg(args, 3)?)?;
                    let sy = p_ibig(arg(args, 4)?)?;
                    let ey = p_isize(arg(args, 5)?)?;
                    match arg(args, 0)? {
                        "2Z" => ctx_routes::<mode::Zero, 2>(s, e, p, sy, ey),
                        "2E" => ctx_routes::<mode::HalfEven, 2>(s, e, p, sy, ey),
                        "2A" => ctx_routes::<mode::Away, 2>(s, e, p, sy, ey),
                        "10H" => ctx_routes::<mode::HalfAway, 10>(s, e, p, sy, ey),
                        "10E" => ctx_routes::<mode::HalfEven, 10>(s, e, p, sy, ey),
                        "10D" => ctx_routes::<mode::Down, 10>(s, e, p, sy, ey),
                        "10U" => ctx_routes::<mode::Up, 10>(s, e, p, sy, ey),
                        "10Z" => ctx_routes::<mode::Zero, 10>(s, e, p, sy, ey),
                        "16Z" => ctx_routes::<mode::Zero, 16>(s, e, p, sy, ey),
                        "16H" => ctx_routes::<mode::HalfAway, 16>(s, e, p, sy, ey),
                        "3U" => ctx_routes::<mode::Up, 3>(s, e, p, sy, ey),
                        b => Err(format!("bad-arg tag {}", b)),
                    }
                }
                // f.zero <base> d:p x d:k : exact zeros of every origin (literal, default, from_parts(0, k), a - a,
                // 0 * a, -0, parsed; at precision p, 0 = unlimited; a = x*B^k) pushed through every producer form
                // (<< >> <<= >>= by +-k, * *= by value / reference / primitive / Sign, + - += -= with zero, neg,
                // abs, / /=, sqr, cubic, sqrt, powi, trunc/fract/floor/ceil/round, clone(_from), with_precision,
                // with_rounding, with_base, with_base_and_precision): every result must be significand 0 with
                // exponent 0, == / cmp Equal to ZERO in both orders, strictly between -1 and 1, same numeric hash
                // -> `<signif> <exp> zero-routes-agree` | `BAD <zero>/<producer>:<what>`
                "f.zero" => {
                    let p = p_usize(arg(args, 1)?)?;
                    let x = p_ibig(arg(args, 2)?)?;
                    let k = p_isize(arg(args, 3)?)?;
                    match arg(args, 0)? {
                        "2" => zero_routes::<mode::Zero, 2, 16>(p, x, k),
                        "2d" => zero_routes::<mode::HalfEven, 2, 10>(p, x, k),
                        "10" => zero_routes::<mode::HalfAway, 10, 2>(p, x, k),
                        "10c" => zero_routes::<mode::Down, 10, 100>(p, x, k),
                        "16" => zero_routes::<mode::Zero, 16, 2>(p, x, k),
                        "3" => zero_routes::<mode::Up, 3, 27>(p, x, k),
                        b => Err(format!("bad-arg base {}", b)),
                    }
                }
                // f.cmp <base> sa ea pa sb eb pb : two floats of the same base (rounding modes may
                // differ: PartialOrd<FBig<R2,B>> for FBig<R1,B>)
                "f.cmp" => match arg(args, 0)? {
                    "2" => fcmp!(F2, FBig<mode::HalfEven, 2>, args),
                    "10" => fcmp!(F10, FBig<mode::Zero, 10>, args),
                    "16" => fcmp!(F16, F16, args),
                    b => Err(format!("bad-arg base {}", b)),
                },
                // f.basecmp sa ea pa d:p10 sb eb : the binary float (signif, exp >= 0 small, precision) is
                // converted by with_base::<10>() (which is then the exact integer sa*2^ea, with the new
                // precision p10 predicted by the generator and checked here) and compared with the
                // decimal float (sb, eb) -> ==, cmp, reversed cmp
                "f.basecmp" => {
                    use dashu_base::Approximation;
                    let a = mkf!(F2, arg(args, 0)?, p_isize(arg(args, 1)?)?, p_usize(arg(args, 2)?)?);
                    let p10 = p_usize(arg(args, 3)?)?;
                    let conv = a.with_base::<10>();
                    let exact = matches!(conv, Approximation::Exact(_));
                    let c: FBig<mode::Zero, 10> = conv.value();
                    let b = mkf!(FBig<mode::Zero, 10>, arg(args, 4)?, p_isize(arg(args, 5)?)?, 0usize);
                    if c.precision() != p10 {
                        // the generator's prediction of the new precision is part of the case
                        return Ok(format!("unexpected-precision {}", c.precision()));
                    }
                    let _ = exact;
                    Ok(format!(
                        "{} {} {}{}{}",
                        c == b,
                        c.partial_cmp(&b).map(f_ord).unwrap_or("none"),
                        b.partial_cmp(&c).map(f_ord).unwrap_or("none"),
                        norm_mark(&c),
                        norm_mark(&b)
                    ))
                }
                // f.excess <base> <op> sa ea pa sb eb pb : digits(result) - precision(result) of one float
                // operation (exploration / invariant check: the FBig invariant is digits <= precision)
                "f.excess" | "f.fits" => {
                    macro_rules! go {
                        ($T:ty) => {{
                            let a = mkf!($T, arg(args, 2)?, p_isize(arg(args, 3)?)?, p_usize(arg(args, 4)?)?);
                            let b = mkf!($T, arg(args, 5)?, p_isize(arg(args, 6)?)?, p_usize(arg(args, 7)?)?);
                            let r: $T = match arg(args, 1)? {
                                "add" => &a + &b,
                                "sub" => &a - &b,
                                "mul" => &a * &b,
                                "div" => &a / &b,
                                "sqr" => a.sqr(),
                                "cubic" => a.cubic(),
                                "sqrt" => dashu_base::SquareRoot::sqrt(&a),
                                "powi" => a.powi(b.to_int().value()),
                                "exp" => a.exp(),
                                "ln" => a.ln(),
                                "addsub" => (&a + &b) - &b,
                                "submul" => (&a - &b) * &b,
                                "subsub" => (&a - &b) - &b,
                                o => return Err(format!("bad-arg op {}", o)),
                            };
                            let rp = r.repr();
                            let d = if rp.is_infinite() { 0 } else { rp.digits() };
                            if op == "f.fits" {
                                // the invariant the comparison relies on: at most one spare digit
                                return Ok(format!(
                                    "{}{}",
                                    r.precision() == 0 || d <= r.precision() + 1,
                                    norm_mark(&r)
                                ));
                            }
                            Ok(format!(
                                "{} {} {} {}",
                                f_ibig(rp.significand()),
                                f_dec(rp.exponent()),
                                f_dec(r.precision()),
                                f_dec(d as isize - r.precision() as isize)
                            ))
                        }};
                    }
                    match arg(args, 0)? {
                        "2" => go!(F2),
                        "10" => go!(F10),
                        "16" => go!(F16),
                        b => Err(format!("bad-arg base {}", b)),
                    }
                }
                // f.viabase <src> <dst> s e : the base-`src` float s*src^e (src = dst^k) converted to base
                // `dst` — exactly, through the power-base shortcut of convert_base — by with_base_and_precision
                // (ample precision), by with_base when that is exact, and by to_binary for dst = 2; each result
                // must be normalised and ==, cmp Equal (both orders) to the same number built directly with
                // from_parts in the target base -> `<signif> <exp> <==> <cmp> <cmp reversed>`
                "f.viabase" => {
                    use dashu_base::Approximation;
                    macro_rules! via {
                        ($S:expr, $D:expr, $k:expr, $bin:expr) => {{
                            let sg = p_ibig(arg(args, 2)?)?;
                            let e = p_isize(arg(args, 3)?)?;
                            let src = FBig::<mode::Zero, $S>::from_parts(sg.clone(), e);
                            let direct = FBig::<mode::Zero, $D>::from_parts(sg.clone(), e * $k);
                            let big_prec = src.precision() * $k + 8;
                            let mut got: Vec<(&str, FBig<mode::Zero, $D>)> = vec![];
                            match src.clone().with_base_and_precision::<$D>(big_prec) {
                                Approximation::Exact(v) => got.push(("wbp", v)),
                                Approximation::Inexact(_, _) => return Ok("BAD with_base_and_precision-inexact".into()),
                            }
                            if let Approximation::Exact(v) = src.clone().with_base::<$D>() {
                                got.push(("wb", v));
                            }
                            let head = {
                                let r = got[0].1.repr();
                                format!("{} {}", f_ibig(r.significand()), f_dec(r.exponent()))
                            };
                            let mut out = format!(
                                "{} {} {} {}",
                                head,
                                got[0].1 == direct,
                                got[0].1.partial_cmp(&direct).map(f_ord).unwrap_or("none"),
                                direct.partial_cmp(&got[0].1).map(f_ord).unwrap_or("none")
                            );
                            for (name, v) in &got {
                                out.push_str(norm_mark(v));
                                if !(v == &direct) || !(&direct == v) || v.partial_cmp(&direct) != Some(Ordering::Equal) {
                                    out.push_str(&format!(" BAD {}-differs-from-direct", name));
                                }
                            }
                            out.push_str(norm_mark(&direct));
                            let _ = $bin;
                            Ok(out)
                        }};
                    }
                    match (arg(args, 0)?, arg(args, 1)?) {
                        ("16", "2") => {
                            // also the dedicated to_binary()
                            let sg = p_ibig(arg(args, 2)?)?;
                            let e = p_isize(arg(args, 3)?)?;
                            let b = FBig::<mode::Zero, 16>::from_parts(sg.clone(), e).to_binary();
                            let direct = FBig::<mode::Zero, 2>::from_parts(sg, e * 4);
                            let extra = match b {
                                Approximation::Exact(v) => {
                                    if v != direct || !norm_mark(&v).is_empty() {
                                        " BAD to_binary-differs-from-direct"
                                    } else {
                                        ""
                                    }
                                }
                                _ => "",
                            };
                            let r: Res = via!(16, 2, 4, true);
                            r.map(|o| o + extra)
                        }
                        ("8", "2") => via!(8, 2, 3, false),
                        ("4", "2") => via!(4, 2, 2, false),
                        ("16", "4") => via!(16, 4, 2, false),
                        ("9", "3") => via!(9, 3, 2, false),
                        ("27", "3") => via!(27, 3, 3, false),
                        ("100", "10") => via!(100, 10, 2, false),
                        (a, b) => Err(format!("bad-arg bases {} {}", a, b)),
                    }
                }
                // f.subcmp <base> sa ea sb eb d:p sr er sc ec d:pc : r = a - b at precision p (operands of the same
                // sign, so the difference may keep the spare digit: p+1 significant digits, flagged Exact); the
                // generator predicts r = sr*B^er (checked here), then r is compared with c = sc*B^ec (precision
                // pc) in both orders -> `<==> <r cmp c> <c cmp r>`
                "f.subcmp" => {
                    macro_rules! go {
                        ($T:ty) => {{
                            let p = p_usize(arg(args, 5)?)?;
                            let a = mkf!($T, arg(args, 1)?, p_isize(arg(args, 2)?)?, p);
                            let b = mkf!($T, arg(args, 3)?, p_isize(arg(args, 4)?)?, p);
                            let r: $T = &a - &b;
                            let want = <$T>::from_parts(p_ibig(arg(args, 6)?)?, p_isize(arg(args, 7)?)?);
                            if r.repr().significand() != want.repr().significand()
                                || r.repr().exponent() != want.repr().exponent()
                                || r.precision() != p
                            {
                                return Ok(format!(
                                    "unexpected-difference {} {} {}",
                                    f_ibig(r.repr().significand()),
                                    r.repr().exponent(),
                                    r.precision()
                                ));
                            }
                            let c = mkf!($T, arg(args, 8)?, p_isize(arg(args, 9)?)?, p_usize(arg(args, 10)?)?);
                            Ok(format!(
                                "{} {} {}{}{}",
                                r == c,
                                r.partial_cmp(&c).map(f_ord).unwrap_or("none"),
                                c.partial_cmp(&r).map(f_ord).unwrap_or("none"),
                                norm_mark(&r),
                                norm_mark(&c)
                            ))
                        }};
                    }
                    match arg(args, 0)? {
                        "2" => go!(F2),
                        "10" => go!(F10),
                        "16" => go!(F16),
                        b => Err(format!("bad-arg base {}", b)),
                    }
                }
                // f.routes s e : the decimal float s*10^e built by several routes; every result must have the
                // same normalised representation, be pairwise == and partial_cmp Equal (also across
                // rounding modes and precisions) -> `<signif> <exp> routes-agree`
                "f.routes" => {
                    use core::str::FromStr;
                    let sg = p_ibig(arg(args, 0)?)?;
                    let e = p_isize(arg(args, 1)?)?;
                    let base = F10::from_parts(sg.clone(), e);
                    let mut vals: Vec<(usize, F10)> = vec![(0, base.clone())];
                    for (i, k) in [1u32, 2, 5, 19, 40].iter().enumerate() {
                        let m = &sg * IBig::from(10u8).pow(*k as usize);
                        vals.push((1 + i, F10::from_parts(m, e - *k as isize)));
                    }
                    vals.push((6, base.clone().with_precision(base.precision() + 10).value()));
                    vals.push((7, base.clone().with_precision(0).value()));
                    vals.push((8, &base + F10::ZERO));
                    vals.push((9, &base * F10::ONE));
                    vals.push((10, -(-base.clone())));
                    vals.push((11, (base.clone() << 3isize) >> 3isize));
                    vals.push((12, (base.clone() >> 7isize) << 7isize));
                    if let Ok(v) = F10::from_str(&base.to_string()) {
                        vals.push((13, v));
                    }
                    if e >= 0 && e < 60 {
                        vals.push((14, F10::from(&sg * IBig::from(10u8).pow(e as usize))));
                    }
                    {
                        // with 5 spare digits the sum and the difference are exact
                        let h = base.clone().with_precision(base.precision() + 5).value();
                        vals.push((15, (&h + &h) - &h));
                    }
                    let zero_mode: FBig<mode::Zero, 10> = base.clone().with_rounding::<mode::Zero>();
                    let r0 = base.repr();
                    let head = format!("{} {}", f_ibig(r0.significand()), f_dec(r0.exponent()));
                    let mut bad: Option<String> = None;
                    for (r, v) in &vals {
                        let rp = v.repr();
                        if !norm_mark(v).is_empty() {
                            bad = Some(format!("route{}:unnormalized", r));
                            break;
                        }
                        if rp.significand() != r0.significand() || rp.exponent() != r0.exponent() {
                            bad = Some(format!("route{}:repr={}e{}", r, f_ibig(rp.significand()), rp.exponent()));
                            break;
                        }
                        if !(v == &zero_mode) || v.partial_cmp(&zero_mode) != Some(Ordering::Equal) {
                            bad = Some(format!("route{}:cross-mode", r));
                            break;
                        }
                        for (r1, w) in &vals {
                            if v != w || v.partial_cmp(w) != Some(Ordering::Equal) || v.cmp(w) != Ordering::Equal {
                                bad = Some(format!("route{}-vs-route{}", r, r1));
                            }
                        }
                    }
                    Ok(match bad {
                        None => format!("{} routes-agree", head),
                        Some(b) => format!("{} BAD {}", head, b),
                    })
                }
                // q.routes n d : the rational n/d built by several routes (non-reduced parts, signed parts,
                // arithmetic round trips, parsing, Relaxed -> canonicalize); every RBig must be the reduced
                // fraction, pairwise ==, cmp Equal, same hash feed -> `<num> <den> routes-agree`
                "q.routes" => {
                    use core::str::FromStr;
                    let n = p_ibig(arg(args, 0)?)?;
                    let d = p_ubig(arg(args, 1)?)?;
                    let base = RBig::from_parts(n.clone(), d.clone());
                    let mut vals: Vec<(usize, RBig)> = vec![(0, base.clone())];
                    for (i, k) in [2u64, 3, 6, 7, 1 << 40, u64::MAX].iter().enumerate() {
                        vals.push((1 + i, RBig::from_parts(&n * IBig::from(*k), &d * UBig::from(*k))));
                    }
                    vals.push((7, RBig::from_parts_signed(-n.clone(), -IBig::from(d.clone()))));
                    let y = RBig::from_parts(IBig::from(22), UBig::from(7u8));
                    vals.push((8, (&base + &y) - &y));
                    vals.push((9, (&base * &y) / &y));
                    vals.push((10, -(-base.clone())));
                    vals.push((11, base.clone()));
                    if let Ok(v) = RBig::from_str(&format!("{}/{}", n, d)) {
                        vals.push((12, v));
                    }
                    vals.push((13, Relaxed::from_parts(&n * IBig::from(15), &d * UBig::from(15u8)).canonicalize()));
                    vals.push((14, base.clone().relax().canonicalize()));
                    let head = format!("{} {}", f_ibig(base.numerator()), f_ubig(base.denominator()));
                    let mut bad: Option<String> = None;
                    for (r, v) in &vals {
                        if v.numerator() != base.numerator() || v.denominator() != base.denominator() {
                            bad = Some(format!("route{}:parts={}/{}", r, f_ibig(v.numerator()), f_ubig(v.denominator())));
                            break;
                        }
                        if canon_i(v.numerator()).is_some() || canon_u(v.denominator()).is_some() {
                            bad = Some(format!("route{}:noncanonical-part", r));
                            break;
                        }
                        for (r1, w) in &vals {
                            if v != w || v.cmp(w) != Ordering::Equal || feed(v) != feed(w) {
                                bad = Some(format!("route{}-vs-route{}", r, r1));
                            }
                        }
                    }
                    Ok(match bad {
                        None => format!("{} routes-agree", head),
                        Some(b) => format!("{} BAD {}", head, b),
                    })
                }
                // q.cmp n1 d1 n2 d2 : Relaxed fractions as given (not reduced) and the reduced RBig
                "q.cmp" => {
                    let n1 = p_ibig(arg(args, 0)?)?;
                    let d1 = p_ubig(arg(args, 1)?)?;
                    let n2 = p_ibig(arg(args, 2)?)?;
                    let d2 = p_ubig(arg(args, 3)?)?;
                    let xa = Relaxed::from_parts(n1.clone(), d1.clone());
                    let xb = Relaxed::from_parts(n2.clone(), d2.clone());
                    let ra = RBig::from_parts(n1, d1);
                    let rb = RBig::from_parts(n2, d2);
                    let mix = (ra == rb) == (xa == xb) && ra.cmp(&rb) == xa.cmp(&xb);
                    Ok(format!(
                        "{} {} {} | {} {} {} {}{}",
                        xa == xb,
                        f_ord(xa.cmp(&xb)),
                        f_ord(xb.cmp(&xa)),
                        ra == rb,
                        f_ord(ra.cmp(&rb)),
                        f_ord(rb.cmp(&ra)),
                        feed(&ra) == feed(&rb),
                        if mix { "" } else { " BAD relaxed-vs-rbig" }
                    ))
                }
                _ => Err("__none__".into()),
            }
        })())
        .and_then(|r| match r {
            Err(e) if e == "__none__" => None,
            other => Some(other),
        })
    }
}
