//! Equality / ordering / hashing (C05).
use verif_harness::util::*;

pub fn dispatch(_op: &str, _args: &[&str]) -> Option<Res> {
    None
}
