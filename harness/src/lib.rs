//! Shared runtime of the exec_* binaries: protocol lexing, call-form evaluation, panic capture,
//! and the case-file loop.  Each group binary supplies its own `dispatch`.
pub mod forms;
pub mod util;

use std::io::{BufRead, Write};
use util::*;

pub type Dispatch = fn(&str, &[&str]) -> Option<Res>;

pub fn run_main(dispatchers: &[Dispatch]) {
    let path = std::env::args().nth(1).expect("usage: exec <casefile>");
    let f = std::fs::File::open(&path).expect("cannot open case file");
    install_panic_hook();
    let out = std::io::stdout();
    let mut out = std::io::BufWriter::new(out.lock());
    for line in std::io::BufReader::new(f).lines() {
        let line = line.unwrap();
        let line = line.trim();
        if line.is_empty() {
            continue;
        }
        if line.starts_with('#') {
            // header lines: `#W 64` — the harness checks that it was built for that word size
            let toks: Vec<&str> = line.split(' ').collect();
            if toks[0] == "#W" {
                let w: usize = toks[1].parse().unwrap();
                if w != WBITS {
                    writeln!(out, "! word size mismatch: case file {} build {}", w, WBITS).unwrap();
                    std::process::exit(3);
                }
            }
            continue;
        }
        let toks: Vec<&str> = line.split(' ').collect();
        let id = toks[0];
        let op = toks.get(1).copied().unwrap_or("");
        let args: Vec<&str> = toks[2.min(toks.len())..].to_vec();
        let res = std::panic::catch_unwind(|| {
            for d in dispatchers {
                if let Some(r) = d(op, &args) {
                    return r;
                }
            }
            Err(format!("bad-op {}", op))
        });
        match res {
            Ok(Ok(s)) => writeln!(out, "{} ok {}", id, s).unwrap(),
            Ok(Err(e)) => writeln!(out, "{} {}", id, e).unwrap(),
            Err(_) => {
                let (msg, loc) = LAST_PANIC
                    .with(|p| p.borrow_mut().take())
                    .unwrap_or_else(|| ("?".into(), "?".into()));
                writeln!(out, "{} panic {}", id, classify_panic(&msg, &loc)).unwrap()
            }
        }
        out.flush().unwrap();
    }
}
