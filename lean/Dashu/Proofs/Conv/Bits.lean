import Dashu.Proofs.Conv.Round
import Mathlib.Tactic.IntervalCases
/-
  C06 — from the literal masks and shifts of `encode` to arithmetic.
-/
namespace Dashu.Model.Conv

theorem bitLen_pos {a : Nat} (ha : a ≠ 0) : 1 ≤ bitLen a := by
  unfold bitLen; simp [ha]

theorem bitLen_lt {a : Nat} : a < 2 ^ bitLen a := by
  unfold bitLen
  split
  · subst_vars; simp
  · exact Nat.lt_log2_self

theorem bitLen_le {a : Nat} (ha : a ≠ 0) : 2 ^ (bitLen a - 1) ≤ a := by
  unfold bitLen; simp only [ha, if_false, Nat.add_sub_cancel]
  exact Nat.log2_self_le ha

theorem bitLen_le_of_lt {a n : Nat} (h : a < 2 ^ n) : bitLen a ≤ n := by
  unfold bitLen
  split
  · omega
  · rename_i ha
    have := (Nat.log2_lt ha).mpr h
    omega

/-- `(u & 0b110) | sticky` as a number -/
theorem roundBits_eq (u st : Nat) (hst : st < 2) :
    (u &&& 6) ||| st = 4 * ((u / 4) % 2) + 2 * ((u / 2) % 2) + st := by
  have table : ∀ v < 8, ∀ s < 2, (v &&& 6) ||| s = 4 * ((v / 4) % 2) + 2 * ((v / 2) % 2) + s := by decide
  have h8 : (u &&& 6) < 2 ^ 3 := Nat.and_lt_two_pow u (by decide)
  have hm : (u &&& 6) % 2 ^ 3 = (u % 2 ^ 3) &&& (6 % 2 ^ 3) := Nat.and_mod_two_pow
  rw [Nat.mod_eq_of_lt h8] at hm
  have h6 : (6 : Nat) % 2 ^ 3 = 6 := by decide
  rw [h6] at hm
  rw [hm, table (u % 2 ^ 3) (Nat.mod_lt _ (by decide)) st hst]
  have : (2 : Nat) ^ 3 = 8 := by decide
  omega

theorem finish_eq (sign bits l r s : Nat) (hl : l < 2) (hr : r < 2) (hs : s < 2) :
    finish sign bits (4 * l + 2 * r + s) =
      if r = 0 ∧ s = 0 then (bits, .exact)
      else if r = 1 ∧ (s = 1 ∨ l = 1) then (bits + 1, Flag.flipIf .pos (decide (sign > 0)))
      else (bits, Flag.flipIf .neg (decide (sign > 0))) := by
  interval_cases l <;> interval_cases r <;> interval_cases s <;>
    simp [finish, roundToEvenAdjustment]

theorem flipIf_exact (b : Bool) : Flag.flipIf .exact b = .exact := by
  cases b <;> rfl

/-- the tail of `encode` performs exactly the (kept, round, sticky) decision, on top of any
    higher fields `S` -/
theorem finish_round (sign S kept rb st : Nat) (hr : rb < 2) (hs : st < 2) :
    finish sign (S + kept) (4 * (kept % 2) + 2 * rb + st) =
      (S + (roundByBits kept rb st).1, (roundByBits kept rb st).2.flipIf (decide (sign > 0))) := by
  rw [finish_eq sign (S + kept) (kept % 2) rb st (Nat.mod_lt _ (by decide)) hr hs]
  unfold roundByBits
  split_ifs <;> simp_all [flipIf_exact, Nat.add_assoc]

theorem roundByBits_add_even (X kept rb st : Nat) (hX : X % 2 = 0) :
    roundByBits (X + kept) rb st = (X + (roundByBits kept rb st).1, (roundByBits kept rb st).2) := by
  unfold roundByBits
  have : (X + kept) % 2 = kept % 2 := by omega
  rw [this]
  split_ifs <;> simp [Nat.add_assoc]

/-- extracting (kept, round bit, sticky) from a value carrying two extra bits -/
theorem two_extra_bits (y k : Nat) (hk : 1 ≤ k) :
    (4 * y / 2 ^ k) / 4 = y / 2 ^ k ∧
    ((4 * y / 2 ^ k) / 2) % 2 = (y / 2 ^ (k - 1)) % 2 ∧
    (((4 * y / 2 ^ k) % 2 ≠ 0 ∨ (4 * y) % 2 ^ k ≠ 0) ↔ y % 2 ^ (k - 1) ≠ 0) := by
  obtain ⟨j, rfl⟩ : ∃ j, k = j + 1 := ⟨k - 1, by omega⟩
  simp only [Nat.add_sub_cancel]
  have e1 : 4 * y / 2 ^ (j + 1) = 2 * y / 2 ^ j := by
    rw [pow_succ, show 4 * y = (2 * y) * 2 by ring, Nat.mul_div_mul_right _ _ (by decide : 0 < 2)]
  have e2 : 4 * y % 2 ^ (j + 1) = 2 * (2 * y % 2 ^ j) := by
    rw [pow_succ, show 4 * y = (2 * y) * 2 by ring, Nat.mul_mod_mul_right]; ring
  rw [e1, e2]
  rcases j with _ | i
  · simp only [pow_zero, Nat.div_one, Nat.mod_one]
    refine ⟨by omega, by omega, by omega⟩
  · have e3 : 2 * y / 2 ^ (i + 1) = y / 2 ^ i := by
      rw [pow_succ, Nat.mul_comm 2 y, Nat.mul_div_mul_right _ _ (by decide : 0 < 2)]
    have e4 : 2 * y % 2 ^ (i + 1) = 2 * (y % 2 ^ i) := by
      rw [pow_succ, Nat.mul_comm 2 y, Nat.mul_mod_mul_right]; ring
    rw [e3, e4]
    have d1 : y / 2 ^ i / 4 = y / 2 ^ (i + 1 + 1) := by
      rw [Nat.div_div_eq_div_mul]; congr 1; ring
    have d2 : y / 2 ^ i / 2 = y / 2 ^ (i + 1) := by
      rw [Nat.div_div_eq_div_mul]; congr 1
    have d3 : y % 2 ^ (i + 1) = y % 2 ^ i + 2 ^ i * (y / 2 ^ i % 2) := Nat.mod_pow_succ
    refine ⟨d1, by rw [d2], ?_⟩
    rw [d3]
    have hp : 0 < 2 ^ i := Nat.two_pow_pos i
    constructor
    · intro h
      rcases h with h | h
      · have : y / 2 ^ i % 2 = 1 := by omega
        rw [this]; omega
      · omega
    · intro h
      by_cases h0 : y % 2 ^ i = 0
      · left
        rw [h0] at h
        intro hc
        rw [hc] at h
        simp at h
      · right; omega

end Dashu.Model.Conv
