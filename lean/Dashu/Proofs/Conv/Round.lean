import Dashu.Model.Conv.Ieee
import Mathlib.Tactic.Ring
import Mathlib.Tactic.Linarith
import Mathlib.Tactic.SplitIfs
/-
  C06 — rounding lemmas: `rneDiv` is the nearest integer with ties to even, and rounding a
  quotient by a power of two is decided by (last kept bit, round bit, sticky bit).
-/
namespace Dashu.Model.Conv

/-- magnitude-level rounding decision from (kept part, round bit, sticky bit) -/
def roundByBits (kept rb st : Nat) : Nat × Flag :=
  if rb = 0 ∧ st = 0 then (kept, .exact)
  else if rb = 1 ∧ (st = 1 ∨ kept % 2 = 1) then (kept + 1, .pos)
  else (kept, .neg)

theorem rneDiv_one (y : Nat) : rneDiv y 1 = y := by
  simp [rneDiv, Nat.mod_one]

/-- decomposition of `y` at bit positions `k-1` and `k` -/
theorem split_at (y k : Nat) (hk : 1 ≤ k) :
    y = 2 ^ k * (y / 2 ^ k) + 2 ^ (k - 1) * ((y / 2 ^ (k - 1)) % 2) + y % 2 ^ (k - 1) := by
  obtain ⟨j, rfl⟩ : ∃ j, k = j + 1 := ⟨k - 1, by omega⟩
  simp only [Nat.add_sub_cancel]
  have h1 : y = 2 ^ j * (y / 2 ^ j) + y % 2 ^ j := (Nat.div_add_mod _ _).symm
  have h3 : y / 2 ^ j / 2 = y / 2 ^ (j + 1) := by rw [Nat.div_div_eq_div_mul, pow_succ]
  have h2 : y / 2 ^ j = 2 * (y / 2 ^ (j + 1)) + (y / 2 ^ j) % 2 := by
    rw [← h3]; exact (Nat.div_add_mod _ _).symm
  calc y = 2 ^ j * (y / 2 ^ j) + y % 2 ^ j := h1
    _ = 2 ^ j * (2 * (y / 2 ^ (j + 1)) + (y / 2 ^ j) % 2) + y % 2 ^ j := by rw [← h2]
    _ = 2 ^ (j + 1) * (y / 2 ^ (j + 1)) + 2 ^ j * ((y / 2 ^ j) % 2) + y % 2 ^ j := by ring

theorem rne_core (y H K rb lo : Nat) (hH : 0 < H) (hrb : rb < 2) (hlo : lo < H)
    (hs : y = 2 * H * K + H * rb + lo) :
    (rneDiv y (2 * H), flagOf (rneDiv y (2 * H)) (2 * H) y) =
      roundByBits K rb (if lo = 0 then 0 else 1) := by
  have hrbH : H * rb ≤ H := by nlinarith
  have hdm : y / (2 * H) = K ∧ y % (2 * H) = H * rb + lo := by
    rw [Nat.div_mod_unique (by omega)]
    constructor
    · rw [hs]; ring
    · omega
  obtain ⟨hq, hr⟩ := hdm
  obtain ⟨P, hP⟩ : ∃ P, P = H * K := ⟨_, rfl⟩
  have e1 : K * (2 * H) = 2 * P := by rw [hP]; ring
  have e2 : (K + 1) * (2 * H) = 2 * P + 2 * H := by rw [hP]; ring
  have hy : y = 2 * P + H * rb + lo := by rw [hs, hP]; ring
  have hrb' : rb = 0 ∨ rb = 1 := by omega
  unfold rneDiv flagOf roundByBits
  simp only [hq, hr]
  rcases hrb' with rfl | rfl
  · simp only [Nat.mul_zero, Nat.add_zero, Nat.zero_add] at hy ⊢
    split_ifs <;> first | rfl | (exfalso; omega) | (exfalso; simp at *; try omega)
  · simp only [Nat.mul_one] at hy ⊢
    split_ifs <;> first | rfl | (exfalso; omega) | (exfalso; simp at *; try omega)

theorem rneDiv_pow (y k : Nat) (hk : 1 ≤ k) :
    (rneDiv y (2 ^ k), flagOf (rneDiv y (2 ^ k)) (2 ^ k) y) =
      roundByBits (y / 2 ^ k) ((y / 2 ^ (k - 1)) % 2) (if y % 2 ^ (k - 1) = 0 then 0 else 1) := by
  have hk2 : 2 ^ k = 2 * 2 ^ (k - 1) := by
    obtain ⟨j, rfl⟩ : ∃ j, k = j + 1 := ⟨k - 1, by omega⟩
    simp [pow_succ, Nat.mul_comm]
  have hs := split_at y k hk
  have h := rne_core y (2 ^ (k - 1)) (y / 2 ^ k) ((y / 2 ^ (k - 1)) % 2) (y % 2 ^ (k - 1))
    (Nat.two_pow_pos _) (Nat.mod_lt _ (by decide)) (Nat.mod_lt _ (Nat.two_pow_pos _))
    (by rw [← hk2]; exact hs)
  rw [← hk2] at h
  exact h

/-- `rneDiv` is a nearest integer: it is within half a unit of the quotient … -/
theorem rneDiv_half (num den : Nat) (hd : 0 < den) :
    2 * (rneDiv num den * den) ≤ 2 * num + den ∧ 2 * num ≤ 2 * (rneDiv num den * den) + den := by
  have hdm := Nat.div_add_mod num den
  have hr := Nat.mod_lt num hd
  unfold rneDiv
  simp only
  generalize num / den = q at *
  generalize num % den = r at *
  obtain ⟨P, hP⟩ : ∃ P, P = den * q := ⟨_, rfl⟩
  have e1 : q * den = P := by rw [hP]; ring
  have e2 : (q + 1) * den = P + den := by rw [hP]; ring
  rw [← hP] at hdm
  split_ifs <;> simp only [e1, e2] <;> omega

/-- … and on an exact tie the even neighbour is chosen -/
theorem rneDiv_tie_even (num den : Nat) (h : 2 * (num % den) = den) :
    rneDiv num den % 2 = 0 := by
  unfold rneDiv
  simp only
  split_ifs <;> omega

end Dashu.Model.Conv
