import Dashu.Proofs.Conv.Prim
import Dashu.Proofs.Conv.Decode
import Dashu.Model.Conv.Ratio
/-
  C06 — small corollaries used by the property file.
-/
namespace Dashu.Model.Conv
open Dashu.Model

theorem ieeeRound_neg (F : Ieee) (x : Nat) (e : Int) (hx : x ≠ 0) :
    ieeeRound F (-(x : Int)) e = signedApx F true (ieeeRound F (x : Int) e) := by
  rw [ieeeRound_nonneg F x e hx]
  unfold ieeeRound signedApx
  have h0 : ¬ (-(x : Int) = 0) := by omega
  have hn : (-(x : Int)) < 0 := by omega
  simp [h0, hx, Nat.pos_of_ne_zero hx]

/-- primitive → big → primitive gives the value back -/
theorem unsigned_roundtrip (W bits x : Nat) (hx : x < 2 ^ bits) (hb : bits ≤ 2 * W) :
    tryToUnsigned W bits (fromUnsigned W x) = .ok x := by
  have : x < 2 ^ (2 * W) := lt_of_lt_of_le hx (pow_le_pow2 hb)
  simp [fromUnsigned, this, tryToUnsigned, hx]

theorem ubigTryFromFloat_spec (d : DecConsts) (bits : Nat) :
    ((fun n : Nat => (n : Int)) <$> ubigTryFromFloat d bits) = intFromFloatSpec d false bits := by
  unfold ubigTryFromFloat intFromFloatSpec
  rcases decode d bits with c | ⟨man, exp⟩
  · rfl
  · simp only
    by_cases hneg : man < 0
    · simp [hneg]
    · have hm : (man.toNat : Int) = man := by omega
      simp only [hneg, if_false, Bool.not_false, true_and, decide_false, Bool.false_eq_true]
      by_cases he : exp ≥ 0
      · simp only [he, if_true, Nat.shiftLeft_eq]
        show Except.ok ((man.toNat * 2 ^ exp.toNat : Nat) : Int) = _
        push_cast; rw [hm]
      · simp only [he, if_false]
        generalize (-exp).toNat = k
        have hmod : (man.toNat % 2 ^ k ≠ 0) ↔ ¬ (man % 2 ^ k = 0) := by
          have h1 : ((man.toNat % 2 ^ k : Nat) : Int) = man % 2 ^ k := by
            push_cast; rw [hm]
          constructor
          · intro h hc; apply h; rw [hc] at h1; exact_mod_cast h1
          · intro h hc; apply h; rw [← h1, hc]; rfl
        by_cases hz : man % 2 ^ k = 0
        · have : ¬ (man.toNat % 2 ^ k ≠ 0) := fun h => hmod.mp h hz
          simp only [this, if_false, hz, if_true, Nat.shiftRight_eq_div_pow]
          show Except.ok ((man.toNat / 2 ^ k : Nat) : Int) = _
          push_cast; rw [hm]
        · have : man.toNat % 2 ^ k ≠ 0 := hmod.mpr hz
          rw [if_pos this, if_neg hz]
          rfl

theorem ibigTryFromFloat_spec (d : DecConsts) (bits : Nat) :
    ibigTryFromFloat d bits = intFromFloatSpec d true bits := by
  unfold ibigTryFromFloat intFromFloatSpec
  rcases decode d bits with c | ⟨man, exp⟩
  · rfl
  · simp only [Bool.not_true, Bool.false_eq_true, false_and, if_false]
    by_cases he : exp ≥ 0
    · simp [he]
    · simp only [he, if_false]
      generalize (-exp).toNat = k
      have hmod : (man.natAbs % 2 ^ k = 0) ↔ (man % 2 ^ k = 0) := by
        have h2 : (2 : Int) ^ k = ((2 ^ k : Nat) : Int) := by norm_cast
        rw [h2, ← Int.dvd_iff_emod_eq_zero, Int.natCast_dvd, Nat.dvd_iff_mod_eq_zero]
      by_cases hz : man % 2 ^ k = 0
      · have : ¬ (man.natAbs % 2 ^ k ≠ 0) := fun h => h (hmod.mpr hz)
        rw [if_neg this, if_pos hz]
      · have : man.natAbs % 2 ^ k ≠ 0 := fun h => hz (hmod.mp h)
        rw [if_pos this, if_neg hz]

end Dashu.Model.Conv

namespace Dashu.Model.Conv
open Dashu.Model

theorem castToFloat_bits (F : Ieee) (x : Nat) (hx : x ≠ 0) :
    (castToFloat F x).1 = (ieeeRoundMag F x 0).1 := by
  unfold castToFloat ieeeRoundMag
  simp only [hx, if_false]
  split <;> rfl

/-- `TryFrom<UBig> for f32/f64`: whenever the bit-length rule lets a value through, the cast is exact
    (the rule is conservative: e.g. `2^25` is refused for `f32` although representable) -/
theorem ubigTryToFloat_sound (F : Ieee) (hF : F.Ok) (hB : F.prec + 1 ≤ F.B) (x b : Nat)
    (h : ubigTryToFloat F x = .ok b) : ieeeRound F (x : Int) 0 = (b, .exact) := by
  unfold ubigTryToFloat at h
  simp only at h
  split at h
  · cases h
  · rename_i hc
    simp only [Except.ok.injEq] at h
    by_cases hx : x = 0
    · subst hx
      simp [castToFloat] at h
      simp [ieeeRound, h]
    rw [ieeeRound_nonneg F x 0 hx]
    rw [castToFloat_bits F x hx] at h
    have hL1 := bitLen_pos hx
    have hqm := F.qmin_eq
    have hprec : F.prec = F.MB + 1 := rfl
    have hBge := F.B_ge hF
    -- quantum offset w = L + B - 3
    obtain ⟨w, hw⟩ : ∃ w : Nat, w + 3 = bitLen x + F.B := ⟨bitLen x + F.B - 3, by omega⟩
    have ht : (bitLen x : Int) + 0 = F.qmin + F.prec + w := by rw [hqm]; omega
    by_cases hle : bitLen x ≤ F.prec
    · obtain ⟨j, hj⟩ : ∃ j, bitLen x + j = F.prec := ⟨F.prec - bitLen x, by omega⟩
      have hs := spec_norm_exact F hF x j w 0 hj ht (by omega)
      rw [hs] at h ⊢
      simp only at h
      rw [h]
    · have hL : bitLen x = F.prec + 1 := by omega
      have hpow : x = 2 ^ (bitLen x - 1) := by
        by_contra hne
        exact hc (Or.inr ⟨hL, hne⟩)
      have hs := spec_norm_round F hF x 1 w 0 hL (by omega) ht (by omega)
      have hx2 : x = 2 ^ F.prec := by rw [hpow, hL]; simp
      have hr : rneDiv x (2 ^ 1) = 2 ^ (F.prec - 1) := by
        rw [hx2]
        unfold rneDiv
        have e : 2 ^ F.prec = 2 ^ (F.prec - 1) * 2 ^ 1 := by
          rw [← pow_add]; congr 1 <;> omega
        have hd : 2 ^ F.prec / 2 ^ 1 = 2 ^ (F.prec - 1) :=
          Nat.div_eq_of_eq_mul_left (by decide) e
        have hm : 2 ^ F.prec % 2 ^ 1 = 0 := by
          rw [e, Nat.mul_mod_left]
        simp only [hd, hm]
        norm_num
      have hfl : flagOf (2 ^ (F.prec - 1)) (2 ^ 1) x = .exact := by
        unfold flagOf
        have : 2 ^ (F.prec - 1) * 2 ^ 1 = x := by
          rw [hx2, ← pow_add]; congr 1 <;> omega
        rw [if_pos this]
      rw [hr, hfl] at hs
      rw [hs] at h ⊢
      simp only at h
      rw [h]

end Dashu.Model.Conv
