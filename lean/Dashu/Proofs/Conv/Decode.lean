import Dashu.Proofs.Conv.IntFloat
/-
  C06 — `decode` reads the IEEE fields, refuses NaN/±∞, and `encode (decode x)` is exact and gives
  back `x` (up to the sign of zero, which `encode` documents away: `Exact(0)`).
-/
namespace Dashu.Model.Conv

/-- relations between the literal constants of a `decode` body and the format -/
structure DecCompat (d : DecConsts) (F : Ieee) : Prop where
  ok : F.Ok
  signShr : d.signShr = F.EB + F.MB
  mantMask : d.mantMask = 2 ^ F.MB - 1
  expShr : d.expShr = F.MB
  expMask : d.expMask = 2 ^ F.EB - 1
  subExp : d.subExp = F.qmin
  expBias : d.expBias = F.bias + F.MB
  hidden : d.hidden = 2 ^ F.MB

theorem f32Dec_compat : DecCompat f32Dec .binary32 := by
  refine ⟨Ieee.binary32_ok, ?_, ?_, ?_, ?_, ?_, ?_, ?_⟩ <;> decide
theorem f64Dec_compat : DecCompat f64Dec .binary64 := by
  refine ⟨Ieee.binary64_ok, ?_, ?_, ?_, ?_, ?_, ?_, ?_⟩ <;> decide

/-- a bit pattern as sign, exponent field and mantissa field -/
def fields (F : Ieee) (s E M : Nat) : Nat := s * 2 ^ (F.EB + F.MB) + E * 2 ^ F.MB + M

theorem decode_fields (d : DecConsts) (F : Ieee) (hd : DecCompat d F) (s E M : Nat)
    (hs : s < 2) (hE : E < 2 ^ F.EB) (hM : M < 2 ^ F.MB) :
    decode d (fields F s E M) =
      if E = 2 ^ F.EB - 1 then (if M ≠ 0 then .error .nan else .error .infinite)
      else .ok ((if s > 0 then -1 else 1) * ((if E = 0 then M else 2 ^ F.MB + M : Nat) : Int),
                if E = 0 then F.qmin else F.qmin + E - 1) := by
  have hpE := Nat.two_pow_pos F.EB
  have hpM := Nat.two_pow_pos F.MB
  have hlow : E * 2 ^ F.MB + M < 2 ^ (F.EB + F.MB) := by
    rw [pow_add]
    calc E * 2 ^ F.MB + M < E * 2 ^ F.MB + 2 ^ F.MB := by omega
      _ = (E + 1) * 2 ^ F.MB := by ring
      _ ≤ 2 ^ F.EB * 2 ^ F.MB := Nat.mul_le_mul_right _ (by omega)
  have h1 : fields F s E M >>> d.signShr = s := by
    rw [hd.signShr, Nat.shiftRight_eq_div_pow]
    unfold fields
    rw [Nat.add_assoc, Nat.add_comm, Nat.add_mul_div_right _ _ (Nat.two_pow_pos _),
      Nat.div_eq_of_lt hlow]; omega
  have h2 : fields F s E M &&& d.mantMask = M := by
    rw [hd.mantMask, Nat.and_two_pow_sub_one_eq_mod]
    unfold fields
    rw [pow_add, show s * (2 ^ F.EB * 2 ^ F.MB) + E * 2 ^ F.MB + M = M + 2 ^ F.MB * (s * 2 ^ F.EB + E) by ring,
      Nat.add_mul_mod_self_left]
    exact Nat.mod_eq_of_lt hM
  have h3 : (fields F s E M >>> d.expShr) &&& d.expMask = E := by
    rw [hd.expShr, hd.expMask, Nat.and_two_pow_sub_one_eq_mod, Nat.shiftRight_eq_div_pow]
    unfold fields
    rw [pow_add, show s * (2 ^ F.EB * 2 ^ F.MB) + E * 2 ^ F.MB + M = M + (s * 2 ^ F.EB + E) * 2 ^ F.MB by ring,
      Nat.add_mul_div_right _ _ hpM, Nat.div_eq_of_lt hM, Nat.zero_add,
      show s * 2 ^ F.EB + E = E + 2 ^ F.EB * s by ring, Nat.add_mul_mod_self_left]
    exact Nat.mod_eq_of_lt hE
  have h4 : M ||| d.hidden = 2 ^ F.MB + M := by
    rw [hd.hidden, Nat.or_comm]
    have := Nat.two_pow_add_eq_or_of_lt hM 1
    simp only [Nat.mul_one] at this
    exact this.symm
  unfold decode
  simp only [h1, h2, h3, h4]
  simp only [hd.expMask, hd.subExp, hd.expBias]
  have hbias := F.bias_eq
  have hqm := F.qmin_eq
  by_cases hinf : E = 2 ^ F.EB - 1
  · have : ((E : Nat) : Int) = ((2 ^ F.EB - 1 : Nat) : Int) := by rw [hinf]
    rw [if_pos this, if_pos hinf]
  · have : ¬ (((E : Nat) : Int) = ((2 ^ F.EB - 1 : Nat) : Int)) := by
      intro h; exact hinf (by exact_mod_cast h)
    rw [if_neg this, if_neg hinf]
    by_cases hE0 : E = 0
    · have h0 : ((E : Nat) : Int) = 0 := by rw [hE0]; rfl
      rw [if_pos h0, if_pos hE0, if_pos hE0]
      rcases (show s = 0 ∨ s = 1 by omega) with rfl | rfl <;> simp
    · have h0 : ¬ (((E : Nat) : Int) = 0) := by omega
      rw [if_neg h0, if_neg hE0, if_neg hE0]
      have he : (E : Int) - (F.bias + F.MB) = F.qmin + E - 1 := by rw [hbias, hqm]; ring
      simp only [he]
      rcases (show s = 0 ∨ s = 1 by omega) with rfl | rfl <;> simp

/-- **round trip**: for every finite bit pattern, `encode (decode bits)` is `Exact` and returns the
    same bits, except that `-0.0` comes back as `+0.0` (`encode` returns `Exact(0)` for a zero
    mantissa); NaN and ±∞ are refused by `decode`. -/
theorem encode_decode_roundtrip (c : EncConsts) (d : DecConsts) (F : Ieee) (hc : Compatible c F)
    (hd : DecCompat d F) (s E M : Nat) (hs : s < 2) (hE : E < 2 ^ F.EB - 1) (hM : M < 2 ^ F.MB) :
    ∃ m e, decode d (fields F s E M) = .ok (m, e) ∧
      encodeFixed c m e = .ok (if E = 0 ∧ M = 0 then 0 else fields F s E M, .exact) := by
  have hF := hc.ok
  have hB := F.B_ge hF
  have hEB := F.two_B hF
  have hpM := Nat.two_pow_pos F.MB
  have hdec := decode_fields d F hd s E M hs (by omega) hM
  have hne : ¬ (E = 2 ^ F.EB - 1) := by omega
  rw [if_neg hne] at hdec
  refine ⟨_, _, hdec, ?_⟩
  have hN := hc.hN
  generalize hmant : (if E = 0 then M else 2 ^ F.MB + M : Nat) = mant
  have hmlt : mant < 2 ^ (F.MB + 1) := by
    rw [← hmant, pow_succ]; split <;> omega
  have hfit : ((if s > 0 then (-1 : Int) else 1) * (mant : Int)).natAbs ≤ 2 ^ (c.N - 1) := by
    have : c.N - 1 = F.EB + F.MB := by omega
    rw [this]
    have h2 : 2 ^ (F.MB + 1) ≤ 2 ^ (F.EB + F.MB) := pow_le_pow2 (by have := hF.hEB; omega)
    have : ((if s > 0 then (-1 : Int) else 1) * (mant : Int)).natAbs = mant := by
      split <;> simp
    rw [this]; omega
  rw [encodeFixed_correct c F hc _ _ hfit]
  congr 1
  by_cases hm0 : mant = 0
  · -- ±0
    have hz : E = 0 ∧ M = 0 := by
      rw [← hmant] at hm0
      by_cases hE0 : E = 0
      · rw [if_pos hE0] at hm0; exact ⟨hE0, hm0⟩
      · rw [if_neg hE0] at hm0; omega
    simp [hm0, ieeeRound, hz]
  · have hnz : ¬ (E = 0 ∧ M = 0) := by
      intro ⟨h1, h2⟩
      rw [← hmant, if_pos h1] at hm0; exact hm0 h2
    rw [if_neg hnz]
    unfold ieeeRound
    have hmi : ¬ ((if s > 0 then (-1 : Int) else 1) * (mant : Int) = 0) := by
      split <;> omega
    rw [if_neg hmi]
    have habs : ((if s > 0 then (-1 : Int) else 1) * (mant : Int)).natAbs = mant := by
      split <;> simp
    rw [habs]
    have hneg : ((if s > 0 then (-1 : Int) else 1) * (mant : Int) < 0) ↔ s = 1 := by
      constructor
      · intro h; by_contra hc'
        have : s = 0 := by omega
        subst this; simp at h; omega
      · intro h; subst h; simp; omega
    have hqm := F.qmin_eq
    have hprec : F.prec = F.MB + 1 := rfl
    -- the magnitude is exactly representable
    have hmag : ieeeRoundMag F mant (if E = 0 then F.qmin else F.qmin + E - 1) =
        (E * 2 ^ F.MB + M, .exact) := by
      by_cases hE0 : E = 0
      · simp only [hE0, if_true] at hmant ⊢
        subst hmant
        have hbl : bitLen M ≤ F.MB := bitLen_le_of_lt hM
        rw [spec_sub_exact F hF M 0 F.qmin (by simp) (by omega)]
        simp
      · simp only [hE0, if_false] at hmant ⊢
        have hbl : bitLen mant = F.MB + 1 := by
          rw [← hmant]; exact bitLen_eq_of (by omega) (by rw [pow_succ]; omega)
        rw [spec_norm_exact F hF mant 0 (E - 1) (F.qmin + E - 1) (by omega) (by rw [hbl]; push_cast; omega)
          (by omega)]
        rw [← hmant]
        congr 1
        have : E = (E - 1) + 1 := by omega
        conv_rhs => rw [this]
        ring
    rw [hmag]
    simp only [flipIf_exact]
    unfold fields Ieee.signBit
    refine Prod.ext ?_ rfl
    simp only
    rcases (show s = 0 ∨ s = 1 by omega) with rfl | rfl
    · have : ¬ ((if (0 : Nat) > 0 then (-1 : Int) else 1) * (mant : Int) < 0) := by simp
      rw [if_neg this]; omega
    · have : ((if (1 : Nat) > 0 then (-1 : Int) else 1) * (mant : Int) < 0) := by simp; omega
      rw [if_pos this]; omega

end Dashu.Model.Conv
