import Dashu.Proofs.Conv.FloatTo
/-
  C06 — `RBig::to_f32_fast / to_f64_fast` (rational/src/convert.rs): the quotient of the truncated
  operands that is handed to `encode` is within 4.5 units in its last place of the exact quotient
  (so within 2.25 ulps of the p-bit result when it has p+1 bits, 2.5 when it has p); `encode` then
  rounds correctly (`encode_correct`).  This is the bounded error the method promises — the doc comment's
  "off by one bit" is too optimistic: 2 and 3 units are observed.
-/
namespace Dashu.Model.Conv
open Dashu.Model Dashu.Model.Float

/-- the rounding written out in `to_fNN_fast` is `rneDiv` -/
theorem fast_round_eq (N D : Nat) :
    (if D < 2 * (N % D) ∨ (2 * (N % D) = D ∧ N / D % 2 = 1) then N / D + 1 else N / D) = rneDiv N D := by
  unfold rneDiv
  simp only
  split_ifs <;> first | rfl | omega

/-- abstract error bound: `u ∈ (N-1, N+1)`, `w ∈ [D, D+1)`, `m` nearest to `N/D`, `N ≤ 4·D²` ⇒
    `|m - u/w| < 9/2` -/
theorem quotient_error (N D m : Nat) (u w : ℚ) (hD : 0 < D) (hN : N ≤ 4 * D * D)
    (hu1 : (N : ℚ) - 1 < u) (hu2 : u < (N : ℚ) + 1) (hw1 : (D : ℚ) ≤ w) (hw2 : w < (D : ℚ) + 1)
    (hm1 : 2 * (m * D) ≤ 2 * N + D) (hm2 : 2 * N ≤ 2 * (m * D) + D) :
    |(m : ℚ) - u / w| < 9 / 2 := by
  have hDq : (0 : ℚ) < D := by exact_mod_cast hD
  have hwpos : 0 < w := lt_of_lt_of_le hDq hw1
  have hm1q : 2 * ((m : ℚ) * D) ≤ 2 * N + D := by exact_mod_cast hm1
  have hm2q : 2 * (N : ℚ) ≤ 2 * ((m : ℚ) * D) + D := by exact_mod_cast hm2
  have hNq : (N : ℚ) ≤ 4 * D * D := by exact_mod_cast hN
  have hN0 : (0 : ℚ) ≤ N := by positivity
  rw [abs_lt]
  constructor
  · -- u/w - m < 1/D + 1/2 ≤ 3/2
    have h1 : u / w < ((N : ℚ) + 1) / D := by
      rw [div_lt_div_iff₀ hwpos hDq]
      nlinarith
    have h2 : ((N : ℚ) + 1) / D ≤ (m : ℚ) + 1 / 2 + 1 / D := by
      rw [div_le_iff₀ hDq]
      have : (1 : ℚ) / D * D = 1 := by field_simp
      nlinarith
    have h3 : (1 : ℚ) / D ≤ 1 := by
      rw [div_le_iff₀ hDq]
      have : (1 : ℚ) ≤ D := by exact_mod_cast hD
      linarith
    linarith
  · -- m - u/w < (N + D)/(D(D+1)) + 1/2 < 9/2
    have hD1 : (0 : ℚ) < (D : ℚ) + 1 := by linarith
    by_cases hN1 : (N : ℚ) - 1 ≤ 0
    · have hu0 : 0 ≤ u / w ∨ u / w < 0 := le_or_gt 0 (u / w)
      have hmle : (m : ℚ) ≤ 2 := by
        have : (m : ℚ) * D ≤ N + D / 2 := by linarith
        have hN1' : (N : ℚ) ≤ 1 := by linarith
        have : (m : ℚ) * D ≤ 1 + D / 2 := by linarith
        have hD1' : (1 : ℚ) ≤ D := by exact_mod_cast hD
        nlinarith
      have hw1' : (1 : ℚ) ≤ w := by
        have : (1 : ℚ) ≤ D := by exact_mod_cast hD
        linarith
      have : -(1 : ℚ) < u / w := by
        rw [lt_div_iff₀ hwpos]
        linarith
      linarith
    · have hN1' : 0 < (N : ℚ) - 1 := by linarith
      have h1 : ((N : ℚ) - 1) / (D + 1) < u / w := by
        rw [div_lt_div_iff₀ hD1 hwpos]
        nlinarith
      have h2 : (m : ℚ) ≤ N / D + 1 / 2 := by
        rw [← sub_le_iff_le_add, le_div_iff₀ hDq]
        nlinarith
      have h3 : (N : ℚ) / D - ((N : ℚ) - 1) / (D + 1) < 4 := by
        rw [div_sub_div _ _ (ne_of_gt hDq) (ne_of_gt hD1), div_lt_iff₀ (mul_pos hDq hD1)]
        nlinarith
      linarith

end Dashu.Model.Conv

namespace Dashu.Model.Conv
open Dashu.Model Dashu.Model.Float

/-- truncated numerator of `to_fNN_fast` (`2p` bits; a negative numerator is floored by the `IBig` shift,
    i.e. its magnitude is rounded up) -/
def fastNum (p a : Nat) (neg : Bool) : Nat :=
  let numShift : Int := (bitLen a : Int) - 2 * p
  if numShift ≥ 0 then (a >>> numShift.toNat) + (if neg ∧ a % 2 ^ numShift.toNat ≠ 0 then 1 else 0)
  else a <<< (-numShift).toNat

/-- truncated denominator (`p` bits) -/
def fastDen (p den : Nat) : Nat :=
  let denShift : Int := (bitLen den : Int) - p
  if denShift ≥ 0 then den >>> denShift.toNat else den <<< (-denShift).toNat

def fastExp (p a den : Nat) : Int := ((bitLen a : Int) - 2 * p) - ((bitLen den : Int) - p)

theorem two_zpow (e : Int) : bpowQ 2 e = (2 : ℚ) ^ e := by
  have := bpowQ_eq_zpow 2 e; simpa using this

theorem fastNum_bounds (p a : Nat) (neg : Bool) (ha : a ≠ 0) :
    ((fastNum p a neg : ℚ) - 1 < (a : ℚ) / (2 : ℚ) ^ ((bitLen a : Int) - 2 * p)) ∧
    ((a : ℚ) / (2 : ℚ) ^ ((bitLen a : Int) - 2 * p) < (fastNum p a neg : ℚ) + 1) ∧
    fastNum p a neg ≤ 2 ^ (2 * p) := by
  have hlt := @bitLen_lt a
  have hle := bitLen_le ha
  have hL := bitLen_pos ha
  unfold fastNum
  simp only
  by_cases hs : (bitLen a : Int) - 2 * p ≥ 0
  · simp only [hs, if_true]
    obtain ⟨k, hk⟩ : ∃ k : Nat, (bitLen a : Int) - 2 * p = k := ⟨((bitLen a : Int) - 2 * p).toNat, by omega⟩
    rw [hk]
    simp only [Int.toNat_natCast, zpow_natCast, Nat.shiftRight_eq_div_pow]
    have hpos : (0 : ℚ) < (2 : ℚ) ^ k := by positivity
    have hdm := Nat.div_add_mod a (2 ^ k)
    have hr := Nat.mod_lt a (Nat.two_pow_pos k)
    have hq : a / 2 ^ k < 2 ^ (2 * p) := by
      rw [Nat.div_lt_iff_lt_mul (Nat.two_pow_pos _), ← pow_add]
      have : 2 * p + k = bitLen a := by omega
      rw [this]; exact hlt
    have hcast : (a : ℚ) = (2 : ℚ) ^ k * ((a / 2 ^ k : Nat) : ℚ) + ((a % 2 ^ k : Nat) : ℚ) := by
      have : ((2 ^ k * (a / 2 ^ k) + a % 2 ^ k : Nat) : ℚ) = (a : ℚ) := by rw [hdm]
      push_cast at this; linarith
    have hrq : ((a % 2 ^ k : Nat) : ℚ) < (2 : ℚ) ^ k := by exact_mod_cast hr
    have hr0 : (0 : ℚ) ≤ ((a % 2 ^ k : Nat) : ℚ) := by positivity
    by_cases hadj : neg = true ∧ a % 2 ^ k ≠ 0
    · simp only [hadj, and_self, ne_eq, not_false_eq_true, if_true]
      have hrpos : (0 : ℚ) < ((a % 2 ^ k : Nat) : ℚ) := by
        have : 0 < a % 2 ^ k := Nat.pos_of_ne_zero hadj.2
        exact_mod_cast this
      refine ⟨?_, ?_, by omega⟩
      · rw [lt_div_iff₀ hpos]; push_cast; nlinarith
      · rw [div_lt_iff₀ hpos]; push_cast; nlinarith
    · have : (if neg = true ∧ a % 2 ^ k ≠ 0 then 1 else 0) = 0 := by rw [if_neg hadj]
      rw [this, Nat.add_zero]
      refine ⟨?_, ?_, by omega⟩
      · rw [lt_div_iff₀ hpos]; nlinarith
      · rw [div_lt_iff₀ hpos]; nlinarith
  · simp only [hs, if_false]
    obtain ⟨k, hk⟩ : ∃ k : Nat, (bitLen a : Int) - 2 * p = -(k : Int) := ⟨(-((bitLen a : Int) - 2 * p)).toNat, by omega⟩
    rw [hk]
    simp only [neg_neg, Int.toNat_natCast, Nat.shiftLeft_eq, zpow_neg, zpow_natCast]
    have hpos : (0 : ℚ) < (2 : ℚ) ^ k := by positivity
    have hval : (a : ℚ) / ((2 : ℚ) ^ k)⁻¹ = ((a * 2 ^ k : Nat) : ℚ) := by
      push_cast; field_simp
    rw [hval]
    refine ⟨by linarith, by linarith, ?_⟩
    calc a * 2 ^ k ≤ 2 ^ bitLen a * 2 ^ k := Nat.mul_le_mul_right _ (le_of_lt hlt)
      _ = 2 ^ (2 * p) := by rw [← pow_add]; congr 1; omega

theorem fastDen_bounds (p den : Nat) (hp : 1 ≤ p) (hd : den ≠ 0) :
    ((fastDen p den : ℚ) ≤ (den : ℚ) / (2 : ℚ) ^ ((bitLen den : Int) - p)) ∧
    ((den : ℚ) / (2 : ℚ) ^ ((bitLen den : Int) - p) < (fastDen p den : ℚ) + 1) ∧
    2 ^ (p - 1) ≤ fastDen p den := by
  have hlt := @bitLen_lt den
  have hle := bitLen_le hd
  have hL := bitLen_pos hd
  unfold fastDen
  simp only
  by_cases hs : (bitLen den : Int) - p ≥ 0
  · simp only [hs, if_true]
    obtain ⟨k, hk⟩ : ∃ k : Nat, (bitLen den : Int) - p = k := ⟨((bitLen den : Int) - p).toNat, by omega⟩
    rw [hk]
    simp only [Int.toNat_natCast, zpow_natCast, Nat.shiftRight_eq_div_pow]
    have hpos : (0 : ℚ) < (2 : ℚ) ^ k := by positivity
    have hdm := Nat.div_add_mod den (2 ^ k)
    have hr := Nat.mod_lt den (Nat.two_pow_pos k)
    have hcast : (den : ℚ) = (2 : ℚ) ^ k * ((den / 2 ^ k : Nat) : ℚ) + ((den % 2 ^ k : Nat) : ℚ) := by
      have : ((2 ^ k * (den / 2 ^ k) + den % 2 ^ k : Nat) : ℚ) = (den : ℚ) := by rw [hdm]
      push_cast at this; linarith
    have hrq : ((den % 2 ^ k : Nat) : ℚ) < (2 : ℚ) ^ k := by exact_mod_cast hr
    have hr0 : (0 : ℚ) ≤ ((den % 2 ^ k : Nat) : ℚ) := by positivity
    refine ⟨?_, ?_, ?_⟩
    · rw [le_div_iff₀ hpos]; nlinarith
    · rw [div_lt_iff₀ hpos]; nlinarith
    · rw [Nat.le_div_iff_mul_le (Nat.two_pow_pos _), ← pow_add]
      have : p - 1 + k = bitLen den - 1 := by omega
      rw [this]; exact hle
  · simp only [hs, if_false]
    obtain ⟨k, hk⟩ : ∃ k : Nat, (bitLen den : Int) - p = -(k : Int) := ⟨(-((bitLen den : Int) - p)).toNat, by omega⟩
    rw [hk]
    simp only [neg_neg, Int.toNat_natCast, Nat.shiftLeft_eq, zpow_neg, zpow_natCast]
    have hval : (den : ℚ) / ((2 : ℚ) ^ k)⁻¹ = ((den * 2 ^ k : Nat) : ℚ) := by
      push_cast; field_simp
    rw [hval]
    refine ⟨le_refl _, by linarith, ?_⟩
    calc 2 ^ (p - 1) = 2 ^ (bitLen den - 1) * 2 ^ k := by rw [← pow_add]; congr 1; omega
      _ ≤ den * 2 ^ k := Nat.mul_le_mul_right _ hle

/-- **bounded error of `to_f32_fast / to_f64_fast`**: the rounded quotient of the truncated operands that
    is handed to `encode` is within 4.5 units (in ITS last place) of the exact quotient scaled to the same
    exponent — hence, with the correct rounding in `encode`, within 3 units of the correctly rounded float
    in the normal range. -/
theorem fast_quotient_bound (p a den : Nat) (neg : Bool) (hp : 1 ≤ p) (ha : a ≠ 0) (hd : den ≠ 0) :
    |((rneDiv (fastNum p a neg) (fastDen p den) : Nat) : ℚ) -
      ((a : ℚ) / (den : ℚ)) / (2 : ℚ) ^ (fastExp p a den)| < 9 / 2 := by
  obtain ⟨hu1, hu2, hN⟩ := fastNum_bounds p a neg ha
  obtain ⟨hw1, hw2, hDlo⟩ := fastDen_bounds p den hp hd
  have hDpos : 0 < fastDen p den := lt_of_lt_of_le (Nat.two_pow_pos _) hDlo
  have hhalf := rneDiv_half (fastNum p a neg) (fastDen p den) hDpos
  have hN4 : fastNum p a neg ≤ 4 * fastDen p den * fastDen p den := by
    have h1 : 2 ^ (p - 1) * 2 ^ (p - 1) ≤ fastDen p den * fastDen p den := Nat.mul_le_mul hDlo hDlo
    have h2 : 2 ^ (2 * p) = 4 * (2 ^ (p - 1) * 2 ^ (p - 1)) := by
      rw [← pow_add, show (4 : Nat) = 2 ^ 2 by rfl, ← pow_add]; congr 1; omega
    calc fastNum p a neg ≤ 2 ^ (2 * p) := hN
      _ = 4 * (2 ^ (p - 1) * 2 ^ (p - 1)) := h2
      _ ≤ 4 * (fastDen p den * fastDen p den) := Nat.mul_le_mul_left _ h1
      _ = 4 * fastDen p den * fastDen p den := by ring
  have hq := quotient_error (fastNum p a neg) (fastDen p den) (rneDiv (fastNum p a neg) (fastDen p den))
    ((a : ℚ) / (2 : ℚ) ^ ((bitLen a : Int) - 2 * p)) ((den : ℚ) / (2 : ℚ) ^ ((bitLen den : Int) - p))
    hDpos hN4 hu1 hu2 hw1 hw2 hhalf.1 hhalf.2
  have hdq : (den : ℚ) ≠ 0 := by exact_mod_cast hd
  have h2 : (2 : ℚ) ≠ 0 := by norm_num
  have heq : (a : ℚ) / (2 : ℚ) ^ ((bitLen a : Int) - 2 * p) / ((den : ℚ) / (2 : ℚ) ^ ((bitLen den : Int) - p)) =
      ((a : ℚ) / (den : ℚ)) / (2 : ℚ) ^ (fastExp p a den) := by
    unfold fastExp
    rw [zpow_sub₀ h2 ((bitLen a : Int) - 2 * p) ((bitLen den : Int) - p)]
    have hA : (2 : ℚ) ^ ((bitLen a : Int) - 2 * p) ≠ 0 := zpow_ne_zero _ h2
    have hBq : (2 : ℚ) ^ ((bitLen den : Int) - p) ≠ 0 := zpow_ne_zero _ h2
    generalize (2 : ℚ) ^ ((bitLen a : Int) - 2 * p) = A at hA
    generalize (2 : ℚ) ^ ((bitLen den : Int) - p) = Bq at hBq
    field_simp
  rw [heq] at hq
  exact hq

end Dashu.Model.Conv

namespace Dashu.Model.Conv
open Dashu.Model Dashu.Model.Float

/-- `to_fNN_fast` outside its two early exits: the bits are the (correct) IEEE rounding of
    `±m'·2^x` with `m' = rneDiv (fastNum) (fastDen)`, `x = fastExp` -/
theorem ratToFloatFast_main (c : RatConsts) (ec : EncConsts) (h : RatCompat c ec) (num : Int) (den : Nat)
    (hnum : num ≠ 0) (hden : den ≠ 0)
    (h1 : ¬ (fastExp c.prec num.natAbs den ≥ c.infShift))
    (h2 : ¬ (fastExp c.prec num.natAbs den < c.zeroShift - (if c.prec = 53 then 1 else 0))) :
    ratToFloatFast c (encodeFixed ec) num den =
      .ok (ieeeRound c.F
        (if decide (num < 0) then -((rneDiv (fastNum c.prec num.natAbs (decide (num < 0))) (fastDen c.prec den) : Nat) : Int)
         else ((rneDiv (fastNum c.prec num.natAbs (decide (num < 0))) (fastDen c.prec den) : Nat) : Int))
        (fastExp c.prec num.natAbs den)).1 := by
  have hp : 1 ≤ c.prec := by rw [h.prec]; unfold Ieee.prec; omega
  have ha : num.natAbs ≠ 0 := by omega
  obtain ⟨_, _, hN⟩ := fastNum_bounds c.prec num.natAbs (decide (num < 0)) ha
  obtain ⟨_, _, hDlo⟩ := fastDen_bounds c.prec den hp hden
  have hDpos : 0 < fastDen c.prec den := lt_of_lt_of_le (Nat.two_pow_pos _) hDlo
  -- the rounded quotient fits the mantissa type
  have hm : rneDiv (fastNum c.prec num.natAbs (decide (num < 0))) (fastDen c.prec den) ≤ 2 ^ (ec.N - 1) := by
    have hb := (rneDiv_bounds (fastNum c.prec num.natAbs (decide (num < 0))) (fastDen c.prec den)).2
    have hq : fastNum c.prec num.natAbs (decide (num < 0)) / fastDen c.prec den ≤ 2 ^ (c.prec + 1) := by
      apply Nat.div_le_of_le_mul
      calc fastNum c.prec num.natAbs (decide (num < 0)) ≤ 2 ^ (2 * c.prec) := hN
        _ = 2 ^ (c.prec - 1) * 2 ^ (c.prec + 1) := by rw [← pow_add]; congr 1; omega
        _ ≤ fastDen c.prec den * 2 ^ (c.prec + 1) := Nat.mul_le_mul_right _ hDlo
    have h3 : 2 ^ (c.prec + 1) + 1 ≤ 2 ^ (c.prec + 3) := by
      have : 2 ^ (c.prec + 3) = 4 * 2 ^ (c.prec + 1) := by rw [show c.prec + 3 = (c.prec + 1) + 2 by omega, pow_add]; ring
      have := Nat.two_pow_pos (c.prec + 1)
      omega
    have h4 : 2 ^ (c.prec + 3) ≤ 2 ^ (ec.N - 1) := pow_le_pow2 (by have := h.fit; rw [h.prec]; omega)
    omega
  unfold ratToFloatFast
  simp only [hnum, if_false]
  -- the truncated operands and the exponent are the named ones
  have hnumT : (if (bitLen num.natAbs : Int) - 2 * c.prec ≥ 0 then
        (num.natAbs >>> ((bitLen num.natAbs : Int) - 2 * c.prec).toNat) +
          (if decide (num < 0) = true ∧ num.natAbs % 2 ^ ((bitLen num.natAbs : Int) - 2 * c.prec).toNat ≠ 0 then 1 else 0)
      else num.natAbs <<< (-((bitLen num.natAbs : Int) - 2 * c.prec)).toNat) = fastNum c.prec num.natAbs (decide (num < 0)) := rfl
  have hdenT : (if (bitLen den : Int) - c.prec ≥ 0 then den >>> ((bitLen den : Int) - c.prec).toNat
      else den <<< (-((bitLen den : Int) - c.prec)).toNat) = fastDen c.prec den := rfl
  have hexp : ((bitLen num.natAbs : Int) - 2 * c.prec) - ((bitLen den : Int) - c.prec) = fastExp c.prec num.natAbs den := rfl
  rw [hnumT, hdenT, hexp]
  simp only [h1, h2, if_false, fast_round_eq]
  have hfit : (if decide (num < 0) = true then
      -((rneDiv (fastNum c.prec num.natAbs (decide (num < 0))) (fastDen c.prec den) : Nat) : Int)
      else ((rneDiv (fastNum c.prec num.natAbs (decide (num < 0))) (fastDen c.prec den) : Nat) : Int)).natAbs
      ≤ 2 ^ (ec.N - 1) := by
    split <;> simpa using hm
  rw [encodeFixed_correct ec c.F h.enc _ _ hfit]

end Dashu.Model.Conv
