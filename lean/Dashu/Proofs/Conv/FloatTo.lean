import Dashu.Proofs.Conv.DoubleRound
import Dashu.Proofs.Conv.Exact
/-
  C06 — `FBig/Repr::to_f32 / to_f64` for base 2: the first rounding (`repr_round_ref` to 24/53 bits) in
  terms of magnitude rounding, the normal form of the whole conversion, and the exact region where the
  two roundings are harmless.
-/
namespace Dashu.Model.Conv
open Dashu Dashu.Model Dashu.Model.Float

def convMode : Float.Mode → Mode
  | .zero => .zero | .away => .away | .up => .up | .down => .down | .halfEven => .halfEven | .halfAway => .halfAway

/-- dashu's adjustment flag of a magnitude rounding: nothing added ⇒ NoOp, else away from zero -/
def adjOfUp (up neg : Bool) : Float.Rounding :=
  if !up then .NoOp else if neg then .SubOne else .AddOne

/-- the "round the magnitude up" decision of `roundMagMode` for a non-zero remainder -/
def upMag (mode : Mode) (neg : Bool) (q r den : Nat) : Bool :=
  match mode with
  | .zero => false
  | .away => true
  | .up => !neg
  | .down => neg
  | .halfEven => decide (den < 2 * r) || (decide (2 * r = den) && decide (q % 2 = 1))
  | .halfAway => decide (den ≤ 2 * r)

theorem roundMagMode_eq (mode : Mode) (neg : Bool) (num den : Nat) (hr : num % den ≠ 0) :
    roundMagMode mode neg num den =
      (num / den + (if upMag mode neg (num / den) (num % den) den then 1 else 0),
       upMag mode neg (num / den) (num % den) den) := by
  unfold roundMagMode upMag
  simp only [hr, if_false]
  cases mode <;> simp <;> (try (split <;> rfl))

/-- the six regenerated tables on a non-negative integer part `q` and a positive low part `r/D` -/
theorem table_pos (m : Float.Mode) (q r D : Nat) (hr : 0 < r) :
    roundLowPart m (q : Int) (signOf (r : Int)) (compare (2 * |(r : Int)|) (D : Int)) =
      adjOfUp (upMag (convMode m) false q r D) false := by
  have hs : signOf (r : Int) = .Positive := by unfold signOf; simp
  have habs : |(r : Int)| = (r : Int) := abs_of_nonneg (by omega)
  rw [hs, habs]
  rcases lt_trichotomy (2 * r) D with h | h | h
  · have hc : compare (2 * (r : Int)) (D : Int) = .lt := compare_lt_iff_lt.mpr (by omega)
    rw [hc]
    cases m <;>
      simp [roundLowPart, Gen.round_low_part_Zero, Gen.round_low_part_Away, Gen.round_low_part_Up,
        Gen.round_low_part_Down, Gen.round_low_part_HalfEven, Gen.round_low_part_HalfAway, GluePrelude.is_zero,
        GluePrelude.sign, GluePrelude.HasSign.sign, GluePrelude.eq_, adjOfUp, upMag, convMode] <;>
      first | omega | (simp only [compare_lt_iff_lt, compare_gt_iff_gt]; omega) | (split <;> simp_all <;> omega) | skip
  · have hc : compare (2 * (r : Int)) (D : Int) = .eq := compare_eq_iff_eq.mpr (by omega)
    rw [hc]
    cases m <;>
      simp [roundLowPart, Gen.round_low_part_Zero, Gen.round_low_part_Away, Gen.round_low_part_Up,
        Gen.round_low_part_Down, Gen.round_low_part_HalfEven, Gen.round_low_part_HalfAway, GluePrelude.is_zero,
        GluePrelude.sign, GluePrelude.HasSign.sign, GluePrelude.eq_, GluePrelude.ge_, GluePrelude.le_,
        GluePrelude.bit, adjOfUp, upMag, convMode, h] <;>
      first | omega | (simp only [compare_lt_iff_lt, compare_gt_iff_gt]; omega) | (split <;> simp_all <;> omega) | skip
  · have hc : compare (2 * (r : Int)) (D : Int) = .gt := compare_gt_iff_gt.mpr (by omega)
    rw [hc]
    cases m <;>
      simp [roundLowPart, Gen.round_low_part_Zero, Gen.round_low_part_Away, Gen.round_low_part_Up,
        Gen.round_low_part_Down, Gen.round_low_part_HalfEven, Gen.round_low_part_HalfAway, GluePrelude.is_zero,
        GluePrelude.sign, GluePrelude.HasSign.sign, GluePrelude.eq_, adjOfUp, upMag, convMode] <;>
      first | omega | (simp only [compare_lt_iff_lt, compare_gt_iff_gt]; omega) | (split <;> simp_all <;> omega) | skip

/-- the six regenerated tables on a non-positive integer part `-q` and a negative low part `-r/D` -/
theorem table_neg (m : Float.Mode) (q r D : Nat) (hr : 0 < r) :
    roundLowPart m (-(q : Int)) (signOf (-(r : Int))) (compare (2 * |(-(r : Int))|) (D : Int)) =
      adjOfUp (upMag (convMode m) true q r D) true := by
  have hs : signOf (-(r : Int)) = .Negative := by unfold signOf; simp; omega
  have habs : |(-(r : Int))| = (r : Int) := by rw [abs_neg]; exact abs_of_nonneg (by omega)
  rw [hs, habs]
  rcases lt_trichotomy (2 * r) D with h | h | h
  · have hc : compare (2 * (r : Int)) (D : Int) = .lt := compare_lt_iff_lt.mpr (by omega)
    rw [hc]
    cases m <;>
      simp [roundLowPart, Gen.round_low_part_Zero, Gen.round_low_part_Away, Gen.round_low_part_Up,
        Gen.round_low_part_Down, Gen.round_low_part_HalfEven, Gen.round_low_part_HalfAway, GluePrelude.is_zero,
        GluePrelude.sign, GluePrelude.HasSign.sign, GluePrelude.eq_, adjOfUp, upMag, convMode] <;>
      first | omega | (simp only [compare_lt_iff_lt, compare_gt_iff_gt]; omega) | (split <;> simp_all <;> omega) | skip
  · have hc : compare (2 * (r : Int)) (D : Int) = .eq := compare_eq_iff_eq.mpr (by omega)
    rw [hc]
    cases m <;>
      simp [roundLowPart, Gen.round_low_part_Zero, Gen.round_low_part_Away, Gen.round_low_part_Up,
        Gen.round_low_part_Down, Gen.round_low_part_HalfEven, Gen.round_low_part_HalfAway, GluePrelude.is_zero,
        GluePrelude.sign, GluePrelude.HasSign.sign, GluePrelude.eq_, GluePrelude.ge_, GluePrelude.le_,
        GluePrelude.bit, adjOfUp, upMag, convMode, h] <;>
      first | omega | (simp only [compare_lt_iff_lt, compare_gt_iff_gt]; omega) | (split <;> simp_all <;> omega) | skip
  · have hc : compare (2 * (r : Int)) (D : Int) = .gt := compare_gt_iff_gt.mpr (by omega)
    rw [hc]
    cases m <;>
      simp [roundLowPart, Gen.round_low_part_Zero, Gen.round_low_part_Away, Gen.round_low_part_Up,
        Gen.round_low_part_Down, Gen.round_low_part_HalfEven, Gen.round_low_part_HalfAway, GluePrelude.is_zero,
        GluePrelude.sign, GluePrelude.HasSign.sign, GluePrelude.eq_, adjOfUp, upMag, convMode] <;>
      first | omega | (simp only [compare_lt_iff_lt, compare_gt_iff_gt]; omega) | (split <;> simp_all <;> omega) | skip


/-- base-2 digit count is the bit length -/
theorem digits_two (a : Nat) : digits 2 a = bitLen a := by
  by_cases ha : a = 0
  · subst ha; rw [digits_zero]; rfl
  · exact digits_unique 2 (by decide) a (bitLen a) (bitLen_le ha) bitLen_lt (bitLen_pos ha)

theorem tdiv_tmod_nat (a D : Nat) :
    Int.tdiv (a : Int) (D : Int) = ((a / D : Nat) : Int) ∧ Int.tmod (a : Int) (D : Int) = ((a % D : Nat) : Int) := by
  constructor
  · exact (Int.ofNat_tdiv a D).symm
  · rw [Int.tmod_eq_emod_of_nonneg (by omega)]; exact (Int.natCast_mod a D).symm

theorem rInt_adjOfUp (up neg : Bool) :
    rInt (adjOfUp up neg) = (if neg then -1 else 1) * (if up then 1 else 0) := by
  cases up <;> cases neg <;> rfl

/-- **the first rounding of `to_f32/to_f64`** (`repr_round_ref` in base 2 on a normalised, non-zero
    significand): nothing happens when the significand fits; otherwise the magnitude is rounded to `p`
    bits in the mode of the type and the flag says whether the magnitude grew. -/
theorem reprRound_two (m : Float.Mode) (c : Coarse) (hc : CoarseSound c) (p : Nat) (hp : 1 ≤ p) (s e : Int)
    (hodd : s % 2 = 1) :
    reprRound 2 m c p ⟨s, e⟩ =
      if bitLen s.natAbs ≤ p then (⟨s, e⟩, none)
      else
        let k := bitLen s.natAbs - p
        let rm := roundMagMode (convMode m) (decide (s < 0)) s.natAbs (2 ^ k)
        (FRepr.new 2 ((if s < 0 then -1 else 1) * (rm.1 : Int)) (e + (k : Int)), some (adjOfUp rm.2 (decide (s < 0)))) := by
  unfold reprRound
  have hp0 : p ≠ 0 := by omega
  simp only [hp0, if_false]
  have hdig : FRepr.digits 2 ⟨s, e⟩ = bitLen s.natAbs := by
    unfold FRepr.digits digitsI; exact digits_two _
  rw [hdig]
  by_cases hfit : bitLen s.natAbs ≤ p
  · have : ¬ (bitLen s.natAbs > p) := by omega
    simp only [this, hfit, if_false, if_true]
  · have hgt : bitLen s.natAbs > p := by omega
    simp only [hgt, hfit, if_true, if_false]
    generalize hk : bitLen s.natAbs - p = k
    have hk1 : 1 ≤ k := by omega
    rw [splitDigits_eq]
    unfold splitSpec
    simp only
    generalize ha : s.natAbs = a
    -- the discarded part is not zero: the significand is odd
    have haodd : a % 2 = 1 := by rw [← ha]; omega
    have hr0 : a % 2 ^ k ≠ 0 := by
      intro h0
      have h2 : a % 2 ^ k % 2 = a % 2 := by
        have : 2 ^ k = 2 * 2 ^ (k - 1) := by
          conv_lhs => rw [show k = (k - 1) + 1 by omega, pow_succ]
          ring
        rw [this]; exact Nat.mod_mul_right_mod _ _ _
      omega
    have hrlt : a % 2 ^ k < 2 ^ k := Nat.mod_lt _ (Nat.two_pow_pos _)
    rw [roundMagMode_eq _ _ _ _ hr0]
    simp only
    obtain ⟨ht1, ht2⟩ := tdiv_tmod_nat a (2 ^ k)
    by_cases hneg : s < 0
    · have hs : s = -(a : Int) := by omega
      simp only [hneg, if_true, decide_true]
      rw [hs, Int.neg_tdiv, Int.neg_tmod, ht1, ht2]
      have hlo : (-((a % 2 ^ k : Nat) : Int)) ≠ 0 := by omega
      rw [roundFract_eq 2 m c hc _ _ k hlo, table_neg m (a / 2 ^ k) (a % 2 ^ k) (2 ^ k) (by omega)]
      refine Prod.ext ?_ rfl
      simp only
      congr 1
      rw [rInt_adjOfUp]
      simp only [if_true, Bool.false_eq_true, if_false]
      split <;> push_cast <;> ring
    · have hs : s = (a : Int) := by omega
      simp only [hneg, if_false, decide_false]
      rw [hs, ht1, ht2]
      have hlo : ((a % 2 ^ k : Nat) : Int) ≠ 0 := by omega
      rw [roundFract_eq 2 m c hc _ _ k hlo, table_pos m (a / 2 ^ k) (a % 2 ^ k) (2 ^ k) (by omega)]
      refine Prod.ext ?_ rfl
      simp only
      congr 1
      rw [rInt_adjOfUp]
      simp only [if_true, Bool.false_eq_true, if_false]
      split <;> push_cast <;> ring

end Dashu.Model.Conv

namespace Dashu.Model.Conv
open Dashu Dashu.Model Dashu.Model.Float

/-! ### `Repr::new` moves powers of the base into the exponent -/

theorem stripAux_decomp (B : Nat) : ∀ fuel (s e : Int),
    ∃ z : Nat, s = (stripAux B fuel s e).1 * (B : Int) ^ z ∧ (stripAux B fuel s e).2 = e + z := by
  intro fuel
  induction fuel with
  | zero => intro s e; exact ⟨0, by simp [stripAux], by simp [stripAux]⟩
  | succ n ih =>
    intro s e
    unfold stripAux
    by_cases h : s % (B : Int) = 0
    · simp only [h, if_true]
      obtain ⟨z, h1, h2⟩ := ih (s / (B : Int)) (e + 1)
      refine ⟨z + 1, ?_, ?_⟩
      · have hs : s = (s / (B : Int)) * B := by
          have := Int.mul_ediv_add_emod s B; rw [h] at this; linarith
        conv_lhs => rw [hs, h1]
        rw [pow_succ]; ring
      · rw [h2]; push_cast; ring
    · simp only [h, if_false]
      exact ⟨0, by simp, by simp⟩

theorem new_decomp (B : Nat) (s e : Int) (hs : s ≠ 0) :
    ∃ z : Nat, s = (FRepr.new B s e).signif * (B : Int) ^ z ∧ (FRepr.new B s e).exp = e + z := by
  unfold FRepr.new
  simp only [hs, if_false]
  exact stripAux_decomp B _ s e

/-! ### `into_f32_internal / into_f64_internal` -/

structure IntoCompat (k : IntoConsts) : Prop where
  enc : Compatible k.enc k.F
  prec : k.prec = k.F.prec
  inf : k.infExp = k.F.emax + 1
  zero : k.zeroExp = k.F.qmin - k.F.prec
  fit : k.F.prec ≤ k.enc.N - 1

theorem into32_compat : IntoCompat into32 := ⟨f32Fixed_compatible, rfl, by decide, by decide, by decide⟩
theorem into64_compat : IntoCompat into64 := ⟨f64Fixed_compatible, rfl, by decide, by decide, by decide⟩

/-- the flag `into_fNN_internal` attaches, given the (magnitude) error flag of rounding `v` to the format -/
def intoFlag (k : IntoConsts) (neg : Bool) (vexp : Int) (fl : Flag) : Option Float.Rounding :=
  if vexp ≥ k.infExp then some (if neg then .SubOne else .AddOne)
  else if vexp < k.zeroExp then some .NoOp
  else match fl with
    | .exact => none
    | _ => some .NoOp

/-- `into_fNN_internal` on a value `±n·2^x` with at most `prec` significant bits: the bits are the IEEE
    rounding of that value in every branch (the two early exits agree with the rounding) -/
theorem intoFloatInternal_eq (k : IntoConsts) (hk : IntoCompat k) (sg : Int) (n : Nat) (x : Int)
    (hn : n ≠ 0) (hsg : sg = 1 ∨ sg = -1) (hbits : bitLen n ≤ k.F.prec) :
    intoFloatInternal k ⟨sg * n, x⟩ =
      .ok ((if sg < 0 then k.F.signBit else 0) + (ieeeRoundMag k.F n x).1,
           intoFlag k (decide (sg < 0)) x (ieeeRoundMag k.F n x).2) := by
  have hF := hk.enc.ok
  have hB := k.F.B_ge hF
  have hL1 := bitLen_pos hn
  have hneg : (sg * (n : Int) < 0) ↔ sg < 0 := by
    rcases hsg with rfl | rfl
    · simp
    · simp; omega
  unfold intoFloatInternal intoFlag
  simp only [hneg]
  by_cases h1 : x ≥ k.infExp
  · simp only [h1, if_true]
    have hov := spec_over k.F hF n x hn (by have := hk.inf; omega)
    rw [hov]
    by_cases hs : sg < 0 <;> simp [hs]
  · simp only [h1, if_false]
    by_cases h2 : x < k.zeroExp
    · simp only [h2, if_true]
      have hun := spec_under k.F hF n x hn (by have := hk.zero; omega)
      rw [hun]
      by_cases hs : sg < 0 <;> simp [hs]
    · simp only [h2, if_false]
      have hfit : (sg * (n : Int)).natAbs ≤ 2 ^ (k.enc.N - 1) := by
        have hlt : n < 2 ^ bitLen n := bitLen_lt
        have h2p : 2 ^ bitLen n ≤ 2 ^ (k.enc.N - 1) := pow_le_pow2 (le_trans hbits hk.fit)
        have : (sg * (n : Int)).natAbs = n := by
          rcases hsg with rfl | rfl <;> simp
        rw [this]; omega
      rw [encodeFixed_correct k.enc k.F hk.enc _ _ hfit]
      have hsigned : sg * (n : Int) = if decide (sg < 0) then -(n : Int) else (n : Int) := by
        rcases hsg with rfl | rfl <;> simp
      rw [hsigned, ieeeRound_signed k.F (decide (sg < 0)) n x hn]
      generalize ieeeRoundMag k.F n x = res
      obtain ⟨b, fl⟩ := res
      by_cases hs : sg < 0
      · cases fl <;> simp [hs, Flag.flipIf]
      · cases fl <;> simp [hs, Flag.flipIf]

end Dashu.Model.Conv

namespace Dashu.Model.Conv
open Dashu Dashu.Model Dashu.Model.Float

theorem sg_cases (s : Int) :
    (if s < 0 then (-1 : Int) else 1) = 1 ∨ (if s < 0 then (-1 : Int) else 1) = -1 := by
  by_cases h : s < 0
  · right; rw [if_pos h]
  · left; rw [if_neg h]

theorem sg_neg_iff (s : Int) : ((if s < 0 then (-1 : Int) else 1) < 0) ↔ s < 0 := by
  by_cases h : s < 0
  · rw [if_pos h]; simp [h]
  · rw [if_neg h]; simp [h]

theorem andThenFlag_none (f : Option Float.Rounding) : andThenFlag none f = f := by
  cases f <;> rfl

/-- the value that reaches `encode`: the first rounding of `±a·2^e` to `p` bits in mode `m` -/
def firstRound (p : Nat) (m : Float.Mode) (neg : Bool) (a : Nat) (e : Int) : Nat × Int × Option Float.Rounding :=
  if bitLen a ≤ p then (a, e, none)
  else
    let k := bitLen a - p
    let rm := roundMagMode (convMode m) neg a (2 ^ k)
    (rm.1, e + (k : Int), some (adjOfUp rm.2 neg))

theorem roundMagMode_bounds (mode : Mode) (neg : Bool) (num den : Nat) :
    num / den ≤ (roundMagMode mode neg num den).1 ∧ (roundMagMode mode neg num den).1 ≤ num / den + 1 := by
  by_cases hr : num % den = 0
  · unfold roundMagMode; simp [hr]
  · rw [roundMagMode_eq mode neg num den hr]
    simp only
    split <;> omega

/-- **normal form of `FBig::<R,2>::to_f32`, `FBig::to_f64`, `Repr::to_f32/to_f64`** on a normalised non-zero
    float `s·2^e` (`s` odd): the bits are the IEEE rounding of the FIRST-ROUNDED value `n1·2^e1`; the flag is
    the first rounding's flag unless `into_fNN_internal` reports its own. -/
theorem fbigToFloat_normal (k : IntoConsts) (hk : IntoCompat k) (m : Float.Mode) (c : Coarse) (hc : CoarseSound c)
    (s e : Int) (hodd : s % 2 = 1) :
    let neg := decide (s < 0)
    let fr := firstRound k.F.prec m neg s.natAbs e
    let v := if bitLen s.natAbs ≤ k.F.prec then (⟨s, e⟩ : FRepr)
             else FRepr.new 2 ((if s < 0 then -1 else 1) * (fr.1 : Int)) fr.2.1
    fbigToFloat k m c ⟨s, e⟩ =
      .ok ((if s < 0 then k.F.signBit else 0) + (ieeeRoundMag k.F fr.1 fr.2.1).1,
           andThenFlag fr.2.2 (intoFlag k neg v.exp (ieeeRoundMag k.F fr.1 fr.2.1).2)) := by
  intro neg fr v
  have hF := hk.enc.ok
  have hp1 : 1 ≤ k.F.prec := by unfold Ieee.prec; omega
  have hs0 : s ≠ 0 := by intro h; subst h; simp at hodd
  have ha0 : s.natAbs ≠ 0 := by omega
  unfold fbigToFloat
  rw [hk.prec, reprRound_two m c hc k.F.prec hp1 s e hodd]
  by_cases hfit : bitLen s.natAbs ≤ k.F.prec
  · -- nothing to round first
    have hfr : fr = (s.natAbs, e, none) := by simp only [fr, firstRound, hfit, if_true]
    have hv : v = ⟨s, e⟩ := by simp only [v, hfit, if_true]
    simp only [hfit, if_true]
    have hsg : s = (if s < 0 then (-1 : Int) else 1) * (s.natAbs : Int) := by
      split <;> omega
    have hint := intoFloatInternal_eq k hk (if s < 0 then -1 else 1) s.natAbs e ha0
      (sg_cases s) hfit
    rw [← hsg] at hint
    rw [hint, hfr, hv]
    simp only [andThenFlag_none]
    have h1 := sg_neg_iff s
    simp only [h1, neg]
  · have hfr : fr = ((roundMagMode (convMode m) neg s.natAbs (2 ^ (bitLen s.natAbs - k.F.prec))).1,
        e + ((bitLen s.natAbs - k.F.prec : Nat) : Int),
        some (adjOfUp (roundMagMode (convMode m) neg s.natAbs (2 ^ (bitLen s.natAbs - k.F.prec))).2 neg)) := by
      simp only [fr, firstRound, hfit, if_false]
    have hv : v = FRepr.new 2 ((if s < 0 then -1 else 1) * (fr.1 : Int)) fr.2.1 := by
      simp only [v, hfit, if_false]
    simp only [hfit, if_false]
    rw [hfr] at hv ⊢
    simp only at hv ⊢
    generalize hk1 : bitLen s.natAbs - k.F.prec = k1 at *
    generalize hrm : roundMagMode (convMode m) neg s.natAbs (2 ^ k1) = rm at *
    -- bounds of the rounded significand
    have hb := roundMagMode_bounds (convMode m) neg s.natAbs (2 ^ k1)
    rw [hrm] at hb
    have hqlo : 2 ^ (k.F.prec - 1) ≤ s.natAbs / 2 ^ k1 := by
      rw [Nat.le_div_iff_mul_le (Nat.two_pow_pos _), ← pow_add]
      have : k.F.prec - 1 + k1 = bitLen s.natAbs - 1 := by omega
      rw [this]; exact bitLen_le ha0
    have hqhi : s.natAbs / 2 ^ k1 < 2 ^ k.F.prec := by
      rw [Nat.div_lt_iff_lt_mul (Nat.two_pow_pos _), ← pow_add]
      have : k.F.prec + k1 = bitLen s.natAbs := by omega
      rw [this]; exact bitLen_lt
    have hn1pos : rm.1 ≠ 0 := by
      have := Nat.two_pow_pos (k.F.prec - 1); omega
    have hn1le : rm.1 ≤ 2 ^ k.F.prec := by omega
    -- the normalised repr
    have hsn : (if s < 0 then (-1 : Int) else 1) * (rm.1 : Int) ≠ 0 := by split <;> omega
    obtain ⟨z, hz1, hz2⟩ := new_decomp 2 ((if s < 0 then -1 else 1) * (rm.1 : Int)) (e + (k1 : Int)) hsn
    have hnorm := FRepr.new_normalized 2 (by decide) ((if s < 0 then -1 else 1) * (rm.1 : Int)) (e + (k1 : Int))
    rw [← hv] at hz1 hz2 hnorm
    push_cast at hz1
    -- v.signif = ± n'
    have hvs0 : v.signif ≠ 0 := by
      intro h0; rw [h0] at hz1; simp at hz1
      split at hz1 <;> omega
    have hvodd : v.signif % 2 ≠ 0 := by
      rcases hnorm with h | h
      · exact absurd h hvs0
      · exact h
    have hpz : (0 : Int) < (2 : Int) ^ z := by positivity
    have hvsign : v.signif < 0 ↔ s < 0 := by
      constructor
      · intro h
        by_contra hc'
        simp only [hc', if_false, Int.one_mul] at hz1
        have : v.signif * 2 ^ z < 0 := mul_neg_of_neg_of_pos h hpz
        omega
      · intro h
        by_contra hc'
        simp only [h, if_true] at hz1
        have : 0 ≤ v.signif * 2 ^ z := mul_nonneg (by omega) (le_of_lt hpz)
        omega
    have hmag : rm.1 = v.signif.natAbs * 2 ^ z := by
      have h1 : ((if s < 0 then (-1 : Int) else 1) * (rm.1 : Int)).natAbs = rm.1 := by split <;> simp
      have h2 : (v.signif * (2 : Int) ^ z).natAbs = v.signif.natAbs * 2 ^ z := by
        rw [Int.natAbs_mul, Int.natAbs_pow]; rfl
      rw [← h1, hz1]
      exact h2
    have hn'0 : v.signif.natAbs ≠ 0 := by omega
    have hbits : bitLen v.signif.natAbs ≤ k.F.prec := by
      apply bitLen_le_of_lt
      have hle : v.signif.natAbs ≤ rm.1 := by
        rw [hmag]; exact Nat.le_mul_of_pos_right _ (Nat.two_pow_pos z)
      by_contra hc'
      have heq : v.signif.natAbs = 2 ^ k.F.prec := by omega
      have : (2 ^ k.F.prec) % 2 = 0 := by
        rw [show k.F.prec = (k.F.prec - 1) + 1 by omega, pow_succ]; omega
      omega
    have hvs : v.signif = (if s < 0 then (-1 : Int) else 1) * (v.signif.natAbs : Int) := by
      split <;> omega
    have hvrepr : v = ⟨(if s < 0 then (-1 : Int) else 1) * (v.signif.natAbs : Int), v.exp⟩ := by
      conv_rhs => rw [← hvs]
    have hint := intoFloatInternal_eq k hk (if s < 0 then -1 else 1) v.signif.natAbs v.exp hn'0
      (sg_cases s) hbits
    rw [← hvrepr] at hint
    rw [← hv, hint]
    have hscale : ieeeRoundMag k.F v.signif.natAbs v.exp = ieeeRoundMag k.F rm.1 (e + (k1 : Int)) := by
      rw [hmag, hz2]; exact (ieeeRoundMag_scale k.F v.signif.natAbs z (e + (k1 : Int)) hn'0).symm
    rw [hscale]
    have h1 := sg_neg_iff s
    simp only [h1, neg]

end Dashu.Model.Conv

namespace Dashu.Model.Conv
open Dashu Dashu.Model Dashu.Model.Float

/-- **the failing region of the value** of `FBig::to_f64`, `Repr::to_f32/to_f64`, `FBig<HalfEven>::to_f32` on
    `±a·2^e`: more than `prec` bits, a SUBNORMAL result (`bitLen a + e < qmin + prec`), and the first rounding
    lands on a midpoint of the subnormal grid that is then resolved to the wrong side. -/
def ToFloatBad (F : Ieee) (a : Nat) (e : Int) : Prop :=
  F.prec < bitLen a ∧ (bitLen a : Int) + e < F.qmin + F.prec ∧
    DoubleRoundBad a (bitLen a - F.prec) (F.qmin - e - ((bitLen a - F.prec : Nat) : Int)).toNat

instance (F : Ieee) (a : Nat) (e : Int) : Decidable (ToFloatBad F a e) := by
  unfold ToFloatBad; infer_instance

theorem rneDiv_pow_self (p : Nat) (hp : 1 ≤ p) : rneDiv (2 ^ p) (2 ^ 1) = 2 ^ (p - 1) := by
  unfold rneDiv
  have e : 2 ^ p = 2 ^ (p - 1) * 2 ^ 1 := by rw [← pow_add]; congr 1 <;> omega
  have hd : 2 ^ p / 2 ^ 1 = 2 ^ (p - 1) := Nat.div_eq_of_eq_mul_left (by decide) e
  have hm : 2 ^ p % 2 ^ 1 = 0 := by rw [e, Nat.mul_mod_left]
  simp only [hd, hm]
  norm_num

/-- **value theorem (round-half-even path)**: rounding to `prec` bits first and letting `encode` round
    again gives the correctly rounded bits exactly outside `ToFloatBad` -/
theorem halfEven_value (F : Ieee) (hF : F.Ok) (neg : Bool) (a : Nat) (e : Int) (ha : a ≠ 0) :
    (ieeeRoundMag F (firstRound F.prec .halfEven neg a e).1 (firstRound F.prec .halfEven neg a e).2.1).1 =
      (ieeeRoundMag F a e).1 ↔ ¬ ToFloatBad F a e := by
  have hB := F.B_ge hF
  have hqm := F.qmin_eq
  have hem := F.emax_eq
  have hprec : F.prec = F.MB + 1 := rfl
  have hMB := hF.hMB
  unfold ToFloatBad firstRound
  by_cases hfit : bitLen a ≤ F.prec
  · simp only [hfit, if_true, true_iff]
    intro h; omega
  simp only [hfit, if_false]
  have hgt : F.prec < bitLen a := by omega
  generalize hk1 : bitLen a - F.prec = k1
  have hk1p : 1 ≤ k1 := by omega
  have hL : bitLen a = F.prec + k1 := by omega
  rw [convMode, roundMagMode_halfEven neg a (2 ^ k1) (Nat.two_pow_pos _)]
  generalize hn1 : rneDiv a (2 ^ k1) = n1
  -- bounds of n1
  have hb := rneDiv_bounds a (2 ^ k1)
  rw [hn1] at hb
  have hqlo : 2 ^ (F.prec - 1) ≤ a / 2 ^ k1 := by
    rw [Nat.le_div_iff_mul_le (Nat.two_pow_pos _), ← pow_add]
    have : F.prec - 1 + k1 = bitLen a - 1 := by omega
    rw [this]; exact bitLen_le ha
  have hqhi : a / 2 ^ k1 < 2 ^ F.prec := by
    rw [Nat.div_lt_iff_lt_mul (Nat.two_pow_pos _), ← pow_add, ← hL]; exact bitLen_lt
  have hn1lo : 2 ^ (F.prec - 1) ≤ n1 := by omega
  have hn1hi : n1 ≤ 2 ^ F.prec := by omega
  have hn10 : n1 ≠ 0 := by have := Nat.two_pow_pos (F.prec - 1); omega
  have hpp : 2 ^ F.prec = 2 * 2 ^ (F.prec - 1) := by
    conv_lhs => rw [show F.prec = (F.prec - 1) + 1 by omega, pow_succ]
    ring
  have hbl1 : n1 < 2 ^ F.prec → bitLen n1 = F.prec := by
    intro h
    have := bitLen_eq_of (n := F.prec - 1) hn1lo (by rw [show F.prec - 1 + 1 = F.prec by omega]; exact h)
    omega
  have hbl2 : n1 = 2 ^ F.prec → bitLen n1 = F.prec + 1 := by
    intro h; rw [h]; exact bitLen_two_pow _
  by_cases hover : F.emax + 1 < (bitLen a : Int) + e
  · -- both overflow
    have h1 := spec_over F hF a e ha hover
    have h2 : ieeeRoundMag F n1 (e + (k1 : Int)) = (F.infBits, .pos) := by
      apply spec_over F hF n1 _ hn10
      rcases Nat.lt_or_ge n1 (2 ^ F.prec) with h | h
      · rw [hbl1 h]; omega
      · rw [hbl2 (by omega)]; omega
    rw [h1, h2]
    simp only [true_iff]
    intro h; omega
  by_cases hsub : (bitLen a : Int) + e < F.qmin + F.prec
  · -- subnormal result: the double rounding lemma decides
    obtain ⟨k, hk⟩ : ∃ k : Nat, e + k = F.qmin := ⟨(F.qmin - e).toNat, by omega⟩
    obtain ⟨k2, hk2⟩ : ∃ k2 : Nat, k = k1 + k2 ∧ 1 ≤ k2 := ⟨k - k1, by omega, by omega⟩
    obtain ⟨hkk, hk21⟩ := hk2
    have h1 := spec_sub_round F hF a k e hk (by omega) (by omega)
    have hbn1 : bitLen n1 ≤ F.prec + k2 := by
      rcases Nat.lt_or_ge n1 (2 ^ F.prec) with h | h
      · rw [hbl1 h]; omega
      · rw [hbl2 (by omega)]; omega
    have h2 := spec_sub_round F hF n1 k2 (e + (k1 : Int)) (by omega) hk21 hbn1
    rw [h1, h2]
    simp only
    have hk2t : (F.qmin - e - (k1 : Int)).toNat = k2 := by omega
    rw [hk2t, hkk, ← hn1]
    have := double_rne a k1 k2 hk21
    constructor
    · intro h; intro hb; exact (this.mp h) hb.2.2
    · intro h; apply this.mpr; intro hb; exact h ⟨hgt, hsub, hb⟩
  · -- normal result: the first rounding is the rounding
    have hnb : ¬ (F.prec < F.prec + k1 ∧ ((F.prec + k1 : Nat) : Int) + e < F.qmin + F.prec ∧
        DoubleRoundBad a k1 (F.qmin - e - (k1 : Int)).toNat) := by
      intro h; rw [hL] at hsub; omega
    rw [hL]
    simp only [hnb, not_false_eq_true, iff_true]
    obtain ⟨w, hw⟩ : ∃ w : Nat, (bitLen a : Int) + e = F.qmin + F.prec + w :=
      ⟨((bitLen a : Int) + e - F.qmin - F.prec).toNat, by omega⟩
    have hwB : w + 3 ≤ 2 * F.B := by omega
    have h1 := spec_norm_round F hF a k1 w e hL hk1p hw hwB
    rw [h1, hn1]
    simp only
    rcases Nat.lt_or_ge n1 (2 ^ F.prec) with hlt | hge
    · have h2 := spec_norm_exact F hF n1 0 w (e + (k1 : Int)) (by rw [hbl1 hlt, Nat.add_zero]) (by rw [hbl1 hlt]; omega) hwB
      rw [h2]; simp
    · have hn1e : n1 = 2 ^ F.prec := by omega
      by_cases hwtop : w + 4 ≤ 2 * F.B
      · have h2 := spec_norm_round F hF n1 1 (w + 1) (e + (k1 : Int)) (hbl2 hn1e) (by omega)
          (by rw [hbl2 hn1e]; push_cast; omega) (by omega)
        rw [h2, hn1e, rneDiv_pow_self F.prec (by omega)]
        simp only
        rw [hpp, show F.prec - 1 = F.MB by omega]; ring
      · have h2 : ieeeRoundMag F n1 (e + (k1 : Int)) = (F.infBits, .pos) := by
          apply spec_over F hF n1 _ hn10
          rw [hbl2 hn1e]; push_cast; omega
        rw [h2, hn1e, F.infBits_eq hF]
        simp only
        have hw2 : w = 2 * F.B - 3 := by omega
        rw [hw2, hpp, show F.prec - 1 = F.MB by omega]
        have e1 : 2 * F.B - 1 = (2 * F.B - 3) + 2 := by omega
        rw [e1]; ring

end Dashu.Model.Conv

namespace Dashu.Model.Conv
open Dashu Dashu.Model Dashu.Model.Float

/-- error sign of a value rounded twice: the second rounding decides unless it was exact -/
def composeFlag (f1 f2 : Flag) : Flag :=
  match f2 with
  | .exact => f1
  | f => f

/-- the error sign of `n2·D1·D2` against `a`, when `n1` is a nearest integer to `a/D1` -/
theorem flag_compose (a n1 n2 D1 D2 : Nat) (hD1 : 0 < D1)
    (h1 : 2 * (n1 * D1) ≤ 2 * a + D1) (h2 : 2 * a ≤ 2 * (n1 * D1) + D1) :
    flagOf n2 (D1 * D2) a = composeFlag (flagOf n1 D1 a) (flagOf n2 D2 n1) := by
  unfold flagOf composeFlag
  have hR : n2 * (D1 * D2) = (n2 * D2) * D1 := by ring
  rw [hR]
  generalize n2 * D2 = Q
  by_cases he : Q = n1
  · subst he
    simp only [if_true]
  · simp only [he, if_false]
    rcases Nat.lt_or_ge n1 Q with hlt | hge
    · -- the second rounding went up by at least one unit
      have h5 : (n1 + 1) * D1 ≤ Q * D1 := Nat.mul_le_mul_right _ hlt
      have e1 : (n1 + 1) * D1 = n1 * D1 + D1 := by ring
      rw [e1] at h5
      simp only [hlt, if_true]
      generalize n1 * D1 = P at *
      generalize Q * D1 = R at *
      have h3 : ¬ (R = a) := by omega
      have h4 : a < R := by omega
      simp [h3, h4]
    · have hlt : Q < n1 := by omega
      have h5 : (Q + 1) * D1 ≤ n1 * D1 := Nat.mul_le_mul_right _ hlt
      have e1 : (Q + 1) * D1 = Q * D1 + D1 := by ring
      rw [e1] at h5
      have hn : ¬ (n1 < Q) := by omega
      simp only [hn, if_false]
      generalize n1 * D1 = P at *
      generalize Q * D1 = R at *
      have h3 : ¬ (R = a) := by omega
      have h4 : ¬ (a < R) := by omega
      simp [h3, h4]

/-- **flag theorem (round-half-even path)**: outside `ToFloatBad`, the true error sign of the result is the
    composition of the first rounding's sign and the sign of the rounding inside `encode` -/
theorem halfEven_flag (F : Ieee) (hF : F.Ok) (neg : Bool) (a : Nat) (e : Int) (ha : a ≠ 0)
    (hgt : F.prec < bitLen a) (hgood : ¬ ToFloatBad F a e) :
    let k1 := bitLen a - F.prec
    let n1 := rneDiv a (2 ^ k1)
    (ieeeRoundMag F a e).2 = composeFlag (flagOf n1 (2 ^ k1) a) (ieeeRoundMag F n1 (e + (k1 : Int))).2 := by
  intro k1 n1
  have hB := F.B_ge hF
  have hqm := F.qmin_eq
  have hem := F.emax_eq
  have hprec : F.prec = F.MB + 1 := rfl
  have hMB := hF.hMB
  have hk1p : 1 ≤ k1 := by simp only [k1]; omega
  have hL : bitLen a = F.prec + k1 := by simp only [k1]; omega
  have hb := rneDiv_bounds a (2 ^ k1)
  have hhalf := rneDiv_half a (2 ^ k1) (Nat.two_pow_pos _)
  have hqlo : 2 ^ (F.prec - 1) ≤ a / 2 ^ k1 := by
    rw [Nat.le_div_iff_mul_le (Nat.two_pow_pos _), ← pow_add]
    have : F.prec - 1 + k1 = bitLen a - 1 := by omega
    rw [this]; exact bitLen_le ha
  have hqhi : a / 2 ^ k1 < 2 ^ F.prec := by
    rw [Nat.div_lt_iff_lt_mul (Nat.two_pow_pos _), ← pow_add, ← hL]; exact bitLen_lt
  have hn1lo : 2 ^ (F.prec - 1) ≤ n1 := by simp only [n1]; omega
  have hn1hi : n1 ≤ 2 ^ F.prec := by simp only [n1]; omega
  have hn10 : n1 ≠ 0 := by have := Nat.two_pow_pos (F.prec - 1); omega
  have hbl1 : n1 < 2 ^ F.prec → bitLen n1 = F.prec := by
    intro h
    have := bitLen_eq_of (n := F.prec - 1) hn1lo (by rw [show F.prec - 1 + 1 = F.prec by omega]; exact h)
    omega
  have hbl2 : n1 = 2 ^ F.prec → bitLen n1 = F.prec + 1 := by
    intro h; rw [h]; exact bitLen_two_pow _
  by_cases hover : F.emax + 1 < (bitLen a : Int) + e
  · have h1 := spec_over F hF a e ha hover
    have h2 : ieeeRoundMag F n1 (e + (k1 : Int)) = (F.infBits, .pos) := by
      apply spec_over F hF n1 _ hn10
      rcases Nat.lt_or_ge n1 (2 ^ F.prec) with h | h
      · rw [hbl1 h]; omega
      · rw [hbl2 (by omega)]; omega
    rw [h1, h2]; rfl
  by_cases hsub : (bitLen a : Int) + e < F.qmin + F.prec
  · obtain ⟨k, hk⟩ : ∃ k : Nat, e + k = F.qmin := ⟨(F.qmin - e).toNat, by omega⟩
    obtain ⟨k2, hkk, hk21⟩ : ∃ k2 : Nat, k = k1 + k2 ∧ 1 ≤ k2 := ⟨k - k1, by omega, by omega⟩
    have h1 := spec_sub_round F hF a k e hk (by omega) (by omega)
    have hbn1 : bitLen n1 ≤ F.prec + k2 := by
      rcases Nat.lt_or_ge n1 (2 ^ F.prec) with h | h
      · rw [hbl1 h]; omega
      · rw [hbl2 (by omega)]; omega
    have h2 := spec_sub_round F hF n1 k2 (e + (k1 : Int)) (by omega) hk21 hbn1
    rw [h1, h2]
    simp only
    -- outside the bad set the two-step rounding is the one-step rounding
    have hk2t : (F.qmin - e - ((bitLen a - F.prec : Nat) : Int)).toNat = k2 := by simp only [k1] at hkk hk; omega
    have hdr : rneDiv n1 (2 ^ k2) = rneDiv a (2 ^ (k1 + k2)) := by
      apply (double_rne a k1 k2 hk21).mpr
      intro hbad
      apply hgood
      unfold ToFloatBad
      refine ⟨hgt, hsub, ?_⟩
      rw [hk2t]; exact hbad
    rw [hkk, ← hdr, pow_add]
    exact flag_compose a n1 (rneDiv n1 (2 ^ k2)) (2 ^ k1) (2 ^ k2) (Nat.two_pow_pos _) hhalf.1 hhalf.2
  · obtain ⟨w, hw⟩ : ∃ w : Nat, (bitLen a : Int) + e = F.qmin + F.prec + w :=
      ⟨((bitLen a : Int) + e - F.qmin - F.prec).toNat, by omega⟩
    have hwB : w + 3 ≤ 2 * F.B := by omega
    have h1 := spec_norm_round F hF a k1 w e hL hk1p hw hwB
    rw [h1]
    simp only
    rcases Nat.lt_or_ge n1 (2 ^ F.prec) with hlt | hge
    · have h2 := spec_norm_exact F hF n1 0 w (e + (k1 : Int)) (by rw [hbl1 hlt, Nat.add_zero])
        (by rw [hbl1 hlt]; omega) hwB
      rw [h2]; rfl
    · have hn1e : n1 = 2 ^ F.prec := by omega
      by_cases hwtop : w + 4 ≤ 2 * F.B
      · have h2 := spec_norm_round F hF n1 1 (w + 1) (e + (k1 : Int)) (hbl2 hn1e) (by omega)
          (by rw [hbl2 hn1e]; push_cast; omega) (by omega)
        rw [h2]
        simp only
        have hfl : flagOf (rneDiv n1 (2 ^ 1)) (2 ^ 1) n1 = .exact := by
          rw [hn1e, rneDiv_pow_self F.prec (by omega)]
          unfold flagOf
          have : 2 ^ (F.prec - 1) * 2 ^ 1 = 2 ^ F.prec := by rw [← pow_add]; congr 1 <;> omega
          rw [if_pos this]
        rw [hfl]; rfl
      · have h2 : ieeeRoundMag F n1 (e + (k1 : Int)) = (F.infBits, .pos) := by
          apply spec_over F hF n1 _ hn10
          rw [hbl2 hn1e]; push_cast; omega
        rw [h2]
        simp only [composeFlag]
        -- the first rounding carried: it went up
        unfold flagOf
        have hlt : a < 2 ^ F.prec * 2 ^ k1 := by rw [← pow_add, ← hL]; exact bitLen_lt
        have e2 : n1 * 2 ^ k1 = 2 ^ F.prec * 2 ^ k1 := by rw [hn1e]
        have hne : ¬ (n1 * 2 ^ k1 = a) := by omega
        have hl : a < n1 * 2 ^ k1 := by omega
        simp only [n1] at hne hl
        simp [hne, hl]

end Dashu.Model.Conv

namespace Dashu.Model.Conv
open Dashu Dashu.Model Dashu.Model.Float

/-- dashu's `Rounding` flag that tells the truth about a magnitude error sign -/
def adjOfMag (neg : Bool) : Flag → Option Float.Rounding
  | .exact => none
  | .pos => some (if neg then .SubOne else .AddOne)
  | .neg => some .NoOp

/-- facts about the normalised repr of `±n1·2^e1` with `n1 ≤ 2^p` -/
theorem new_facts (F : Ieee) (hp : 1 ≤ F.prec) (s : Int) (n1 : Nat) (e1 : Int) (hn1 : n1 ≠ 0) (hle : n1 ≤ 2 ^ F.prec) :
    let v := FRepr.new 2 ((if s < 0 then -1 else 1) * (n1 : Int)) e1
    v.signif.natAbs ≠ 0 ∧ bitLen v.signif.natAbs ≤ F.prec ∧
      ieeeRoundMag F v.signif.natAbs v.exp = ieeeRoundMag F n1 e1 := by
  intro v
  have hsn : (if s < 0 then (-1 : Int) else 1) * (n1 : Int) ≠ 0 := by split <;> omega
  obtain ⟨z, hz1, hz2⟩ := new_decomp 2 ((if s < 0 then -1 else 1) * (n1 : Int)) e1 hsn
  have hnorm := FRepr.new_normalized 2 (by decide) ((if s < 0 then -1 else 1) * (n1 : Int)) e1
  change _ = v.signif * _ at hz1
  change v.exp = _ at hz2
  change Normalized 2 v at hnorm
  push_cast at hz1
  have hvs0 : v.signif ≠ 0 := by
    intro h0; rw [h0] at hz1; simp at hz1
    split at hz1 <;> omega
  have hvodd : v.signif % 2 ≠ 0 := by
    rcases hnorm with h | h
    · exact absurd h hvs0
    · exact h
  have hmag : n1 = v.signif.natAbs * 2 ^ z := by
    have h1 : ((if s < 0 then (-1 : Int) else 1) * (n1 : Int)).natAbs = n1 := by split <;> simp
    have h2 : (v.signif * (2 : Int) ^ z).natAbs = v.signif.natAbs * 2 ^ z := by
      rw [Int.natAbs_mul, Int.natAbs_pow]; rfl
    rw [← h1, hz1]; exact h2
  have hn'0 : v.signif.natAbs ≠ 0 := by omega
  refine ⟨hn'0, ?_, ?_⟩
  · apply bitLen_le_of_lt
    have hle' : v.signif.natAbs ≤ n1 := by
      rw [hmag]; exact Nat.le_mul_of_pos_right _ (Nat.two_pow_pos z)
    by_contra hc'
    have heq : v.signif.natAbs = 2 ^ F.prec := by omega
    have : (2 ^ F.prec) % 2 = 0 := by
      rw [show F.prec = (F.prec - 1) + 1 by omega, pow_succ]; omega
    omega
  · rw [hmag, hz2]; exact (ieeeRoundMag_scale F v.signif.natAbs z e1 hn'0).symm

/-- when does the flag of `into_fNN_internal` tell the truth about the rounding it performed -/
theorem intoFlag_truth (k : IntoConsts) (hk : IntoCompat k) (neg : Bool) (n : Nat) (x : Int) (hn : n ≠ 0)
    (hbits : bitLen n ≤ k.F.prec) :
    intoFlag k neg x (ieeeRoundMag k.F n x).2 = adjOfMag neg (ieeeRoundMag k.F n x).2 ↔
      ¬ ((ieeeRoundMag k.F n x).2 = .pos ∧ x < k.infExp) := by
  have hF := hk.enc.ok
  have hB := k.F.B_ge hF
  have hL1 := bitLen_pos hn
  unfold intoFlag
  by_cases h1 : x ≥ k.infExp
  · have hov := spec_over k.F hF n x hn (by have := hk.inf; omega)
    rw [hov]
    simp only [h1, if_true, adjOfMag]
    constructor
    · intro _ h; omega
    · intro _; trivial
  · simp only [h1, if_false]
    by_cases h2 : x < k.zeroExp
    · have hun := spec_under k.F hF n x hn (by have := hk.zero; omega)
      rw [hun]
      simp [h2, adjOfMag]
    · simp only [h2, if_false]
      generalize (ieeeRoundMag k.F n x).2 = fl
      have hx : x < k.infExp := by omega
      cases fl <;> simp [adjOfMag, hx] <;> cases neg <;> simp

end Dashu.Model.Conv

namespace Dashu.Model.Conv
open Dashu Dashu.Model Dashu.Model.Float

/-- the repr that reaches `into_fNN_internal` -/
def reachedRepr (F : Ieee) (m : Float.Mode) (s e : Int) : FRepr :=
  let fr := firstRound F.prec m (decide (s < 0)) s.natAbs e
  if bitLen s.natAbs ≤ F.prec then ⟨s, e⟩
  else FRepr.new 2 ((if s < 0 then -1 else 1) * (fr.1 : Int)) fr.2.1

/-- **the failing region of the flag**: the rounding inside `encode` increased the magnitude and
    `into_fNN_internal` did not take its overflow exit — the flag is `NoOp` although the result is larger
    in magnitude than the exact value -/
def ToFloatFlagBad (k : IntoConsts) (m : Float.Mode) (s e : Int) : Prop :=
  let fr := firstRound k.F.prec m (decide (s < 0)) s.natAbs e
  (ieeeRoundMag k.F fr.1 fr.2.1).2 = .pos ∧ (reachedRepr k.F m s e).exp < k.infExp

instance (k : IntoConsts) (m : Float.Mode) (s e : Int) : Decidable (ToFloatFlagBad k m s e) := by
  unfold ToFloatFlagBad; infer_instance

theorem ieeeRound_fst (F : Ieee) (s e : Int) (hs : s ≠ 0) :
    (ieeeRound F s e).1 = (if s < 0 then F.signBit else 0) + (ieeeRoundMag F s.natAbs e).1 := by
  unfold ieeeRound; simp [hs]

/-- **`FBig::to_f64`, `Repr::to_f32/to_f64`, `FBig<HalfEven>::to_f32` (base 2): the value is the correctly
    rounded one exactly outside `ToFloatBad`** -/
theorem fbigToFloat_value_iff (k : IntoConsts) (hk : IntoCompat k) (c : Coarse) (hc : CoarseSound c)
    (s e : Int) (hodd : s % 2 = 1) (bits : Nat) (fl : Option Float.Rounding)
    (h : fbigToFloat k .halfEven c ⟨s, e⟩ = .ok (bits, fl)) :
    bits = (ieeeRound k.F s e).1 ↔ ¬ ToFloatBad k.F s.natAbs e := by
  have hs0 : s ≠ 0 := by intro h0; subst h0; simp at hodd
  have hn := fbigToFloat_normal k hk .halfEven c hc s e hodd
  simp only at hn
  rw [hn] at h
  simp only [Except.ok.injEq, Prod.mk.injEq] at h
  rw [← h.1, ieeeRound_fst k.F s e hs0, Nat.add_left_cancel_iff]
  exact halfEven_value k.F hk.enc.ok (decide (s < 0)) s.natAbs e (by omega)

theorem andThen_adj (neg : Bool) (f1 f2 : Flag) :
    andThenFlag (adjOfMag neg f1) (adjOfMag neg f2) = adjOfMag neg (composeFlag f1 f2) := by
  cases f1 <;> cases f2 <;> rfl

/-- **flag theorem**: outside `ToFloatBad` the returned `Rounding` tells the truth about the result
    exactly outside `ToFloatFlagBad` -/
theorem fbigToFloat_flag_iff (k : IntoConsts) (hk : IntoCompat k) (c : Coarse) (hc : CoarseSound c)
    (s e : Int) (hodd : s % 2 = 1) (bits : Nat) (fl : Option Float.Rounding)
    (h : fbigToFloat k .halfEven c ⟨s, e⟩ = .ok (bits, fl)) (hgood : ¬ ToFloatBad k.F s.natAbs e) :
    fl = adjOfMag (decide (s < 0)) (ieeeRoundMag k.F s.natAbs e).2 ↔ ¬ ToFloatFlagBad k .halfEven s e := by
  have hF := hk.enc.ok
  have hp1 : 1 ≤ k.F.prec := by unfold Ieee.prec; omega
  have hs0 : s ≠ 0 := by intro h0; subst h0; simp at hodd
  have ha0 : s.natAbs ≠ 0 := by omega
  have hn := fbigToFloat_normal k hk .halfEven c hc s e hodd
  simp only at hn
  rw [hn] at h
  simp only [Except.ok.injEq, Prod.mk.injEq] at h
  rw [← h.2]
  unfold ToFloatFlagBad reachedRepr
  simp only
  by_cases hfit : bitLen s.natAbs ≤ k.F.prec
  · have hfr : firstRound k.F.prec .halfEven (decide (s < 0)) s.natAbs e = (s.natAbs, e, none) := by
      simp only [firstRound, hfit, if_true]
    simp only [hfit, if_true, hfr, andThenFlag_none]
    exact intoFlag_truth k hk (decide (s < 0)) s.natAbs e ha0 hfit
  · have hgt : k.F.prec < bitLen s.natAbs := by omega
    generalize hk1 : bitLen s.natAbs - k.F.prec = k1
    have hk1p : 1 ≤ k1 := by omega
    have hfr : firstRound k.F.prec .halfEven (decide (s < 0)) s.natAbs e =
        ((roundMagMode .halfEven (decide (s < 0)) s.natAbs (2 ^ k1)).1, e + (k1 : Int),
          some (adjOfUp (roundMagMode .halfEven (decide (s < 0)) s.natAbs (2 ^ k1)).2 (decide (s < 0)))) := by
      simp only [firstRound, hfit, if_false, hk1, convMode]
    simp only [hfit, if_false, hfr]
    -- the first rounding
    have hr0 : s.natAbs % 2 ^ k1 ≠ 0 := by
      intro h0
      have h2 : s.natAbs % 2 ^ k1 % 2 = s.natAbs % 2 := by
        have : 2 ^ k1 = 2 * 2 ^ (k1 - 1) := by
          conv_lhs => rw [show k1 = (k1 - 1) + 1 by omega, pow_succ]
          ring
        rw [this]; exact Nat.mod_mul_right_mod _ _ _
      omega
    have hrm := roundMagMode_eq .halfEven (decide (s < 0)) s.natAbs (2 ^ k1) hr0
    have hn1 := roundMagMode_halfEven (decide (s < 0)) s.natAbs (2 ^ k1) (Nat.two_pow_pos _)
    generalize hrmdef : roundMagMode .halfEven (decide (s < 0)) s.natAbs (2 ^ k1) = rm at *
    generalize hupdef : upMag .halfEven (decide (s < 0)) (s.natAbs / 2 ^ k1) (s.natAbs % 2 ^ k1) (2 ^ k1) = up at *
    have hrm1 : rm.1 = s.natAbs / 2 ^ k1 + (if up then 1 else 0) := by rw [hrm]
    have hrm2 : rm.2 = up := by rw [hrm]
    -- flag of the first rounding
    have hdm := Nat.div_add_mod s.natAbs (2 ^ k1)
    have hrlt := Nat.mod_lt s.natAbs (Nat.two_pow_pos k1)
    have hflag1 : adjOfMag (decide (s < 0)) (flagOf rm.1 (2 ^ k1) s.natAbs) =
        some (adjOfUp rm.2 (decide (s < 0))) := by
      rw [hrm1, hrm2]
      unfold flagOf
      generalize s.natAbs / 2 ^ k1 = q at *
      generalize s.natAbs % 2 ^ k1 = r at *
      generalize 2 ^ k1 = D at *
      cases up
      · have e1 : (q + (if false = true then 1 else 0)) * D = D * q := by simp; ring
        rw [e1]
        have h3 : ¬ (D * q = s.natAbs) := by omega
        have h4 : ¬ (s.natAbs < D * q) := by omega
        simp [h3, h4, adjOfMag, adjOfUp]
      · have e1 : (q + (if true = true then 1 else 0)) * D = D * q + D := by simp; ring
        rw [e1]
        have h3 : ¬ (D * q + D = s.natAbs) := by omega
        have h4 : s.natAbs < D * q + D := by omega
        simp [h3, h4, adjOfMag, adjOfUp]
    -- bounds and the reached repr
    have hb := roundMagMode_bounds .halfEven (decide (s < 0)) s.natAbs (2 ^ k1)
    rw [hrmdef] at hb
    have hqlo : 2 ^ (k.F.prec - 1) ≤ s.natAbs / 2 ^ k1 := by
      rw [Nat.le_div_iff_mul_le (Nat.two_pow_pos _), ← pow_add]
      have : k.F.prec - 1 + k1 = bitLen s.natAbs - 1 := by omega
      rw [this]; exact bitLen_le ha0
    have hqhi : s.natAbs / 2 ^ k1 < 2 ^ k.F.prec := by
      rw [Nat.div_lt_iff_lt_mul (Nat.two_pow_pos _), ← pow_add]
      have : k.F.prec + k1 = bitLen s.natAbs := by omega
      rw [this]; exact bitLen_lt
    have hn1pos : rm.1 ≠ 0 := by have := Nat.two_pow_pos (k.F.prec - 1); omega
    have hn1le : rm.1 ≤ 2 ^ k.F.prec := by omega
    obtain ⟨hv0, hvb, hvs⟩ := new_facts k.F hp1 s rm.1 (e + (k1 : Int)) hn1pos hn1le
    generalize FRepr.new 2 ((if s < 0 then -1 else 1) * (rm.1 : Int)) (e + (k1 : Int)) = v at *
    have htruth := intoFlag_truth k hk (decide (s < 0)) v.signif.natAbs v.exp hv0 hvb
    rw [hvs] at htruth
    -- the true flag
    have hcomp := halfEven_flag k.F hF (decide (s < 0)) s.natAbs e ha0 hgt hgood
    simp only [hk1] at hcomp
    rw [← hn1] at hcomp
    rw [hcomp, ← andThen_adj, hflag1]
    generalize hM : (ieeeRoundMag k.F rm.1 (e + (k1 : Int))).2 = M at *
    cases M
    · -- encode exact
      have h1 : ¬ (Flag.exact = Flag.pos ∧ v.exp < k.infExp) := by simp
      have h2 := htruth.mpr h1
      rw [h2]
      simp [h1]
    · -- encode rounded the magnitude up
      simp only [true_and] at htruth ⊢
      constructor
      · intro hfl
        apply htruth.mp
        -- `andThenFlag (some _) x = some y` forces `x = some y` when x is `some`
        unfold intoFlag at hfl ⊢
        split at hfl <;> simp_all [andThenFlag, adjOfMag]
      · intro hx
        rw [htruth.mpr hx]
    · have h1 : ¬ (Flag.neg = Flag.pos ∧ v.exp < k.infExp) := by simp
      have h2 := htruth.mpr h1
      rw [h2]
      simp [h1]

end Dashu.Model.Conv
