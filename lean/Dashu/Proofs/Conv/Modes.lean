import Dashu.Proofs.Conv.TryTo
/-
  C06 — `FBig::<R, 2>::to_f32` for EVERY rounding mode R: the result equals the single rounding of the
  exact value in mode R (the specification the driver evaluates, `ieeeRoundRat F R`) exactly outside
  the region where the result is subnormal and `encode`'s round-to-nearest of the first-rounded value
  differs from the mode-R rounding at the subnormal quantum.
-/
namespace Dashu.Model.Conv
open Dashu.Model Dashu.Model.Float

/-! ### mode-generic integer-exponent specification (`ieeeRoundMag` with the rounding of mode `mode`) -/

def ieeeRoundMagM (F : Ieee) (mode : Mode) (neg : Bool) (a : Nat) (e : Int) : Nat × Flag :=
  let t : Int := (bitLen a : Int) + e
  let q : Int := max (t - F.prec) F.qmin
  let num := if q ≤ e then a * 2 ^ (e - q).toNat else a
  let den := if q ≤ e then 1 else 2 ^ (q - e).toNat
  let n := (roundMagMode mode neg num den).1
  let units := n * 2 ^ (q - F.qmin).toNat
  if 2 ^ (F.emax + 1 - F.qmin).toNat ≤ units then (F.infBits, .pos)
  else ((q - F.qmin).toNat * 2 ^ F.MB + n, flagOf n den num)

theorem roundMagMode_one (mode : Mode) (neg : Bool) (x : Nat) : (roundMagMode mode neg x 1).1 = x := by
  unfold roundMagMode; simp [Nat.mod_one]

theorem ieeeRoundMagM_halfEven (F : Ieee) (neg : Bool) (a : Nat) (e : Int) :
    ieeeRoundMagM F .halfEven neg a e = ieeeRoundMag F a e := by
  unfold ieeeRoundMagM ieeeRoundMag roundMag
  simp only
  generalize max ((bitLen a : Int) + e - F.prec) F.qmin = q
  by_cases h : q ≤ e
  · simp only [h, if_true, roundMagMode_halfEven neg _ 1 (by decide)]
  · simp only [h, if_false, roundMagMode_halfEven neg _ _ (Nat.two_pow_pos _)]

theorem roundMagMode_scale (mode : Mode) (neg : Bool) (c x y : Nat) (hc : 0 < c) :
    roundMagMode mode neg (c * x) (c * y) = roundMagMode mode neg x y := by
  unfold roundMagMode
  simp only [Nat.mul_div_mul_left _ _ hc, Nat.mul_mod_mul_left]
  generalize x / y = q
  generalize x % y = r
  have h0 : c * r = 0 ↔ r = 0 := by
    constructor
    · intro h; rcases Nat.mul_eq_zero.mp h with h | h <;> omega
    · intro h; rw [h]; simp
  have h1 : c * y < 2 * (c * r) ↔ y < 2 * r := by constructor <;> intro h <;> nlinarith
  have h2 : 2 * (c * r) = c * y ↔ 2 * r = y := by
    constructor
    · intro h; have : c * (2 * r) = c * y := by rw [← h]; ring
      exact Nat.eq_of_mul_eq_mul_left hc this
    · intro h; rw [← h]; ring
  have h3 : c * y ≤ 2 * (c * r) ↔ y ≤ 2 * r := by constructor <;> intro h <;> nlinarith
  simp only [h0, h1, h2, h3]

theorem round_pow_pair_M (mode : Mode) (neg : Bool) (a b i j i' j' : Nat) (h : i + j' = i' + j) :
    roundMagMode mode neg (a * 2 ^ i) (b * 2 ^ j) = roundMagMode mode neg (a * 2 ^ i') (b * 2 ^ j') := by
  rcases Nat.le_total i i' with hle | hle
  · obtain ⟨δ, rfl⟩ : ∃ δ, i' = i + δ := ⟨i' - i, by omega⟩
    have hj : j' = j + δ := by omega
    subst hj
    have e1 : a * 2 ^ (i + δ) = 2 ^ δ * (a * 2 ^ i) := by rw [pow_add]; ring
    have e2 : b * 2 ^ (j + δ) = 2 ^ δ * (b * 2 ^ j) := by rw [pow_add]; ring
    rw [e1, e2, roundMagMode_scale _ _ _ _ _ (Nat.two_pow_pos δ)]
  · obtain ⟨δ, rfl⟩ : ∃ δ, i = i' + δ := ⟨i - i', by omega⟩
    have hj : j = j' + δ := by omega
    subst hj
    have e1 : a * 2 ^ (i' + δ) = 2 ^ δ * (a * 2 ^ i') := by rw [pow_add]; ring
    have e2 : b * 2 ^ (j' + δ) = 2 ^ δ * (b * 2 ^ j') := by rw [pow_add]; ring
    rw [e1, e2, roundMagMode_scale _ _ _ _ _ (Nat.two_pow_pos δ)]

/-- the rational specification of the driver on a dyadic rational, every mode -/
theorem ieeeRoundRatMag_dyadic_M (F : Ieee) (mode : Mode) (neg : Bool) (a j : Nat) (ha : a ≠ 0) :
    ieeeRoundRatMag F mode neg a (2 ^ j) = ieeeRoundMagM F mode neg a (-(j : Int)) := by
  unfold ieeeRoundRatMag ieeeRoundMagM
  simp only [ratTop_dyadic a j ha]
  have ht : (bitLen a : Int) + -(j : Int) = (bitLen a : Int) - j := by ring
  rw [ht]
  generalize max ((bitLen a : Int) - j - F.prec) F.qmin = q
  by_cases hq : q ≤ -(j : Int)
  · simp only [hq, if_true]
    have hp := round_pow_pair_M mode neg a 1 (-q).toNat (j + q.toNat) (-(j : Int) - q).toNat 0 (by omega)
    have hf := round_pow_pair a 1 (-q).toNat (j + q.toNat) (-(j : Int) - q).toNat 0 (by omega)
    simp only [Nat.one_mul, pow_zero, Nat.mul_one] at hp hf
    rw [pow_add] at hp hf
    rw [hp, hf.2]
  · simp only [hq, if_false]
    have hp := round_pow_pair_M mode neg a 1 (-q).toNat (j + q.toNat) 0 (q - -(j : Int)).toNat (by omega)
    have hf := round_pow_pair a 1 (-q).toNat (j + q.toNat) 0 (q - -(j : Int)).toNat (by omega)
    simp only [Nat.one_mul, pow_zero, Nat.mul_one] at hp hf
    rw [pow_add] at hp hf
    rw [hp, hf.2]

theorem ieeeRoundMagM_scale (F : Ieee) (mode : Mode) (neg : Bool) (a z : Nat) (e : Int) (ha : a ≠ 0) :
    ieeeRoundMagM F mode neg (a * 2 ^ z) e = ieeeRoundMagM F mode neg a (e + z) := by
  unfold ieeeRoundMagM
  simp only [bitLen_mul_pow a z ha]
  have ht : ((bitLen a + z : Nat) : Int) + e = (bitLen a : Int) + (e + z) := by push_cast; ring
  rw [ht]
  generalize max ((bitLen a : Int) + (e + z) - F.prec) F.qmin = q
  by_cases h1 : q ≤ e
  · have h2 : q ≤ e + z := by omega
    simp only [h1, h2, if_true]
    have : a * 2 ^ z * 2 ^ (e - q).toNat = a * 2 ^ (e + z - q).toNat := by
      rw [Nat.mul_assoc, ← pow_add]; congr 2; omega
    rw [this]
  · simp only [h1, if_false]
    by_cases h2 : q ≤ e + z
    · simp only [h2, if_true]
      have hp := round_pow_pair_M mode neg a 1 z (q - e).toNat (e + z - q).toNat 0 (by omega)
      have hf := round_pow_pair a 1 z (q - e).toNat (e + z - q).toNat 0 (by omega)
      simp only [Nat.one_mul, pow_zero, Nat.mul_one] at hp hf
      rw [hp, hf.2]
    · simp only [h2, if_false]
      have hp := round_pow_pair_M mode neg a 1 z (q - e).toNat 0 (q - (e + z)).toNat (by omega)
      have hf := round_pow_pair a 1 z (q - e).toNat 0 (q - (e + z)).toNat (by omega)
      simp only [Nat.one_mul, pow_zero, Nat.mul_one] at hp hf
      rw [hp, hf.2]

/-- the driver's specification for a binary float `±a·2^e` in mode `mode` is `ieeeRoundMagM` -/
theorem ieeeRoundRatMag_float (F : Ieee) (mode : Mode) (neg : Bool) (a : Nat) (e : Int) (ha : a ≠ 0) :
    ieeeRoundRatMag F mode neg (if e ≥ 0 then a * 2 ^ e.toNat else a) (if e ≥ 0 then 1 else 2 ^ (-e).toNat) =
      ieeeRoundMagM F mode neg a e := by
  by_cases he : e ≥ 0
  · simp only [he, if_true]
    have h1 := ieeeRoundRatMag_dyadic_M F mode neg (a * 2 ^ e.toNat) 0
      (Nat.mul_ne_zero ha (by positivity))
    simp only [pow_zero, Nat.cast_zero, neg_zero] at h1
    rw [h1, ieeeRoundMagM_scale F mode neg a e.toNat 0 ha]
    congr 1; omega
  · simp only [he, if_false]
    rw [ieeeRoundRatMag_dyadic_M F mode neg a (-e).toNat ha]
    congr 1; omega

end Dashu.Model.Conv

namespace Dashu.Model.Conv
open Dashu.Model Dashu.Model.Float

/-! ### the bits of the mode-generic specification in each regime -/

theorem bitsM_sub_exact (F : Ieee) (h : F.Ok) (mode : Mode) (neg : Bool) (a j : Nat) (e : Int)
    (he : e = F.qmin + j) (hL : bitLen a + j ≤ F.prec) :
    (ieeeRoundMagM F mode neg a e).1 = a * 2 ^ j := by
  have hB := F.B_ge h
  have hq : max ((bitLen a : Int) + e - F.prec) F.qmin = F.qmin := by omega
  have hqe : F.qmin ≤ e := by omega
  have hd : (e - F.qmin).toNat = j := by omega
  have hn : a * 2 ^ j < 2 ^ F.prec := by
    calc a * 2 ^ j < 2 ^ bitLen a * 2 ^ j := Nat.mul_lt_mul_of_pos_right bitLen_lt (Nat.two_pow_pos j)
      _ = 2 ^ (bitLen a + j) := by rw [pow_add]
      _ ≤ 2 ^ F.prec := pow_le_pow2 hL
  have hlim : 2 ^ F.prec < 2 ^ (2 * F.B - 2 + F.MB) := by
    apply pow_lt_pow2; unfold Ieee.prec; omega
  unfold ieeeRoundMagM
  simp only [hq, hqe, if_true, hd, sub_self, Int.toNat_zero, pow_zero, Nat.mul_one, roundMagMode_one,
    F.range_toNat h, Nat.zero_mul, Nat.zero_add]
  have : ¬ (2 ^ (2 * F.B - 2 + F.MB) ≤ a * 2 ^ j) := by omega
  simp [this]

theorem bitsM_sub_round (F : Ieee) (h : F.Ok) (mode : Mode) (neg : Bool) (a k : Nat) (e : Int)
    (he : e + k = F.qmin) (hk : 1 ≤ k) (hL : bitLen a ≤ F.prec + k) :
    (ieeeRoundMagM F mode neg a e).1 = (roundMagMode mode neg a (2 ^ k)).1 := by
  have hB := F.B_ge h
  have hq : max ((bitLen a : Int) + e - F.prec) F.qmin = F.qmin := by omega
  have hqe : ¬ (F.qmin ≤ e) := by omega
  have hd : (F.qmin - e).toNat = k := by omega
  have hdiv : a / 2 ^ k < 2 ^ F.prec := by
    rw [Nat.div_lt_iff_lt_mul (Nat.two_pow_pos k), ← pow_add]
    exact lt_of_lt_of_le bitLen_lt (pow_le_pow2 hL)
  have hn := (roundMagMode_bounds mode neg a (2 ^ k)).2
  have hlim : 2 ^ F.prec < 2 ^ (2 * F.B - 2 + F.MB) := by
    apply pow_lt_pow2; unfold Ieee.prec; omega
  unfold ieeeRoundMagM
  simp only [hq, hqe, if_false, hd, sub_self, Int.toNat_zero, pow_zero, Nat.mul_one,
    F.range_toNat h, Nat.zero_mul, Nat.zero_add]
  have : ¬ (2 ^ (2 * F.B - 2 + F.MB) ≤ (roundMagMode mode neg a (2 ^ k)).1) := by omega
  simp [this]

theorem bitsM_norm_exact (F : Ieee) (h : F.Ok) (mode : Mode) (neg : Bool) (a j w : Nat) (e : Int)
    (hL : bitLen a + j = F.prec) (ht : (bitLen a : Int) + e = F.qmin + F.prec + w) (hw : w + 3 ≤ 2 * F.B) :
    (ieeeRoundMagM F mode neg a e).1 = w * 2 ^ F.MB + a * 2 ^ j := by
  have hq : max ((bitLen a : Int) + e - F.prec) F.qmin = F.qmin + w := by omega
  have hqe : F.qmin + w ≤ e := by omega
  have hd : (e - (F.qmin + w)).toNat = j := by omega
  have hw' : (F.qmin + (w : Int) - F.qmin).toNat = w := by omega
  have hn : a * 2 ^ j < 2 ^ F.prec := by
    calc a * 2 ^ j < 2 ^ bitLen a * 2 ^ j := Nat.mul_lt_mul_of_pos_right bitLen_lt (Nat.two_pow_pos j)
      _ = 2 ^ F.prec := by rw [← pow_add, hL]
  have hlim : a * 2 ^ j * 2 ^ w < 2 ^ (2 * F.B - 2 + F.MB) := by
    calc a * 2 ^ j * 2 ^ w < 2 ^ F.prec * 2 ^ w := Nat.mul_lt_mul_of_pos_right hn (Nat.two_pow_pos w)
      _ = 2 ^ (F.prec + w) := by rw [pow_add]
      _ ≤ 2 ^ (2 * F.B - 2 + F.MB) := by apply pow_le_pow2; unfold Ieee.prec; omega
  unfold ieeeRoundMagM
  simp only [hq, hqe, if_true, hd, hw', roundMagMode_one, F.range_toNat h]
  have : ¬ (2 ^ (2 * F.B - 2 + F.MB) ≤ a * 2 ^ j * 2 ^ w) := by omega
  simp [this]

theorem bitsM_norm_round (F : Ieee) (h : F.Ok) (mode : Mode) (neg : Bool) (a k w : Nat) (e : Int)
    (hL : bitLen a = F.prec + k) (hk : 1 ≤ k) (ht : (bitLen a : Int) + e = F.qmin + F.prec + w)
    (hw : w + 3 ≤ 2 * F.B) :
    (ieeeRoundMagM F mode neg a e).1 = w * 2 ^ F.MB + (roundMagMode mode neg a (2 ^ k)).1 := by
  have hq : max ((bitLen a : Int) + e - F.prec) F.qmin = F.qmin + w := by omega
  have hqe : ¬ (F.qmin + w ≤ e) := by omega
  have hd : (F.qmin + w - e).toNat = k := by omega
  have hw' : (F.qmin + (w : Int) - F.qmin).toNat = w := by omega
  have hlt : a < 2 ^ (F.prec + k) := by rw [← hL]; exact bitLen_lt
  have hdiv : a / 2 ^ k < 2 ^ F.prec := by
    rw [Nat.div_lt_iff_lt_mul (Nat.two_pow_pos k), ← pow_add]; exact hlt
  have hn := (roundMagMode_bounds mode neg a (2 ^ k)).2
  unfold ieeeRoundMagM
  simp only [hq, hqe, if_false, hd, hw', F.range_toNat h]
  generalize hnd : (roundMagMode mode neg a (2 ^ k)).1 = n at *
  by_cases hov : 2 ^ (2 * F.B - 2 + F.MB) ≤ n * 2 ^ w
  · simp only [hov, if_true]
    have hnle : n ≤ 2 ^ F.prec := by omega
    have hw2 : w + 3 = 2 * F.B := by
      by_contra hne
      have hw3 : w + 4 ≤ 2 * F.B := by omega
      have : n * 2 ^ w < 2 ^ (2 * F.B - 2 + F.MB) := by
        calc n * 2 ^ w ≤ 2 ^ F.prec * 2 ^ w := Nat.mul_le_mul_right _ hnle
          _ = 2 ^ (F.prec + w) := by rw [pow_add]
          _ < 2 ^ (2 * F.B - 2 + F.MB) := by apply pow_lt_pow2; unfold Ieee.prec; omega
      omega
    have hn2 : n = 2 ^ F.prec := by
      by_contra hne
      have hlt' : n < 2 ^ F.prec := by omega
      have : n * 2 ^ w < 2 ^ (2 * F.B - 2 + F.MB) := by
        calc n * 2 ^ w < 2 ^ F.prec * 2 ^ w := Nat.mul_lt_mul_of_pos_right hlt' (Nat.two_pow_pos w)
          _ = 2 ^ (F.prec + w) := by rw [pow_add]
          _ = 2 ^ (2 * F.B - 2 + F.MB) := by congr 1; unfold Ieee.prec; omega
      omega
    have hwv : w = 2 * F.B - 3 := by omega
    rw [hn2, F.infBits_eq h]
    have : F.prec = F.MB + 1 := rfl
    rw [this, pow_succ, hwv]
    have hB := F.B_ge h
    have e1 : 2 * F.B - 1 = (2 * F.B - 3) + 2 := by omega
    rw [e1]; ring
  · simp [hov]

/-- (round 6: value AND flag) above the overflow threshold the specification is `+∞`, flagged "above" -/
theorem ieeeRoundMagM_over (F : Ieee) (h : F.Ok) (mode : Mode) (neg : Bool) (a : Nat) (e : Int) (ha : a ≠ 0)
    (ht : F.emax + 1 < (bitLen a : Int) + e) :
    ieeeRoundMagM F mode neg a e = (F.infBits, .pos) := by
  have hB := F.B_ge h
  have hL1 := bitLen_pos ha
  rw [F.emax_eq] at ht
  have hqm := F.qmin_eq
  obtain ⟨w, hw⟩ : ∃ w : Nat, (bitLen a : Int) + e = F.qmin + F.prec + w :=
    ⟨((bitLen a : Int) + e - F.qmin - F.prec).toNat, by unfold Ieee.prec; omega⟩
  have hwl : 2 * F.B - 2 ≤ w := by unfold Ieee.prec at hw; omega
  have hq : max ((bitLen a : Int) + e - F.prec) F.qmin = F.qmin + w := by omega
  have hw' : (F.qmin + (w : Int) - F.qmin).toNat = w := by omega
  unfold ieeeRoundMagM
  simp only [hq, hw', F.range_toNat h]
  have key : ∀ num den : Nat, 2 ^ (F.prec - 1) ≤ num / den →
      2 ^ (2 * F.B - 2 + F.MB) ≤ (roundMagMode mode neg num den).1 * 2 ^ w := by
    intro num den hge
    have h1 := (roundMagMode_bounds mode neg num den).1
    calc 2 ^ (2 * F.B - 2 + F.MB) ≤ 2 ^ (F.prec - 1 + w) := by
            apply pow_le_pow2; unfold Ieee.prec; omega
      _ = 2 ^ (F.prec - 1) * 2 ^ w := by rw [pow_add]
      _ ≤ (roundMagMode mode neg num den).1 * 2 ^ w := Nat.mul_le_mul_right _ (le_trans hge h1)
  have hge : 2 ^ (bitLen a - 1) ≤ a := bitLen_le ha
  by_cases hqe : F.qmin + w ≤ e
  · simp only [hqe, if_true]
    obtain ⟨j, hj⟩ : ∃ j : Nat, bitLen a + j = F.prec := ⟨F.prec - bitLen a, by omega⟩
    have hd : (e - (F.qmin + w)).toNat = j := by omega
    rw [hd]
    have : 2 ^ (F.prec - 1) ≤ a * 2 ^ j / 1 := by
      rw [Nat.div_one]
      calc 2 ^ (F.prec - 1) = 2 ^ (bitLen a - 1) * 2 ^ j := by rw [← pow_add]; congr 1; omega
        _ ≤ a * 2 ^ j := Nat.mul_le_mul_right _ hge
    simp [key _ _ this]
  · simp only [hqe, if_false]
    obtain ⟨k, hk⟩ : ∃ k : Nat, bitLen a = F.prec + k := ⟨bitLen a - F.prec, by omega⟩
    have hd : (F.qmin + w - e).toNat = k := by omega
    rw [hd]
    have : 2 ^ (F.prec - 1) ≤ a / 2 ^ k := by
      rw [Nat.le_div_iff_mul_le (Nat.two_pow_pos k), ← pow_add]
      have : F.prec - 1 + k = bitLen a - 1 := by unfold Ieee.prec at *; omega
      rw [this]; exact hge
    simp [key _ _ this]

theorem bitsM_over (F : Ieee) (h : F.Ok) (mode : Mode) (neg : Bool) (a : Nat) (e : Int) (ha : a ≠ 0)
    (ht : F.emax + 1 < (bitLen a : Int) + e) :
    (ieeeRoundMagM F mode neg a e).1 = F.infBits := by
  rw [ieeeRoundMagM_over F h mode neg a e ha ht]

end Dashu.Model.Conv

namespace Dashu.Model.Conv
open Dashu Dashu.Model Dashu.Model.Float

/-- **the failing region of `FBig::<R,2>::to_f32` for an arbitrary mode `R`** on `±a·2^e`: a SUBNORMAL
    result for which re-rounding the (at most) `prec`-bit value HALF-EVEN — what `encode` does — differs from
    rounding the original once in mode `R`.  (`k1 = bitLen a - prec` bits go in the first rounding, `k2` more
    in `encode`; with `k1 = 0` the first rounding is the identity.) -/
def ModeBad (F : Ieee) (mode : Mode) (neg : Bool) (a : Nat) (e : Int) : Prop :=
  (bitLen a : Int) + e < F.qmin + F.prec ∧
    rneDiv (roundMagMode mode neg a (2 ^ (bitLen a - F.prec))).1
        (2 ^ (F.qmin - e - ((bitLen a - F.prec : Nat) : Int)).toNat) ≠
      (roundMagMode mode neg a (2 ^ (bitLen a - F.prec + (F.qmin - e - ((bitLen a - F.prec : Nat) : Int)).toNat))).1

instance (F : Ieee) (mode : Mode) (neg : Bool) (a : Nat) (e : Int) : Decidable (ModeBad F mode neg a e) := by
  unfold ModeBad; infer_instance

/-- **value theorem, every mode**: rounding to `prec` bits in mode `m` and letting `encode` round again
    (half-even) gives the bits of ONE rounding in mode `m` exactly outside `ModeBad` -/
theorem modes_value (F : Ieee) (hF : F.Ok) (m : Float.Mode) (neg : Bool) (a : Nat) (e : Int) (ha : a ≠ 0) :
    (ieeeRoundMag F (firstRound F.prec m neg a e).1 (firstRound F.prec m neg a e).2.1).1 =
      (ieeeRoundMagM F (convMode m) neg a e).1 ↔ ¬ ModeBad F (convMode m) neg a e := by
  have hB := F.B_ge hF
  have hqm := F.qmin_eq
  have hem := F.emax_eq
  have hprec : F.prec = F.MB + 1 := rfl
  have hMB := hF.hMB
  unfold ModeBad firstRound
  by_cases hfit : bitLen a ≤ F.prec
  · simp only [hfit, if_true]
    have hk1 : bitLen a - F.prec = 0 := by omega
    rw [hk1]
    simp only [pow_zero, roundMagMode_one, Nat.cast_zero, sub_zero, Nat.zero_add]
    by_cases hover : F.emax + 1 < (bitLen a : Int) + e
    · rw [spec_over F hF a e ha hover, bitsM_over F hF _ neg a e ha hover]
      simp only [true_iff]
      intro h; omega
    by_cases hsub : (bitLen a : Int) + e < F.qmin + F.prec
    · by_cases hq : F.qmin ≤ e
      · obtain ⟨j, hj⟩ : ∃ j : Nat, e = F.qmin + j := ⟨(e - F.qmin).toNat, by omega⟩
        rw [spec_sub_exact F hF a j e hj (by omega), bitsM_sub_exact F hF _ neg a j e hj (by omega)]
        have hk2 : (F.qmin - e).toNat = 0 := by omega
        rw [hk2]
        simp [rneDiv_one, roundMagMode_one]
      · obtain ⟨k, hk⟩ : ∃ k : Nat, e + k = F.qmin := ⟨(F.qmin - e).toNat, by omega⟩
        have hk2 : (F.qmin - e).toNat = k := by omega
        rw [spec_sub_round F hF a k e hk (by omega) (by omega),
          bitsM_sub_round F hF _ neg a k e hk (by omega) (by omega), hk2]
        simp only [hsub, true_and, not_not]
    · obtain ⟨w, hw⟩ : ∃ w : Nat, (bitLen a : Int) + e = F.qmin + F.prec + w :=
        ⟨((bitLen a : Int) + e - F.qmin - F.prec).toNat, by omega⟩
      have hwB : w + 3 ≤ 2 * F.B := by omega
      obtain ⟨j, hj⟩ : ∃ j : Nat, bitLen a + j = F.prec := ⟨F.prec - bitLen a, by omega⟩
      rw [spec_norm_exact F hF a j w e hj hw hwB, bitsM_norm_exact F hF _ neg a j w e hj hw hwB]
      simp only [hsub, false_and, not_false_eq_true]
  simp only [hfit, if_false]
  have hgt : F.prec < bitLen a := by omega
  generalize hk1 : bitLen a - F.prec = k1
  have hk1p : 1 ≤ k1 := by omega
  have hL : bitLen a = F.prec + k1 := by omega
  generalize hn1 : (roundMagMode (convMode m) neg a (2 ^ k1)).1 = n1
  have hb := roundMagMode_bounds (convMode m) neg a (2 ^ k1)
  rw [hn1] at hb
  have hqlo : 2 ^ (F.prec - 1) ≤ a / 2 ^ k1 := by
    rw [Nat.le_div_iff_mul_le (Nat.two_pow_pos _), ← pow_add]
    have : F.prec - 1 + k1 = bitLen a - 1 := by omega
    rw [this]; exact bitLen_le ha
  have hqhi : a / 2 ^ k1 < 2 ^ F.prec := by
    rw [Nat.div_lt_iff_lt_mul (Nat.two_pow_pos _), ← pow_add, ← hL]; exact bitLen_lt
  have hn1lo : 2 ^ (F.prec - 1) ≤ n1 := by omega
  have hn1hi : n1 ≤ 2 ^ F.prec := by omega
  have hn10 : n1 ≠ 0 := by have := Nat.two_pow_pos (F.prec - 1); omega
  have hpp : 2 ^ F.prec = 2 * 2 ^ (F.prec - 1) := by
    conv_lhs => rw [show F.prec = (F.prec - 1) + 1 by omega, pow_succ]
    ring
  have hbl1 : n1 < 2 ^ F.prec → bitLen n1 = F.prec := by
    intro h
    have := bitLen_eq_of (n := F.prec - 1) hn1lo (by rw [show F.prec - 1 + 1 = F.prec by omega]; exact h)
    omega
  have hbl2 : n1 = 2 ^ F.prec → bitLen n1 = F.prec + 1 := by
    intro h; rw [h]; exact bitLen_two_pow _
  by_cases hover : F.emax + 1 < (bitLen a : Int) + e
  · have h1 := bitsM_over F hF (convMode m) neg a e ha hover
    have h2 : ieeeRoundMag F n1 (e + (k1 : Int)) = (F.infBits, .pos) := by
      apply spec_over F hF n1 _ hn10
      rcases Nat.lt_or_ge n1 (2 ^ F.prec) with h | h
      · rw [hbl1 h]; omega
      · rw [hbl2 (by omega)]; omega
    rw [h1, h2]
    simp only [true_iff]
    intro h; omega
  by_cases hsub : (bitLen a : Int) + e < F.qmin + F.prec
  · obtain ⟨k, hk⟩ : ∃ k : Nat, e + k = F.qmin := ⟨(F.qmin - e).toNat, by omega⟩
    obtain ⟨k2, hk2⟩ : ∃ k2 : Nat, k = k1 + k2 ∧ 1 ≤ k2 := ⟨k - k1, by omega, by omega⟩
    obtain ⟨hkk, hk21⟩ := hk2
    have h1 := bitsM_sub_round F hF (convMode m) neg a k e hk (by omega) (by omega)
    have hbn1 : bitLen n1 ≤ F.prec + k2 := by
      rcases Nat.lt_or_ge n1 (2 ^ F.prec) with h | h
      · rw [hbl1 h]; omega
      · rw [hbl2 (by omega)]; omega
    have h2 := spec_sub_round F hF n1 k2 (e + (k1 : Int)) (by omega) hk21 hbn1
    rw [h1, h2]
    simp only
    have hk2t : (F.qmin - e - (k1 : Int)).toNat = k2 := by omega
    rw [hk2t, hkk]
    simp only [hsub, true_and, not_not]
  · simp only [hsub, false_and, not_false_eq_true, iff_true]
    obtain ⟨w, hw⟩ : ∃ w : Nat, (bitLen a : Int) + e = F.qmin + F.prec + w :=
      ⟨((bitLen a : Int) + e - F.qmin - F.prec).toNat, by omega⟩
    have hwB : w + 3 ≤ 2 * F.B := by omega
    have h1 := bitsM_norm_round F hF (convMode m) neg a k1 w e hL hk1p hw hwB
    rw [h1, hn1]
    rcases Nat.lt_or_ge n1 (2 ^ F.prec) with hlt | hge
    · have h2 := spec_norm_exact F hF n1 0 w (e + (k1 : Int)) (by rw [hbl1 hlt, Nat.add_zero]) (by rw [hbl1 hlt]; omega) hwB
      rw [h2]; simp
    · have hn1e : n1 = 2 ^ F.prec := by omega
      by_cases hwtop : w + 4 ≤ 2 * F.B
      · have h2 := spec_norm_round F hF n1 1 (w + 1) (e + (k1 : Int)) (hbl2 hn1e) (by omega)
          (by rw [hbl2 hn1e]; push_cast; omega) (by omega)
        rw [h2, hn1e, rneDiv_pow_self F.prec (by omega)]
        simp only
        rw [hpp, show F.prec - 1 = F.MB by omega]; ring
      · have h2 : ieeeRoundMag F n1 (e + (k1 : Int)) = (F.infBits, .pos) := by
          apply spec_over F hF n1 _ hn10
          rw [hbl2 hn1e]; push_cast; omega
        rw [h2, hn1e, F.infBits_eq hF]
        simp only
        have hw2 : w = 2 * F.B - 3 := by omega
        rw [hw2, hpp, show F.prec - 1 = F.MB by omega]
        have e1 : 2 * F.B - 1 = (2 * F.B - 3) + 2 := by omega
        rw [e1]; ring

end Dashu.Model.Conv

namespace Dashu.Model.Conv
open Dashu Dashu.Model Dashu.Model.Float

/-- the driver's specification of `f.to_f32` (the rational `s·2^e` rounded ONCE in the given mode) in
    significand/exponent form -/
theorem ieeeRoundRat_float_fst (F : Ieee) (mode : Mode) (s e : Int) (hs : s ≠ 0) :
    (ieeeRoundRat F mode (floatAsRat 2 s e).1 (floatAsRat 2 s e).2).1 =
      (if s < 0 then F.signBit else 0) + (ieeeRoundMagM F mode (decide (s < 0)) s.natAbs e).1 := by
  have ha : s.natAbs ≠ 0 := by omega
  have key := ieeeRoundRatMag_float F mode (decide (s < 0)) s.natAbs e ha
  unfold floatAsRat ieeeRoundRat
  by_cases he : e ≥ 0
  · simp only [he, if_true] at key ⊢
    have hp : (0 : Int) < ((2 : Nat) : Int) ^ e.toNat := by positivity
    have hne : s * ((2 : Nat) : Int) ^ e.toNat ≠ 0 := Int.mul_ne_zero hs (by omega)
    have hneg : decide (s * ((2 : Nat) : Int) ^ e.toNat < 0) = decide (s < 0) := by
      congr 1
      apply propext
      constructor
      · intro h; by_contra h2
        have : 0 ≤ s * ((2 : Nat) : Int) ^ e.toNat := Int.mul_nonneg (by omega) (by omega)
        omega
      · intro h; exact Int.mul_neg_of_neg_of_pos h hp
    have hab : (s * ((2 : Nat) : Int) ^ e.toNat).natAbs = s.natAbs * 2 ^ e.toNat := by
      rw [Int.natAbs_mul, Int.natAbs_pow]; rfl
    simp only [hne, if_false, hneg, hab, key]
    by_cases hlt : s < 0 <;> simp [hlt]
  · simp only [he, if_false] at key ⊢
    simp only [hs, if_false, key]
    by_cases hlt : s < 0 <;> simp [hlt]

/-- **`FBig::<R,2>::to_f32` for EVERY rounding mode `R`: the value is the once-rounded one (mode `R`)
    exactly outside `ModeBad`** -/
theorem fbigToFloat_value_iff_modes (k : IntoConsts) (hk : IntoCompat k) (m : Float.Mode) (c : Coarse)
    (hc : CoarseSound c) (s e : Int) (hodd : s % 2 = 1) (bits : Nat) (fl : Option Float.Rounding)
    (h : fbigToFloat k m c ⟨s, e⟩ = .ok (bits, fl)) :
    bits = (ieeeRoundRat k.F (convMode m) (floatAsRat 2 s e).1 (floatAsRat 2 s e).2).1 ↔
      ¬ ModeBad k.F (convMode m) (decide (s < 0)) s.natAbs e := by
  have hs0 : s ≠ 0 := by intro h0; subst h0; simp at hodd
  have hn := fbigToFloat_normal k hk m c hc s e hodd
  simp only at hn
  rw [hn] at h
  simp only [Except.ok.injEq, Prod.mk.injEq] at h
  rw [← h.1, ieeeRoundRat_float_fst k.F _ s e hs0, Nat.add_left_cancel_iff]
  exact modes_value k.F hk.enc.ok m (decide (s < 0)) s.natAbs e (by omega)

end Dashu.Model.Conv
