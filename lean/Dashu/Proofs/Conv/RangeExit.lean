import Dashu.Proofs.Conv.FloatTo
import Dashu.Proofs.Conv.Modes
import Dashu.Model.Conv.Base
/-
  C06 — round 6 (/repo 1349a4b): the range test `Repr::exponent_out_of_range` in front of `FBig/Repr::to_f32 / to_f64`
  is UNOBSERVABLE in base 2: whenever it decides, the general path (`repr_round_ref` to 24/53 bits, then
  `into_fNN_internal`) returns the very same bits and flag.  So every theorem about `fbigToFloat` is a theorem about the
  code as it is (`fbigToFloatCode`), and the test's only effect is to keep the `isize` exponent arithmetic in range.
-/
namespace Dashu.Model.Conv
open Dashu Dashu.Model Dashu.Model.Float

theorem andThenFlag_some (f : Option Float.Rounding) (x : Float.Rounding) : andThenFlag f (some x) = some x := rfl

/-- overflow exit of `into_fNN_internal` -/
theorem intoFloatInternal_over (k : IntoConsts) (v : FRepr) (h : v.exp ≥ k.infExp) :
    intoFloatInternal k v =
      .ok (if v.signif < 0 then (k.F.signBit + k.F.infBits, some .SubOne) else (k.F.infBits, some .AddOne)) := by
  unfold intoFloatInternal
  by_cases hs : v.signif < 0 <;> simp [h, hs]

/-- underflow exit of `into_fNN_internal` -/
theorem intoFloatInternal_under (k : IntoConsts) (v : FRepr) (h1 : ¬ v.exp ≥ k.infExp) (h2 : v.exp < k.zeroExp) :
    intoFloatInternal k v = .ok ((if v.signif < 0 then k.F.signBit else 0), some .NoOp) := by
  unfold intoFloatInternal
  by_cases hs : v.signif < 0 <;> simp [h1, h2, hs]

/-- the first rounding (`repr_round_ref` to `p` bits, base 2) of a normalised significand longer than `p` bits keeps
    the sign, stays non-zero, never lowers the exponent and raises it by at most the bit length -/
theorem reprRound_two_long (m : Float.Mode) (c : Coarse) (hc : CoarseSound c) (p : Nat) (hp : 1 ≤ p) (s e : Int)
    (hodd : s % 2 = 1) (hlong : ¬ bitLen s.natAbs ≤ p) :
    ∃ (v : FRepr) (fl : Float.Rounding), reprRound 2 m c p ⟨s, e⟩ = (v, some fl) ∧
      (v.signif < 0 ↔ s < 0) ∧ e ≤ v.exp ∧ v.exp ≤ e + (bitLen s.natAbs : Int) := by
  rw [reprRound_two m c hc p hp s e hodd]
  simp only [hlong, if_false]
  have hs0 : s ≠ 0 := by intro h; subst h; simp at hodd
  have ha0 : s.natAbs ≠ 0 := by omega
  generalize hkk : bitLen s.natAbs - p = kk
  generalize hrm : roundMagMode (convMode m) (decide (s < 0)) s.natAbs (2 ^ kk) = rm
  have hb := roundMagMode_bounds (convMode m) (decide (s < 0)) s.natAbs (2 ^ kk)
  rw [hrm] at hb
  have hL : bitLen s.natAbs = kk + p := by omega
  have hlt : s.natAbs < 2 ^ (kk + p) := by rw [← hL]; exact bitLen_lt
  have hge : 2 ^ (bitLen s.natAbs - 1) ≤ s.natAbs := bitLen_le ha0
  have hkpos : 0 < 2 ^ kk := Nat.pow_pos (by decide)
  -- 1 ≤ a / 2^kk < 2^p
  have hq1 : 1 ≤ s.natAbs / 2 ^ kk := by
    rw [Nat.le_div_iff_mul_le hkpos, Nat.one_mul]
    have : 2 ^ kk ≤ 2 ^ (bitLen s.natAbs - 1) := Nat.pow_le_pow_right (by decide) (by omega)
    omega
  have hq2 : s.natAbs / 2 ^ kk < 2 ^ p := by
    rw [Nat.div_lt_iff_lt_mul hkpos, ← Nat.pow_add, Nat.add_comm]; exact hlt
  have hrm1 : 1 ≤ rm.1 := by omega
  have hrm2 : rm.1 ≤ 2 ^ p := by omega
  have hne : (if s < 0 then (-1 : Int) else 1) * (rm.1 : Int) ≠ 0 := by
    split <;> omega
  obtain ⟨z, hz1, hz2⟩ := new_decomp 2 ((if s < 0 then (-1 : Int) else 1) * (rm.1 : Int)) (e + (kk : Int)) hne
  refine ⟨_, _, rfl, ?_, ?_, ?_⟩
  · -- sign
    generalize (FRepr.new 2 ((if s < 0 then (-1 : Int) else 1) * (rm.1 : Int)) (e + (kk : Int))).signif = t at hz1
    have h2z : (0 : Int) < ((2 : Nat) : Int) ^ z := by positivity
    constructor
    · intro ht
      by_contra hns
      simp only [hns, if_false, Int.one_mul] at hz1
      have : t * ((2 : Nat) : Int) ^ z < 0 := Int.mul_neg_of_neg_of_pos ht h2z
      omega
    · intro hsn
      by_contra hnt
      simp only [hsn, if_true] at hz1
      have : 0 ≤ t * ((2 : Nat) : Int) ^ z := Int.mul_nonneg (by omega) (le_of_lt h2z)
      omega
  · rw [hz2]; omega
  · rw [hz2]
    -- 2^z ≤ rm.1 ≤ 2^p
    have hzp : z ≤ p := by
      have habs : rm.1 = (FRepr.new 2 ((if s < 0 then (-1 : Int) else 1) * (rm.1 : Int)) (e + (kk : Int))).signif.natAbs * 2 ^ z := by
        have := congrArg Int.natAbs hz1
        rw [Int.natAbs_mul, Int.natAbs_mul, Int.natAbs_pow] at this
        have e1 : (if s < 0 then (-1 : Int) else 1).natAbs = 1 := by split <;> rfl
        rw [e1, Nat.one_mul] at this
        simpa using this
      generalize (FRepr.new 2 ((if s < 0 then (-1 : Int) else 1) * (rm.1 : Int)) (e + (kk : Int))).signif.natAbs = ta at habs
      have hta : 1 ≤ ta := by
        rcases Nat.eq_zero_or_pos ta with h | h
        · rw [h, Nat.zero_mul] at habs; omega
        · exact h
      have h2 : 2 ^ z ≤ 2 ^ p := by
        calc 2 ^ z = 1 * 2 ^ z := (Nat.one_mul _).symm
          _ ≤ ta * 2 ^ z := Nat.mul_le_mul_right _ hta
          _ = rm.1 := habs.symm
          _ ≤ 2 ^ p := hrm2
      exact (Nat.pow_le_pow_iff_right (by decide : 1 < 2)).mp h2
    omega

/-- **the range test is unobservable** (base 2, normalised non-zero input `s·2^e`, `s` odd; every mode, both formats):
    `FBig::<R,2>::to_fNN` / `Repr::<2>::to_fNN` with the test in front return what the general path returns. -/
theorem fbigToFloatCode_eq (k : IntoConsts) (hk : IntoCompat k) (hinf : 0 ≤ k.infExp) (hzero : k.zeroExp ≤ 0)
    (m : Float.Mode) (c : Coarse) (hc : CoarseSound c) (s e : Int) (hodd : s % 2 = 1) :
    fbigToFloatCode k m c ⟨s, e⟩ = fbigToFloat k m c ⟨s, e⟩ := by
  have hp1 : 1 ≤ k.F.prec := by unfold Ieee.prec; omega
  have hs0 : s ≠ 0 := by intro h; subst h; simp at hodd
  unfold fbigToFloatCode rangeExit exponentOutOfRange Dashu.Gen.Conv.exponent_out_of_range
  simp only [hs0, decide_false, Bool.false_eq_true, if_false]
  by_cases h1 : e ≥ k.infExp
  · -- decided: overflow
    simp only [h1, if_true]
    unfold fbigToFloat
    rw [hk.prec]
    by_cases hfit : bitLen s.natAbs ≤ k.F.prec
    · rw [reprRound_two m c hc k.F.prec hp1 s e hodd]
      simp only [hfit, if_true]
      rw [intoFloatInternal_over k ⟨s, e⟩ h1]
      by_cases hs : s < 0 <;> simp [hs, andThenFlag]
    · obtain ⟨v, fl, hv, hsign, hlo, _⟩ := reprRound_two_long m c hc k.F.prec hp1 s e hodd hfit
      rw [hv]
      simp only
      rw [intoFloatInternal_over k v (by omega)]
      by_cases hs : s < 0
      · have := hsign.mpr hs; simp [hs, this, andThenFlag]
      · have : ¬ v.signif < 0 := fun h => hs (hsign.mp h); simp [hs, this, andThenFlag]
  · simp only [h1, if_false]
    by_cases h2 : e < 0 ∧ e < k.zeroExp - (bitLen s.natAbs : Int)
    · -- decided: underflow
      simp only [h2, and_self, if_true]
      unfold fbigToFloat
      rw [hk.prec]
      by_cases hfit : bitLen s.natAbs ≤ k.F.prec
      · rw [reprRound_two m c hc k.F.prec hp1 s e hodd]
        simp only [hfit, if_true]
        rw [intoFloatInternal_under k ⟨s, e⟩ h1 (by show e < k.zeroExp; omega)]
        by_cases hs : s < 0 <;> simp [hs, andThenFlag]
      · obtain ⟨v, fl, hv, hsign, _, hhi⟩ := reprRound_two_long m c hc k.F.prec hp1 s e hodd hfit
        rw [hv]
        simp only
        rw [intoFloatInternal_under k v (by omega) (by omega)]
        by_cases hs : s < 0
        · have := hsign.mpr hs; simp [hs, this, andThenFlag]
        · have : ¬ v.signif < 0 := fun h => hs (hsign.mp h); simp [hs, this, andThenFlag]
    · -- undecided: the general path itself
      simp only [h2, if_false]

/-- zero is never decided by the range test -/
theorem fbigToFloatCode_zero (k : IntoConsts) (m : Float.Mode) (c : Coarse) (e : Int) :
    fbigToFloatCode k m c ⟨0, e⟩ = fbigToFloat k m c ⟨0, e⟩ := by
  unfold fbigToFloatCode rangeExit exponentOutOfRange Dashu.Gen.Conv.exponent_out_of_range
  simp

/-- the exact-or-refused conversions inherit it -/
theorem fbigTryToFloatCode_eq (k : IntoConsts) (hk : IntoCompat k) (hinf : 0 ≤ k.infExp) (hzero : k.zeroExp ≤ 0)
    (c : Coarse) (hc : CoarseSound c) (s e : Int) (hodd : s % 2 = 1) :
    fbigTryToFloatCode k c ⟨s, e⟩ = fbigTryToFloat k c ⟨s, e⟩ := by
  unfold fbigTryToFloatCode fbigTryToFloat
  rw [fbigToFloatCode_eq k hk hinf hzero .halfEven c hc s e hodd]
  rfl

/-! ### the decided overflow is the REQUIRED result in every base -/

/-- the specification (single rounding of the exact rational value, any mode) of a float `s·B^e` of ANY base `B ≥ 2`
    with `e ≥ emax + 1` (128 / 1024 — the `Some(true)` arm of the range test) is `±∞`, flagged above (`+`) resp. below
    (`−`) the exact value: `|s|·B^e ≥ 2^e`.  Also the
    justification of the driver's exponent clamp on the overflow side: the required bits do not depend on `e`. -/
theorem spec_over_any_base (F : Ieee) (hF : F.Ok) (B : Nat) (hB : 2 ≤ B) (mode : Mode) (s e : Int) (hs : s ≠ 0)
    (he : F.emax + 1 ≤ e) :
    ieeeRoundRat F mode (floatAsRat B s e).1 (floatAsRat B s e).2 =
      ((if s < 0 then F.signBit else 0) + F.infBits, Flag.pos.flipIf (decide (s < 0))) := by
  have hemax : 0 ≤ F.emax := by
    unfold Ieee.emax Ieee.bias
    have : (0 : Int) < 2 ^ (F.EB - 1) := by positivity
    omega
  have he0 : e ≥ 0 := by omega
  obtain ⟨n, rfl⟩ : ∃ n : Nat, e = n := ⟨e.toNat, by omega⟩
  unfold floatAsRat
  simp only [he0, if_true, Int.toNat_natCast]
  have hB0 : (0 : Int) < (B : Int) := by exact_mod_cast (by omega : 0 < B)
  have hBn : (0 : Int) < (B : Int) ^ n := pow_pos hB0 n
  have hnum : s * (B : Int) ^ n ≠ 0 := mul_ne_zero hs (ne_of_gt hBn)
  have hneg : (s * (B : Int) ^ n < 0) ↔ s < 0 := by
    constructor
    · intro h
      by_contra hh
      have : 0 ≤ s * (B : Int) ^ n := mul_nonneg (by omega) (le_of_lt hBn)
      omega
    · intro h; exact mul_neg_of_neg_of_pos h hBn
  unfold ieeeRoundRat
  simp only [hnum, if_false, hneg]
  have ha : (s * (B : Int) ^ n).natAbs ≠ 0 := by omega
  have h1 := ieeeRoundRatMag_dyadic_M F mode (decide (s < 0)) (s * (B : Int) ^ n).natAbs 0 ha
  simp only [Nat.pow_zero] at h1
  rw [h1]
  have hge : 2 ^ n ≤ (s * (B : Int) ^ n).natAbs := by
    rw [Int.natAbs_mul, Int.natAbs_pow, Int.natAbs_natCast]
    calc 2 ^ n ≤ B ^ n := Nat.pow_le_pow_left hB n
      _ = 1 * B ^ n := (Nat.one_mul _).symm
      _ ≤ s.natAbs * B ^ n := Nat.mul_le_mul_right _ (by omega)
  have hbl : n + 1 ≤ bitLen (s * (B : Int) ^ n).natAbs := by
    by_contra hc
    have h2 : (s * (B : Int) ^ n).natAbs < 2 ^ bitLen (s * (B : Int) ^ n).natAbs := bitLen_lt
    have h3 : 2 ^ bitLen (s * (B : Int) ^ n).natAbs ≤ 2 ^ n := Nat.pow_le_pow_right (by decide) (by omega)
    omega
  rw [ieeeRoundMagM_over F hF mode _ _ _ ha (by push_cast; omega)]
  by_cases hsn : s < 0 <;> simp [hsn]

/-- **the `Some(true)` arm returns the required result** — every base `B ≥ 2`, every mode, both formats: bits `±∞`,
    and the label `AddOne` (positive: result above the exact value, `Flag.pos`) / `SubOne` (negative: below, `Flag.neg`)
    is the truthful one -/
theorem rangeExit_over_required (k : IntoConsts) (hk : IntoCompat k) (B : Nat) (hB : 2 ≤ B) (mode : Mode) (s e : Int)
    (hs : s ≠ 0) (h : exponentOutOfRange ⟨s, e⟩ k.infExp k.zeroExp = some true) :
    rangeExit k ⟨s, e⟩ =
        some (if s < 0 then (k.F.signBit + k.F.infBits, some .SubOne) else (k.F.infBits, some .AddOne)) ∧
      ieeeRoundRat k.F mode (floatAsRat B s e).1 (floatAsRat B s e).2 =
        ((if s < 0 then k.F.signBit else 0) + k.F.infBits, Flag.pos.flipIf (decide (s < 0))) := by
  have he : e ≥ k.infExp := by
    unfold exponentOutOfRange Dashu.Gen.Conv.exponent_out_of_range at h
    simp only [hs, decide_false, Bool.false_eq_true, if_false] at h
    by_contra hc
    simp only [hc, if_false] at h
    split at h <;> simp at h
  constructor
  · unfold rangeExit
    rw [h]
  · exact spec_over_any_base k.F hk.enc.ok B hB mode s e hs (by have := hk.inf; omega)

/-! ### the decided underflow is the REQUIRED result in every base (modes that do not round a tiny value away from zero) -/

/-- the specification (single rounding of the exact rational value) of a float `s·B^e` of ANY base `B ≥ 2` with
    `e < 0 ∧ e < (qmin − prec) − bit_len s` (the `Some(false)` arm of the range test) is `±0`, flagged toward zero, in
    the modes `HalfEven` (every `to_f64`, `Repr::to_f32`), `HalfAway` and `Zero`: `|s|·B^e < 2^(bit_len + e) <
    2^(qmin − prec) ≤ 2^(qmin − 1)`, below half of the least subnormal.  Also the justification of the driver's exponent
    clamp on the underflow side for these modes. -/
theorem spec_under_any_base (F : Ieee) (hF : F.Ok) (B : Nat) (hB : 2 ≤ B) (mode : Mode)
    (hm : mode = .halfEven ∨ mode = .halfAway ∨ mode = .zero) (s e : Int) (hs : s ≠ 0)
    (he0 : e < 0) (he : e < F.qmin - F.prec - (bitLen s.natAbs : Int)) :
    ieeeRoundRat F mode (floatAsRat B s e).1 (floatAsRat B s e).2 =
      ((if s < 0 then F.signBit else 0), Flag.neg.flipIf (decide (s < 0))) := by
  have hFB := F.B_ge hF
  have hqm := F.qmin_eq
  have hprec : 1 ≤ F.prec := by unfold Ieee.prec; omega
  obtain ⟨n, hn⟩ : ∃ n : Nat, e = -(n : Int) := ⟨(-e).toNat, by omega⟩
  subst hn
  obtain ⟨g, hg⟩ : ∃ g : Nat, F.qmin = -(g : Int) := ⟨(-F.qmin).toNat, by omega⟩
  have hne0 : ¬ (-(n : Int) ≥ 0) := by omega
  unfold floatAsRat
  simp only [hne0, if_false, neg_neg, Int.toNat_natCast]
  unfold ieeeRoundRat
  simp only [hs, if_false]
  have ha : s.natAbs ≠ 0 := by omega
  generalize hL : bitLen s.natAbs = L at he
  have haL : s.natAbs < 2 ^ L := by rw [← hL]; exact bitLen_lt
  -- b = B^n ≥ 2^n, so bitLen b ≥ n + 1
  have hbn : 2 ^ n ≤ B ^ n := Nat.pow_le_pow_left hB n
  have hblb : n + 1 ≤ bitLen (B ^ n) := by
    by_contra hc
    have h2 : B ^ n < 2 ^ bitLen (B ^ n) := bitLen_lt
    have h3 : 2 ^ bitLen (B ^ n) ≤ 2 ^ n := Nat.pow_le_pow_right (by decide) (by omega)
    omega
  -- the binade is far below the subnormal range: q = qmin
  have htop : ratTop s.natAbs (B ^ n) ≤ (L : Int) - n := by
    unfold ratTop
    rw [hL]
    simp only
    split <;> omega
  have hq : max (ratTop s.natAbs (B ^ n) - F.prec) F.qmin = F.qmin := by omega
  unfold ieeeRoundRatMag
  simp only [hq]
  have e1 : (-F.qmin).toNat = g := by omega
  have e2 : F.qmin.toNat = 0 := by omega
  have e3 : (F.qmin - F.qmin).toNat = 0 := by omega
  rw [e1, e2, e3]
  simp only [Nat.pow_zero, Nat.mul_one, Nat.zero_mul, Nat.zero_add]
  -- 2·num < den
  have hlt : 2 * (s.natAbs * 2 ^ g) < B ^ n := by
    have h1 : 2 * (s.natAbs * 2 ^ g) < 2 ^ (L + g + 1) := by
      have : s.natAbs * 2 ^ g < 2 ^ L * 2 ^ g := Nat.mul_lt_mul_of_pos_right haL (Nat.two_pow_pos g)
      rw [Nat.pow_succ, Nat.pow_add]; omega
    have h2 : 2 ^ (L + g + 1) ≤ 2 ^ n := Nat.pow_le_pow_right (by decide) (by omega)
    omega
  have hnum0 : s.natAbs * 2 ^ g ≠ 0 := Nat.mul_ne_zero ha (by positivity)
  have hdiv : s.natAbs * 2 ^ g / B ^ n = 0 := Nat.div_eq_of_lt (by omega)
  have hmod : s.natAbs * 2 ^ g % B ^ n = s.natAbs * 2 ^ g := Nat.mod_eq_of_lt (by omega)
  have hrm : roundMagMode mode (decide (s < 0)) (s.natAbs * 2 ^ g) (B ^ n) = (0, false) := by
    unfold roundMagMode
    simp only [hdiv, hmod, hnum0, if_false]
    have c1 : ¬ (B ^ n < 2 * (s.natAbs * 2 ^ g)) := by omega
    have c2 : ¬ (2 * (s.natAbs * 2 ^ g) = B ^ n) := by omega
    have c3 : ¬ (B ^ n ≤ 2 * (s.natAbs * 2 ^ g)) := by omega
    rcases hm with rfl | rfl | rfl <;> simp [c1, c2, c3]
  rw [hrm]
  simp only [Nat.zero_mul]
  have hpos : ¬ (2 ^ (F.emax + 1 - F.qmin).toNat ≤ 0) := by
    have : 0 < 2 ^ (F.emax + 1 - F.qmin).toNat := Nat.two_pow_pos _
    omega
  simp only [hpos, if_false]
  have hfl : flagOf 0 (B ^ n) (s.natAbs * 2 ^ g) = .neg := by
    unfold flagOf
    have : ¬ (0 * B ^ n = s.natAbs * 2 ^ g) := by omega
    have h' : ¬ (s.natAbs * 2 ^ g < 0 * B ^ n) := by omega
    simp only [this, h', if_false]
  rw [hfl]
  by_cases hsn : s < 0 <;> simp [hsn]

/-- **the `Some(false)` arm returns the required result** in `HalfEven` / `HalfAway` / `Zero` — every base `B ≥ 2`, both
    formats: bits `±0`, label `NoOp` (toward zero: the magnitude shrank, `Flag.neg` on the magnitude) -/
theorem rangeExit_under_required (k : IntoConsts) (hk : IntoCompat k) (B : Nat) (hB : 2 ≤ B) (mode : Mode)
    (hm : mode = .halfEven ∨ mode = .halfAway ∨ mode = .zero) (s e : Int)
    (hs : s ≠ 0) (h : exponentOutOfRange ⟨s, e⟩ k.infExp k.zeroExp = some false) :
    rangeExit k ⟨s, e⟩ = some ((if s < 0 then k.F.signBit else 0), some .NoOp) ∧
      ieeeRoundRat k.F mode (floatAsRat B s e).1 (floatAsRat B s e).2 =
        ((if s < 0 then k.F.signBit else 0), Flag.neg.flipIf (decide (s < 0))) := by
  have he : e < 0 ∧ e < k.zeroExp - (bitLen s.natAbs : Int) := by
    unfold exponentOutOfRange Dashu.Gen.Conv.exponent_out_of_range at h
    simp only [hs, decide_false, Bool.false_eq_true, if_false] at h
    split at h
    · simp at h
    · split at h
      · rename_i _ hcond; simpa using hcond
      · simp at h
  constructor
  · unfold rangeExit
    rw [h]
  · exact spec_under_any_base k.F hk.enc.ok B hB mode hm s e hs he.1 (by have := hk.zero; omega)

end Dashu.Model.Conv
