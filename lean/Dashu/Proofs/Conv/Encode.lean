import Dashu.Proofs.Conv.Spec
/-
  C06 — `encode` (repaired constants and subnormal branch) computes the IEEE specification,
  for every format whose constants are `Compatible` (in particular `f32Fixed`, `f64Fixed`).
-/
namespace Dashu.Model.Conv

/-- the relations between the literal constants of an `encode` body and the format that make it
    correct -/
structure Compatible (c : EncConsts) (F : Ieee) : Prop where
  ok : F.Ok
  hN : c.N = F.EB + F.MB + 1
  ovf : c.ovf = F.emax + 1
  unf : c.unf = F.qmin
  subTop : c.subTop = F.emin + 1 ∨ c.subTop = F.emin
  subAdd : c.subAdd = -F.qmin
  bias : c.bias = F.bias
  mantShr : c.mantShr = F.EB + 1
  rbShr : c.rbShr + 2 = c.mantShr
  sticky : c.stickyMask = 2 ^ (c.rbShr + 1) - 1
  expShl : c.expShl = F.MB
  signShl : c.signShl = F.EB + F.MB
  inf : c.inf = F.infBits

theorem f32Fixed_compatible : Compatible f32Fixed .binary32 := by
  refine ⟨Ieee.binary32_ok, ?_, ?_, ?_, ?_, ?_, ?_, ?_, ?_, ?_, ?_, ?_, ?_⟩ <;> decide

theorem f64Fixed_compatible : Compatible f64Fixed .binary64 := by
  refine ⟨Ieee.binary64_ok, ?_, ?_, ?_, ?_, ?_, ?_, ?_, ?_, ?_, ?_, ?_, ?_⟩ <;> decide

theorem shl_or (x i y : Nat) (h : y < 2 ^ i) : (x <<< i) ||| y = x * 2 ^ i + y := by
  rw [← Nat.shiftLeft_add_eq_or_of_lt h, Nat.shiftLeft_eq]

/-- `mantissa <<= zeros + 1` drops the top bit and left-aligns the rest -/
theorem norm_mant (N a : Nat) (ha : a ≠ 0) (hL : bitLen a ≤ N) :
    (if a = 1 then 0 else (a <<< (N - bitLen a + 1)) % 2 ^ N) =
      (a - 2 ^ (bitLen a - 1)) * 2 ^ (N - bitLen a + 1) := by
  have h1 := bitLen_pos ha
  have hge := bitLen_le ha
  have hlt := @bitLen_lt a
  have hp : 2 ^ bitLen a = 2 * 2 ^ (bitLen a - 1) := by
    conv_lhs => rw [show bitLen a = (bitLen a - 1) + 1 by omega, pow_succ]
    ring
  have key : (a <<< (N - bitLen a + 1)) % 2 ^ N = (a - 2 ^ (bitLen a - 1)) * 2 ^ (N - bitLen a + 1) := by
    rw [Nat.shiftLeft_eq]
    have hN : 2 ^ N = 2 ^ (bitLen a - 1) * 2 ^ (N - bitLen a + 1) := by
      rw [← pow_add]; congr 1; omega
    have : a * 2 ^ (N - bitLen a + 1) =
        (a - 2 ^ (bitLen a - 1)) * 2 ^ (N - bitLen a + 1) + 2 ^ N * 1 := by
      rw [hN, Nat.mul_one, ← Nat.add_mul]; congr 1; omega
    rw [this, Nat.add_mul_mod_self_left]
    apply Nat.mod_eq_of_lt
    rw [hN]
    apply Nat.mul_lt_mul_of_pos_right _ (Nat.two_pow_pos _)
    omega
  split
  · rename_i h; subst h
    have : bitLen 1 = 1 := by decide
    simp [this]
  · exact key

/-- magnitude and sign assembled: what every branch has to produce -/
def attachSign (F : Ieee) (sign : Nat) (r : Nat × Flag) : Nat × Flag :=
  (sign * 2 ^ (F.EB + F.MB) + r.1, r.2.flipIf (decide (sign > 0)))

theorem encodeNormal_correct (c : EncConsts) (F : Ieee) (hc : Compatible c F) (sign a w : Nat) (e : Int)
    (_hs : sign < 2) (ha : a ≠ 0) (hL : bitLen a ≤ c.N)
    (ht : (bitLen a : Int) + e = F.qmin + F.prec + w) (hw : w + 3 ≤ 2 * F.B) :
    encodeNormal c sign a (c.N - bitLen a) e = attachSign F sign (ieeeRoundMag F a e) := by
  have hok := hc.ok
  have hB := F.B_ge hok
  have hEB := hok.hEB
  have hMB := hok.hMB
  have hN := hc.hN
  have hL1 := bitLen_pos ha
  have hge := bitLen_le ha
  have hlt := @bitLen_lt a
  have hprec : F.prec = F.MB + 1 := rfl
  -- exponent field
  have hexpo : (e + c.bias + c.N).toNat - (c.N - bitLen a) - 1 = w + 1 := by
    rw [hc.bias, F.bias_eq]
    have := F.qmin_eq
    omega
  unfold encodeNormal
  simp only [hexpo, norm_mant c.N a ha hL, hc.mantShr, hc.expShl, hc.signShl, hc.sticky,
    Nat.and_two_pow_sub_one_eq_mod, Nat.shiftRight_eq_div_pow]
  have hrb : c.rbShr = F.EB - 1 := by have := hc.rbShr; have := hc.mantShr; omega
  rw [hrb, show F.EB - 1 + 1 = F.EB by omega]
  generalize hg : a - 2 ^ (bitLen a - 1) = g
  have hglt : g < 2 ^ (bitLen a - 1) := by
    have : 2 ^ bitLen a = 2 * 2 ^ (bitLen a - 1) := by
      conv_lhs => rw [show bitLen a = (bitLen a - 1) + 1 by omega, pow_succ]
      ring
    omega
  have hag : a = 2 ^ (bitLen a - 1) + g := by omega
  by_cases hcase : bitLen a ≤ F.prec
  · -- exact: no bit is discarded
    obtain ⟨j, hj⟩ : ∃ j, bitLen a + j = F.prec := ⟨F.prec - bitLen a, by omega⟩
    rw [spec_norm_exact F hok a j w e hj ht hw]
    have hsh : c.N - bitLen a + 1 = j + (F.EB + 1) := by omega
    have hm : g * 2 ^ (c.N - bitLen a + 1) = (g * 2 ^ j) * 2 ^ (F.EB + 1) := by
      rw [hsh, pow_add]; ring
    rw [hm]
    have hfr : g * 2 ^ j * 2 ^ (F.EB + 1) / 2 ^ (F.EB + 1) = g * 2 ^ j :=
      Nat.mul_div_cancel _ (Nat.two_pow_pos _)
    have hu : g * 2 ^ j * 2 ^ (F.EB + 1) / 2 ^ (F.EB - 1) = 4 * (g * 2 ^ j) := by
      have : 2 ^ (F.EB + 1) = 4 * 2 ^ (F.EB - 1) := by
        rw [show F.EB + 1 = (F.EB - 1) + 2 by omega, pow_add]; ring
      rw [this, show g * 2 ^ j * (4 * 2 ^ (F.EB - 1)) = 4 * (g * 2 ^ j) * 2 ^ (F.EB - 1) by ring]
      exact Nat.mul_div_cancel _ (Nat.two_pow_pos _)
    have hst : g * 2 ^ j * 2 ^ (F.EB + 1) % 2 ^ F.EB = 0 := by
      rw [show F.EB + 1 = 1 + F.EB by omega, pow_add, ← Nat.mul_assoc]
      exact Nat.mul_mod_left _ _
    rw [hfr, hu, hst]
    simp only [ne_eq, not_true_eq_false, if_false]
    generalize hfrdef : g * 2 ^ j = fr
    have hfrlt : fr < 2 ^ F.MB := by
      rw [← hfrdef]
      calc g * 2 ^ j < 2 ^ (bitLen a - 1) * 2 ^ j := Nat.mul_lt_mul_of_pos_right hglt (Nat.two_pow_pos _)
        _ = 2 ^ F.MB := by rw [← pow_add]; congr 1; omega
    rw [roundBits_eq _ 0 (by decide)]
    have h4 : 4 * fr / 4 = fr := by omega
    have h2 : 4 * fr / 2 % 2 = 0 := by omega
    rw [h4, h2]
    -- bits
    have hexl : (w + 1) <<< F.MB < 2 ^ (F.EB + F.MB) := by
      rw [Nat.shiftLeft_eq, Nat.add_comm F.EB, pow_add, Nat.mul_comm]
      apply Nat.mul_lt_mul_of_pos_left _ (Nat.two_pow_pos _)
      rw [F.two_B hok]; omega
    have hb1 : (sign <<< (F.EB + F.MB)) ||| ((w + 1) <<< F.MB) =
        (sign * 2 ^ F.EB + (w + 1)) <<< F.MB := by
      rw [shl_or _ _ _ hexl, Nat.shiftLeft_eq, Nat.shiftLeft_eq, pow_add]; ring
    rw [hb1, shl_or _ _ _ hfrlt]
    rw [finish_round sign _ fr 0 0 (by decide) (by decide)]
    unfold attachSign roundByBits
    simp only [and_self, if_true, flipIf_exact]
    refine Prod.ext ?_ rfl
    simp only
    have : a * 2 ^ j = 2 ^ F.MB + fr := by
      rw [hag, ← hfrdef, Nat.add_mul, ← pow_add]; congr 2; omega
    rw [this, pow_add]; ring
  · -- k ≥ 1 bits are discarded
    obtain ⟨k, hk⟩ : ∃ k, bitLen a = F.prec + k := ⟨bitLen a - F.prec, by omega⟩
    have hk1 : 1 ≤ k := by omega
    have hkE : k ≤ F.EB := by omega
    rw [spec_norm_round F hok a k w e hk hk1 ht hw]
    obtain ⟨s, hs'⟩ : ∃ s, c.N - bitLen a + 1 = s := ⟨_, rfl⟩
    have hsk : s + k = F.EB + 1 := by omega
    rw [hs']
    have hfr : g * 2 ^ s / 2 ^ (F.EB + 1) = g / 2 ^ k := by
      rw [← hsk, pow_add, Nat.mul_comm (2 ^ s), Nat.mul_div_mul_right _ _ (Nat.two_pow_pos _)]
    have hu : g * 2 ^ s / 2 ^ (F.EB - 1) = 4 * g / 2 ^ k := by
      have e1 : g * 2 ^ s / 2 ^ (F.EB - 1) = (g * 2 ^ s * 4) / (2 ^ (F.EB - 1) * 4) :=
        (Nat.mul_div_mul_right _ _ (by decide : 0 < 4)).symm
      have e2 : 2 ^ (F.EB - 1) * 4 = 2 ^ k * 2 ^ s := by
        rw [← pow_add, show (4 : Nat) = 2 ^ 2 by rfl, ← pow_add]; congr 1; omega
      rw [e1, e2, show g * 2 ^ s * 4 = 4 * g * 2 ^ s by ring,
        Nat.mul_div_mul_right _ _ (Nat.two_pow_pos _)]
    have hst : g * 2 ^ s % 2 ^ F.EB = g % 2 ^ (k - 1) * 2 ^ s := by
      rw [show F.EB = (k - 1) + s by omega, pow_add, Nat.mul_mod_mul_right]
    rw [hfr, hu, hst]
    have hstb : (if g % 2 ^ (k - 1) * 2 ^ s ≠ 0 then 1 else 0) = (if g % 2 ^ (k - 1) = 0 then 0 else 1) := by
      have hp : 0 < 2 ^ s := Nat.two_pow_pos _
      by_cases h0 : g % 2 ^ (k - 1) = 0
      · simp [h0]
      · have : g % 2 ^ (k - 1) * 2 ^ s ≠ 0 := Nat.mul_ne_zero h0 (by omega)
        simp [h0, this]
    rw [hstb]
    obtain ⟨hx1, hx2, -⟩ := two_extra_bits g k hk1
    generalize hstdef : (if g % 2 ^ (k - 1) = 0 then 0 else 1) = st
    have hst2 : st < 2 := by rw [← hstdef]; split <;> decide
    rw [roundBits_eq _ st hst2, hx1, hx2]
    generalize hfrdef : g / 2 ^ k = fr
    generalize hrbdef : g / 2 ^ (k - 1) % 2 = rb
    have hrb2 : rb < 2 := by rw [← hrbdef]; exact Nat.mod_lt _ (by decide)
    have hfrlt : fr < 2 ^ F.MB := by
      rw [← hfrdef, Nat.div_lt_iff_lt_mul (Nat.two_pow_pos k), ← pow_add]
      have : F.MB + k = bitLen a - 1 := by omega
      rw [this]; exact hglt
    have hexl : (w + 1) <<< F.MB < 2 ^ (F.EB + F.MB) := by
      rw [Nat.shiftLeft_eq, Nat.add_comm F.EB, pow_add, Nat.mul_comm]
      apply Nat.mul_lt_mul_of_pos_left _ (Nat.two_pow_pos _)
      rw [F.two_B hok]; omega
    have hb1 : (sign <<< (F.EB + F.MB)) ||| ((w + 1) <<< F.MB) =
        (sign * 2 ^ F.EB + (w + 1)) <<< F.MB := by
      rw [shl_or _ _ _ hexl, Nat.shiftLeft_eq, Nat.shiftLeft_eq, pow_add]; ring
    rw [hb1, shl_or _ _ _ hfrlt]
    rw [finish_round sign _ fr rb st hrb2 hst2]
    -- the spec side in the same (kept, round, sticky) form
    have hpow : 2 ^ (bitLen a - 1) = 2 ^ F.MB * 2 ^ k := by
      rw [← pow_add]; congr 1; omega
    have hak : a / 2 ^ k = 2 ^ F.MB + fr := by
      rw [hag, hpow, Nat.add_comm, Nat.add_mul_div_right _ _ (Nat.two_pow_pos k), hfrdef, Nat.add_comm]
    have hark : a / 2 ^ (k - 1) % 2 = rb := by
      have : 2 ^ (bitLen a - 1) = (2 ^ F.MB * 2) * 2 ^ (k - 1) := by
        rw [hpow, show 2 ^ k = 2 * 2 ^ (k - 1) by
          conv_lhs => rw [show k = (k - 1) + 1 by omega, pow_succ]
          ring]
        ring
      rw [hag, this, Nat.add_comm, Nat.add_mul_div_right _ _ (Nat.two_pow_pos _), ← hrbdef]
      omega
    have hamod : a % 2 ^ (k - 1) = g % 2 ^ (k - 1) := by
      have : 2 ^ (bitLen a - 1) = 2 ^ (k - 1) * (2 ^ F.MB * 2) := by
        rw [hpow, show 2 ^ k = 2 * 2 ^ (k - 1) by
          conv_lhs => rw [show k = (k - 1) + 1 by omega, pow_succ]
          ring]
        ring
      rw [hag, this, Nat.mul_add_mod]
    have hsp := rneDiv_pow a k hk1
    rw [hak, hark, hamod, hstdef] at hsp
    have heven : 2 ^ F.MB % 2 = 0 := by
      rw [show F.MB = (F.MB - 1) + 1 by omega, pow_succ]; omega
    rw [roundByBits_add_even _ _ _ _ heven] at hsp
    have h1 := congrArg Prod.fst hsp
    have h2 := congrArg Prod.snd hsp
    simp only at h1 h2
    unfold attachSign
    rw [h2, h1]
    refine Prod.ext ?_ rfl
    simp only
    rw [pow_add]; ring

theorem finish_zero (sign bits : Nat) : finish sign bits 0 = (bits, .exact) := by
  simp [finish]

theorem infBits_lt (F : Ieee) (h : F.Ok) : F.infBits < 2 ^ (F.EB + F.MB) := by
  unfold Ieee.infBits
  rw [pow_add]
  apply Nat.mul_lt_mul_of_pos_right _ (Nat.two_pow_pos _)
  have := Nat.two_pow_pos F.EB
  omega

/-- the subnormal branch of the repaired `encode`, `k ≥ 1` bits shifted out -/
theorem subRound_correct (F : Ieee) (hok : F.Ok) (sign a k : Nat) (e : Int)
    (he : e + k = F.qmin) (hk : 1 ≤ k) (hL : bitLen a ≤ F.prec + k) (ha2 : a ≤ 2 ^ (F.EB + F.MB)) :
    (let wide := a <<< 2
     let q := wide >>> k
     let sticky : Nat := if q &&& 1 ≠ 0 ∨ wide &&& ((1 <<< k) - 1) ≠ 0 then 1 else 0
     finish sign ((sign <<< (F.EB + F.MB)) ||| (q >>> 2)) ((q &&& 0b110) ||| sticky)) =
      attachSign F sign (ieeeRoundMag F a e) := by
  rw [spec_sub_round F hok a k e he hk hL]
  simp only [Nat.and_one_is_mod, Nat.one_shiftLeft, Nat.and_two_pow_sub_one_eq_mod,
    Nat.shiftRight_eq_div_pow]
  have hw : a <<< 2 = 4 * a := by rw [Nat.shiftLeft_eq]; omega
  rw [hw]
  obtain ⟨hx1, hx2, hx3⟩ := two_extra_bits a k hk
  have hst : (if 4 * a / 2 ^ k % 2 ≠ 0 ∨ 4 * a % 2 ^ k ≠ 0 then 1 else 0) =
      (if a % 2 ^ (k - 1) = 0 then 0 else 1) := by
    by_cases h0 : a % 2 ^ (k - 1) = 0
    · have : ¬ (4 * a / 2 ^ k % 2 ≠ 0 ∨ 4 * a % 2 ^ k ≠ 0) := by rw [hx3]; simp [h0]
      rw [if_neg this, if_pos h0]
    · have : 4 * a / 2 ^ k % 2 ≠ 0 ∨ 4 * a % 2 ^ k ≠ 0 := by rw [hx3]; exact h0
      rw [if_pos this, if_neg h0]
  rw [hst]
  generalize hstdef : (if a % 2 ^ (k - 1) = 0 then 0 else 1) = st
  have hst2 : st < 2 := by rw [← hstdef]; split <;> decide
  rw [roundBits_eq _ st hst2]
  have h22 : (2 : Nat) ^ 2 = 4 := by decide
  rw [h22, hx1, hx2]
  have hkept : a / 2 ^ k < 2 ^ (F.EB + F.MB) := by
    have h2k : 2 ≤ 2 ^ k := by
      calc 2 = 2 ^ 1 := rfl
        _ ≤ 2 ^ k := pow_le_pow2 hk
    have hp := Nat.two_pow_pos (F.EB + F.MB)
    have : a / 2 ^ k ≤ a / 2 := Nat.div_le_div_left h2k (by decide)
    omega
  rw [shl_or _ _ _ hkept]
  rw [finish_round sign _ _ _ st (Nat.mod_lt _ (by decide)) hst2]
  have hsp := rneDiv_pow a k hk
  rw [hstdef] at hsp
  unfold attachSign
  rw [← hsp]

/-- **encode_correct** (generic): with compatible constants the repaired `encode` returns the
    IEEE round-to-nearest-even result and the sign of the error, for every mantissa that fits the
    signed mantissa type and EVERY exponent. -/
theorem encodeFixed_correct (c : EncConsts) (F : Ieee) (hc : Compatible c F) (m e : Int)
    (hm : m.natAbs ≤ 2 ^ (c.N - 1)) :
    encodeFixed c m e = .ok (ieeeRound F m e) := by
  have hok := hc.ok
  have hB := F.B_ge hok
  have hEB := hok.hEB
  have hMB := hok.hMB
  have hN := hc.hN
  unfold encodeFixed ieeeRound
  by_cases hm0 : m = 0
  · simp [hm0]
  simp only [hm0, if_false]
  have ha : m.natAbs ≠ 0 := by omega
  generalize hadef : m.natAbs = a at *
  have haN : a ≤ 2 ^ (F.EB + F.MB) := by rw [hN] at hm; simpa using hm
  have haN' : a < 2 ^ c.N := by
    rw [hN, pow_succ]; have := Nat.two_pow_pos (F.EB + F.MB); omega
  have hL : bitLen a ≤ c.N := bitLen_le_of_lt haN'
  have hL1 := bitLen_pos ha
  have hzz : c.N - (c.N - bitLen a) = bitLen a := by omega
  rw [hzz]
  -- the sign
  generalize hsdef : (if m < 0 then (1 : Nat) else 0) = sign
  have hs2 : sign < 2 := by rw [← hsdef]; split <;> decide
  have hspec : ((if m < 0 then F.signBit else 0) + (ieeeRoundMag F a e).1,
      (ieeeRoundMag F a e).2.flipIf (decide (m < 0))) = attachSign F sign (ieeeRoundMag F a e) := by
    unfold attachSign Ieee.signBit
    rw [← hsdef]
    by_cases hneg : m < 0 <;> simp [hneg]
  rw [hspec]
  have hqm := F.qmin_eq
  have hem := F.emax_eq
  have hen := F.emin_eq
  have hprec : F.prec = F.MB + 1 := rfl
  have hinf := infBits_lt F hok
  have hsgn : sign = 0 ∨ sign = 1 := by omega
  by_cases hov : (bitLen a : Int) + e > c.ovf
  · -- overflow
    simp only [hov, if_true]
    rw [spec_over F hok a e ha (by rw [hc.ovf] at hov; omega), hc.inf, hc.signShl]
    rcases hsgn with rfl | rfl
    · simp [attachSign, Flag.flipIf]
    · simp only [one_ne_zero, if_false]
      rw [shl_or _ _ _ hinf]
      simp [attachSign, Flag.flipIf]
  simp only [hov, if_false]
  by_cases hun : (bitLen a : Int) + e < c.unf
  · -- underflow
    simp only [hun, if_true]
    rw [spec_under F hok a e ha (by rw [hc.unf] at hun; omega), hc.signShl]
    rcases hsgn with rfl | rfl
    · simp [attachSign, Flag.flipIf]
    · simp [attachSign, Flag.flipIf, Nat.shiftLeft_eq]
  simp only [hun, if_false]
  rw [hc.unf] at hun
  rw [hc.ovf] at hov
  by_cases hsub : (bitLen a : Int) + e ≤ c.subTop
  · simp only [hsub, if_true]
    have hsub' : (bitLen a : Int) + e ≤ F.emin + 1 := by
      rcases hc.subTop with h | h <;> omega
    rw [hc.subAdd, hc.signShl]
    by_cases hsh : e + -F.qmin ≥ 0
    · simp only [hsh, if_true]
      obtain ⟨j, hj⟩ : ∃ j : Nat, e = F.qmin + j := ⟨(e - F.qmin).toNat, by omega⟩
      have hjt : (e + -F.qmin).toNat = j := by omega
      rw [hjt, spec_sub_exact F hok a j e hj (by omega), finish_zero, Nat.shiftLeft_eq a j]
      have hlt : a * 2 ^ j < 2 ^ (F.EB + F.MB) := by
        calc a * 2 ^ j < 2 ^ bitLen a * 2 ^ j :=
              Nat.mul_lt_mul_of_pos_right bitLen_lt (Nat.two_pow_pos j)
          _ = 2 ^ (bitLen a + j) := by rw [pow_add]
          _ ≤ 2 ^ (F.EB + F.MB) := pow_le_pow2 (by omega)
      rw [shl_or _ _ _ hlt]
      simp [attachSign, flipIf_exact]
    · simp only [hsh, if_false]
      obtain ⟨k, hk⟩ : ∃ k : Nat, e + k = F.qmin := ⟨(F.qmin - e).toNat, by omega⟩
      have hkt : (-(e + -F.qmin)).toNat = k := by omega
      rw [hkt]
      have := subRound_correct F hok sign a k e hk (by omega) (by omega) haN
      simp only at this
      rw [this]
  · simp only [hsub, if_false]
    have hsub' : F.emin ≤ (bitLen a : Int) + e - 1 := by
      rcases hc.subTop with h | h <;> omega
    obtain ⟨w, hw⟩ : ∃ w : Nat, (bitLen a : Int) + e = F.qmin + F.prec + w :=
      ⟨((bitLen a : Int) + e - F.qmin - F.prec).toNat, by omega⟩
    rw [encodeNormal_correct c F hc sign a w e hs2 ha hL hw (by omega)]

theorem f32_encode_correct (m e : Int) (hm : -2 ^ 31 ≤ m ∧ m < 2 ^ 31) :
    encodeFixed f32Fixed m e = .ok (ieeeRound .binary32 m e) :=
  encodeFixed_correct f32Fixed .binary32 f32Fixed_compatible m e (by
    show m.natAbs ≤ 2 ^ 31; omega)

theorem f64_encode_correct (m e : Int) (hm : -2 ^ 63 ≤ m ∧ m < 2 ^ 63) :
    encodeFixed f64Fixed m e = .ok (ieeeRound .binary64 m e) :=
  encodeFixed_correct f64Fixed .binary64 f64Fixed_compatible m e (by
    show m.natAbs ≤ 2 ^ 63; omega)

end Dashu.Model.Conv
