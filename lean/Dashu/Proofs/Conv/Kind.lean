import Dashu.Model.Conv.Base
import Dashu.Proofs.Conv.TryTo
/-
  C06 — `TryFrom<RBig> for f32/f64` (current tree): the KIND of a refusal.  The mirrored conversion equals the
  value-level specification `ratTryToFloatSpec` (which the driver prints as the required result) for every
  rational in lowest terms; corollaries: an `OutOfBounds` refusal is truthful (the value rounds to ±∞), and every
  dyadic value of magnitude `≥ 2^(emax+1)` is refused with `OutOfBounds`.
-/
namespace Dashu.Model.Conv
open Dashu.Model Dashu.Model.Float

theorem two_pow_cast (n : Nat) : ((2 ^ n : Nat) : Int) = (2 : Int) ^ n := by push_cast; rfl

theorem fits_natAbs (N : Nat) (n : Int) (h : -(2 ^ (N - 1) : Int) ≤ n ∧ n < 2 ^ (N - 1)) :
    n.natAbs ≤ 2 ^ (N - 1) := by
  have h3 : ((n.natAbs : Nat) : Int) ≤ ((2 ^ (N - 1) : Nat) : Int) := by rw [two_pow_cast]; omega
  exact_mod_cast h3

/-- **`TryFrom<RBig> for f32/f64`, value and refusal kind**: for every rational in lowest terms the mirrored
    conversion returns exactly what the specification says (never panics) -/
theorem ratTryToFloat_kind (c : EncConsts) (F : Ieee) (hc : Compatible c F) (hfit : F.prec ≤ c.N - 1)
    (lb ub : Int) (hlb : lb = F.qmin) (hub : ub = F.emax + 1) (num : Int) (den : Nat) (hden : den ≠ 0)
    (hco : Nat.Coprime num.natAbs den) :
    ratTryToFloat c lb ub num den = .ok (ratTryToFloatSpec F c.N num den) := by
  by_cases hex : (ieeeRoundRat F .halfEven num den).2 = .exact
  · have h1 : ieeeRoundRat F .halfEven num den = ((ieeeRoundRat F .halfEven num den).1, .exact) :=
      Prod.ext rfl hex
    rw [ratTryToFloat_complete c F hc hfit lb ub hlb hub num den hden hco _ h1]
    unfold ratTryToFloatSpec
    simp only [hex, if_true]
  · have h0 : num ≠ 0 := by
      intro h; apply hex; subst h; simp [ieeeRoundRat]
    unfold ratTryToFloat ratTryToFloatSpec
    simp only [h0, hex, if_false]
    by_cases hpow : den ≠ 0 ∧ 2 ^ Nat.log2 den = den
    · simp only [hpow, and_self, ne_eq, not_false_eq_true, if_true, not_true_eq_false, if_false]
      subst hlb hub
      by_cases h1 : (bitLen num.natAbs : Int) - (Nat.log2 den : Int) > F.emax + 1
      · simp only [h1, if_true]
      simp only [h1, if_false]
      by_cases h2 : (bitLen num.natAbs : Int) - (Nat.log2 den : Int) < F.qmin
      · simp only [h2, if_true]
      simp only [h2, if_false]
      generalize hj : Nat.log2 den = j at *
      have hdenj : den = 2 ^ j := hpow.2.symm
      have hsb : F.signBit = 2 ^ c.signShl := by unfold Ieee.signBit; rw [hc.signShl]
      by_cases hj0 : j = 0
      · have hd1 : den = 1 := by rw [hdenj, hj0]; rfl
        subst hd1
        simp only [hj0, if_true]
        generalize hz : trailingZeros (bitLen num.natAbs) num.natAbs = z
        have hdvd : (2 ^ z : Nat) ∣ num.natAbs := by rw [← hz]; exact trailingZeros_dvd _ _
        have hdvdI : ((2 : Int) ^ z) ∣ num := by
          have : ((2 ^ z : Nat) : Int) ∣ num := Int.natCast_dvd.mpr hdvd
          simpa using this
        have hnum : Int.tdiv num (2 ^ z) * 2 ^ z = num := Int.tdiv_mul_cancel hdvdI
        have hspec : ieeeRoundRat F .halfEven num 1 = ieeeRound F (Int.tdiv num (2 ^ z)) (z : Int) := by
          have := ieeeRoundRat_dyadic F num 0
          simp only [pow_zero, Nat.cast_zero, neg_zero] at this
          rw [this]
          conv_lhs => rw [← hnum]
          rw [ieeeRound_scale]; simp
        by_cases hfits : (-(2 ^ (c.N - 1) : Int) ≤ Int.tdiv num (2 ^ z) ∧ Int.tdiv num (2 ^ z) < 2 ^ (c.N - 1))
        · simp only [hfits, not_true_eq_false, if_false, true_and, and_self]
          rw [encodeFixed_correct c F hc _ _ (fits_natAbs c.N _ hfits)]
          rw [hspec] at hex ⊢
          generalize ieeeRound F (Int.tdiv num (2 ^ z)) (z : Int) = res at *
          obtain ⟨b, fl⟩ := res
          cases fl
          · exact absurd rfl hex
          · simp only [hsb, hc.inf]; split <;> rfl
          · simp only [hsb, hc.inf]; split <;> rfl
        · simp [hfits]
      · have hd1 : den ≠ 1 := by
          rw [hdenj]; intro h
          have : 2 ^ j = 2 ^ 0 := by rw [h]; rfl
          exact hj0 (Nat.pow_right_injective (le_refl 2) this)
        simp only [hj0, hd1, if_false]
        have hspec : ieeeRoundRat F .halfEven num den = ieeeRound F num (-(j : Int)) := by
          rw [hdenj]; exact ieeeRoundRat_dyadic F num j
        by_cases hfits : (-(2 ^ (c.N - 1) : Int) ≤ num ∧ num < 2 ^ (c.N - 1))
        · simp only [hfits, not_true_eq_false, if_false, true_and, and_self]
          rw [encodeFixed_correct c F hc _ _ (fits_natAbs c.N _ hfits)]
          rw [hspec] at hex ⊢
          generalize ieeeRound F num (-(j : Int)) = res at *
          obtain ⟨b, fl⟩ := res
          cases fl
          · exact absurd rfl hex
          · simp only [hsb, hc.inf]; split <;> rfl
          · simp only [hsb, hc.inf]; split <;> rfl
        · simp [hfits]
    · simp [hpow]

theorem infBits_lt_signBit (F : Ieee) (_hF : F.Ok) : F.infBits < F.signBit := by
  unfold Ieee.infBits Ieee.signBit
  rw [pow_add]
  have h1 : 0 < 2 ^ F.EB := Nat.two_pow_pos _
  exact Nat.mul_lt_mul_of_pos_right (by omega) (Nat.two_pow_pos _)

/-- a dyadic value of magnitude `≥ 2^(emax+1)` rounds to ±∞ -/
theorem dyadic_over_inf (F : Ieee) (hF : F.Ok) (num : Int) (j : Nat) (h0 : num ≠ 0)
    (ht : F.emax + 1 < (bitLen num.natAbs : Int) - (j : Int)) :
    (ieeeRoundRat F .halfEven num (2 ^ j)).1 % F.signBit = F.infBits := by
  rw [ieeeRoundRat_dyadic F num j, ieeeRound_fst F num _ h0,
    spec_over F hF num.natAbs (-(j : Int)) (by omega) (by omega)]
  have hlt := infBits_lt_signBit F hF
  simp only
  split
  · rw [Nat.add_mod_left, Nat.mod_eq_of_lt hlt]
  · rw [Nat.zero_add, Nat.mod_eq_of_lt hlt]

/-- **an `OutOfBounds` refusal is truthful**: it is only returned for a value whose IEEE rounding is ±∞ (the
    magnitude exceeds every finite float by at least half an ulp), never for a value inside the finite range -/
theorem ratTryToFloat_outOfBounds_truthful (c : EncConsts) (F : Ieee) (hc : Compatible c F) (hfit : F.prec ≤ c.N - 1)
    (lb ub : Int) (hlb : lb = F.qmin) (hub : ub = F.emax + 1) (num : Int) (den : Nat) (hden : den ≠ 0)
    (hco : Nat.Coprime num.natAbs den) (h : ratTryToFloat c lb ub num den = .ok (.error .outOfBounds)) :
    (ieeeRoundRat F .halfEven num den).1 % F.signBit = F.infBits ∧ (ieeeRoundRat F .halfEven num den).2 ≠ .exact := by
  rw [ratTryToFloat_kind c F hc hfit lb ub hlb hub num den hden hco] at h
  simp only [Except.ok.injEq] at h
  unfold ratTryToFloatSpec at h
  simp only at h
  split at h
  · cases h
  rename_i hex
  refine ⟨?_, hex⟩
  split at h
  · cases h
  rename_i hpow
  have hpow' : den ≠ 0 ∧ 2 ^ Nat.log2 den = den := not_not.mp hpow
  split at h
  · rename_i htop
    have h0 : num ≠ 0 := by
      intro h0; apply hex; subst h0; simp [ieeeRoundRat]
    have := dyadic_over_inf F hc.ok num (Nat.log2 den) h0 (by omega)
    rw [hpow'.2] at this
    exact this
  split at h
  · cases h
  by_contra hne
  simp only [hne, and_false, if_false] at h
  cases h

/-- **every dyadic value of magnitude `≥ 2^(emax+1)` is refused with `OutOfBounds`** (a non-dyadic one with
    `LossOfPrecision`: the denominator test comes first) -/
theorem ratTryToFloat_large_dyadic (c : EncConsts) (F : Ieee) (hc : Compatible c F) (hfit : F.prec ≤ c.N - 1)
    (lb ub : Int) (hlb : lb = F.qmin) (hub : ub = F.emax + 1) (num : Int) (j : Nat)
    (hco : Nat.Coprime num.natAbs (2 ^ j)) (h0 : num ≠ 0)
    (ht : F.emax + 1 < (bitLen num.natAbs : Int) - (j : Int)) :
    ratTryToFloat c lb ub num (2 ^ j) = .ok (.error .outOfBounds) := by
  have hden : (2 ^ j : Nat) ≠ 0 := by positivity
  rw [ratTryToFloat_kind c F hc hfit lb ub hlb hub num (2 ^ j) hden hco]
  have hinf := dyadic_over_inf F hc.ok num j h0 ht
  have hex : ¬ (ieeeRoundRat F .halfEven num (2 ^ j)).2 = .exact := by
    rw [ieeeRoundRat_dyadic F num j]
    unfold ieeeRound
    simp only [h0, if_false]
    rw [spec_over F hc.ok num.natAbs (-(j : Int)) (by omega) (by omega)]
    cases (decide (num < 0)) <;> simp [Flag.flipIf]
  unfold ratTryToFloatSpec
  simp only [hex, if_false, log2_two_pow]
  have hpow : (2 ^ j ≠ 0 ∧ (2 : Nat) ^ j = 2 ^ j) := ⟨by positivity, rfl⟩
  have h1 : (bitLen num.natAbs : Int) - (j : Int) > F.emax + 1 := by omega
  simp [h1]

end Dashu.Model.Conv
