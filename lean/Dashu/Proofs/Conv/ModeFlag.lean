import Dashu.Proofs.Conv.Modes
/-
  C06 — the FLAG of `FBig::<R, 2>::to_f32` for EVERY rounding mode R (directed modes, HalfAway, HalfEven): where
  the value is right (outside `ModeBad`), the returned `Rounding` tells the truth about the single rounding in
  mode R exactly outside `ToFloatFlagBad` (the rounding inside `encode` increased the magnitude and
  `into_f32_internal` did not take its overflow exit).
-/
namespace Dashu.Model.Conv
open Dashu Dashu.Model Dashu.Model.Float

/-! ### the error sign of the mode-generic specification in each regime -/

theorem flagM_sub_exact (F : Ieee) (h : F.Ok) (mode : Mode) (neg : Bool) (a j : Nat) (e : Int)
    (he : e = F.qmin + j) (hL : bitLen a + j ≤ F.prec) :
    (ieeeRoundMagM F mode neg a e).2 = .exact := by
  have hB := F.B_ge h
  have hq : max ((bitLen a : Int) + e - F.prec) F.qmin = F.qmin := by omega
  have hqe : F.qmin ≤ e := by omega
  have hd : (e - F.qmin).toNat = j := by omega
  have hn : a * 2 ^ j < 2 ^ F.prec := by
    calc a * 2 ^ j < 2 ^ bitLen a * 2 ^ j := Nat.mul_lt_mul_of_pos_right bitLen_lt (Nat.two_pow_pos j)
      _ = 2 ^ (bitLen a + j) := by rw [pow_add]
      _ ≤ 2 ^ F.prec := pow_le_pow2 hL
  have hlim : 2 ^ F.prec < 2 ^ (2 * F.B - 2 + F.MB) := by
    apply pow_lt_pow2; unfold Ieee.prec; omega
  unfold ieeeRoundMagM
  simp only [hq, hqe, if_true, hd, sub_self, Int.toNat_zero, pow_zero, Nat.mul_one, roundMagMode_one,
    F.range_toNat h, Nat.zero_mul, Nat.zero_add]
  have : ¬ (2 ^ (2 * F.B - 2 + F.MB) ≤ a * 2 ^ j) := by omega
  simp [this, flagOf]

theorem flagM_sub_round (F : Ieee) (h : F.Ok) (mode : Mode) (neg : Bool) (a k : Nat) (e : Int)
    (he : e + k = F.qmin) (hk : 1 ≤ k) (hL : bitLen a ≤ F.prec + k) :
    (ieeeRoundMagM F mode neg a e).2 = flagOf (roundMagMode mode neg a (2 ^ k)).1 (2 ^ k) a := by
  have hB := F.B_ge h
  have hq : max ((bitLen a : Int) + e - F.prec) F.qmin = F.qmin := by omega
  have hqe : ¬ (F.qmin ≤ e) := by omega
  have hd : (F.qmin - e).toNat = k := by omega
  have hdiv : a / 2 ^ k < 2 ^ F.prec := by
    rw [Nat.div_lt_iff_lt_mul (Nat.two_pow_pos k), ← pow_add]
    exact lt_of_lt_of_le bitLen_lt (pow_le_pow2 hL)
  have hn := (roundMagMode_bounds mode neg a (2 ^ k)).2
  have hlim : 2 ^ F.prec < 2 ^ (2 * F.B - 2 + F.MB) := by
    apply pow_lt_pow2; unfold Ieee.prec; omega
  unfold ieeeRoundMagM
  simp only [hq, hqe, if_false, hd, sub_self, Int.toNat_zero, pow_zero, Nat.mul_one,
    F.range_toNat h, Nat.zero_mul, Nat.zero_add]
  have : ¬ (2 ^ (2 * F.B - 2 + F.MB) ≤ (roundMagMode mode neg a (2 ^ k)).1) := by omega
  simp [this]

theorem flagM_norm_exact (F : Ieee) (h : F.Ok) (mode : Mode) (neg : Bool) (a j w : Nat) (e : Int)
    (hL : bitLen a + j = F.prec) (ht : (bitLen a : Int) + e = F.qmin + F.prec + w) (hw : w + 3 ≤ 2 * F.B) :
    (ieeeRoundMagM F mode neg a e).2 = .exact := by
  have hq : max ((bitLen a : Int) + e - F.prec) F.qmin = F.qmin + w := by omega
  have hqe : F.qmin + w ≤ e := by omega
  have hd : (e - (F.qmin + w)).toNat = j := by omega
  have hw' : (F.qmin + (w : Int) - F.qmin).toNat = w := by omega
  have hn : a * 2 ^ j < 2 ^ F.prec := by
    calc a * 2 ^ j < 2 ^ bitLen a * 2 ^ j := Nat.mul_lt_mul_of_pos_right bitLen_lt (Nat.two_pow_pos j)
      _ = 2 ^ F.prec := by rw [← pow_add, hL]
  have hlim : a * 2 ^ j * 2 ^ w < 2 ^ (2 * F.B - 2 + F.MB) := by
    calc a * 2 ^ j * 2 ^ w < 2 ^ F.prec * 2 ^ w := Nat.mul_lt_mul_of_pos_right hn (Nat.two_pow_pos w)
      _ = 2 ^ (F.prec + w) := by rw [pow_add]
      _ ≤ 2 ^ (2 * F.B - 2 + F.MB) := by apply pow_le_pow2; unfold Ieee.prec; omega
  unfold ieeeRoundMagM
  simp only [hq, hqe, if_true, hd, hw', roundMagMode_one, F.range_toNat h]
  have : ¬ (2 ^ (2 * F.B - 2 + F.MB) ≤ a * 2 ^ j * 2 ^ w) := by omega
  simp [this, flagOf]

theorem flagM_norm_round (F : Ieee) (h : F.Ok) (mode : Mode) (neg : Bool) (a k w : Nat) (e : Int)
    (hL : bitLen a = F.prec + k) (hk : 1 ≤ k) (ht : (bitLen a : Int) + e = F.qmin + F.prec + w)
    (hw : w + 3 ≤ 2 * F.B) :
    (ieeeRoundMagM F mode neg a e).2 = flagOf (roundMagMode mode neg a (2 ^ k)).1 (2 ^ k) a := by
  have hq : max ((bitLen a : Int) + e - F.prec) F.qmin = F.qmin + w := by omega
  have hqe : ¬ (F.qmin + w ≤ e) := by omega
  have hd : (F.qmin + w - e).toNat = k := by omega
  have hw' : (F.qmin + (w : Int) - F.qmin).toNat = w := by omega
  have hlt : a < 2 ^ (F.prec + k) := by rw [← hL]; exact bitLen_lt
  have hdiv : a / 2 ^ k < 2 ^ F.prec := by
    rw [Nat.div_lt_iff_lt_mul (Nat.two_pow_pos k), ← pow_add]; exact hlt
  have hn := (roundMagMode_bounds mode neg a (2 ^ k)).2
  unfold ieeeRoundMagM
  simp only [hq, hqe, if_false, hd, hw', F.range_toNat h]
  generalize hnd : (roundMagMode mode neg a (2 ^ k)).1 = n at *
  by_cases hov : 2 ^ (2 * F.B - 2 + F.MB) ≤ n * 2 ^ w
  · simp only [hov, if_true]
    have hnle : n ≤ 2 ^ F.prec := by omega
    have hn2 : n = 2 ^ F.prec := by
      by_contra hne
      have hlt' : n < 2 ^ F.prec := by omega
      have : n * 2 ^ w < 2 ^ (2 * F.B - 2 + F.MB) := by
        calc n * 2 ^ w < 2 ^ F.prec * 2 ^ w := Nat.mul_lt_mul_of_pos_right hlt' (Nat.two_pow_pos w)
          _ = 2 ^ (F.prec + w) := by rw [pow_add]
          _ ≤ 2 ^ (2 * F.B - 2 + F.MB) := by apply pow_le_pow2; unfold Ieee.prec; omega
      omega
    unfold flagOf
    have e1 : n * 2 ^ k = 2 ^ (F.prec + k) := by rw [hn2, pow_add]
    rw [e1]
    have h1 : ¬ (2 ^ (F.prec + k) = a) := by omega
    simp [h1, hlt]
  · simp [hov]

theorem flagM_over (F : Ieee) (h : F.Ok) (mode : Mode) (neg : Bool) (a : Nat) (e : Int) (ha : a ≠ 0)
    (ht : F.emax + 1 < (bitLen a : Int) + e) :
    (ieeeRoundMagM F mode neg a e).2 = .pos := by
  have hB := F.B_ge h
  have hL1 := bitLen_pos ha
  rw [F.emax_eq] at ht
  have hqm := F.qmin_eq
  obtain ⟨w, hw⟩ : ∃ w : Nat, (bitLen a : Int) + e = F.qmin + F.prec + w :=
    ⟨((bitLen a : Int) + e - F.qmin - F.prec).toNat, by unfold Ieee.prec; omega⟩
  have hwl : 2 * F.B - 2 ≤ w := by unfold Ieee.prec at hw; omega
  have hq : max ((bitLen a : Int) + e - F.prec) F.qmin = F.qmin + w := by omega
  have hw' : (F.qmin + (w : Int) - F.qmin).toNat = w := by omega
  unfold ieeeRoundMagM
  simp only [hq, hw', F.range_toNat h]
  have key : ∀ num den : Nat, 2 ^ (F.prec - 1) ≤ num / den →
      2 ^ (2 * F.B - 2 + F.MB) ≤ (roundMagMode mode neg num den).1 * 2 ^ w := by
    intro num den hge
    have h1 := (roundMagMode_bounds mode neg num den).1
    calc 2 ^ (2 * F.B - 2 + F.MB) ≤ 2 ^ (F.prec - 1 + w) := by
            apply pow_le_pow2; unfold Ieee.prec; omega
      _ = 2 ^ (F.prec - 1) * 2 ^ w := by rw [pow_add]
      _ ≤ (roundMagMode mode neg num den).1 * 2 ^ w := Nat.mul_le_mul_right _ (le_trans hge h1)
  have hge : 2 ^ (bitLen a - 1) ≤ a := bitLen_le ha
  by_cases hqe : F.qmin + w ≤ e
  · simp only [hqe, if_true]
    obtain ⟨j, hj⟩ : ∃ j : Nat, bitLen a + j = F.prec := ⟨F.prec - bitLen a, by omega⟩
    have hd : (e - (F.qmin + w)).toNat = j := by omega
    rw [hd]
    have : 2 ^ (F.prec - 1) ≤ a * 2 ^ j / 1 := by
      rw [Nat.div_one]
      calc 2 ^ (F.prec - 1) = 2 ^ (bitLen a - 1) * 2 ^ j := by rw [← pow_add]; congr 1; omega
        _ ≤ a * 2 ^ j := Nat.mul_le_mul_right _ hge
    simp [key _ _ this]
  · simp only [hqe, if_false]
    obtain ⟨k, hk⟩ : ∃ k : Nat, bitLen a = F.prec + k := ⟨bitLen a - F.prec, by omega⟩
    have hd : (F.qmin + w - e).toNat = k := by omega
    rw [hd]
    have : 2 ^ (F.prec - 1) ≤ a / 2 ^ k := by
      rw [Nat.le_div_iff_mul_le (Nat.two_pow_pos k), ← pow_add]
      have : F.prec - 1 + k = bitLen a - 1 := by unfold Ieee.prec at *; omega
      rw [this]; exact hge
    simp [key _ _ this]

/-! ### composing the error signs of two roundings, any first rounding within one unit -/

/-- the error sign of `n2·D1·D2` against `a`, when `n1·D1` is within ONE unit `D1` of `a` (any rounding mode) -/
theorem flag_compose_any (a n1 n2 D1 D2 : Nat)
    (h1 : n1 * D1 < a + D1) (h2 : a < n1 * D1 + D1) :
    flagOf n2 (D1 * D2) a = composeFlag (flagOf n1 D1 a) (flagOf n2 D2 n1) := by
  unfold flagOf composeFlag
  have hR : n2 * (D1 * D2) = (n2 * D2) * D1 := by ring
  rw [hR]
  generalize n2 * D2 = Q
  by_cases he : Q = n1
  · subst he
    simp only [if_true]
  · simp only [he, if_false]
    rcases Nat.lt_or_ge n1 Q with hlt | hge
    · have h5 : (n1 + 1) * D1 ≤ Q * D1 := Nat.mul_le_mul_right _ hlt
      have e1 : (n1 + 1) * D1 = n1 * D1 + D1 := by ring
      rw [e1] at h5
      simp only [hlt, if_true]
      generalize n1 * D1 = P at *
      generalize Q * D1 = R at *
      have h3 : ¬ (R = a) := by omega
      have h4 : a < R := by omega
      simp [h3, h4]
    · have hlt : Q < n1 := by omega
      have h5 : (Q + 1) * D1 ≤ n1 * D1 := Nat.mul_le_mul_right _ hlt
      have e1 : (Q + 1) * D1 = Q * D1 + D1 := by ring
      rw [e1] at h5
      have hn : ¬ (n1 < Q) := by omega
      simp only [hn, if_false]
      generalize n1 * D1 = P at *
      generalize Q * D1 = R at *
      have h3 : ¬ (R = a) := by omega
      have h4 : ¬ (a < R) := by omega
      simp [h3, h4]

/-- every mode's rounding of `a / D` stays within one unit of `a` -/
theorem roundMagMode_within (mode : Mode) (neg : Bool) (a D : Nat) (hD : 0 < D) :
    (roundMagMode mode neg a D).1 * D < a + D ∧ a < (roundMagMode mode neg a D).1 * D + D := by
  have hdm := Nat.div_add_mod a D
  have hrlt := Nat.mod_lt a hD
  by_cases hr : a % D = 0
  · have : (roundMagMode mode neg a D).1 = a / D := by unfold roundMagMode; simp [hr]
    rw [this]
    have e1 : a / D * D = D * (a / D) := Nat.mul_comm _ _
    omega
  · have hb := roundMagMode_bounds mode neg a D
    generalize (roundMagMode mode neg a D).1 = n at *
    have h1 : n * D ≤ (a / D + 1) * D := Nat.mul_le_mul_right _ hb.2
    have h2 : a / D * D ≤ n * D := Nat.mul_le_mul_right _ hb.1
    have e1 : (a / D + 1) * D = D * (a / D) + D := by ring
    have e2 : a / D * D = D * (a / D) := Nat.mul_comm _ _
    have hpos : 0 < a % D := Nat.pos_of_ne_zero hr
    omega

/-- the error sign of the first rounding (`none` = nothing to round) -/
def firstFlag (p : Nat) (m : Float.Mode) (neg : Bool) (a : Nat) : Flag :=
  if bitLen a ≤ p then .exact
  else flagOf (roundMagMode (convMode m) neg a (2 ^ (bitLen a - p))).1 (2 ^ (bitLen a - p)) a

/-- **flag theorem, every mode**: outside `ModeBad` the true error sign of the single rounding in mode `m` is the
    composition of the first rounding's sign and the sign of the (half-even) rounding inside `encode` -/
theorem modes_flag (F : Ieee) (hF : F.Ok) (m : Float.Mode) (neg : Bool) (a : Nat) (e : Int) (ha : a ≠ 0)
    (hgood : ¬ ModeBad F (convMode m) neg a e) :
    (ieeeRoundMagM F (convMode m) neg a e).2 =
      composeFlag (firstFlag F.prec m neg a)
        (ieeeRoundMag F (firstRound F.prec m neg a e).1 (firstRound F.prec m neg a e).2.1).2 := by
  have hB := F.B_ge hF
  have hqm := F.qmin_eq
  have hem := F.emax_eq
  have hprec : F.prec = F.MB + 1 := rfl
  have hMB := hF.hMB
  unfold ModeBad at hgood
  unfold firstRound firstFlag
  by_cases hfit : bitLen a ≤ F.prec
  · simp only [hfit, if_true]
    have hk1 : bitLen a - F.prec = 0 := by omega
    rw [hk1] at hgood
    simp only [pow_zero, roundMagMode_one, Nat.cast_zero, sub_zero, Nat.zero_add] at hgood
    have hce : ∀ f : Flag, composeFlag .exact f = f := by intro f; cases f <;> rfl
    rw [hce]
    by_cases hover : F.emax + 1 < (bitLen a : Int) + e
    · rw [spec_over F hF a e ha hover, flagM_over F hF _ neg a e ha hover]
    by_cases hsub : (bitLen a : Int) + e < F.qmin + F.prec
    · by_cases hq : F.qmin ≤ e
      · obtain ⟨j, hj⟩ : ∃ j : Nat, e = F.qmin + j := ⟨(e - F.qmin).toNat, by omega⟩
        rw [spec_sub_exact F hF a j e hj (by omega), flagM_sub_exact F hF _ neg a j e hj (by omega)]
      · obtain ⟨k, hk⟩ : ∃ k : Nat, e + k = F.qmin := ⟨(F.qmin - e).toNat, by omega⟩
        have hk2 : (F.qmin - e).toNat = k := by omega
        rw [spec_sub_round F hF a k e hk (by omega) (by omega),
          flagM_sub_round F hF _ neg a k e hk (by omega) (by omega)]
        rw [hk2] at hgood
        simp only [hsub, true_and, not_not] at hgood
        simp only
        rw [hgood]
    · obtain ⟨w, hw⟩ : ∃ w : Nat, (bitLen a : Int) + e = F.qmin + F.prec + w :=
        ⟨((bitLen a : Int) + e - F.qmin - F.prec).toNat, by omega⟩
      have hwB : w + 3 ≤ 2 * F.B := by omega
      obtain ⟨j, hj⟩ : ∃ j : Nat, bitLen a + j = F.prec := ⟨F.prec - bitLen a, by omega⟩
      rw [spec_norm_exact F hF a j w e hj hw hwB, flagM_norm_exact F hF _ neg a j w e hj hw hwB]
  simp only [hfit, if_false]
  have hgt : F.prec < bitLen a := by omega
  generalize hk1 : bitLen a - F.prec = k1 at *
  have hk1p : 1 ≤ k1 := by omega
  have hL : bitLen a = F.prec + k1 := by omega
  have hwithin := roundMagMode_within (convMode m) neg a (2 ^ k1) (Nat.two_pow_pos _)
  generalize hn1 : (roundMagMode (convMode m) neg a (2 ^ k1)).1 = n1 at *
  have hb := roundMagMode_bounds (convMode m) neg a (2 ^ k1)
  rw [hn1] at hb
  have hqlo : 2 ^ (F.prec - 1) ≤ a / 2 ^ k1 := by
    rw [Nat.le_div_iff_mul_le (Nat.two_pow_pos _), ← pow_add]
    have : F.prec - 1 + k1 = bitLen a - 1 := by omega
    rw [this]; exact bitLen_le ha
  have hqhi : a / 2 ^ k1 < 2 ^ F.prec := by
    rw [Nat.div_lt_iff_lt_mul (Nat.two_pow_pos _), ← pow_add, ← hL]; exact bitLen_lt
  have hn1lo : 2 ^ (F.prec - 1) ≤ n1 := by omega
  have hn1hi : n1 ≤ 2 ^ F.prec := by omega
  have hn10 : n1 ≠ 0 := by have := Nat.two_pow_pos (F.prec - 1); omega
  have hbl1 : n1 < 2 ^ F.prec → bitLen n1 = F.prec := by
    intro h
    have := bitLen_eq_of (n := F.prec - 1) hn1lo (by rw [show F.prec - 1 + 1 = F.prec by omega]; exact h)
    omega
  have hbl2 : n1 = 2 ^ F.prec → bitLen n1 = F.prec + 1 := by
    intro h; rw [h]; exact bitLen_two_pow _
  by_cases hover : F.emax + 1 < (bitLen a : Int) + e
  · have h1 := flagM_over F hF (convMode m) neg a e ha hover
    have h2 : ieeeRoundMag F n1 (e + (k1 : Int)) = (F.infBits, .pos) := by
      apply spec_over F hF n1 _ hn10
      rcases Nat.lt_or_ge n1 (2 ^ F.prec) with h | h
      · rw [hbl1 h]; omega
      · rw [hbl2 (by omega)]; omega
    rw [h1, h2]; rfl
  by_cases hsub : (bitLen a : Int) + e < F.qmin + F.prec
  · obtain ⟨k, hk⟩ : ∃ k : Nat, e + k = F.qmin := ⟨(F.qmin - e).toNat, by omega⟩
    obtain ⟨k2, hkk, hk21⟩ : ∃ k2 : Nat, k = k1 + k2 ∧ 1 ≤ k2 := ⟨k - k1, by omega, by omega⟩
    have h1 := flagM_sub_round F hF (convMode m) neg a k e hk (by omega) (by omega)
    have hbn1 : bitLen n1 ≤ F.prec + k2 := by
      rcases Nat.lt_or_ge n1 (2 ^ F.prec) with h | h
      · rw [hbl1 h]; omega
      · rw [hbl2 (by omega)]; omega
    have h2 := spec_sub_round F hF n1 k2 (e + (k1 : Int)) (by omega) hk21 hbn1
    rw [h1, h2]
    simp only
    have hk2t : (F.qmin - e - (k1 : Int)).toNat = k2 := by omega
    rw [hk2t] at hgood
    simp only [hsub, true_and, not_not] at hgood
    rw [hkk, ← hgood, pow_add]
    exact flag_compose_any a n1 (rneDiv n1 (2 ^ k2)) (2 ^ k1) (2 ^ k2) hwithin.1 hwithin.2
  · obtain ⟨w, hw⟩ : ∃ w : Nat, (bitLen a : Int) + e = F.qmin + F.prec + w :=
      ⟨((bitLen a : Int) + e - F.qmin - F.prec).toNat, by omega⟩
    have hwB : w + 3 ≤ 2 * F.B := by omega
    have h1 := flagM_norm_round F hF (convMode m) neg a k1 w e hL hk1p hw hwB
    rw [h1, hn1]
    rcases Nat.lt_or_ge n1 (2 ^ F.prec) with hlt | hge
    · have h2 := spec_norm_exact F hF n1 0 w (e + (k1 : Int)) (by rw [hbl1 hlt, Nat.add_zero])
        (by rw [hbl1 hlt]; omega) hwB
      rw [h2]; rfl
    · have hn1e : n1 = 2 ^ F.prec := by omega
      by_cases hwtop : w + 4 ≤ 2 * F.B
      · have h2 := spec_norm_round F hF n1 1 (w + 1) (e + (k1 : Int)) (hbl2 hn1e) (by omega)
          (by rw [hbl2 hn1e]; push_cast; omega) (by omega)
        rw [h2]
        simp only
        have hfl : flagOf (rneDiv n1 (2 ^ 1)) (2 ^ 1) n1 = .exact := by
          rw [hn1e, rneDiv_pow_self F.prec (by omega)]
          unfold flagOf
          have : 2 ^ (F.prec - 1) * 2 ^ 1 = 2 ^ F.prec := by rw [← pow_add]; congr 1 <;> omega
          rw [if_pos this]
        rw [hfl]; rfl
      · have h2 : ieeeRoundMag F n1 (e + (k1 : Int)) = (F.infBits, .pos) := by
          apply spec_over F hF n1 _ hn10
          rw [hbl2 hn1e]; push_cast; omega
        rw [h2]
        simp only [composeFlag]
        unfold flagOf
        have hlt : a < 2 ^ F.prec * 2 ^ k1 := by rw [← pow_add, ← hL]; exact bitLen_lt
        have e2 : n1 * 2 ^ k1 = 2 ^ F.prec * 2 ^ k1 := by rw [hn1e]
        have hne : ¬ (n1 * 2 ^ k1 = a) := by omega
        have hl : a < n1 * 2 ^ k1 := by omega
        simp [hne, hl]

end Dashu.Model.Conv

namespace Dashu.Model.Conv
open Dashu Dashu.Model Dashu.Model.Float

/-- the error sign of the driver's specification of `f.to_f32` (the rational `s·2^e` rounded ONCE in the given mode)
    in significand/exponent form -/
theorem ieeeRoundRat_float_snd (F : Ieee) (mode : Mode) (s e : Int) (hs : s ≠ 0) :
    (ieeeRoundRat F mode (floatAsRat 2 s e).1 (floatAsRat 2 s e).2).2 =
      (ieeeRoundMagM F mode (decide (s < 0)) s.natAbs e).2.flipIf (decide (s < 0)) := by
  have ha : s.natAbs ≠ 0 := by omega
  have key := ieeeRoundRatMag_float F mode (decide (s < 0)) s.natAbs e ha
  unfold floatAsRat ieeeRoundRat
  by_cases he : e ≥ 0
  · simp only [he, if_true] at key ⊢
    have hp : (0 : Int) < ((2 : Nat) : Int) ^ e.toNat := by positivity
    have hne : s * ((2 : Nat) : Int) ^ e.toNat ≠ 0 := Int.mul_ne_zero hs (by omega)
    have hneg : decide (s * ((2 : Nat) : Int) ^ e.toNat < 0) = decide (s < 0) := by
      congr 1
      apply propext
      constructor
      · intro h; by_contra h2
        have : 0 ≤ s * ((2 : Nat) : Int) ^ e.toNat := Int.mul_nonneg (by omega) (by omega)
        omega
      · intro h; exact Int.mul_neg_of_neg_of_pos h hp
    have hab : (s * ((2 : Nat) : Int) ^ e.toNat).natAbs = s.natAbs * 2 ^ e.toNat := by
      rw [Int.natAbs_mul, Int.natAbs_pow]; rfl
    simp only [hne, if_false, hneg, hab, key]
  · simp only [he, if_false] at key ⊢
    simp only [hs, if_false, key]

/-- the first rounding's flag as dashu reports it -/
theorem firstRound_flag (p : Nat) (m : Float.Mode) (neg : Bool) (a : Nat) (e : Int) (hodd : a % 2 = 1) :
    (firstRound p m neg a e).2.2 = adjOfMag neg (firstFlag p m neg a) := by
  unfold firstRound firstFlag
  by_cases hfit : bitLen a ≤ p
  · simp only [hfit, if_true, adjOfMag]
  · simp only [hfit, if_false]
    generalize hk1 : bitLen a - p = k1
    have hk1p : 1 ≤ k1 := by omega
    have hr0 : a % 2 ^ k1 ≠ 0 := by
      intro h0
      have h2 : a % 2 ^ k1 % 2 = a % 2 := by
        have : 2 ^ k1 = 2 * 2 ^ (k1 - 1) := by
          conv_lhs => rw [show k1 = (k1 - 1) + 1 by omega, pow_succ]
          ring
        rw [this]; exact Nat.mod_mul_right_mod _ _ _
      omega
    have hrm := roundMagMode_eq (convMode m) neg a (2 ^ k1) hr0
    generalize roundMagMode (convMode m) neg a (2 ^ k1) = rm at *
    generalize upMag (convMode m) neg (a / 2 ^ k1) (a % 2 ^ k1) (2 ^ k1) = up at *
    have hrm1 : rm.1 = a / 2 ^ k1 + (if up then 1 else 0) := by rw [hrm]
    have hrm2 : rm.2 = up := by rw [hrm]
    have hdm := Nat.div_add_mod a (2 ^ k1)
    have hrlt := Nat.mod_lt a (Nat.two_pow_pos k1)
    rw [hrm1, hrm2]
    unfold flagOf
    generalize a / 2 ^ k1 = q at *
    generalize a % 2 ^ k1 = r at *
    generalize 2 ^ k1 = D at *
    cases up
    · have e1 : (q + (if false = true then 1 else 0)) * D = D * q := by simp; ring
      rw [e1]
      have h3 : ¬ (D * q = a) := by omega
      have h4 : ¬ (a < D * q) := by omega
      simp [h3, h4, adjOfMag, adjOfUp]
    · have e1 : (q + (if true = true then 1 else 0)) * D = D * q + D := by simp; ring
      rw [e1]
      have h3 : ¬ (D * q + D = a) := by omega
      have h4 : a < D * q + D := by omega
      simp [h3, h4, adjOfMag, adjOfUp]

/-- **flag theorem, every mode**: where the value of `FBig::<R,2>::to_f32` is the once-rounded one (outside
    `ModeBad`) the returned `Rounding` tells the truth about that single rounding in mode `R` exactly outside
    `ToFloatFlagBad` -/
theorem fbigToFloat_flag_iff_modes (k : IntoConsts) (hk : IntoCompat k) (m : Float.Mode) (c : Coarse)
    (hc : CoarseSound c) (s e : Int) (hodd : s % 2 = 1) (bits : Nat) (fl : Option Float.Rounding)
    (h : fbigToFloat k m c ⟨s, e⟩ = .ok (bits, fl))
    (hgood : ¬ ModeBad k.F (convMode m) (decide (s < 0)) s.natAbs e) :
    fl = adjOfMag (decide (s < 0)) (ieeeRoundMagM k.F (convMode m) (decide (s < 0)) s.natAbs e).2 ↔
      ¬ ToFloatFlagBad k m s e := by
  have hF := hk.enc.ok
  have hp1 : 1 ≤ k.F.prec := by unfold Ieee.prec; omega
  have hs0 : s ≠ 0 := by intro h0; subst h0; simp at hodd
  have ha0 : s.natAbs ≠ 0 := by omega
  have hodd' : s.natAbs % 2 = 1 := by omega
  have hn := fbigToFloat_normal k hk m c hc s e hodd
  simp only at hn
  rw [hn] at h
  simp only [Except.ok.injEq, Prod.mk.injEq] at h
  rw [← h.2, modes_flag k.F hF m (decide (s < 0)) s.natAbs e ha0 hgood, ← andThen_adj,
    firstRound_flag k.F.prec m (decide (s < 0)) s.natAbs e hodd']
  unfold ToFloatFlagBad reachedRepr
  simp only
  -- the repr that reaches `into_fNN_internal` and the truthfulness of its own flag
  have hreach : ∃ v : FRepr, (if bitLen s.natAbs ≤ k.F.prec then (⟨s, e⟩ : FRepr)
        else FRepr.new 2 ((if s < 0 then -1 else 1) *
          ((firstRound k.F.prec m (decide (s < 0)) s.natAbs e).1 : Int))
          (firstRound k.F.prec m (decide (s < 0)) s.natAbs e).2.1) = v ∧
      (intoFlag k (decide (s < 0)) v.exp
          (ieeeRoundMag k.F (firstRound k.F.prec m (decide (s < 0)) s.natAbs e).1
            (firstRound k.F.prec m (decide (s < 0)) s.natAbs e).2.1).2 =
        adjOfMag (decide (s < 0))
          (ieeeRoundMag k.F (firstRound k.F.prec m (decide (s < 0)) s.natAbs e).1
            (firstRound k.F.prec m (decide (s < 0)) s.natAbs e).2.1).2 ↔
        ¬ ((ieeeRoundMag k.F (firstRound k.F.prec m (decide (s < 0)) s.natAbs e).1
            (firstRound k.F.prec m (decide (s < 0)) s.natAbs e).2.1).2 = .pos ∧ v.exp < k.infExp)) := by
    by_cases hfit : bitLen s.natAbs ≤ k.F.prec
    · have hfr : firstRound k.F.prec m (decide (s < 0)) s.natAbs e = (s.natAbs, e, none) := by
        simp only [firstRound, hfit, if_true]
      refine ⟨⟨s, e⟩, by simp only [hfit, if_true], ?_⟩
      rw [hfr]
      exact intoFlag_truth k hk (decide (s < 0)) s.natAbs e ha0 hfit
    · generalize hk1 : bitLen s.natAbs - k.F.prec = k1
      have hfr : firstRound k.F.prec m (decide (s < 0)) s.natAbs e =
          ((roundMagMode (convMode m) (decide (s < 0)) s.natAbs (2 ^ k1)).1, e + (k1 : Int),
            some (adjOfUp (roundMagMode (convMode m) (decide (s < 0)) s.natAbs (2 ^ k1)).2 (decide (s < 0)))) := by
        simp only [firstRound, hfit, if_false, hk1]
      rw [hfr]
      simp only [hfit, if_false]
      have hb := roundMagMode_bounds (convMode m) (decide (s < 0)) s.natAbs (2 ^ k1)
      generalize roundMagMode (convMode m) (decide (s < 0)) s.natAbs (2 ^ k1) = rm at *
      have hqlo : 2 ^ (k.F.prec - 1) ≤ s.natAbs / 2 ^ k1 := by
        rw [Nat.le_div_iff_mul_le (Nat.two_pow_pos _), ← pow_add]
        have : k.F.prec - 1 + k1 = bitLen s.natAbs - 1 := by omega
        rw [this]; exact bitLen_le ha0
      have hqhi : s.natAbs / 2 ^ k1 < 2 ^ k.F.prec := by
        rw [Nat.div_lt_iff_lt_mul (Nat.two_pow_pos _), ← pow_add]
        have : k.F.prec + k1 = bitLen s.natAbs := by omega
        rw [this]; exact bitLen_lt
      have hn1pos : rm.1 ≠ 0 := by have := Nat.two_pow_pos (k.F.prec - 1); omega
      have hn1le : rm.1 ≤ 2 ^ k.F.prec := by omega
      obtain ⟨hv0, hvb, hvs⟩ := new_facts k.F hp1 s rm.1 (e + (k1 : Int)) hn1pos hn1le
      refine ⟨_, rfl, ?_⟩
      generalize FRepr.new 2 ((if s < 0 then -1 else 1) * (rm.1 : Int)) (e + (k1 : Int)) = v at *
      have htruth := intoFlag_truth k hk (decide (s < 0)) v.signif.natAbs v.exp hv0 hvb
      rw [hvs] at htruth
      exact htruth
  obtain ⟨v, hv, htruth⟩ := hreach
  rw [hv]
  generalize (ieeeRoundMag k.F (firstRound k.F.prec m (decide (s < 0)) s.natAbs e).1
    (firstRound k.F.prec m (decide (s < 0)) s.natAbs e).2.1).2 = M at *
  generalize adjOfMag (decide (s < 0)) (firstFlag k.F.prec m (decide (s < 0)) s.natAbs) = f1 at *
  cases M
  · have h1 : ¬ (Flag.exact = Flag.pos ∧ v.exp < k.infExp) := by simp
    rw [htruth.mpr h1]
    simp
  · simp only [true_and] at htruth ⊢
    constructor
    · intro hfl
      apply htruth.mp
      unfold intoFlag at hfl ⊢
      split at hfl <;> simp_all [andThenFlag, adjOfMag]
    · intro hx
      rw [htruth.mpr hx]
  · have h1 : ¬ (Flag.neg = Flag.pos ∧ v.exp < k.infExp) := by simp
    rw [htruth.mpr h1]
    simp

end Dashu.Model.Conv
