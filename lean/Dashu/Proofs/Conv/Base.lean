import Dashu.Model.Conv.Base
import Dashu.Proofs.Conv.FloatTo
import Dashu.Proofs.Text.ConvDigits
/-
  C06 — `FBig::<R,B>::to_f32/to_f64`, `Repr::<B>::to_f32/to_f64` for `B ≠ 2` on the mirrored branches of
  `convert_base::<B,2>`: normal form (the bits are the IEEE rounding of the value `convert_base` produced, which is
  the exact value rounded to 24/53 bits under the mode — builder-text's `convertBase_contract`), and the exact
  region of the debug-assertion panic (`repr_div` returned `precision + 1` bits).
-/
namespace Dashu.Model.Conv
open Dashu Dashu.Model Dashu.Model.Float Dashu.Model.Text

theorem repr_sign_form (v : FRepr) :
    v = ⟨(if v.signif < 0 then (-1 : Int) else 1) * (v.signif.natAbs : Int), v.exp⟩ := by
  have : v.signif = (if v.signif < 0 then (-1 : Int) else 1) * (v.signif.natAbs : Int) := by
    split <;> omega
  conv_lhs => rw [show v = ⟨v.signif, v.exp⟩ from rfl, this]

/-- `into_fNN_internal` never fails on a significand of at most `prec` bits -/
theorem intoFloatInternal_ok (k : IntoConsts) (hk : IntoCompat k) (v : FRepr) (hb : bitLen v.signif.natAbs ≤ k.F.prec) :
    ∃ res, intoFloatInternal k v = .ok res := by
  by_cases h0 : v.signif = 0
  · unfold intoFloatInternal
    simp only [h0]
    split
    · exact ⟨_, rfl⟩
    · split
      · exact ⟨_, rfl⟩
      · rw [encodeFixed_correct k.enc k.F hk.enc 0 v.exp (by simp)]
        generalize ieeeRound k.F 0 v.exp = res
        obtain ⟨b, fl⟩ := res
        cases fl <;> exact ⟨_, rfl⟩
  · have hn : v.signif.natAbs ≠ 0 := by omega
    have := intoFloatInternal_eq k hk (if v.signif < 0 then -1 else 1) v.signif.natAbs v.exp hn
      (sg_cases v.signif) hb
    rw [← repr_sign_form v] at this
    exact ⟨_, this⟩

/-- **normal form, base `B ≠ 2`** (every branch of `convert_base` except `ln`/`exp`): a returned float is the IEEE
    rounding of the value `v` that `convert_base::<B,2>` produced; `v` is the exact value `signif·B^exp` rounded to
    `prec` = 24/53 significant bits under the mode of the type (rounding contract: truthful flag, < 1 ulp, ≤ ½ ulp
    for the nearest modes, on the mode's side) and has at most `prec` bits; the flag is `convert_base`'s unless
    `into_fNN_internal` reports its own. -/
theorem fbigToFloatBase_normal (k : IntoConsts) (hk : IntoCompat k) (site : String) (W B : Nat) (hB : 2 ≤ B)
    (m : Float.Mode) (r : FRepr) (bits : Nat) (fl : Option Float.Rounding)
    (h : fbigToFloatBase k site W B m r = some (.ok (bits, fl))) :
    ∃ (v : FRepr) (f1 : Option Float.Rounding),
      convertBase W B 2 m k.prec r = .ok (v, f1) ∧
      Contract 2 m k.prec (r.toRat B) (v.toRat 2) f1 ∧
      bitLen v.signif.natAbs ≤ k.prec ∧
      (v.signif ≠ 0 →
        bits = (if v.signif < 0 then k.F.signBit else 0) + (ieeeRoundMag k.F v.signif.natAbs v.exp).1 ∧
        fl = andThenFlag f1 (intoFlag k (decide (v.signif < 0)) v.exp (ieeeRoundMag k.F v.signif.natAbs v.exp).2)) := by
  have hp1 : 1 ≤ k.prec := by rw [hk.prec]; unfold Ieee.prec; omega
  unfold fbigToFloatBase at h
  generalize hcb : convertBase W B 2 m k.prec r = cb at h
  cases cb with
  | lnExp => simp at h
  | unlimitedPrecision => simp at h
  | ok rr =>
    obtain ⟨v, f1⟩ := rr
    simp only at h
    unfold intoFloatInternalChecked at h
    by_cases hwide : bitLen v.signif.natAbs > k.prec
    · simp [hwide] at h
    · simp only [hwide, if_false] at h
      have hb : bitLen v.signif.natAbs ≤ k.prec := by omega
      refine ⟨v, f1, rfl, convertBase_contract W B 2 hB (by decide) m k.prec hp1 r (v, f1) hcb, hb, ?_⟩
      intro hv0
      have hn : v.signif.natAbs ≠ 0 := by omega
      have hint := intoFloatInternal_eq k hk (if v.signif < 0 then -1 else 1) v.signif.natAbs v.exp hn
        (sg_cases v.signif) (by rw [← hk.prec]; exact hb)
      rw [← repr_sign_form v] at hint
      rw [hint] at h
      simp only [Option.some.injEq, Except.ok.injEq, Prod.mk.injEq] at h
      have h1 := sg_neg_iff v.signif
      simp only [h1] at h
      exact ⟨h.1.symm, h.2.symm⟩

/-- **the panic region, base `B ≠ 2`**: the conversion panics (debug build: `debug_assert!(bit_len <= 24|53)`; a
    release build rounds a second time inside `encode`) EXACTLY when `convert_base` returns a significand of more
    than `prec` bits — which is then exactly `prec + 1` bits, the extra quotient digit of `repr_div` — the closed
    form of the recorded finding "non-binary base". -/
theorem fbigToFloatBase_panic_iff (k : IntoConsts) (hk : IntoCompat k) (site : String) (W B : Nat) (hB : 2 ≤ B)
    (hne : B ≠ 2) (m : Float.Mode) (r : FRepr) :
    fbigToFloatBase k site W B m r = some (.error (.undocumented site)) ↔
      ∃ (v : FRepr) (f1 : Option Float.Rounding), convertBase W B 2 m k.prec r = .ok (v, f1) ∧
        bitLen v.signif.natAbs = k.prec + 1 := by
  have hp1 : 1 ≤ k.prec := by rw [hk.prec]; unfold Ieee.prec; omega
  unfold fbigToFloatBase
  generalize hcb : convertBase W B 2 m k.prec r = cb
  cases cb with
  | lnExp => simp
  | unlimitedPrecision => simp
  | ok rr =>
    obtain ⟨v, f1⟩ := rr
    have hdig := convertBase_digits_le W B 2 hB (by decide) (Ne.symm hne) m k.prec hp1 r (v, f1) hcb
    have hd2 : bitLen v.signif.natAbs ≤ k.prec + 1 := by
      have : FRepr.digits 2 v = bitLen v.signif.natAbs := by
        unfold FRepr.digits digitsI; exact digits_two _
      rw [← this]; exact hdig
    simp only
    unfold intoFloatInternalChecked
    by_cases hwide : bitLen v.signif.natAbs > k.prec
    · simp only [hwide, if_true]
      constructor
      · intro _; exact ⟨v, f1, rfl, by omega⟩
      · intro _; trivial
    · simp only [hwide, if_false]
      obtain ⟨res, hres⟩ := intoFloatInternal_ok k hk v (by rw [← hk.prec]; omega)
      rw [hres]
      obtain ⟨b, f⟩ := res
      simp only
      constructor
      · intro h; simp at h
      · rintro ⟨v', f1', hv', hbl⟩
        simp only [ConvResult.ok.injEq, Prod.mk.injEq] at hv'
        rw [← hv'.1] at hbl
        omega

end Dashu.Model.Conv
