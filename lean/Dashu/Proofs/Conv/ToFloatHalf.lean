import Dashu.Proofs.Conv.ToFloat
/-
  C06 — `Repr::to_float` in the two NEAREST modes: the composition argument with the mode facts as hypotheses, and
  its instance for HalfEven / HalfAway in an even base when the second rounding is not an exact tie.
-/
namespace Dashu.Model.Conv
open Dashu Dashu.Model Dashu.Model.Float Dashu.Props.GenRound

/-- the composition argument of `ratToFloat_contract_directed` with the facts about the mode as hypotheses (they hold for
    the directed modes unconditionally, for the nearest modes in an even base when the second rounding is not an exact
    tie): `Q` is what the composition needs to know about the coarser unit `B^k·B^z` -/
theorem ratToFloat_contract_core (B : Nat) (hB : 2 ≤ B) (m : Float.Mode) (c : Coarse)
    (hc : CoarseSound c) (num : Int) (den p : Nat) (hn : num ≠ 0) (hd : 0 < den) (hp : 1 ≤ p)
    (hov : p + ilogB B (den : Int) < 2 ^ 64) (Q : Int → Prop)
    (hQ : ∀ k z : Nat, 1 ≤ k → Q (((B ^ k : Nat) : Int) * (B : Int) ^ z))
    (Hexact : ∀ q D : Int, 0 < D → ModeSpec m (q * D) D q)
    (Hwithin : ∀ N D n : Int, 0 < D → ModeSpec m N D n → (n - 1) * D < N ∧ N < (n + 1) * D)
    (Hsign : ∀ N D n : Int, 0 < D → ModeSpec m N D n → D ≤ |N| → (0 < N → 0 < n) ∧ (N < 0 → n < 0))
    (Hscale : ∀ s K n E : Int, 0 < E → ModeSpec m s K n → ModeSpec m (s * E) (K * E) n)
    (Hcomp : ∀ N D n1 M n2 : Int, 0 < D → 0 < M → ModeSpec m N D n1 → ModeSpec m n1 M n2 → (0 ≤ N ↔ 0 ≤ n1) → Q M →
        |2 * n1 - 2 * (n2 * M)| ≠ M → ModeSpec m N (D * M) n2)
    (Hic : ∀ D X n : Int, 0 < D → ModeSpec m X D n → n * D ≠ X → ∀ a : Rounding, (a = .AddOne → X < n * D) →
        (a = .SubOne → n * D < X) → IContract m D X (n * D) (some a))
    (Hnotie : ∀ k : Nat, k = (FRepr.new B (toFloatN1 B m num den p) 0).digits B - p →
        2 * |(splitDigits B (FRepr.new B (toFloatN1 B m num den p) 0).signif k).2| ≠ ((B ^ k : Nat) : Int)) :
    ∃ r, ratToFloat B m c num den p = .ok r ∧
      Contract B m p ((num : ℚ) / (den : ℚ)) (r.1.toRat B) r.2 := by
  by_cases hfit : (FRepr.new B (toFloatN1 B m num den p) 0).digits B ≤ p
  · exact ratToFloat_contract_of_fits B hB m c num den p hn hd hp hov hfit
  have hB0 : 0 < B := by omega
  have hp0 : p ≠ 0 := by omega
  obtain ⟨hdec, hlt, hulp⟩ := toFloatQuot_spec B hB num den p hn hd hp hov
  unfold toFloatN1 at hfit Hnotie
  unfold ratToFloat
  simp only [hp0, hn, if_false]
  refine ⟨_, rfl, ?_⟩
  generalize toFloatQuot B num den p = t at *
  have hD : (0 : Int) < (den : Int) := by exact_mod_cast hd
  -- the scaled numerator
  obtain ⟨N, hNdef⟩ : ∃ N : Int, N = num * ((B ^ t.1 : Nat) : Int) := ⟨_, rfl⟩
  rw [← hNdef] at hdec
  have hPpos : (0 : Int) < ((B ^ t.1 : Nat) : Int) := by
    have : 0 < B ^ t.1 := Nat.pow_pos hB0
    exact_mod_cast this
  have hN0 : N ≠ 0 := by rw [hNdef]; exact Int.mul_ne_zero hn (ne_of_gt hPpos)
  have hulpN : ((den : Nat) : Int) * ((B ^ (p - 1) : Nat) : Int) ≤ |N| := by
    rw [hNdef, abs_mul, abs_of_nonneg (le_of_lt hPpos), ← Int.natCast_natAbs num]
    exact_mod_cast hulp
  have hbig : ((den : Nat) : Int) ≤ |N| := by
    have h1 : (1 : Int) ≤ ((B ^ (p - 1) : Nat) : Int) := by
      have : 0 < B ^ (p - 1) := Nat.pow_pos hB0
      exact_mod_cast this
    have : ((den : Nat) : Int) * 1 ≤ ((den : Nat) : Int) * ((B ^ (p - 1) : Nat) : Int) :=
      mul_le_mul_of_nonneg_left h1 (le_of_lt hD)
    omega
  -- the first rounding
  obtain ⟨n1, hn1def⟩ : ∃ n1 : Int, n1 = (toFloatFirst m den t.2.1 t.2.2).1 := ⟨_, rfl⟩
  have h1 : ModeSpec m N (den : Int) n1 := by
    rw [hn1def]; unfold toFloatFirst
    by_cases hr : t.2.2 = 0
    · simp only [hr, if_true]
      have : N = t.2.1 * (den : Int) := by rw [hdec, hr, add_zero]
      rw [this]
      exact Hexact _ _ hD
    · simp only [hr, if_false]
      exact (toFloatFirst_spec m N (den : Int) t.2.1 t.2.2 hD hdec hlt hr).1
  rw [← hn1def] at hfit Hnotie ⊢
  obtain ⟨hsp, hsn⟩ := Hsign N (den : Int) n1 hD h1 hbig
  have hn10 : n1 ≠ 0 := by
    rcases lt_or_gt_of_ne hN0 with h | h
    · have := hsn h; omega
    · have := hsp h; omega
  have hs : 0 ≤ N ↔ 0 ≤ n1 := by
    constructor
    · intro h; have := hsp (by omega); omega
    · intro h; by_contra hc2; have := hsn (by omega); omega
  obtain ⟨hw1, hw2⟩ := Hwithin N (den : Int) n1 hD h1
  -- `Repr::new(n1, 0)`
  obtain ⟨z, hz1, hz2⟩ := new_decomp B n1 0 hn10
  have hnorm := FRepr.new_normalized B hB n1 0
  generalize FRepr.new B n1 0 = v0 at *
  have Hnt := Hnotie (v0.digits B - p) rfl
  have hE : (0 : Int) < (B : Int) ^ z := by
    have : (0 : Int) < (B : Int) := by exact_mod_cast hB0
    exact pow_pos this z
  have hs0 : v0.signif ≠ 0 := by
    intro h; rw [h, zero_mul] at hz1; exact hn10 hz1
  -- the second rounding happens
  have hd2 : v0.digits B > p := by omega
  unfold reprRound
  simp only [hp0, hd2, if_false, if_true, andThenFlag]
  obtain ⟨hsplit, hllt, _, _⟩ := splitDigits_spec B hB v0.signif (v0.digits B - p)
  obtain ⟨_, hdlo, _⟩ := digitsI_spec B hB v0.signif hs0
  have hsm : v0.signif % (B : Int) ≠ 0 := by
    rcases hnorm with h | h
    · exact absurd h hs0
    · exact h
  have hlo0 : (splitDigits B v0.signif (v0.digits B - p)).2 ≠ 0 := by
    intro h0
    rw [h0, add_zero] at hsplit
    have hk : v0.digits B - p = (v0.digits B - p - 1) + 1 := by omega
    apply hsm
    rw [hsplit, hk, Nat.pow_succ]
    push_cast
    rw [← mul_assoc]
    exact Int.mul_emod_left _ _
  have hspec2 := roundFract_spec B (by omega) m c hc (splitDigits B v0.signif (v0.digits B - p)).1
    (splitDigits B v0.signif (v0.digits B - p)).2 (v0.digits B - p) hlo0 hllt
  rw [← hsplit] at hspec2
  obtain ⟨a, hadef⟩ : ∃ a : Rounding, a = roundFract B m c (splitDigits B v0.signif (v0.digits B - p)).1
      (splitDigits B v0.signif (v0.digits B - p)).2 (v0.digits B - p) := ⟨_, rfl⟩
  rw [← hadef] at hspec2 ⊢
  generalize splitDigits B v0.signif (v0.digits B - p) = hl at *
  obtain ⟨k, hkdef⟩ : ∃ k : Nat, k = v0.digits B - p := ⟨_, rfl⟩
  rw [← hkdef] at hspec2 hsplit hllt Hnt ⊢
  have hK : (0 : Int) < ((B ^ k : Nat) : Int) := by
    have : 0 < B ^ k := Nat.pow_pos hB0
    exact_mod_cast this
  have hKE : (0 : Int) < ((B ^ k : Nat) : Int) * (B : Int) ^ z := Int.mul_pos hK hE
  have hE1 : (1 : Int) ≤ (B : Int) ^ z := by omega
  -- compose the two roundings
  have hsc := Hscale v0.signif _ (hl.1 + rInt a) _ hE hspec2
  rw [← hz1] at hsc
  have hl2' := abs_lt.mp hllt
  have hnt1 : |2 * v0.signif - 2 * ((hl.1 + rInt a) * ((B ^ k : Nat) : Int))| ≠ ((B ^ k : Nat) : Int) := by
    intro h
    rw [abs_eq (le_of_lt hK)] at h
    have g5 : (hl.1 + rInt a) * ((B ^ k : Nat) : Int) = hl.1 * ((B ^ k : Nat) : Int) + rInt a * ((B ^ k : Nat) : Int) := by ring
    have g6 : 2 * hl.2 - 2 * (rInt a * ((B ^ k : Nat) : Int)) = ((B ^ k : Nat) : Int) ∨
        2 * hl.2 - 2 * (rInt a * ((B ^ k : Nat) : Int)) = -((B ^ k : Nat) : Int) := by omega
    rcases abs_cases hl.2 with ⟨e1, _⟩ | ⟨e1, _⟩ <;> rw [e1] at Hnt <;>
      cases a <;> simp only [rInt, zero_mul, one_mul, neg_mul] at g6 <;> omega
  have hnt2 : |2 * n1 - 2 * ((hl.1 + rInt a) * (((B ^ k : Nat) : Int) * (B : Int) ^ z))| ≠ ((B ^ k : Nat) : Int) * (B : Int) ^ z := by
    intro h
    apply hnt1
    have e : 2 * n1 - 2 * ((hl.1 + rInt a) * (((B ^ k : Nat) : Int) * (B : Int) ^ z)) =
        (2 * v0.signif - 2 * ((hl.1 + rInt a) * ((B ^ k : Nat) : Int))) * (B : Int) ^ z := by rw [hz1]; ring
    rw [e, abs_mul, abs_of_pos hE] at h
    exact mul_right_cancel₀ (ne_of_gt hE) h
  have hk1 : 1 ≤ k := by rw [hkdef]; omega
  have hcomp := Hcomp N (den : Int) n1 _ (hl.1 + rInt a) hD hKE h1 hsc hs (hQ k z hk1) hnt2
  have hl2 := abs_lt.mp hllt
  have hadd : a = .AddOne → N < (hl.1 + rInt a) * ((den : Int) * (((B ^ k : Nat) : Int) * (B : Int) ^ z)) := by
    intro ha
    apply lift_gt v0.signif _ _ n1 _ N _ hE1 hD hz1 _ hw2
    rw [ha]; simp only [rInt]
    have : (hl.1 + 1) * ((B ^ k : Nat) : Int) = hl.1 * ((B ^ k : Nat) : Int) + ((B ^ k : Nat) : Int) := by ring
    omega
  have hsub : a = .SubOne → (hl.1 + rInt a) * ((den : Int) * (((B ^ k : Nat) : Int) * (B : Int) ^ z)) < N := by
    intro ha
    apply lift_lt v0.signif _ _ n1 _ N _ hE1 hD hz1 _ hw1
    rw [ha]; simp only [rInt]
    have : (hl.1 + -1) * ((B ^ k : Nat) : Int) = hl.1 * ((B ^ k : Nat) : Int) - ((B ^ k : Nat) : Int) := by ring
    omega
  have hne : (hl.1 + rInt a) * ((den : Int) * (((B ^ k : Nat) : Int) * (B : Int) ^ z)) ≠ N := by
    intro heq
    have e1 : (hl.1 + rInt a) * ((den : Int) * (((B ^ k : Nat) : Int) * (B : Int) ^ z)) =
        ((hl.1 + rInt a) * ((B ^ k : Nat) : Int) * (B : Int) ^ z) * (den : Int) := by ring
    rw [e1] at heq
    rw [← heq] at hw1 hw2
    have g1 := lt_of_mul_lt_mul_right hw1 (le_of_lt hD)
    have g2 := lt_of_mul_lt_mul_right hw2 (le_of_lt hD)
    have g3 : (hl.1 + rInt a) * ((B ^ k : Nat) : Int) * (B : Int) ^ z = v0.signif * (B : Int) ^ z := by omega
    have g4 := mul_right_cancel₀ (ne_of_gt hE) g3
    have g5 : (hl.1 + rInt a) * ((B ^ k : Nat) : Int) = hl.1 * ((B ^ k : Nat) : Int) + rInt a * ((B ^ k : Nat) : Int) := by ring
    have g6 : rInt a * ((B ^ k : Nat) : Int) = hl.2 := by omega
    cases a <;> simp only [rInt, zero_mul, one_mul, neg_mul] at g6 <;> omega
  have hic := Hic _ N (hl.1 + rInt a) (Int.mul_pos hD hKE) hcomp hne a hadd hsub
  -- the unit of the result is not coarser than the ulp of the exact value
  have hulp2 : ((den : Int) * (((B ^ k : Nat) : Int) * (B : Int) ^ z)) * ((B ^ (p - 1) : Nat) : Int) ≤ |N| := by
    have hpow : ((B ^ k : Nat) : Int) * ((B ^ (p - 1) : Nat) : Int) = ((B ^ (digitsI B v0.signif - 1) : Nat) : Int) := by
      have : B ^ k * B ^ (p - 1) = B ^ (digitsI B v0.signif - 1) := by
        rw [← Nat.pow_add]; congr 1; unfold FRepr.digits at *; omega
      rw [← this]; push_cast; rfl
    have hstrict : ((B ^ (digitsI B v0.signif - 1) : Nat) : Int) + 1 ≤ |v0.signif| := by
      have hne2 : ((B ^ (digitsI B v0.signif - 1) : Nat) : Int) ≠ |v0.signif| := by
        intro he
        apply hsm
        have hdv : (B : Int) ∣ |v0.signif| := by
          rw [← he]
          have hk2 : digitsI B v0.signif - 1 = (digitsI B v0.signif - 2) + 1 := by unfold FRepr.digits at *; omega
          rw [hk2, Nat.pow_succ]; push_cast
          exact Dvd.intro_left _ rfl
        exact Int.emod_eq_zero_of_dvd ((dvd_abs _ _).mp hdv)
      omega
    have e2 : ((den : Int) * (((B ^ k : Nat) : Int) * (B : Int) ^ z)) * ((B ^ (p - 1) : Nat) : Int) =
        ((B ^ (digitsI B v0.signif - 1) : Nat) : Int) * (B : Int) ^ z * (den : Int) := by
      rw [← hpow]; ring
    rw [e2]
    rcases lt_or_gt_of_ne hN0 with hneg | hpos
    · have hn1neg := hsn hneg
      have hsneg : v0.signif < 0 := by
        by_contra hc2
        have : 0 ≤ v0.signif * (B : Int) ^ z := Int.mul_nonneg (by omega) (le_of_lt hE)
        omega
      rw [abs_of_neg hsneg] at hstrict
      rw [abs_of_neg hneg]
      have a1 : ((B ^ (digitsI B v0.signif - 1) : Nat) : Int) * (B : Int) ^ z ≤ (-v0.signif - 1) * (B : Int) ^ z :=
        mul_le_mul_of_nonneg_right (by omega) (le_of_lt hE)
      have a2 : (-v0.signif - 1) * (B : Int) ^ z = -n1 - (B : Int) ^ z := by rw [hz1]; ring
      have a3 : ((B ^ (digitsI B v0.signif - 1) : Nat) : Int) * (B : Int) ^ z ≤ -n1 - 1 := by omega
      have a4 := mul_le_mul_of_nonneg_right a3 (le_of_lt hD)
      have a5 : (-n1 - 1) * (den : Int) = -((n1 + 1) * (den : Int)) := by ring
      omega
    · have hn1pos := hsp hpos
      have hspos : 0 < v0.signif := by
        by_contra hc2
        have : v0.signif * (B : Int) ^ z ≤ 0 := Int.mul_nonpos_of_nonpos_of_nonneg (by omega) (le_of_lt hE)
        omega
      rw [abs_of_pos hspos] at hstrict
      rw [abs_of_pos hpos]
      have a1 : ((B ^ (digitsI B v0.signif - 1) : Nat) : Int) * (B : Int) ^ z ≤ (v0.signif - 1) * (B : Int) ^ z :=
        mul_le_mul_of_nonneg_right (by omega) (le_of_lt hE)
      have a2 : (v0.signif - 1) * (B : Int) ^ z = n1 - (B : Int) ^ z := by rw [hz1]; ring
      have a3 : ((B ^ (digitsI B v0.signif - 1) : Nat) : Int) * (B : Int) ^ z ≤ n1 - 1 := by omega
      have a4 := mul_le_mul_of_nonneg_right a3 (le_of_lt hD)
      omega
  -- to rationals
  have hDq : ((den : Nat) : ℚ) ≠ 0 := by exact_mod_cast (Nat.pos_iff_ne_zero.mp hd)
  have hBq : (B : ℚ) ≠ 0 := by exact_mod_cast (Nat.pos_iff_ne_zero.mp hB0)
  have hu : (0 : ℚ) < 1 / ((den : ℚ) * ((B ^ t.1 : Nat) : ℚ)) := by
    apply div_pos one_pos
    apply mul_pos
    · exact_mod_cast hd
    · exact_mod_cast hPpos
  have hexp : bpowQ B ((((z + k : Nat) : Int)) + (-(t.1 : Int))) = (B : ℚ) ^ z * (B : ℚ) ^ k * (1 / ((B ^ t.1 : Nat) : ℚ)) := by
    rw [bpowQ_add B hB0, bpowQ_nat, bpowQ_neg_nat B hB0]; push_cast; rw [pow_add]
  have hunit : ((((den : Int) * (((B ^ k : Nat) : Int) * (B : Int) ^ z)) : Int) : ℚ) * (1 / ((den : ℚ) * ((B ^ t.1 : Nat) : ℚ))) =
      bpowQ B ((((z + k : Nat) : Int)) + (-(t.1 : Int))) := by
    rw [hexp]; push_cast; field_simp
  have key := contract_of_icontract' B hB m p hp _ _ _ (Int.mul_pos hD hKE) _ _ hu _ hunit hic ⟨_, rfl⟩ hulp2
  have hv1 : ((N : Int) : ℚ) * (1 / ((den : ℚ) * ((B ^ t.1 : Nat) : ℚ))) = (num : ℚ) / (den : ℚ) := by
    rw [hNdef]; push_cast; field_simp
  have hv2 : ((((hl.1 + rInt a) * ((den : Int) * (((B ^ k : Nat) : Int) * (B : Int) ^ z))) : Int) : ℚ) *
      (1 / ((den : ℚ) * ((B ^ t.1 : Nat) : ℚ))) =
      (fbigShr (FRepr.new B (hl.1 + rInt a) (v0.exp + (k : Int))) (t.1 : Int)).toRat B := by
    rw [fbigShr_value B hB0, FRepr.new_value B hB0, hz2, mul_assoc, ← bpowQ_add B hB0,
      show (0 : Int) + (z : Int) + (k : Int) + -(t.1 : Int) = (((z + k : Nat) : Int)) + (-(t.1 : Int)) by push_cast; ring, hexp]
    push_cast; field_simp
  rw [hv1, hv2] at key
  exact key


/-! ### the nearest modes -/

def Nearest : Float.Mode → Prop
  | .halfEven | .halfAway => True
  | _ => False

theorem nearest_abs (m : Float.Mode) (hm : Nearest m) (N D n : Int) (h : ModeSpec m N D n) :
    |2 * N - 2 * (n * D)| ≤ D := by
  cases m <;> simp only [Nearest] at hm <;> simp only [ModeSpec, IsNearestEven, IsNearestAway] at h <;> exact h.1

theorem nearest_exact (m : Float.Mode) (hm : Nearest m) (q D : Int) (hD : 0 < D) : ModeSpec m (q * D) D q := by
  have e : 2 * (q * D) - 2 * (q * D) = 0 := by ring
  cases m <;> simp only [Nearest] at hm <;> simp only [ModeSpec, IsNearestEven, IsNearestAway] <;> rw [e, abs_zero] <;>
    exact ⟨le_of_lt hD, fun h => by omega⟩

theorem nearest_within (m : Float.Mode) (hm : Nearest m) (N D n : Int) (hD : 0 < D) (h : ModeSpec m N D n) :
    (n - 1) * D < N ∧ N < (n + 1) * D := by
  have ha := abs_le.mp (nearest_abs m hm N D n h)
  have e1 : (n + 1) * D = n * D + D := by ring
  have e2 : (n - 1) * D = n * D - D := by ring
  rw [e1, e2]; constructor <;> omega

theorem nearest_sign (m : Float.Mode) (hm : Nearest m) (N D n : Int) (hD : 0 < D) (h : ModeSpec m N D n)
    (hbig : D ≤ |N|) : (0 < N → 0 < n) ∧ (N < 0 → n < 0) := by
  have ha := abs_le.mp (nearest_abs m hm N D n h)
  constructor
  · intro hN
    rw [abs_of_pos hN] at hbig
    by_contra hc
    have : n * D ≤ 0 := Int.mul_nonpos_of_nonpos_of_nonneg (by omega) (le_of_lt hD)
    omega
  · intro hN
    rw [abs_of_neg hN] at hbig
    by_contra hc
    have : 0 ≤ n * D := Int.mul_nonneg (by omega) (le_of_lt hD)
    omega

theorem nearest_scale (m : Float.Mode) (hm : Nearest m) (s K n E : Int) (hE : 0 < E) (h : ModeSpec m s K n) :
    ModeSpec m (s * E) (K * E) n := by
  have e : 2 * (s * E) - 2 * (n * (K * E)) = (2 * s - 2 * (n * K)) * E := by ring
  have hab : |2 * (s * E) - 2 * (n * (K * E))| = |2 * s - 2 * (n * K)| * E := by rw [e, abs_mul, abs_of_pos hE]
  cases m <;> simp only [Nearest] at hm <;> simp only [ModeSpec, IsNearestEven, IsNearestAway] at h ⊢ <;> rw [hab]
  · exact ⟨mul_le_mul_of_nonneg_right h.1 (le_of_lt hE), fun ht => h.2 (mul_right_cancel₀ (ne_of_gt hE) ht)⟩
  · refine ⟨mul_le_mul_of_nonneg_right h.1 (le_of_lt hE), fun ht => ?_⟩
    have := h.2 (mul_right_cancel₀ (ne_of_gt hE) ht)
    have e2 : n * (K * E) = (n * K) * E := by ring
    rw [e2, abs_mul, abs_mul, abs_of_pos hE]
    exact mul_lt_mul_of_pos_right this hE

/-- two nearest roundings compose when the coarser unit is even and the second rounding is not an exact tie (then the
    composed error is strictly below half a coarse unit: no tie remains to be broken) -/
theorem nearest_compose (m : Float.Mode) (hm : Nearest m) (N D n1 M n2 : Int) (hD : 0 < D) (_hM : 0 < M)
    (h1 : ModeSpec m N D n1) (h2 : ModeSpec m n1 M n2) (hev : M % 2 = 0) (hnt : |2 * n1 - 2 * (n2 * M)| ≠ M) :
    ModeSpec m N (D * M) n2 := by
  have a1 := abs_le.mp (nearest_abs m hm N D n1 h1)
  have a2 := nearest_abs m hm n1 M n2 h2
  obtain ⟨c, hc⟩ : ∃ c : Int, 2 * n1 - 2 * (n2 * M) = 2 * c := ⟨n1 - n2 * M, by ring⟩
  rw [hc] at a2 hnt
  have hb : -(M - 2) ≤ 2 * c ∧ 2 * c ≤ M - 2 := by
    rcases abs_cases (2 * c) with ⟨e, _⟩ | ⟨e, _⟩ <;> rw [e] at a2 hnt <;> omega
  have k1 : D * (2 * c) ≤ D * (M - 2) := mul_le_mul_of_nonneg_left hb.2 (le_of_lt hD)
  have k2 : D * (-(M - 2)) ≤ D * (2 * c) := mul_le_mul_of_nonneg_left hb.1 (le_of_lt hD)
  have e : 2 * N - 2 * (n2 * (D * M)) = (2 * N - 2 * (n1 * D)) + D * (2 * c) := by rw [← hc]; ring
  have e3 : D * (M - 2) = D * M - 2 * D := by ring
  have e4 : D * (-(M - 2)) = -(D * M) + 2 * D := by ring
  have hstrict : |2 * N - 2 * (n2 * (D * M))| < D * M := by
    rw [e, abs_lt]
    constructor <;> omega
  cases m <;> simp only [Nearest] at hm <;> simp only [ModeSpec, IsNearestEven, IsNearestAway] <;>
    exact ⟨le_of_lt hstrict, fun h => absurd h (ne_of_lt hstrict)⟩

theorem icontract_of_nearest (m : Float.Mode) (hm : Nearest m) (D X n : Int) (_hD : 0 < D)
    (h : ModeSpec m X D n) (hne : n * D ≠ X) (a : Rounding) (hadd : a = .AddOne → X < n * D)
    (hsub : a = .SubOne → n * D < X) : IContract m D X (n * D) (some a) := by
  have ha := abs_le.mp (nearest_abs m hm X D n h)
  refine ⟨hne, by simp, ?_, ?_, fun hf => hadd (by simpa using hf), fun hf => hsub (by simpa using hf)⟩
  · cases m <;> simp only [Nearest] at hm <;> simp only [Mode.isHalf, if_true] <;> constructor <;> omega
  · cases m <;> simp only [Nearest] at hm <;> trivial

/-- **`RBig::to_float` in HalfEven / HalfAway, even base: correctly rounded whenever the SECOND rounding is not an
    exact tie** (the digits `convert_int` drops from the first-rounded quotient are not exactly half a unit) -/
theorem ratToFloat_contract_nearest_no_tie (B : Nat) (hB : 2 ≤ B) (hBe : B % 2 = 0) (m : Float.Mode) (hm : Nearest m)
    (c : Coarse) (hc : CoarseSound c) (num : Int) (den p : Nat) (hn : num ≠ 0) (hd : 0 < den) (hp : 1 ≤ p)
    (hov : p + ilogB B (den : Int) < 2 ^ 64)
    (Hnotie : ∀ k : Nat, k = (FRepr.new B (toFloatN1 B m num den p) 0).digits B - p →
        2 * |(splitDigits B (FRepr.new B (toFloatN1 B m num den p) 0).signif k).2| ≠ ((B ^ k : Nat) : Int)) :
    ∃ r, ratToFloat B m c num den p = .ok r ∧
      Contract B m p ((num : ℚ) / (den : ℚ)) (r.1.toRat B) r.2 := by
  refine ratToFloat_contract_core B hB m c hc num den p hn hd hp hov (fun M => M % 2 = 0) ?_
    (fun q D hD => nearest_exact m hm q D hD) (fun N D n hD h => nearest_within m hm N D n hD h)
    (fun N D n hD h hb => nearest_sign m hm N D n hD h hb) (fun s K n E hE h => nearest_scale m hm s K n E hE h)
    (fun N D n1 M n2 hD hM h1 h2 _ hQ hnt => nearest_compose m hm N D n1 M n2 hD hM h1 h2 hQ hnt)
    (fun D X n hD h hne a hadd hsub => icontract_of_nearest m hm D X n hD h hne a hadd hsub) Hnotie
  intro k z hk
  have h2 : (2 : Int) ∣ ((B ^ k : Nat) : Int) := by
    have hb : 2 ∣ B := Nat.dvd_of_mod_eq_zero hBe
    have := dvd_pow hb (by omega : k ≠ 0)
    exact_mod_cast this
  exact Int.emod_eq_zero_of_dvd (Dvd.dvd.mul_right h2 _)

end Dashu.Model.Conv
