import Dashu.Proofs.Conv.RangeExit
/-
  C06 — round 7: the `Some(false)` arm of the range test in EVERY mode (closes the "for the directed-away modes on the
  underflow side it remains a device" remark): the specification of a float `s·B^e` below the range is `±0` when the
  mode does not round this sign's magnitude up, and the least subnormal `±2^qmin` (bits `sign + 1`), flagged away from
  zero, when it does (`Away`; `Up` for positive, `Down` for negative values) — whatever `e`.
-/
namespace Dashu.Model.Conv
open Dashu Dashu.Model Dashu.Model.Float

/-- the specification (single rounding of the exact rational value) of `s·B^e`, ANY base `B ≥ 2`, EVERY mode, with
    `e < 0 ∧ e < (qmin − prec) − bit_len s` (the `Some(false)` arm of the range test) -/
theorem spec_under_any_base_every_mode (F : Ieee) (hF : F.Ok) (B : Nat) (hB : 2 ≤ B) (mode : Mode)
    (s e : Int) (hs : s ≠ 0) (he0 : e < 0) (he : e < F.qmin - F.prec - (bitLen s.natAbs : Int)) :
    ieeeRoundRat F mode (floatAsRat B s e).1 (floatAsRat B s e).2 =
      if mode = .away ∨ (mode = .up ∧ ¬ s < 0) ∨ (mode = .down ∧ s < 0)
      then ((if s < 0 then F.signBit else 0) + 1, Flag.pos.flipIf (decide (s < 0)))
      else ((if s < 0 then F.signBit else 0), Flag.neg.flipIf (decide (s < 0))) := by
  have hFB := F.B_ge hF
  have hqm := F.qmin_eq
  have hem := F.emax_eq
  have hprec : 1 ≤ F.prec := by unfold Ieee.prec; omega
  obtain ⟨n, hn⟩ : ∃ n : Nat, e = -(n : Int) := ⟨(-e).toNat, by omega⟩
  subst hn
  obtain ⟨g, hg⟩ : ∃ g : Nat, F.qmin = -(g : Int) := ⟨(-F.qmin).toNat, by omega⟩
  have hne0 : ¬ (-(n : Int) ≥ 0) := by omega
  unfold floatAsRat
  simp only [hne0, if_false, neg_neg, Int.toNat_natCast]
  unfold ieeeRoundRat
  simp only [hs, if_false]
  have ha : s.natAbs ≠ 0 := by omega
  generalize hL : bitLen s.natAbs = L at he
  have haL : s.natAbs < 2 ^ L := by rw [← hL]; exact bitLen_lt
  have hbn : 2 ^ n ≤ B ^ n := Nat.pow_le_pow_left hB n
  have hblb : n + 1 ≤ bitLen (B ^ n) := by
    by_contra hc
    have h2 : B ^ n < 2 ^ bitLen (B ^ n) := bitLen_lt
    have h3 : 2 ^ bitLen (B ^ n) ≤ 2 ^ n := Nat.pow_le_pow_right (by decide) (by omega)
    omega
  have htop : ratTop s.natAbs (B ^ n) ≤ (L : Int) - n := by
    unfold ratTop
    rw [hL]
    simp only
    split <;> omega
  have hq : max (ratTop s.natAbs (B ^ n) - F.prec) F.qmin = F.qmin := by omega
  unfold ieeeRoundRatMag
  simp only [hq]
  have e1 : (-F.qmin).toNat = g := by omega
  have e2 : F.qmin.toNat = 0 := by omega
  have e3 : (F.qmin - F.qmin).toNat = 0 := by omega
  rw [e1, e2, e3]
  simp only [Nat.pow_zero, Nat.mul_one, Nat.zero_mul, Nat.zero_add]
  have hlt : 2 * (s.natAbs * 2 ^ g) < B ^ n := by
    have h1 : 2 * (s.natAbs * 2 ^ g) < 2 ^ (L + g + 1) := by
      have : s.natAbs * 2 ^ g < 2 ^ L * 2 ^ g := Nat.mul_lt_mul_of_pos_right haL (Nat.two_pow_pos g)
      rw [Nat.pow_succ, Nat.pow_add]; omega
    have h2 : 2 ^ (L + g + 1) ≤ 2 ^ n := Nat.pow_le_pow_right (by decide) (by omega)
    omega
  have hnum0 : s.natAbs * 2 ^ g ≠ 0 := Nat.mul_ne_zero ha (by positivity)
  have hdiv : s.natAbs * 2 ^ g / B ^ n = 0 := Nat.div_eq_of_lt (by omega)
  have hmod : s.natAbs * 2 ^ g % B ^ n = s.natAbs * 2 ^ g := Nat.mod_eq_of_lt (by omega)
  have c1 : ¬ (B ^ n < 2 * (s.natAbs * 2 ^ g)) := by omega
  have c2 : ¬ (2 * (s.natAbs * 2 ^ g) = B ^ n) := by omega
  have c3 : ¬ (B ^ n ≤ 2 * (s.natAbs * 2 ^ g)) := by omega
  -- the finite branch: 0 or 1 unit is below 2^(emax+1-qmin)
  obtain ⟨w, hw⟩ : ∃ w : Nat, (F.emax + 1 - F.qmin).toNat = w + 1 :=
    ⟨(F.emax + 1 - F.qmin).toNat - 1, by omega⟩
  have hpos0 : ¬ (2 ^ (w + 1) ≤ 0) := by
    have : 0 < 2 ^ (w + 1) := Nat.two_pow_pos _
    omega
  have hpos1 : ¬ (2 ^ (w + 1) ≤ 1) := by
    have : 0 < 2 ^ w := Nat.two_pow_pos _
    rw [Nat.pow_succ]; omega
  have hfl0 : flagOf 0 (B ^ n) (s.natAbs * 2 ^ g) = .neg := by
    unfold flagOf
    have : ¬ (0 * B ^ n = s.natAbs * 2 ^ g) := by omega
    have h' : ¬ (s.natAbs * 2 ^ g < 0 * B ^ n) := by omega
    simp only [this, h', if_false]
  have hfl1 : flagOf 1 (B ^ n) (s.natAbs * 2 ^ g) = .pos := by
    unfold flagOf
    have : ¬ (1 * B ^ n = s.natAbs * 2 ^ g) := by omega
    have h' : s.natAbs * 2 ^ g < 1 * B ^ n := by omega
    simp only [this, h', if_false, if_true]
  rw [hw]
  by_cases hup : mode = .away ∨ (mode = .up ∧ ¬ s < 0) ∨ (mode = .down ∧ s < 0)
  · have hrm : roundMagMode mode (decide (s < 0)) (s.natAbs * 2 ^ g) (B ^ n) = (1, true) := by
      unfold roundMagMode
      simp only [hdiv, hmod, hnum0, if_false]
      rcases hup with rfl | ⟨rfl, h⟩ | ⟨rfl, h⟩
      · simp
      · simp [h]
      · simp [h]
    rw [hrm, if_pos hup]
    simp only [hpos1, if_false, hfl1]
    by_cases hsn : s < 0 <;> simp [hsn]
  · have hrm : roundMagMode mode (decide (s < 0)) (s.natAbs * 2 ^ g) (B ^ n) = (0, false) := by
      unfold roundMagMode
      simp only [hdiv, hmod, hnum0, if_false]
      by_cases hsn : s < 0 <;> cases mode <;> simp_all
    rw [hrm, if_neg hup]
    simp only [hpos0, if_false, hfl0, Nat.add_zero]
    by_cases hsn : s < 0 <;> simp [hsn]

/-- **the `Some(false)` arm in every mode** — every base `B ≥ 2`, both formats: the code returns `±0`, `NoOp`; the
    specification is `±0` flagged toward zero unless the mode rounds this sign's magnitude up, where it is the least
    subnormal flagged away from zero; hence the returned BITS are the required ones IFF the mode is not one of those. -/
theorem rangeExit_under_every_mode (k : IntoConsts) (hk : IntoCompat k) (B : Nat) (hB : 2 ≤ B) (mode : Mode) (s e : Int)
    (hs : s ≠ 0) (h : exponentOutOfRange ⟨s, e⟩ k.infExp k.zeroExp = some false) :
    rangeExit k ⟨s, e⟩ = some ((if s < 0 then k.F.signBit else 0), some .NoOp) ∧
      ieeeRoundRat k.F mode (floatAsRat B s e).1 (floatAsRat B s e).2 =
        (if mode = .away ∨ (mode = .up ∧ ¬ s < 0) ∨ (mode = .down ∧ s < 0)
         then ((if s < 0 then k.F.signBit else 0) + 1, Flag.pos.flipIf (decide (s < 0)))
         else ((if s < 0 then k.F.signBit else 0), Flag.neg.flipIf (decide (s < 0)))) ∧
      ((ieeeRoundRat k.F mode (floatAsRat B s e).1 (floatAsRat B s e).2).1 = (if s < 0 then k.F.signBit else 0) ↔
        ¬ (mode = .away ∨ (mode = .up ∧ ¬ s < 0) ∨ (mode = .down ∧ s < 0))) := by
  have he : e < 0 ∧ e < k.zeroExp - (bitLen s.natAbs : Int) := by
    unfold exponentOutOfRange Dashu.Gen.Conv.exponent_out_of_range at h
    simp only [hs, decide_false, Bool.false_eq_true, if_false] at h
    split at h
    · simp at h
    · split at h
      · rename_i _ hcond; simpa using hcond
      · simp at h
  have hspec := spec_under_any_base_every_mode k.F hk.enc.ok B hB mode s e hs he.1 (by have := hk.zero; omega)
  refine ⟨?_, hspec, ?_⟩
  · unfold rangeExit
    rw [h]
  · rw [hspec]
    by_cases hup : mode = .away ∨ (mode = .up ∧ ¬ s < 0) ∨ (mode = .down ∧ s < 0)
    · rw [if_pos hup]
      simp only [hup, not_true_eq_false, iff_false]
      generalize (if s < 0 then k.F.signBit else 0) = z
      omega
    · rw [if_neg hup]
      simp only [hup, not_false_eq_true]

end Dashu.Model.Conv
