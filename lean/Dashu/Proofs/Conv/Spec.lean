import Dashu.Proofs.Conv.Bits
/-
  C06 — the specification `ieeeRoundMag` evaluated in each regime (underflow, subnormal, normal,
  overflow), in terms of natural-number offsets from `qmin`.
-/
namespace Dashu.Model.Conv

/-- well-formed format: at least 2 exponent bits, at least one mantissa bit -/
structure Ieee.Ok (F : Ieee) : Prop where
  hEB : 2 ≤ F.EB
  hMB : 1 ≤ F.MB

theorem Ieee.binary32_ok : Ieee.binary32.Ok := ⟨by decide, by decide⟩
theorem Ieee.binary64_ok : Ieee.binary64.Ok := ⟨by decide, by decide⟩

/-- `B = 2^(EB-1)`: bias + 1 -/
def Ieee.B (F : Ieee) : Nat := 2 ^ (F.EB - 1)

theorem Ieee.B_ge (F : Ieee) (h : F.Ok) : 2 ≤ F.B := by
  unfold Ieee.B
  have : 1 ≤ F.EB - 1 := by have := h.hEB; omega
  calc 2 = 2 ^ 1 := rfl
    _ ≤ 2 ^ (F.EB - 1) := Nat.pow_le_pow_right (by decide) this

theorem Ieee.two_B (F : Ieee) (h : F.Ok) : 2 ^ F.EB = 2 * F.B := by
  unfold Ieee.B
  have : F.EB = (F.EB - 1) + 1 := by have := h.hEB; omega
  conv_lhs => rw [this, pow_succ]
  ring

theorem Ieee.bias_eq (F : Ieee) : F.bias = (F.B : Int) - 1 := by
  unfold Ieee.bias Ieee.B; push_cast; rfl

theorem Ieee.qmin_eq (F : Ieee) : F.qmin = 2 - (F.B : Int) - F.MB := by
  unfold Ieee.qmin Ieee.emin; rw [F.bias_eq]; ring

theorem Ieee.emax_eq (F : Ieee) : F.emax + 1 = (F.B : Int) := by
  unfold Ieee.emax; rw [F.bias_eq]; ring

theorem Ieee.emin_eq (F : Ieee) : F.emin = F.qmin + F.MB := by
  unfold Ieee.qmin; ring

theorem Ieee.range_toNat (F : Ieee) (h : F.Ok) :
    (F.emax + 1 - F.qmin).toNat = 2 * F.B - 2 + F.MB := by
  rw [F.emax_eq, F.qmin_eq]
  have := F.B_ge h
  omega

theorem Ieee.infBits_eq (F : Ieee) (h : F.Ok) : F.infBits = (2 * F.B - 1) * 2 ^ F.MB := by
  unfold Ieee.infBits; rw [F.two_B h]

theorem rneDiv_bounds (num den : Nat) : num / den ≤ rneDiv num den ∧ rneDiv num den ≤ num / den + 1 := by
  unfold rneDiv; simp only; split_ifs <;> omega

theorem pow_lt_pow2 {m n : Nat} (h : m < n) : 2 ^ m < 2 ^ n := Nat.pow_lt_pow_right (by decide) h
theorem pow_le_pow2 {m n : Nat} (h : m ≤ n) : 2 ^ m ≤ 2 ^ n := Nat.pow_le_pow_right (by decide) h

/-- the spec with the quantum exponent at `qmin` and an integral quotient (`e ≥ qmin`) -/
theorem spec_sub_exact (F : Ieee) (h : F.Ok) (a j : Nat) (e : Int)
    (he : e = F.qmin + j) (hL : bitLen a + j ≤ F.prec) :
    ieeeRoundMag F a e = (a * 2 ^ j, .exact) := by
  have hB := F.B_ge h
  have hq : max ((bitLen a : Int) + e - F.prec) F.qmin = F.qmin := by
    apply max_eq_right; rw [he]; omega
  have hqe : F.qmin ≤ e := by omega
  have hd : (e - F.qmin).toNat = j := by omega
  have hn : a * 2 ^ j < 2 ^ F.prec := by
    calc a * 2 ^ j < 2 ^ bitLen a * 2 ^ j := Nat.mul_lt_mul_of_pos_right bitLen_lt (Nat.two_pow_pos j)
      _ = 2 ^ (bitLen a + j) := by rw [pow_add]
      _ ≤ 2 ^ F.prec := pow_le_pow2 hL
  have hlim : 2 ^ F.prec < 2 ^ (2 * F.B - 2 + F.MB) := by
    apply pow_lt_pow2; unfold Ieee.prec; omega
  unfold ieeeRoundMag roundMag
  simp only [hq, hqe, if_true, hd, sub_self, Int.toNat_zero, pow_zero, Nat.mul_one, rneDiv_one,
    F.range_toNat h, Nat.zero_mul, Nat.zero_add]
  have : ¬ (2 ^ (2 * F.B - 2 + F.MB) ≤ a * 2 ^ j) := by omega
  simp [this, flagOf]

/-- the spec with the quantum exponent at `qmin` and `k ≥ 1` discarded bits (`e < qmin`) -/
theorem spec_sub_round (F : Ieee) (h : F.Ok) (a k : Nat) (e : Int)
    (he : e + k = F.qmin) (hk : 1 ≤ k) (hL : bitLen a ≤ F.prec + k) :
    ieeeRoundMag F a e = (rneDiv a (2 ^ k), flagOf (rneDiv a (2 ^ k)) (2 ^ k) a) := by
  have hB := F.B_ge h
  have hq : max ((bitLen a : Int) + e - F.prec) F.qmin = F.qmin := by
    apply max_eq_right; omega
  have hqe : ¬ (F.qmin ≤ e) := by omega
  have hd : (F.qmin - e).toNat = k := by omega
  have hdiv : a / 2 ^ k < 2 ^ F.prec := by
    rw [Nat.div_lt_iff_lt_mul (Nat.two_pow_pos k), ← pow_add]
    exact lt_of_lt_of_le bitLen_lt (pow_le_pow2 hL)
  have hn := (rneDiv_bounds a (2 ^ k)).2
  have hlim : 2 ^ F.prec < 2 ^ (2 * F.B - 2 + F.MB) := by
    apply pow_lt_pow2; unfold Ieee.prec; omega
  unfold ieeeRoundMag roundMag
  simp only [hq, hqe, if_false, hd, sub_self, Int.toNat_zero, pow_zero, Nat.mul_one,
    F.range_toNat h, Nat.zero_mul, Nat.zero_add]
  have : ¬ (2 ^ (2 * F.B - 2 + F.MB) ≤ rneDiv a (2 ^ k)) := by omega
  simp [this]

/-- below half of the least subnormal everything rounds to zero, from below -/
theorem spec_under (F : Ieee) (h : F.Ok) (a : Nat) (e : Int) (ha : a ≠ 0)
    (ht : (bitLen a : Int) + e < F.qmin) :
    ieeeRoundMag F a e = (0, .neg) := by
  obtain ⟨k, hk⟩ : ∃ k : Nat, e + k = F.qmin := ⟨(F.qmin - e).toNat, by omega⟩
  have hk1 : bitLen a + 1 ≤ k := by omega
  rw [spec_sub_round F h a k e hk (by omega) (by omega)]
  have hlt : 2 * a < 2 ^ k := by
    calc 2 * a < 2 * 2 ^ bitLen a := by have := @bitLen_lt a; omega
      _ = 2 ^ (bitLen a + 1) := by rw [pow_succ]; ring
      _ ≤ 2 ^ k := pow_le_pow2 hk1
  have h0 : rneDiv a (2 ^ k) = 0 := by
    unfold rneDiv
    have hd : a / 2 ^ k = 0 := Nat.div_eq_of_lt (by omega)
    have hm : a % 2 ^ k = a := Nat.mod_eq_of_lt (by omega)
    simp [hd, hm, hlt]
  rw [h0]
  have : 0 < a := Nat.pos_of_ne_zero ha
  simp [flagOf]
  omega

/-- normal range, mantissa short enough to be exact -/
theorem spec_norm_exact (F : Ieee) (h : F.Ok) (a j w : Nat) (e : Int)
    (hL : bitLen a + j = F.prec) (ht : (bitLen a : Int) + e = F.qmin + F.prec + w)
    (hw : w + 3 ≤ 2 * F.B) :
    ieeeRoundMag F a e = (w * 2 ^ F.MB + a * 2 ^ j, .exact) := by
  have hq : max ((bitLen a : Int) + e - F.prec) F.qmin = F.qmin + w := by
    omega
  have hqe : F.qmin + w ≤ e := by omega
  have hd : (e - (F.qmin + w)).toNat = j := by omega
  have hw' : (F.qmin + (w : Int) - F.qmin).toNat = w := by omega
  have hn : a * 2 ^ j < 2 ^ F.prec := by
    calc a * 2 ^ j < 2 ^ bitLen a * 2 ^ j := Nat.mul_lt_mul_of_pos_right bitLen_lt (Nat.two_pow_pos j)
      _ = 2 ^ F.prec := by rw [← pow_add, hL]
  have hlim : a * 2 ^ j * 2 ^ w < 2 ^ (2 * F.B - 2 + F.MB) := by
    calc a * 2 ^ j * 2 ^ w < 2 ^ F.prec * 2 ^ w := Nat.mul_lt_mul_of_pos_right hn (Nat.two_pow_pos w)
      _ = 2 ^ (F.prec + w) := by rw [pow_add]
      _ ≤ 2 ^ (2 * F.B - 2 + F.MB) := by apply pow_le_pow2; unfold Ieee.prec; omega
  unfold ieeeRoundMag roundMag
  simp only [hq, hqe, if_true, hd, hw', rneDiv_one, F.range_toNat h]
  have : ¬ (2 ^ (2 * F.B - 2 + F.MB) ≤ a * 2 ^ j * 2 ^ w) := by omega
  simp [this, flagOf]

/-- normal range with `k ≥ 1` discarded bits; when the rounding carries out of the largest
    binade the same formula yields the bit pattern of infinity -/
theorem spec_norm_round (F : Ieee) (h : F.Ok) (a k w : Nat) (e : Int)
    (hL : bitLen a = F.prec + k) (hk : 1 ≤ k) (ht : (bitLen a : Int) + e = F.qmin + F.prec + w)
    (hw : w + 3 ≤ 2 * F.B) :
    ieeeRoundMag F a e = (w * 2 ^ F.MB + rneDiv a (2 ^ k), flagOf (rneDiv a (2 ^ k)) (2 ^ k) a) := by
  have ha : a ≠ 0 := by
    intro h0; subst h0; simp [bitLen] at hL; unfold Ieee.prec at hL; omega
  have hq : max ((bitLen a : Int) + e - F.prec) F.qmin = F.qmin + w := by
    omega
  have hqe : ¬ (F.qmin + w ≤ e) := by omega
  have hd : (F.qmin + w - e).toNat = k := by omega
  have hw' : (F.qmin + (w : Int) - F.qmin).toNat = w := by omega
  have hlt : a < 2 ^ (F.prec + k) := by rw [← hL]; exact bitLen_lt
  have hdiv : a / 2 ^ k < 2 ^ F.prec := by
    rw [Nat.div_lt_iff_lt_mul (Nat.two_pow_pos k), ← pow_add]; exact hlt
  have hn := (rneDiv_bounds a (2 ^ k)).2
  unfold ieeeRoundMag roundMag
  simp only [hq, hqe, if_false, hd, hw', F.range_toNat h]
  generalize hnd : rneDiv a (2 ^ k) = n at *
  by_cases hov : 2 ^ (2 * F.B - 2 + F.MB) ≤ n * 2 ^ w
  · -- only possible for n = 2^prec in the top binade
    simp only [hov, if_true]
    have hnle : n ≤ 2 ^ F.prec := by omega
    have hw2 : w + 3 = 2 * F.B := by
      by_contra hne
      have hw3 : w + 4 ≤ 2 * F.B := by omega
      have : n * 2 ^ w < 2 ^ (2 * F.B - 2 + F.MB) := by
        calc n * 2 ^ w ≤ 2 ^ F.prec * 2 ^ w := Nat.mul_le_mul_right _ hnle
          _ = 2 ^ (F.prec + w) := by rw [pow_add]
          _ < 2 ^ (2 * F.B - 2 + F.MB) := by apply pow_lt_pow2; unfold Ieee.prec; omega
      omega
    have hn2 : n = 2 ^ F.prec := by
      by_contra hne
      have hlt' : n < 2 ^ F.prec := by omega
      have : n * 2 ^ w < 2 ^ (2 * F.B - 2 + F.MB) := by
        calc n * 2 ^ w < 2 ^ F.prec * 2 ^ w := Nat.mul_lt_mul_of_pos_right hlt' (Nat.two_pow_pos w)
          _ = 2 ^ (F.prec + w) := by rw [pow_add]
          _ = 2 ^ (2 * F.B - 2 + F.MB) := by congr 1; unfold Ieee.prec; omega
      omega
    have hwv : w = 2 * F.B - 3 := by omega
    rw [hn2, F.infBits_eq h]
    refine Prod.ext ?_ ?_
    · simp only
      have : F.prec = F.MB + 1 := rfl
      rw [this, pow_succ, hwv]
      have hB := F.B_ge h
      have e1 : 2 * F.B - 1 = (2 * F.B - 3) + 2 := by omega
      rw [e1]; ring
    · simp only
      unfold flagOf
      have : 2 ^ F.prec * 2 ^ k = 2 ^ (F.prec + k) := by rw [pow_add]
      rw [this]
      have h1 : ¬ (2 ^ (F.prec + k) = a) := by omega
      simp [h1, hlt]
  · simp [hov]

/-- at or above `2^(emax+1)`: infinity, from above -/
theorem spec_over (F : Ieee) (h : F.Ok) (a : Nat) (e : Int) (ha : a ≠ 0)
    (ht : F.emax + 1 < (bitLen a : Int) + e) :
    ieeeRoundMag F a e = (F.infBits, .pos) := by
  have hB := F.B_ge h
  have hL1 := bitLen_pos ha
  rw [F.emax_eq] at ht
  have hqm := F.qmin_eq
  -- quantum exponent is t - prec = qmin + w
  obtain ⟨w, hw⟩ : ∃ w : Nat, (bitLen a : Int) + e = F.qmin + F.prec + w :=
    ⟨((bitLen a : Int) + e - F.qmin - F.prec).toNat, by unfold Ieee.prec; omega⟩
  have hwl : 2 * F.B - 2 ≤ w := by unfold Ieee.prec at hw; omega
  have hq : max ((bitLen a : Int) + e - F.prec) F.qmin = F.qmin + w := by
    omega
  have hw' : (F.qmin + (w : Int) - F.qmin).toNat = w := by omega
  unfold ieeeRoundMag roundMag
  simp only [hq, hw', F.range_toNat h]
  -- the rounded significand is at least 2^(prec-1)
  have key : ∀ num den : Nat, 2 ^ (F.prec - 1) ≤ num / den →
      2 ^ (2 * F.B - 2 + F.MB) ≤ rneDiv num den * 2 ^ w := by
    intro num den hge
    have h1 := (rneDiv_bounds num den).1
    calc 2 ^ (2 * F.B - 2 + F.MB) ≤ 2 ^ (F.prec - 1 + w) := by
            apply pow_le_pow2; unfold Ieee.prec; omega
      _ = 2 ^ (F.prec - 1) * 2 ^ w := by rw [pow_add]
      _ ≤ rneDiv num den * 2 ^ w := Nat.mul_le_mul_right _ (le_trans hge h1)
  have hge : 2 ^ (bitLen a - 1) ≤ a := bitLen_le ha
  by_cases hqe : F.qmin + w ≤ e
  · simp only [hqe, if_true]
    obtain ⟨j, hj⟩ : ∃ j : Nat, bitLen a + j = F.prec := ⟨F.prec - bitLen a, by omega⟩
    have hd : (e - (F.qmin + w)).toNat = j := by omega
    rw [hd]
    have : 2 ^ (F.prec - 1) ≤ a * 2 ^ j / 1 := by
      rw [Nat.div_one]
      calc 2 ^ (F.prec - 1) = 2 ^ (bitLen a - 1) * 2 ^ j := by rw [← pow_add]; congr 1; omega
        _ ≤ a * 2 ^ j := Nat.mul_le_mul_right _ hge
    simp [key _ _ this]
  · simp only [hqe, if_false]
    obtain ⟨k, hk⟩ : ∃ k : Nat, bitLen a = F.prec + k := ⟨bitLen a - F.prec, by omega⟩
    have hd : (F.qmin + w - e).toNat = k := by omega
    rw [hd]
    have : 2 ^ (F.prec - 1) ≤ a / 2 ^ k := by
      rw [Nat.le_div_iff_mul_le (Nat.two_pow_pos k), ← pow_add]
      have : F.prec - 1 + k = bitLen a - 1 := by unfold Ieee.prec at *; omega
      rw [this]; exact hge
    simp [key _ _ this]

end Dashu.Model.Conv
