import Dashu.Proofs.Conv.Ratio
import Dashu.Proofs.Float.RoundOps
import Dashu.Model.Conv.Exact
/-
  C06 — exact-or-refused conversions between RBig, FBig, integers and primitive floats.
-/
namespace Dashu.Model.Conv
open Dashu.Model Dashu.Model.Float Dashu.Props.GenRound

/-! ### RBig → integers -/

/-- for a rational in lowest terms: an integer iff the denominator is one -/
theorem coprime_int_iff (num : Int) (den : Nat) (hden : den ≠ 0) (hco : Nat.Coprime num.natAbs den) :
    ((den : Int) ∣ num) ↔ den = 1 := by
  constructor
  · intro h
    have h1 : den ∣ num.natAbs := Int.natCast_dvd.mp h
    have h2 : den ∣ Nat.gcd num.natAbs den := Nat.dvd_gcd h1 (Nat.dvd_refl _)
    rw [hco] at h2
    exact Nat.dvd_one.mp h2
  · intro h; subst h; simp

/-- **`TryFrom<RBig> for IBig`**: Ok exactly when the value is an integer, and then that integer -/
theorem ratTryToIBig_spec (num : Int) (den : Nat) (hden : den ≠ 0) (hco : Nat.Coprime num.natAbs den) :
    ratTryToIBig num den = if (den : Int) ∣ num then .ok (num / den) else .error .lossOfPrecision := by
  unfold ratTryToIBig
  by_cases h : den = 1
  · subst h; simp
  · have : ¬ ((den : Int) ∣ num) := fun hd => h ((coprime_int_iff num den hden hco).mp hd)
    rw [if_neg h, if_neg this]

/-- **`TryFrom<RBig> for UBig`** (current tree): negative ⇒ OutOfBounds, integer ⇒ Ok, else LossOfPrecision -/
theorem ratTryToUBig_spec (num : Int) (den : Nat) (hden : den ≠ 0) (hco : Nat.Coprime num.natAbs den) :
    ratTryToUBig num den =
      if num < 0 then .error .outOfBounds
      else if (den : Int) ∣ num then .ok (num / den).toNat else .error .lossOfPrecision := by
  unfold ratTryToUBig
  by_cases hn : num < 0
  · simp [hn]
  · simp only [hn, if_false]
    by_cases h : den = 1
    · subst h; simp
    · have : ¬ ((den : Int) ∣ num) := fun hd => h ((coprime_int_iff num den hden hco).mp hd)
      rw [if_neg h, if_neg this]

/-- **`TryFrom<RBig> for iN/uN`**: Ok exactly when the value is an integer the type holds -/
theorem ratTryToPrim_spec (lo hi : Int) (num : Int) (den : Nat) (hden : den ≠ 0)
    (hco : Nat.Coprime num.natAbs den) :
    ratTryToPrim lo hi num den =
      if (den : Int) ∣ num then intoRangeSpec lo hi (num / den) else .error .lossOfPrecision := by
  unfold ratTryToPrim
  rw [ratTryToIBig_spec num den hden hco]
  by_cases h : (den : Int) ∣ num
  · simp [h]
  · simp [h]

/-- **`RBig::to_int`**: truncation toward zero, `Exact` iff nothing is left, and the reported fraction
    is exactly what is left (`num = trunc·den + fract_num`) -/
theorem ratToInt_spec (num : Int) (den : Nat) (hden : 0 < den) :
    IsTowardZero num den (ratToInt num den).1 ∧
    ((ratToInt num den).2 = none ↔ (den : Int) ∣ num) ∧
    (∀ fn fd, (ratToInt num den).2 = some (fn, fd) → fd = den ∧ num = (ratToInt num den).1 * den + fn) := by
  have hq := qTrunc_spec num den hden
  have hdecomp := q_trunc_add_fract num den
  unfold qTrunc at hq
  unfold qTrunc qFractNum at hdecomp
  unfold ratToInt
  simp only
  by_cases h0 : Int.tmod num den = 0
  · simp only [h0, if_true]
    refine ⟨hq, ?_, ?_⟩
    · simp only [true_iff]
      exact Int.dvd_of_tmod_eq_zero h0
    · intro fn fd h; cases h
  · simp only [h0, if_false]
    refine ⟨hq, ?_, ?_⟩
    · constructor
      · intro h; cases h
      · intro h; exact absurd (Int.tmod_eq_zero_of_dvd h) h0
    · intro fn fd h
      simp only [Option.some.injEq, Prod.mk.injEq] at h
      obtain ⟨rfl, rfl⟩ := h
      exact ⟨rfl, hdecomp⟩

/-! ### FBig → integers / rationals -/

theorem pow_cast (B k : Nat) : ((B : Int) ^ k) = ((B ^ k : Nat) : Int) := by push_cast; rfl

/-- a normalised float with a negative exponent is not an integer -/
theorem not_int_of_neg_exp (B : Nat) (hB : 2 ≤ B) (r : FRepr) (hn : Normalized B r) (hs : r.signif ≠ 0)
    (he : r.exp < 0) (v : Int) : r.toRat B ≠ (v : ℚ) := by
  intro hv
  have h1 := toRat_neg_exp B hB r he
  rw [hv] at h1
  have h2 : v * pointUnit B r = r.signif := by exact_mod_cast h1
  rcases hn with h | h
  · exact hs h
  · apply h
    obtain ⟨k, hk⟩ : ∃ k : Nat, (-r.exp).toNat = k + 1 := ⟨(-r.exp).toNat - 1, by omega⟩
    unfold pointUnit at h2
    rw [hk, pow_succ] at h2
    rw [← h2]
    push_cast
    rw [← mul_assoc]
    exact Int.mul_emod_left _ _

theorem toRat_nonneg_exp (B : Nat) (r : FRepr) (he : 0 ≤ r.exp) :
    r.toRat B = ((r.signif * (B : Int) ^ r.exp.toNat : Int) : ℚ) := by
  unfold FRepr.toRat bpowQ
  have : r.exp ≥ 0 := he
  simp only [this, if_true]
  push_cast; ring

/-- **`TryFrom<FBig> for IBig`**: for a finite normalised float, `Ok v` iff the value is the integer `v`;
    a refusal means the value is no integer; infinities are out of bounds -/
theorem fbigTryToIBig_spec (B : Nat) (hB : 2 ≤ B) (r : FRepr) (hn : Normalized B r) :
    (FRepr.isInfinite r = true ∧ fbigTryToIBig B r = .error .outOfBounds) ∨
    (FRepr.isInfinite r = false ∧
      ((∃ v : Int, fbigTryToIBig B r = .ok v ∧ r.toRat B = (v : ℚ)) ∨
       (fbigTryToIBig B r = .error .lossOfPrecision ∧ ∀ v : Int, r.toRat B ≠ (v : ℚ)))) := by
  unfold fbigTryToIBig
  by_cases hi : FRepr.isInfinite r = true
  · left; simp [hi]
  · right
    have hi' : FRepr.isInfinite r = false := by simpa using hi
    refine ⟨hi', ?_⟩
    simp only [hi', Bool.false_eq_true, if_false]
    by_cases he : r.exp < 0
    · right
      simp only [he, if_true, true_and]
      have hs : r.signif ≠ 0 := by
        intro h0
        unfold FRepr.isInfinite at hi'
        simp [h0] at hi'
        omega
      exact not_int_of_neg_exp B hB r hn hs he
    · left
      simp only [he, if_false]
      exact ⟨_, rfl, toRat_nonneg_exp B r (by omega)⟩

/-- **`TryFrom<FBig> for UBig`** adds the sign test -/
theorem fbigTryToUBig_spec (B : Nat) (r : FRepr) (v : Nat) (h : fbigTryToUBig B r = .ok v) :
    fbigTryToIBig B r = .ok (v : Int) := by
  unfold fbigTryToUBig at h
  rcases hh : fbigTryToIBig B r with e | w
  · rw [hh] at h; cases h
  · rw [hh] at h
    simp only at h
    by_cases hw : w < 0
    · simp [hw] at h
    · simp only [hw, if_false, Except.ok.injEq] at h
      congr 1; omega

/-- **`TryFrom<FBig> for uN / iN`** with any SOUND size estimate (`big` only when `|x| ≥ 2^bits ≥ hi + 1`,
    `-2^bits ≤ lo`): `Ok v` iff the value is the integer `v` and the type holds it -/
theorem fbigTryToPrim_ok_iff (B : Nat) (hB : 2 ≤ B) (unsigned : Bool) (lo hi : Int) (big : Bool) (r : FRepr)
    (hn : Normalized B r) (hlo : unsigned = true → lo = 0)
    (hbig : big = true → ∀ v : Int, r.toRat B = (v : ℚ) → ¬ (lo ≤ v ∧ v ≤ hi)) (v : Int) :
    fbigTryToPrim B unsigned lo hi big r = .ok v ↔
      (FRepr.isInfinite r = false ∧ r.toRat B = (v : ℚ) ∧ lo ≤ v ∧ v ≤ hi) := by
  unfold fbigTryToPrim
  by_cases hi' : FRepr.isInfinite r = true
  · simp [hi']
  have hinf : FRepr.isInfinite r = false := by simpa using hi'
  simp only [hinf, Bool.or_false, true_and]
  by_cases hneg : (unsigned && decide (r.signif < 0)) = true
  · simp only [hneg, if_true]
    constructor
    · intro h; cases h
    · rintro ⟨hv, hl, _⟩
      exfalso
      simp only [Bool.and_eq_true, decide_eq_true_eq] at hneg
      have hlo0 := hlo hneg.1
      -- a negative significand gives a negative value
      have : r.toRat B < 0 := by
        unfold FRepr.toRat
        have hp := bpowQ_pos B (by omega) r.exp
        have : (r.signif : ℚ) < 0 := by exact_mod_cast hneg.2
        exact mul_neg_of_neg_of_pos this hp
      rw [hv] at this
      have : v < 0 := by exact_mod_cast this
      omega
  · simp only [hneg, Bool.false_eq_true, if_false]
    by_cases hb : big = true
    · simp only [hb, if_true]
      constructor
      · intro h; cases h
      · rintro ⟨hv, hr⟩
        exact absurd hr (hbig hb v hv)
    · simp only [hb, Bool.false_eq_true, if_false]
      by_cases he : r.exp < 0
      · simp only [he, if_true]
        constructor
        · intro h; cases h
        · rintro ⟨hv, _⟩
          exfalso
          have hs : r.signif ≠ 0 := by
            intro h0
            unfold FRepr.isInfinite at hinf
            simp [h0] at hinf
            omega
          exact not_int_of_neg_exp B hB r hn hs he v hv
      · simp only [he, if_false]
        have hval := toRat_nonneg_exp B r (by omega)
        unfold intoRangeSpec
        constructor
        · intro h
          split at h
          · rename_i hr
            simp only [Except.ok.injEq] at h
            subst h
            exact ⟨hval, hr⟩
          · cases h
        · rintro ⟨hv, hr⟩
          have : r.signif * (B : Int) ^ r.exp.toNat = v := by
            rw [hval] at hv; exact_mod_cast hv
          rw [this, if_pos hr]

/-- **`TryFrom<FBig> for RBig`**: exact, infinities refused -/
theorem fbigToRat_exact (B : Nat) (hB : 2 ≤ B) (r : FRepr) (n : Int) (d : Nat)
    (h : fbigToRat B r = .ok (n, d)) : 0 < d ∧ r.toRat B = (n : ℚ) / (d : ℚ) := by
  unfold fbigToRat at h
  by_cases hi : FRepr.isInfinite r = true
  · simp [hi] at h
  · simp only [hi, Bool.false_eq_true, if_false] at h
    by_cases he : r.exp ≥ 0
    · simp only [he, if_true, Except.ok.injEq, Prod.mk.injEq] at h
      obtain ⟨rfl, rfl⟩ := h
      refine ⟨by decide, ?_⟩
      rw [toRat_nonneg_exp B r he]; simp
    · simp only [he, if_false, Except.ok.injEq, Prod.mk.injEq] at h
      obtain ⟨rfl, rfl⟩ := h
      have hpos : 0 < B ^ (-r.exp).toNat := Nat.pow_pos (by omega)
      refine ⟨hpos, ?_⟩
      have h1 := toRat_neg_exp B hB r (by omega)
      unfold pointUnit at h1
      have hne : ((B ^ (-r.exp).toNat : Nat) : ℚ) ≠ 0 := by exact_mod_cast (Nat.ne_of_gt hpos)
      rw [eq_div_iff hne]
      exact_mod_cast h1

end Dashu.Model.Conv

namespace Dashu.Model.Conv
open Dashu.Model Dashu.Model.Float Dashu.Props.GenRound

/-! ### primitive floats → RBig / FBig -/

/-- **`RBig::try_from(f32/f64)`** is exact: the stored parts denote `man·2^exp`; NaN/±∞ are refused -/
theorem ratFromFloat_exact (d : DecConsts) (bits : Nat) (n : Int) (dn : Nat)
    (h : ratFromFloat d bits = .ok (n, dn)) :
    ∃ man exp, decode d bits = .ok (man, exp) ∧ 0 < dn ∧ (n : ℚ) / (dn : ℚ) = (man : ℚ) * bpowQ 2 exp := by
  unfold ratFromFloat at h
  rcases hdec : decode d bits with c | ⟨man, exp⟩
  · rw [hdec] at h; cases h
  · rw [hdec] at h
    simp only at h
    refine ⟨man, exp, rfl, ?_⟩
    by_cases h0 : man = 0
    · simp only [h0, if_true, Except.ok.injEq, Prod.mk.injEq] at h
      obtain ⟨rfl, rfl⟩ := h
      simp [h0]
    · simp only [h0, if_false] at h
      by_cases he : exp ≥ 0
      · simp only [he, if_true, Except.ok.injEq, Prod.mk.injEq] at h
        obtain ⟨rfl, rfl⟩ := h
        refine ⟨by decide, ?_⟩
        unfold bpowQ; simp [he]
      · simp only [he, if_false, Except.ok.injEq, Prod.mk.injEq] at h
        obtain ⟨rfl, rfl⟩ := h
        have hpos : 0 < 2 ^ (-exp).toNat := Nat.two_pow_pos _
        refine ⟨hpos, ?_⟩
        unfold bpowQ; simp [he]; ring

theorem ratFromFloat_refuses (d : DecConsts) (bits : Nat) (c : FpCategory) (h : decode d bits = .error c) :
    ratFromFloat d bits = .error .outOfBounds := by
  unfold ratFromFloat; rw [h]

/-- **`FBig::try_from(f32/f64)`**: the value is `man·2^exp` exactly, the representation is normalised and
    the precision is the bit length of the decoded mantissa -/
theorem fbigFromFloat_exact (d : DecConsts) (bits : Nat) (r : FRepr) (p : Nat)
    (h : fbigFromFloat d bits = .ok (.finite r p)) :
    ∃ man exp, decode d bits = .ok (man, exp) ∧ r.toRat 2 = (man : ℚ) * bpowQ 2 exp ∧
      Normalized 2 r ∧ p = bitLen man.natAbs := by
  unfold fbigFromFloat at h
  rcases hdec : decode d bits with c | ⟨man, exp⟩
  · rw [hdec] at h; cases c <;> simp at h
  · rw [hdec] at h
    simp only [Except.ok.injEq, FBigFromFloat.finite.injEq] at h
    obtain ⟨rfl, rfl⟩ := h
    exact ⟨man, exp, rfl, FRepr.new_value 2 (by decide) man exp, FRepr.new_normalized 2 (by decide) man exp, rfl⟩

theorem fbigFromFloat_nan (d : DecConsts) (bits : Nat) (h : decode d bits = .error .nan) :
    fbigFromFloat d bits = .error .outOfBounds := by
  unfold fbigFromFloat; rw [h]

/-! ### the specification is invariant under moving powers of two between mantissa and exponent -/

theorem bitLen_mul_pow (a z : Nat) (ha : a ≠ 0) : bitLen (a * 2 ^ z) = bitLen a + z := by
  have h1 := bitLen_le ha
  have h2 := @bitLen_lt a
  have hL := bitLen_pos ha
  have := bitLen_eq_of (a := a * 2 ^ z) (n := bitLen a - 1 + z)
    (by rw [pow_add]; exact Nat.mul_le_mul_right _ h1)
    (by rw [show bitLen a - 1 + z + 1 = bitLen a + z by omega, pow_add]
        exact Nat.mul_lt_mul_of_pos_right h2 (Nat.two_pow_pos z))
  omega

theorem ieeeRoundMag_scale (F : Ieee) (a z : Nat) (e : Int) (ha : a ≠ 0) :
    ieeeRoundMag F (a * 2 ^ z) e = ieeeRoundMag F a (e + z) := by
  unfold ieeeRoundMag roundMag
  simp only [bitLen_mul_pow a z ha]
  have ht : ((bitLen a + z : Nat) : Int) + e = (bitLen a : Int) + (e + z) := by push_cast; ring
  rw [ht]
  generalize max ((bitLen a : Int) + (e + z) - F.prec) F.qmin = q
  by_cases h1 : q ≤ e
  · have h2 : q ≤ e + z := by omega
    simp only [h1, h2, if_true]
    have : a * 2 ^ z * 2 ^ (e - q).toNat = a * 2 ^ (e + z - q).toNat := by
      rw [Nat.mul_assoc, ← pow_add]; congr 2; omega
    rw [this]
  · simp only [h1, if_false]
    by_cases h2 : q ≤ e + z
    · simp only [h2, if_true]
      have hp := round_pow_pair a 1 z (q - e).toNat (e + z - q).toNat 0 (by omega)
      simp only [Nat.one_mul, pow_zero, Nat.mul_one] at hp
      rw [hp.1, hp.2]
    · simp only [h2, if_false]
      have hp := round_pow_pair a 1 z (q - e).toNat 0 (q - (e + z)).toNat (by omega)
      simp only [Nat.one_mul, pow_zero, Nat.mul_one] at hp
      rw [hp.1, hp.2]

theorem ieeeRound_scale (F : Ieee) (n : Int) (z : Nat) (e : Int) :
    ieeeRound F (n * 2 ^ z) e = ieeeRound F n (e + z) := by
  unfold ieeeRound
  by_cases h0 : n = 0
  · simp [h0]
  · have hp : (2 : Int) ^ z ≠ 0 := by positivity
    have h1 : n * 2 ^ z ≠ 0 := mul_ne_zero h0 hp
    simp only [h0, h1, if_false]
    have habs : (n * 2 ^ z).natAbs = n.natAbs * 2 ^ z := by
      rw [Int.natAbs_mul, Int.natAbs_pow]; rfl
    have hneg : (n * 2 ^ z < 0) ↔ n < 0 := by
      have hpp : (0 : Int) < 2 ^ z := by positivity
      constructor
      · intro h; by_contra hc; have : 0 ≤ n * 2 ^ z := mul_nonneg (by omega) (le_of_lt hpp); omega
      · intro h; exact mul_neg_of_neg_of_pos h hpp
    rw [habs, ieeeRoundMag_scale F n.natAbs z e (by omega)]
    simp only [hneg]

theorem trailingZeros_dvd : ∀ fuel n : Nat, 2 ^ trailingZeros fuel n ∣ n := by
  intro fuel
  induction fuel with
  | zero => intro n; simp [trailingZeros]
  | succ k ih =>
    intro n
    unfold trailingZeros
    by_cases h : n % 2 = 0 ∧ n ≠ 0
    · simp only [h, and_self, ne_eq, not_false_eq_true, if_true]
      rw [Nat.add_comm, pow_succ]
      have h2 := Nat.mul_dvd_mul (ih (n / 2)) (Nat.dvd_refl 2)
      have hn : n / 2 * 2 = n := by omega
      rwa [hn] at h2
    · simp [h]

/-! ### `TryFrom<RBig> for f32/f64` -/

/-- **soundness**: whenever the conversion succeeds, the float is exactly the rational (the IEEE
    rounding of the rational is that bit pattern with error flag `Exact`) -/
theorem ratTryToFloat_sound (c : EncConsts) (F : Ieee) (hc : Compatible c F) (lb ub : Int) (num : Int) (den : Nat)
    (bits : Nat) (h : ratTryToFloat c lb ub num den = .ok (.ok bits)) :
    ieeeRoundRat F .halfEven num den = (bits, .exact) := by
  unfold ratTryToFloat at h
  by_cases h0 : num = 0
  · simp only [h0, if_true, Except.ok.injEq] at h
    subst h0; cases h
    simp [ieeeRoundRat]
  simp only [h0, if_false] at h
  by_cases hpow : den ≠ 0 ∧ 2 ^ Nat.log2 den = den
  · simp only [hpow, and_self, ne_eq, not_false_eq_true, if_true] at h
    split at h
    · cases h
    split at h
    · cases h
    generalize hj : Nat.log2 den = j at h hpow
    have hden : den = 2 ^ j := hpow.2.symm
    by_cases hj0 : j = 0
    · -- an integer: trailing zeros moved into the exponent
      simp only [hj0, if_true] at h
      generalize hz : trailingZeros (bitLen num.natAbs) num.natAbs = z at h
      split at h
      · cases h
      rename_i hfit
      have hfit' : (Int.tdiv num (2 ^ z)).natAbs ≤ 2 ^ (c.N - 1) := by
        have := not_not.mp hfit
        have hc2 : ((2 ^ (c.N - 1) : Nat) : Int) = (2 : Int) ^ (c.N - 1) := by push_cast; rfl
        have h3 : (((Int.tdiv num (2 ^ z)).natAbs : Nat) : Int) ≤ ((2 ^ (c.N - 1) : Nat) : Int) := by
          rw [hc2]; omega
        exact_mod_cast h3
      rw [encodeFixed_correct c F hc _ _ hfit'] at h
      -- num = n·2^z
      have hdvd : (2 ^ z : Nat) ∣ num.natAbs := by rw [← hz]; exact trailingZeros_dvd _ _
      have hdvdI : ((2 : Int) ^ z) ∣ num := by
        have : ((2 ^ z : Nat) : Int) ∣ num := Int.natCast_dvd.mpr hdvd
        simpa using this
      have hnum : Int.tdiv num (2 ^ z) * 2 ^ z = num := Int.tdiv_mul_cancel hdvdI
      have hspec : ieeeRoundRat F .halfEven num den = ieeeRound F (Int.tdiv num (2 ^ z)) (z : Int) := by
        rw [hden, hj0, ieeeRoundRat_dyadic F num 0]
        conv_lhs => rw [← hnum]
        rw [ieeeRound_scale]; simp
      rw [hspec]
      generalize ieeeRound F (Int.tdiv num (2 ^ z)) (z : Int) = res at h
      obtain ⟨b, fl⟩ := res
      cases fl <;> simp at h
      · rw [h]
      · split at h <;> cases h
      · split at h <;> cases h
    · simp only [hj0, if_false] at h
      split at h
      · cases h
      rename_i hfit
      have hfit' : num.natAbs ≤ 2 ^ (c.N - 1) := by
        have := not_not.mp hfit
        have hc2 : ((2 ^ (c.N - 1) : Nat) : Int) = (2 : Int) ^ (c.N - 1) := by push_cast; rfl
        have h3 : ((num.natAbs : Nat) : Int) ≤ ((2 ^ (c.N - 1) : Nat) : Int) := by
          rw [hc2]; omega
        exact_mod_cast h3
      rw [encodeFixed_correct c F hc _ _ hfit'] at h
      have hspec : ieeeRoundRat F .halfEven num den = ieeeRound F num (-(j : Int)) := by
        rw [hden]; exact ieeeRoundRat_dyadic F num j
      rw [hspec]
      generalize ieeeRound F num (-(j : Int)) = res at h
      obtain ⟨b, fl⟩ := res
      cases fl <;> simp at h
      · rw [h]
      · split at h <;> cases h
      · split at h <;> cases h
  · simp only [hpow, if_false] at h
    cases h

end Dashu.Model.Conv
